(* C10  Layout and alternative spellings never change a program's meaning; cut-off programs are
   indentation errors.  PINNED statements only (proofs: TokAccessProofs.v, PrecProofs.v).

   What is proved: the token-access layer of parser.rs (TokAccess.v) is transparent to trivia, for
   token lists of any length; the block peek at end of input says "needs more"; operator-precedence
   climbing with the table regenerated from parser.rs is the inverse of the conventional printer.
   What is NOT proved (not modelled): the ~60 parse functions that sit above that layer; for the
   grammar-level freedoms checks/c10.py can only exhibit a failing layout. *)
From Coq Require Import NArith List Bool.
From KV.syn Require Import SynBase GenPrecedence GenTokAccess TokAccess TokAccessSpec TokAccessProofs
  PrecModel PrecSpec PrecProofs.
Import ListNotations.
Open Scope N_scope.

(* ---- the generated tables are the ones the guide describes *)

Theorem gen_indent_rule_eq_spec :
  forall (ei : indentation) (p s : N), gen_indent_rule ei p s = spec_indent_rule ei p s.
Proof. exact TokAccessProofs.gen_indent_rule_eq_spec. Qed.
Print Assumptions gen_indent_rule_eq_spec.

Theorem gen_is_whitespace_spec :
  forall k : kind,
    gen_is_whitespace k = true <-> k = KWhitespace \/ k = KCommentSingle \/ k = KCommentMulti.
Proof. exact TokAccessProofs.gen_is_whitespace_spec. Qed.
Print Assumptions gen_is_whitespace_spec.

Theorem gen_prec_eq_spec : forall o : binop, gen_prec o = spec_prec o.
Proof. exact PrecProofs.gen_prec_eq_spec. Qed.
Print Assumptions gen_prec_eq_spec.

(* ---- "differ only by inserted trivia" = equal normal forms *)

Theorem norm_insert_trivia :
  forall (w : tok) (l2 l1 : list tok) (b : bool),
    droppable w = true -> norm_from b (l1 ++ w :: l2) = norm_from b (l1 ++ l2).
Proof. exact TokAccessProofs.norm_insert_trivia. Qed.
Print Assumptions norm_insert_trivia.

Theorem norm_insert_blank_line :
  forall (nl1 : tok) (ws : list tok) (nl2 : tok) (l2 l1 : list tok) (b : bool),
    Forall (fun t : tok => droppable t = true) ws ->
    tk nl1 = KNewLine -> tk nl2 = KNewLine ->
    norm_from b (l1 ++ nl1 :: ws ++ nl2 :: l2) = norm_from b (l1 ++ nl1 :: l2).
Proof. exact TokAccessProofs.norm_insert_blank_line. Qed.
Print Assumptions norm_insert_blank_line.

(* ---- trivia transparency, function by function *)

Theorem peek_parametric :
  forall (ctx : ectx) (s1 s2 : pstate),
    sview s1 = sview s2 ->
    option_map pobs (peek_token_with_context ctx s1) = option_map pobs (peek_token_with_context ctx s2).
Proof. exact TokAccessProofs.peek_parametric. Qed.
Print Assumptions peek_parametric.

Theorem ctwc_parametric :
  forall (ctx : ectx) (s1 s2 : pstate),
    wf s1 -> wf s2 -> sview s1 = sview s2 ->
    fst (consume_token_with_context ctx s1) = fst (consume_token_with_context ctx s2) /\
    sview (snd (consume_token_with_context ctx s1)) = sview (snd (consume_token_with_context ctx s2)) /\
    wf (snd (consume_token_with_context ctx s1)) /\ wf (snd (consume_token_with_context ctx s2)).
Proof. exact TokAccessProofs.ctwc_parametric. Qed.
Print Assumptions ctwc_parametric.

Theorem cutwc_parametric :
  forall (ctx : ectx) (s1 s2 : pstate),
    wf s1 -> wf s2 -> sview s1 = sview s2 ->
    fst (consume_until_token_with_context ctx s1) = fst (consume_until_token_with_context ctx s2) /\
    sview (snd (consume_until_token_with_context ctx s1)) =
    sview (snd (consume_until_token_with_context ctx s2)) /\
    wf (snd (consume_until_token_with_context ctx s1)) /\
    wf (snd (consume_until_token_with_context ctx s2)).
Proof. exact TokAccessProofs.cutwc_parametric. Qed.
Print Assumptions cutwc_parametric.

Theorem same_line_peek_parametric :
  forall s1 s2 : pstate,
    sview s1 = sview s2 -> peek_next_token_on_same_line s1 = peek_next_token_on_same_line s2.
Proof. exact TokAccessProofs.same_line_peek_parametric. Qed.
Print Assumptions same_line_peek_parametric.

Theorem cunt_parametric :
  forall s1 s2 : pstate,
    wf s1 -> wf s2 -> sview s1 = sview s2 ->
    sview (consume_until_next_token_on_same_line s1) = sview (consume_until_next_token_on_same_line s2) /\
    wf (consume_until_next_token_on_same_line s1) /\ wf (consume_until_next_token_on_same_line s2).
Proof. exact TokAccessProofs.cunt_parametric. Qed.
Print Assumptions cunt_parametric.

(* consume_next_token_on_same_line: the post-states stay equivalent unless the consumed token is a
   NewLine (TokAccessProofs.cnt_newline_breaks_view is the counterexample; the parser only calls it
   after peeking a `,` or `;`) *)
Theorem cnt_parametric :
  forall s1 s2 : pstate,
    wf s1 -> wf s2 -> sview s1 = sview s2 ->
    fst (consume_next_token_on_same_line s1) = fst (consume_next_token_on_same_line s2) /\
    (fst (consume_next_token_on_same_line s1) <> Some KNewLine ->
     sview (snd (consume_next_token_on_same_line s1)) = sview (snd (consume_next_token_on_same_line s2)) /\
     wf (snd (consume_next_token_on_same_line s1)) /\ wf (snd (consume_next_token_on_same_line s2))).
Proof. exact TokAccessProofs.cnt_parametric. Qed.
Print Assumptions cnt_parametric.

(* all of them at once; the last conjunct is the raw peek, which is layout-SENSITIVE by design
   (`f(x)` vs `f (x)`) and agrees only when neither stream starts with droppable trivia *)
Theorem access_parametric :
  forall s1 s2 : pstate,
    wf s1 -> wf s2 -> sview s1 = sview s2 ->
    (forall ctx : ectx,
      option_map pobs (peek_token_with_context ctx s1) = option_map pobs (peek_token_with_context ctx s2)) /\
    (tk (cur s1) <> KNewLine -> tk (cur s2) <> KNewLine ->
      option_map pobs (block_peek s1) = option_map pobs (block_peek s2)) /\
    (forall ctx : ectx,
      fst (consume_token_with_context ctx s1) = fst (consume_token_with_context ctx s2) /\
      sview (snd (consume_token_with_context ctx s1)) = sview (snd (consume_token_with_context ctx s2)) /\
      wf (snd (consume_token_with_context ctx s1)) /\ wf (snd (consume_token_with_context ctx s2))) /\
    (forall ctx : ectx,
      fst (consume_until_token_with_context ctx s1) = fst (consume_until_token_with_context ctx s2) /\
      sview (snd (consume_until_token_with_context ctx s1)) =
      sview (snd (consume_until_token_with_context ctx s2)) /\
      wf (snd (consume_until_token_with_context ctx s1)) /\
      wf (snd (consume_until_token_with_context ctx s2))) /\
    peek_next_token_on_same_line s1 = peek_next_token_on_same_line s2 /\
    (sview (consume_until_next_token_on_same_line s1) = sview (consume_until_next_token_on_same_line s2) /\
     wf (consume_until_next_token_on_same_line s1) /\ wf (consume_until_next_token_on_same_line s2)) /\
    (fst (consume_next_token_on_same_line s1) = fst (consume_next_token_on_same_line s2) /\
     (fst (consume_next_token_on_same_line s1) <> Some KNewLine ->
      sview (snd (consume_next_token_on_same_line s1)) = sview (snd (consume_next_token_on_same_line s2)) /\
      wf (snd (consume_next_token_on_same_line s1)) /\ wf (snd (consume_next_token_on_same_line s2)))) /\
    (head_kept s1 -> head_kept s2 -> peek_token s1 = peek_token s2).
Proof. exact TokAccessProofs.access_parametric. Qed.
Print Assumptions access_parametric.

(* hence: any deterministic consumer that looks at tokens only through these functions (a decision
   tree `prog R` over their observable answers) computes the same result on equivalent streams *)
Theorem consumer_parametric :
  forall (R : Type) (p : prog R) (s1 s2 : pstate) (r1 r2 : R),
    wf s1 -> wf s2 -> sview s1 = sview s2 -> run R p s1 = Some r1 -> run R p s2 = Some r2 -> r1 = r2.
Proof. exact TokAccessProofs.consumer_parametric. Qed.
Print Assumptions consumer_parametric.

(* ---- cut-off programs: nothing but trivia after the header => the block peek (and every context
   peek) answers None; the callers turn that into ExpectedIndentation::* *)
Theorem needs_more_is_indentation :
  forall (h : tok) (l : list tok),
    Forall (fun t : tok => wsnl (tk t) = true) l ->
    block_peek {| cur := h; rest := l |} = None /\
    (forall ctx : ectx, peek_token_with_context ctx {| cur := h; rest := l |} = None).
Proof. exact TokAccessProofs.needs_more_is_indentation. Qed.
Print Assumptions needs_more_is_indentation.

(* ---- precedence climbing (also cited by C01's "conventional precedence and associativity") *)

Theorem prec_roundtrip : forall t : tree, climb spec_prec (flatten t) = Some t.
Proof. exact PrecProofs.prec_roundtrip. Qed.
Print Assumptions prec_roundtrip.

Theorem prec_roundtrip_gen : forall t : tree, climb gen_prec (flatten t) = Some t.
Proof. exact PrecProofs.prec_roundtrip_gen. Qed.
Print Assumptions prec_roundtrip_gen.

Theorem climb_total :
  forall (prec : binop -> N * N) (ts : list ptok),
    climb_res prec ts <> PFuel /\
    (forall fuel : nat,
      (climb_fuel ts <= fuel)%nat -> parse_expression_start prec fuel 0 ts = climb_res prec ts).
Proof. exact PrecProofs.climb_deterministic_total. Qed.
Print Assumptions climb_total.

Theorem mul_binds_tighter_than_add :
  forall a b c : tree,
    climb gen_prec (par a ++ [POp OpAdd] ++ par b ++ [POp OpMultiply] ++ par c) =
    Some (Bin OpAdd a (Bin OpMultiply b c)).
Proof. exact PrecProofs.mul_binds_tighter_than_add. Qed.
Print Assumptions mul_binds_tighter_than_add.

Theorem sub_left_assoc :
  forall a b c : tree,
    climb gen_prec (par a ++ [POp OpSubtract] ++ par b ++ [POp OpSubtract] ++ par c) =
    Some (Bin OpSubtract (Bin OpSubtract a b) c).
Proof. exact PrecProofs.sub_left_assoc. Qed.
Print Assumptions sub_left_assoc.

Theorem and_over_or :
  forall a b c : tree,
    climb gen_prec (par a ++ [POp OpOr] ++ par b ++ [POp OpAnd] ++ par c) =
    Some (Bin OpOr a (Bin OpAnd b c)).
Proof. exact PrecProofs.and_over_or. Qed.
Print Assumptions and_over_or.

Theorem comparison_below_arith :
  forall a b c d : tree,
    climb gen_prec (par a ++ [POp OpAdd] ++ par b ++ [POp OpLess] ++ par c ++ [POp OpAdd] ++ par d) =
    Some (Bin OpLess (Bin OpAdd a b) (Bin OpAdd c d)).
Proof. exact PrecProofs.comparison_below_arith. Qed.
Print Assumptions comparison_below_arith.

Theorem pipe_lowest :
  forall (o : binop) (a b c : tree),
    o <> OpPipe ->
    climb gen_prec (par a ++ [POp OpPipe] ++ par b ++ [POp o] ++ par c) = Some (Bin OpPipe a (Bin o b c)) /\
    climb gen_prec (par a ++ [POp o] ++ par b ++ [POp OpPipe] ++ par c) = Some (Bin OpPipe (Bin o a b) c).
Proof. exact PrecProofs.pipe_lowest. Qed.
Print Assumptions pipe_lowest.

(* ---- non-vacuity *)

(* `x =\n  1`  vs  `x =   # c\n\n      # c2\n  1`: different streams, same view, both well-formed *)
Example nv_streams_equivalent :
  let x := mktok (KTok 11) 0 0 0 in
  let s1 := mkst x [mktok KWhitespace 0 0 0; mktok (KTok 30) 0 0 0; mktok KNewLine 0 1 0;
                    mktok KWhitespace 1 1 2; mktok (KTok 12) 1 1 2] in
  let s2 := mkst x [mktok KWhitespace 0 0 0; mktok (KTok 30) 0 0 0; mktok KWhitespace 0 0 0;
                    mktok KCommentSingle 0 0 0; mktok KNewLine 0 1 0; mktok KNewLine 1 2 0;
                    mktok KWhitespace 2 2 6; mktok KCommentSingle 2 2 6; mktok KNewLine 2 3 6;
                    mktok KWhitespace 3 3 2; mktok (KTok 12) 3 3 2] in
  sview s1 = sview s2 /\ rest s1 <> rest s2.
Proof. split; [vm_compute; reflexivity | discriminate]. Qed.

(* dedenting the value is NOT trivia: the views differ *)
Example nv_dedent_not_equivalent :
  let x := mktok (KTok 11) 0 0 0 in
  sview (mkst x [mktok KNewLine 0 1 0; mktok KWhitespace 1 1 2; mktok (KTok 12) 1 1 2])
  <> sview (mkst x [mktok KNewLine 0 1 0; mktok (KTok 12) 1 1 0]).
Proof. vm_compute; discriminate. Qed.

(* after `if x` + end of input the block peek says None; with an indented body it does not *)
Example nv_needs_more :
  block_peek (mkst (mktok (KTok 11) 0 0 0) [mktok KNewLine 0 1 0]) = None
  /\ block_peek (mkst (mktok (KTok 11) 0 0 0) [mktok KNewLine 0 1 0; mktok KWhitespace 1 1 2; mktok (KTok 12) 1 1 2])
     <> None.
Proof. split; vm_compute; [reflexivity | discriminate]. Qed.

(* a + b * c - d  parses as  (a + (b * c)) - d  with the generated table *)
Example nv_climb :
  climb gen_prec [PAtom 0; POp OpAdd; PAtom 1; POp OpMultiply; PAtom 2; POp OpSubtract; PAtom 3]
  = Some (Bin OpSubtract (Bin OpAdd (Leaf 0) (Bin OpMultiply (Leaf 1) (Leaf 2))) (Leaf 3)).
Proof. vm_compute; reflexivity. Qed.
