(* TokAccessProofs: trivia transparency of the token-access layer (TokAccess.v) --
   all proofs for TokAccessSpec.v. *)
From Coq Require Import NArith List Bool Lia.
From KV.syn Require Import SynBase GenTokAccess TokAccess TokAccessSpec.
Import ListNotations.
Open Scope N_scope.

(* ------------------------------------------------------------------ *)
(** * The generated tables meet their hand-written specs *)

Theorem gen_indent_rule_eq_spec : forall ei p s, gen_indent_rule ei p s = spec_indent_rule ei p s.
Proof. intros [ | e | | e | e ] p s; reflexivity. Qed.

Theorem spec_indent_rule_iff : forall ei p s, spec_indent_rule ei p s = true <-> spec_indent_ruleP ei p s.
Proof.
  intros [ | e | | e | e ] p s; simpl.
  - tauto.
  - apply N.eqb_eq.
  - rewrite N.ltb_lt. lia.
  - rewrite N.ltb_lt. lia.
  - rewrite N.leb_le. lia.
Qed.

Theorem gen_is_whitespace_spec : forall k,
  gen_is_whitespace k = true <-> k = KWhitespace \/ k = KCommentSingle \/ k = KCommentMulti.
Proof.
  intros k; destruct k; simpl; split; intros H; try reflexivity; try discriminate; auto;
    destruct H as [H | [H | H]]; discriminate.
Qed.

(* ------------------------------------------------------------------ *)
(** * Kinds *)

Lemma wsnl_def : forall k, wsnl k = is_whitespace k || kind_eqb k KNewLine.
Proof. reflexivity. Qed.

Lemma kind_eqb_nl : forall k, kind_eqb k KNewLine = true <-> k = KNewLine.
Proof. intros k; destruct k; simpl; split; intros H; try reflexivity; discriminate. Qed.

Lemma wsnl_false_not_nl : forall k, wsnl k = false -> k <> KNewLine.
Proof. intros k H E; subst k; discriminate. Qed.

Lemma is_ws_not_nl : forall k, is_whitespace k = true -> k <> KNewLine.
Proof. intros k H E; subst k; discriminate. Qed.

Lemma is_ws_wsnl : forall k, is_whitespace k = true -> wsnl k = true.
Proof. intros k H; rewrite wsnl_def, H; reflexivity. Qed.

Lemma is_ws_nl_false : forall k, is_whitespace k = true -> kind_eqb k KNewLine = false.
Proof. intros k H; destruct k; try reflexivity; discriminate. Qed.

Lemma nl_is_ws_false : forall k, kind_eqb k KNewLine = true -> is_whitespace k = false.
Proof. intros k H; destruct k; try reflexivity; discriminate. Qed.

Lemma droppable_nl : forall t, tk t = KNewLine -> droppable t = false.
Proof. intros t E; unfold droppable; rewrite E; reflexivity. Qed.

(* every token is a NewLine, insertable trivia, line-advancing trivia, or significant *)
Inductive tclass (t : tok) : Prop :=
| TC_nl : tk t = KNewLine -> tclass t
| TC_drop : is_whitespace (tk t) = true -> adv t = false -> tclass t
| TC_advws : is_whitespace (tk t) = true -> adv t = true -> tclass t
| TC_sig : wsnl (tk t) = false -> tclass t.

Lemma classify : forall t, tclass t.
Proof.
  intros t. destruct (tk t) eqn:E.
  - apply TC_nl; assumption.
  - destruct (adv t) eqn:A; [apply TC_advws | apply TC_drop]; rewrite ?E; auto.
  - destruct (adv t) eqn:A; [apply TC_advws | apply TC_drop]; rewrite ?E; auto.
  - destruct (adv t) eqn:A; [apply TC_advws | apply TC_drop]; rewrite ?E; auto.
  - apply TC_sig; rewrite E; reflexivity.
Qed.

(* rewriting facts for each class *)
Lemma cls_nl : forall t, tk t = KNewLine ->
  droppable t = false /\ kind_eqb (tk t) KNewLine = true /\ wsnl (tk t) = true /\ is_whitespace (tk t) = false.
Proof. intros t E; unfold droppable; rewrite E; repeat split. Qed.

Lemma cls_drop : forall t, is_whitespace (tk t) = true -> adv t = false ->
  droppable t = true /\ kind_eqb (tk t) KNewLine = false /\ wsnl (tk t) = true.
Proof.
  intros t W A; unfold droppable; rewrite W, A; repeat split.
  - apply is_ws_nl_false; assumption.
  - apply is_ws_wsnl; assumption.
Qed.

Lemma cls_advws : forall t, is_whitespace (tk t) = true -> adv t = true ->
  droppable t = false /\ kind_eqb (tk t) KNewLine = false /\ wsnl (tk t) = true.
Proof.
  intros t W A; unfold droppable; rewrite W, A; repeat split.
  - apply is_ws_nl_false; assumption.
  - apply is_ws_wsnl; assumption.
Qed.

Lemma cls_sig : forall t, wsnl (tk t) = false ->
  droppable t = false /\ kind_eqb (tk t) KNewLine = false /\ is_whitespace (tk t) = false.
Proof.
  intros t W; rewrite wsnl_def in W; apply orb_false_elim in W; destruct W as [W1 W2].
  unfold droppable; rewrite W1; repeat split; assumption.
Qed.

(* ------------------------------------------------------------------ *)
(** * Refinement: the line-reading loops only observe "has the line advanced" *)

Ltac nb :=
  repeat match goal with
         | |- context [?a <? ?b] => destruct (N.ltb_spec a b)
         end; simpl; try reflexivity; try lia.

Lemma ctwc_refine_gen : forall ctx sl si l c l0 moved,
  chain l0 l -> sl <= l0 -> moved = (sl <? l0) ->
  ctwc_loop ctx sl si c l = a_ctwc_loop ctx moved si c l.
Proof.
  intros ctx sl si l; induction l as [|t r IH]; intros c l0 moved Hc Hle Hm; simpl; [reflexivity|].
  destruct Hc as (Hs & Hse & _ & Hr).
  assert (Hadv : (sl <? eline t) = moved || adv t).
  { subst moved; unfold adv; rewrite Hs; nb. }
  destruct (wsnl (tk t)).
  - apply IH with (l0 := eline t); [assumption | lia | symmetry; exact Hadv].
  - unfold block_ctx; rewrite Hadv; reflexivity.
Qed.

Theorem ctwc_refine : forall ctx sl si c l,
  chain sl l -> ctwc_loop ctx sl si c l = a_ctwc_loop ctx false si c l.
Proof.
  intros; apply ctwc_refine_gen with (l0 := sl); [assumption | lia | symmetry; apply N.ltb_irrefl].
Qed.

Lemma cutwc_refine_gen : forall ctx sl si l c l0 moved,
  chain l0 l -> sl <= l0 -> moved = (sl <? l0) ->
  cutwc_loop ctx sl si c l = a_cutwc_loop ctx moved si c l.
Proof.
  intros ctx sl si l; induction l as [|p r IH]; intros c l0 moved Hc Hle Hm; simpl; [reflexivity|].
  destruct Hc as (Hs & Hse & _ & Hr).
  destruct (wsnl (tk p)).
  - apply IH with (l0 := eline p); [assumption | lia | ].
    subst moved; unfold adv; rewrite Hs; nb.
  - unfold block_ctx; rewrite Hs, <- Hm; reflexivity.
Qed.

Theorem cutwc_refine : forall ctx sl si c l,
  chain sl l -> cutwc_loop ctx sl si c l = a_cutwc_loop ctx false si c l.
Proof.
  intros; apply cutwc_refine_gen with (l0 := sl); [assumption | lia | symmetry; apply N.ltb_irrefl].
Qed.

Theorem ctwc_abstract : forall ctx st, wf_lines st ->
  consume_token_with_context ctx st = a_ctwc_loop ctx false (tindent (cur st)) (cur st) (rest st).
Proof. intros ctx st H; apply ctwc_refine; exact H. Qed.

Theorem cutwc_abstract : forall ctx st, wf_lines st ->
  consume_until_token_with_context ctx st = a_cutwc_loop ctx false (tindent (cur st)) (cur st) (rest st).
Proof. intros ctx st H; apply cutwc_refine; exact H. Qed.

(* every NewLine of a line-continuous stream advances the line *)
Definition nladv (l : list tok) : Prop := Forall (fun t => tk t = KNewLine -> adv t = true) l.

Lemma chain_nladv : forall l l0, chain l0 l -> nladv l.
Proof.
  induction l as [|t r IH]; intros l0 H; [constructor|].
  destruct H as (Hs & Hse & Hnl & Hr). constructor; [| eapply IH; eassumption].
  intros E; specialize (Hnl E); unfold adv; apply N.ltb_lt; lia.
Qed.

(* ------------------------------------------------------------------ *)
(** * Normal forms: equal normal forms = "differ only by inserted trivia" *)

Lemma norm_from_cons : forall b t r,
  norm_from b (t :: r) =
  if droppable t then norm_from b r
  else if kind_eqb (tk t) KNewLine then (if b then norm_from true r else view t :: norm_from true r)
       else view t :: norm_from false r.
Proof. reflexivity. Qed.

Theorem norm_insert_trivia : forall w l2 l1 b,
  droppable w = true -> norm_from b (l1 ++ w :: l2) = norm_from b (l1 ++ l2).
Proof.
  intros w l2 l1; induction l1 as [|a l1 IH]; intros b H.
  - simpl; rewrite H; reflexivity.
  - rewrite <- !app_comm_cons, !norm_from_cons.
    destruct (droppable a); [apply IH; assumption|].
    destruct (kind_eqb (tk a) KNewLine); [destruct b|]; rewrite IH by assumption; reflexivity.
Qed.

Lemma norm_skip_droppables : forall ws l b,
  Forall (fun t => droppable t = true) ws -> norm_from b (ws ++ l) = norm_from b l.
Proof.
  induction ws as [|w ws IH]; intros l b H; [reflexivity|].
  rewrite <- app_comm_cons, norm_from_cons, (Forall_inv H). apply IH; exact (Forall_inv_tail H).
Qed.

Theorem norm_insert_blank_line : forall nl1 ws nl2 l2 l1 b,
  Forall (fun t => droppable t = true) ws -> tk nl1 = KNewLine -> tk nl2 = KNewLine ->
  norm_from b (l1 ++ nl1 :: ws ++ nl2 :: l2) = norm_from b (l1 ++ nl1 :: l2).
Proof.
  intros nl1 ws nl2 l2 l1; induction l1 as [|a l1 IH]; intros b Hws H1 H2.
  - simpl app. rewrite !(norm_from_cons b nl1).
    destruct (cls_nl _ H1) as (D1 & K1 & _). destruct (cls_nl _ H2) as (D2 & K2 & _).
    rewrite D1, K1.
    assert (E : norm_from true (ws ++ nl2 :: l2) = norm_from true l2).
    { rewrite norm_skip_droppables by assumption. rewrite norm_from_cons, D2, K2; reflexivity. }
    destruct b; rewrite E; reflexivity.
  - rewrite <- !app_comm_cons, !norm_from_cons.
    destruct (droppable a); [apply IH; assumption|].
    destruct (kind_eqb (tk a) KNewLine); [destruct b|]; rewrite IH by assumption; reflexivity.
Qed.

(* trailing whitespace, as a special case of trivia insertion before a NewLine: stated for clarity *)
Corollary norm_insert_before : forall w l b,
  droppable w = true -> norm_from b (w :: l) = norm_from b l.
Proof. intros w l b H; exact (norm_insert_trivia w l [] b H). Qed.

(* ------------------------------------------------------------------ *)
(** * Unfolding equations of the view-level functions on the view of a token *)

Lemma v_parked_view : forall t vs,
  v_parked (view t :: vs) =
  if wsnl (tk t) then (if kind_eqb (tk t) KNewLine || adv t then false else v_parked vs)
  else negb (adv t).
Proof. reflexivity. Qed.

Lemma v_peek_view : forall ctx si t vs sl,
  v_peek ctx si (view t :: vs) sl =
  match tk t with
  | KNewLine => v_peek ctx si vs false
  | KWhitespace | KCommentMulti | KCommentSingle => v_peek ctx si vs sl
  | _ => if sl then Some (tk t, tindent t)
         else if allow_linebreaks ctx then
                (if spec_indent_rule (expected_indentation ctx) (tindent t) si
                 then Some (tk t, tindent t) else None)
              else None
  end.
Proof. reflexivity. Qed.

Lemma v_ctwc_view : forall ctx moved si t vs,
  v_ctwc ctx moved si (view t :: vs) =
  if wsnl (tk t) then v_ctwc ctx (moved || adv t) si vs
  else (Some (tk t, block_ctx ctx (moved || adv t) si (tindent t)),
        (if v_parked vs then None else Some (tindent t), vs)).
Proof. reflexivity. Qed.

Lemma v_cutwc_view : forall ctx moved si t vs,
  v_cutwc ctx moved si (view t :: vs) =
  if wsnl (tk t) then v_cutwc ctx (moved || adv t) si vs
  else (Some (block_ctx ctx moved si (tindent t)), view t :: vs).
Proof. reflexivity. Qed.

Lemma v_slp_view : forall t vs,
  v_slp (view t :: vs) = if is_whitespace (tk t) then v_slp vs else Some (tk t).
Proof. reflexivity. Qed.

Lemma v_cunt_view : forall t vs,
  v_cunt (view t :: vs) = if is_whitespace (tk t) then v_cunt vs else view t :: vs.
Proof. reflexivity. Qed.

Lemma v_cnt_view : forall t vs,
  v_cnt (view t :: vs) =
  if is_whitespace (tk t) then v_cnt vs
  else (Some (tk t), (if v_parked vs then None else Some (tindent t), vs)).
Proof. reflexivity. Qed.

Lemma parked_cons : forall t r,
  parked (t :: r) =
  if wsnl (tk t) then (if kind_eqb (tk t) KNewLine || adv t then false else parked r)
  else negb (adv t).
Proof. reflexivity. Qed.

(* parked is a function of the normal form *)
Lemma parked_norm : forall l, v_parked (norm l) = parked l.
Proof.
  unfold norm; induction l as [|t r IH]; [reflexivity|].
  rewrite norm_from_cons, parked_cons.
  destruct (classify t) as [E|W A|W A|W].
  - destruct (cls_nl _ E) as (D & K & S & _). rewrite D, K, v_parked_view, S, K. reflexivity.
  - destruct (cls_drop _ W A) as (D & K & S). rewrite D, S, K, A. exact IH.
  - destruct (cls_advws _ W A) as (D & K & S). rewrite D, K, v_parked_view, S, K, A. reflexivity.
  - destruct (cls_sig _ W) as (D & K & _). rewrite D, K, v_parked_view, W. reflexivity.
Qed.

Lemma parked_of_norm_eq : forall l1 l2, norm l1 = norm l2 -> parked l1 = parked l2.
Proof. intros l1 l2 H; rewrite <- !parked_norm, H; reflexivity. Qed.

Lemma sview_eq_parked : forall s1 s2, sview s1 = sview s2 -> parked (rest s1) = parked (rest s2).
Proof. intros s1 s2 H; apply parked_of_norm_eq; exact (f_equal snd H). Qed.

(* ------------------------------------------------------------------ *)
(** * peek_token_with_context *)

Lemma peek_loop_norm : forall ctx si l b n sl,
  (b = true -> sl = false) ->
  option_map pobs (peek_loop ctx si l n sl) = v_peek ctx si (norm_from b l) sl.
Proof.
  intros ctx si l; induction l as [|a l IH]; intros b n sl Hb; [reflexivity|].
  simpl peek_loop. rewrite norm_from_cons. unfold droppable, is_whitespace.
  destruct (tk a) eqn:E; cbn [andb negb gen_is_whitespace kind_eqb].
  - destruct b.
    + rewrite (Hb eq_refl). apply IH; reflexivity.
    + rewrite v_peek_view, E. apply IH; reflexivity.
  - destruct (adv a); cbn [negb].
    + rewrite v_peek_view, E. apply IH; discriminate.
    + apply IH; assumption.
  - destruct (adv a); cbn [negb].
    + rewrite v_peek_view, E. apply IH; discriminate.
    + apply IH; assumption.
  - destruct (adv a); cbn [negb].
    + rewrite v_peek_view, E. apply IH; discriminate.
    + apply IH; assumption.
  - rewrite v_peek_view, E. destruct sl; [reflexivity|].
    destruct (allow_linebreaks ctx); [|reflexivity].
    rewrite gen_indent_rule_eq_spec.
    destruct (spec_indent_rule (expected_indentation ctx) (tindent a) si); reflexivity.
Qed.

(* in a parked state the start indent is not consulted *)
Lemma peek_parked : forall ctx l si si' n,
  parked l = true -> peek_loop ctx si l n true = peek_loop ctx si' l n true.
Proof.
  intros ctx l; induction l as [|a l IH]; intros si si' n H; [reflexivity|].
  rewrite parked_cons in H. unfold wsnl, is_whitespace in H. simpl peek_loop.
  destruct (tk a) eqn:E; simpl in H; try discriminate; try reflexivity;
    (destruct (adv a); [discriminate | apply IH; assumption]).
Qed.

Theorem peek_sview : forall ctx st,
  option_map pobs (peek_token_with_context ctx st)
  = v_peek ctx (sv_ind (fst (sview st))) (snd (sview st)) true.
Proof.
  intros ctx st. unfold peek_token_with_context, current_indent, sview. simpl fst; simpl snd.
  destruct (parked (rest st)) eqn:P; simpl sv_ind.
  - rewrite (peek_parked ctx _ (tindent (cur st)) 0 0 P). apply peek_loop_norm; discriminate.
  - apply peek_loop_norm; discriminate.
Qed.

Theorem peek_parametric : forall ctx s1 s2,
  sview s1 = sview s2 ->
  option_map pobs (peek_token_with_context ctx s1) = option_map pobs (peek_token_with_context ctx s2).
Proof. intros ctx s1 s2 H; rewrite !peek_sview, H; reflexivity. Qed.

(* without a NewLine in between, a token has the indent of the current token *)
Lemma peek_parked_indent : forall ctx l c si n p,
  parked l = true -> ichain c l -> tk c <> KNewLine ->
  peek_loop ctx si l n true = Some p -> tindent (pi_info p) = tindent c.
Proof.
  intros ctx l; induction l as [|a l IH]; intros c si n p H I C Hp; [discriminate|].
  rewrite parked_cons in H. unfold wsnl, is_whitespace in H. simpl peek_loop in Hp.
  destruct I as [I1 I2]. specialize (I1 C).
  destruct (tk a) eqn:E; simpl in H; try discriminate.
  - destruct (adv a); [discriminate|]. rewrite <- I1. eapply IH; try eassumption. rewrite E; discriminate.
  - destruct (adv a); [discriminate|]. rewrite <- I1. eapply IH; try eassumption. rewrite E; discriminate.
  - destruct (adv a); [discriminate|]. rewrite <- I1. eapply IH; try eassumption. rewrite E; discriminate.
  - injection Hp as Hp; subst p; simpl. exact I1.
Qed.

(* block_peek compares with the indent of the current token directly: it is only transparent
   when the current token is not a NewLine (see block_peek_sensitive_when_parked_on_newline) *)
Theorem block_peek_sview : forall st,
  wf_indent st -> tk (cur st) <> KNewLine ->
  option_map pobs (block_peek st) = v_block_peek (sview st).
Proof.
  intros st I C. unfold block_peek, v_block_peek.
  pose proof (peek_sview ctx_permissive st) as PS.
  unfold sview in *; simpl fst in *; simpl snd in *.
  destruct (parked (rest st)) eqn:P; simpl sv_ind in *.
  - destruct (peek_token_with_context ctx_permissive st) as [p|] eqn:Pk; [|reflexivity].
    unfold peek_token_with_context in Pk.
    rewrite (peek_parked_indent _ _ _ _ _ _ P I C Pk).
    unfold current_indent; rewrite N.ltb_irrefl; reflexivity.
  - rewrite <- PS. destruct (peek_token_with_context ctx_permissive st) as [p|]; [|reflexivity].
    simpl. unfold current_indent. destruct (tindent (cur st) <? tindent (pi_info p)); reflexivity.
Qed.

Theorem block_peek_parametric : forall s1 s2,
  wf_indent s1 -> wf_indent s2 -> tk (cur s1) <> KNewLine -> tk (cur s2) <> KNewLine ->
  sview s1 = sview s2 ->
  option_map pobs (block_peek s1) = option_map pobs (block_peek s2).
Proof. intros s1 s2 I1 I2 C1 C2 H; rewrite !block_peek_sview, H by assumption; reflexivity. Qed.

(* ------------------------------------------------------------------ *)
(** * consume_token_with_context *)

Lemma sview_mkst : forall c l,
  sview (mkst c l) = (if parked l then None else Some (tindent c), norm l).
Proof. reflexivity. Qed.

Lemma a_ctwc_norm : forall ctx si l c b moved,
  nladv l -> (b = true -> moved = true) ->
  (fst (a_ctwc_loop ctx moved si c l), sview (snd (a_ctwc_loop ctx moved si c l)))
  = v_ctwc ctx moved si (norm_from b l).
Proof.
  intros ctx si l; induction l as [|t r IH]; intros c b moved NA Hb; [reflexivity|].
  pose proof (Forall_inv NA) as NAt. pose proof (Forall_inv_tail NA) as NAr.
  simpl a_ctwc_loop. rewrite norm_from_cons.
  destruct (classify t) as [E|W A|W A|W].
  - destruct (cls_nl _ E) as (D & K & S & _). rewrite D, K, S, (NAt E), orb_true_r.
    destruct b.
    + rewrite (Hb eq_refl). apply IH; auto.
    + rewrite v_ctwc_view, S, (NAt E), orb_true_r. apply IH; auto.
  - destruct (cls_drop _ W A) as (D & K & S). rewrite D, S, A, orb_false_r. apply IH; assumption.
  - destruct (cls_advws _ W A) as (D & K & S). rewrite D, K, S, v_ctwc_view, S.
    apply IH; [assumption | discriminate].
  - destruct (cls_sig _ W) as (D & K & _). rewrite D, K, W, v_ctwc_view, W.
    simpl fst; simpl snd. rewrite sview_mkst, <- parked_norm. reflexivity.
Qed.

Lemma a_ctwc_parked : forall ctx l c si si',
  parked l = true -> a_ctwc_loop ctx false si c l = a_ctwc_loop ctx false si' c l.
Proof.
  intros ctx l; induction l as [|t r IH]; intros c si si' H; [reflexivity|].
  rewrite parked_cons in H. simpl a_ctwc_loop.
  destruct (wsnl (tk t)).
  - destruct (adv t); [rewrite orb_true_r in H; discriminate|].
    destruct (kind_eqb (tk t) KNewLine); [discriminate|]. apply IH; exact H.
  - destruct (adv t); [discriminate|]. reflexivity.
Qed.

Theorem ctwc_sview : forall ctx st,
  wf_lines st ->
  (fst (consume_token_with_context ctx st), sview (snd (consume_token_with_context ctx st)))
  = v_ctwc ctx false (sv_ind (fst (sview st))) (snd (sview st)).
Proof.
  intros ctx st L. rewrite (ctwc_abstract ctx st L).
  pose proof (chain_nladv _ _ L) as NA.
  unfold sview at 2 3; simpl fst; simpl snd.
  destruct (parked (rest st)) eqn:P; simpl sv_ind.
  - rewrite (a_ctwc_parked ctx _ (cur st) (tindent (cur st)) 0 P).
    apply a_ctwc_norm; [assumption | discriminate].
  - apply a_ctwc_norm; [assumption | discriminate].
Qed.

(* well-formedness is preserved *)
Lemma ctwc_loop_wf : forall ctx sl si l c,
  chain (eline c) l -> ichain c l -> schain c l -> wf (snd (ctwc_loop ctx sl si c l)).
Proof.
  intros ctx sl si l; induction l as [|t r IH]; intros c L I S; simpl.
  - repeat split; simpl; auto. right; reflexivity.
  - destruct L as (_ & _ & _ & L). destruct I as [_ I]. destruct S as [_ S].
    destruct (wsnl (tk t)) eqn:W; [apply IH; assumption|].
    simpl. repeat split; simpl; try assumption. left; apply wsnl_false_not_nl; exact W.
Qed.

Theorem ctwc_wf : forall ctx st, wf st -> wf (snd (consume_token_with_context ctx st)).
Proof. intros ctx st (L & I & S & _); apply ctwc_loop_wf; assumption. Qed.

Theorem ctwc_parametric : forall ctx s1 s2,
  wf s1 -> wf s2 -> sview s1 = sview s2 ->
  fst (consume_token_with_context ctx s1) = fst (consume_token_with_context ctx s2)
  /\ sview (snd (consume_token_with_context ctx s1)) = sview (snd (consume_token_with_context ctx s2))
  /\ wf (snd (consume_token_with_context ctx s1)) /\ wf (snd (consume_token_with_context ctx s2)).
Proof.
  intros ctx s1 s2 W1 W2 H.
  pose proof (ctwc_sview ctx s1 (proj1 W1)) as E1. pose proof (ctwc_sview ctx s2 (proj1 W2)) as E2.
  rewrite H, <- E2 in E1.
  split; [exact (f_equal fst E1)|]. split; [exact (f_equal snd E1)|].
  split; apply ctwc_wf; assumption.
Qed.

(* ------------------------------------------------------------------ *)
(** * consume_until_token_with_context *)

Lemma a_cutwc_norm : forall ctx si l c b moved,
  nladv l -> schain c l -> (b = true -> moved = true) ->
  fst (a_cutwc_loop ctx moved si c l) = fst (v_cutwc ctx moved si (norm_from b l))
  /\ norm (rest (snd (a_cutwc_loop ctx moved si c l))) = snd (v_cutwc ctx moved si (norm_from b l))
  /\ (wsnl (tk c) = true -> parked (rest (snd (a_cutwc_loop ctx moved si c l))) = true)
  /\ (parked (rest (snd (a_cutwc_loop ctx moved si c l))) = false ->
      snd (a_cutwc_loop ctx moved si c l) = mkst c l).
Proof.
  intros ctx si l; induction l as [|t r IH]; intros c b moved NA SC Hb.
  - simpl. repeat split; auto.
  - pose proof (Forall_inv NA) as NAt. pose proof (Forall_inv_tail NA) as NAr.
    destruct SC as [SCt SCr].
    simpl a_cutwc_loop. rewrite norm_from_cons.
    destruct (classify t) as [E|W A|W A|W].
    + destruct (cls_nl _ E) as (D & K & S & _). rewrite D, K, S, (NAt E), orb_true_r.
      assert (G : forall b', fst (a_cutwc_loop ctx true si t r) = fst (v_cutwc ctx true si (norm_from b' r))
                /\ norm (rest (snd (a_cutwc_loop ctx true si t r))) = snd (v_cutwc ctx true si (norm_from b' r))
                /\ parked (rest (snd (a_cutwc_loop ctx true si t r))) = true).
      { intros b'. destruct (IH t b' true NAr SCr (fun _ => eq_refl)) as (G1 & G2 & G3 & _).
        repeat split; auto. }
      destruct b.
      * rewrite (Hb eq_refl).
        destruct (G true) as (G1 & G2 & G3). repeat split; auto. rewrite G3; discriminate.
      * rewrite v_cutwc_view, S, (NAt E), orb_true_r.
        destruct (G true) as (G1 & G2 & G3). repeat split; auto. rewrite G3; discriminate.
    + destruct (cls_drop _ W A) as (D & K & S). rewrite D, S, A, orb_false_r.
      destruct (IH t b moved NAr SCr Hb) as (G1 & G2 & G3 & _). specialize (G3 S).
      repeat split; auto. rewrite G3; discriminate.
    + destruct (cls_advws _ W A) as (D & K & S). rewrite D, K, S, v_cutwc_view, S.
      assert (Hf : false = true -> moved || adv t = true) by discriminate.
      destruct (IH t false (moved || adv t) NAr SCr Hf) as (G1 & G2 & G3 & _). specialize (G3 S).
      repeat split; auto. rewrite G3; discriminate.
    + destruct (cls_sig _ W) as (D & K & _). rewrite D, K, W, v_cutwc_view, W.
      simpl fst; simpl snd; simpl rest. repeat split; auto.
      * unfold norm. rewrite norm_from_cons, D, K. reflexivity.
      * intros Wc. rewrite parked_cons, W.
        destruct (adv t); [|reflexivity]. rewrite (SCt eq_refl W) in Wc; discriminate.
Qed.

Lemma a_cutwc_parked : forall ctx l c si si',
  parked l = true -> a_cutwc_loop ctx false si c l = a_cutwc_loop ctx false si' c l.
Proof.
  intros ctx l; induction l as [|t r IH]; intros c si si' H; [reflexivity|].
  rewrite parked_cons in H. simpl a_cutwc_loop.
  destruct (wsnl (tk t)).
  - destruct (adv t); [rewrite orb_true_r in H; discriminate|].
    destruct (kind_eqb (tk t) KNewLine); [discriminate|]. apply IH; exact H.
  - reflexivity.
Qed.

Theorem cutwc_sview : forall ctx st,
  wf_lines st -> wf_sig st ->
  fst (consume_until_token_with_context ctx st)
  = fst (v_cutwc ctx false (sv_ind (fst (sview st))) (snd (sview st)))
  /\ sview (snd (consume_until_token_with_context ctx st))
     = v_post (fst (sview st)) (snd (v_cutwc ctx false (sv_ind (fst (sview st))) (snd (sview st)))).
Proof.
  intros ctx st L SG. rewrite (cutwc_abstract ctx st L).
  pose proof (chain_nladv _ _ L) as NA.
  assert (Hf : false = true -> false = true) by auto.
  assert (K : fst (a_cutwc_loop ctx false (tindent (cur st)) (cur st) (rest st))
              = fst (v_cutwc ctx false (sv_ind (fst (sview st))) (snd (sview st)))
           /\ norm (rest (snd (a_cutwc_loop ctx false (tindent (cur st)) (cur st) (rest st))))
              = snd (v_cutwc ctx false (sv_ind (fst (sview st))) (snd (sview st)))
           /\ (parked (rest (snd (a_cutwc_loop ctx false (tindent (cur st)) (cur st) (rest st)))) = false ->
               snd (a_cutwc_loop ctx false (tindent (cur st)) (cur st) (rest st)) = mkst (cur st) (rest st))).
  { unfold sview; simpl fst; simpl snd.
    destruct (parked (rest st)) eqn:P; simpl sv_ind.
    - rewrite (a_cutwc_parked ctx _ (cur st) (tindent (cur st)) 0 P).
      destruct (a_cutwc_norm ctx 0 (rest st) (cur st) false false NA SG Hf) as (G1 & G2 & _ & G4). auto.
    - destruct (a_cutwc_norm ctx (tindent (cur st)) (rest st) (cur st) false false NA SG Hf)
        as (G1 & G2 & _ & G4). auto. }
  destruct K as (K1 & K2 & K3). split; [exact K1|].
  unfold v_post. rewrite <- K2, parked_norm.
  set (post := snd (a_cutwc_loop ctx false (tindent (cur st)) (cur st) (rest st))) in *.
  unfold sview at 1.
  destruct (parked (rest post)) eqn:PP; [reflexivity|].
  rewrite (K3 eq_refl) in PP |- *. simpl in PP |- *. unfold sview; simpl fst. rewrite PP. reflexivity.
Qed.

Lemma cutwc_loop_wf : forall ctx sl si l c,
  chain (eline c) l -> ichain c l -> schain c l ->
  (wsnl (tk c) = true \/ good (mkst c l)) ->
  wf (snd (cutwc_loop ctx sl si c l)).
Proof.
  intros ctx sl si l; induction l as [|t r IH]; intros c L I S G; simpl.
  - repeat split; simpl; auto. right; reflexivity.
  - destruct (wsnl (tk t)) eqn:W.
    + destruct L as (_ & _ & _ & L). destruct I as [_ I]. destruct S as [_ S].
      apply IH; auto.
    + simpl snd. split; [exact L|]. split; [exact I|]. split; [exact S|].
      destruct G as [G|G]; [|exact G].
      right. simpl rest. rewrite parked_cons, W.
      destruct S as [S _]. destruct (adv t); [|reflexivity].
      rewrite (S eq_refl W) in G; discriminate.
Qed.

Theorem cutwc_wf : forall ctx st, wf st -> wf (snd (consume_until_token_with_context ctx st)).
Proof.
  intros ctx st (L & I & S & G). apply cutwc_loop_wf; try assumption.
  right. destruct st; exact G.
Qed.

Theorem cutwc_parametric : forall ctx s1 s2,
  wf s1 -> wf s2 -> sview s1 = sview s2 ->
  fst (consume_until_token_with_context ctx s1) = fst (consume_until_token_with_context ctx s2)
  /\ sview (snd (consume_until_token_with_context ctx s1))
     = sview (snd (consume_until_token_with_context ctx s2))
  /\ wf (snd (consume_until_token_with_context ctx s1))
  /\ wf (snd (consume_until_token_with_context ctx s2)).
Proof.
  intros ctx s1 s2 W1 W2 H.
  destruct (cutwc_sview ctx s1 (proj1 W1) (proj1 (proj2 (proj2 W1)))) as [A1 B1].
  destruct (cutwc_sview ctx s2 (proj1 W2) (proj1 (proj2 (proj2 W2)))) as [A2 B2].
  rewrite H in A1, B1. rewrite <- A2 in A1. rewrite <- B2 in B1.
  split; [exact A1|]. split; [exact B1|]. split; apply cutwc_wf; assumption.
Qed.

(* ------------------------------------------------------------------ *)
(** * Same-line getters *)

Lemma slp_norm : forall l, option_map tk (same_line_peek l) = v_slp (norm l).
Proof.
  unfold norm; induction l as [|t r IH]; [reflexivity|].
  rewrite norm_from_cons. simpl same_line_peek.
  destruct (classify t) as [E|W A|W A|W].
  - destruct (cls_nl _ E) as (D & K & _ & Wf). rewrite D, K, v_slp_view, Wf. reflexivity.
  - destruct (cls_drop _ W A) as (D & _ & _). rewrite D, W. exact IH.
  - destruct (cls_advws _ W A) as (D & K & _). rewrite D, K, v_slp_view, W. exact IH.
  - destruct (cls_sig _ W) as (D & K & Wf). rewrite D, K, v_slp_view, Wf. reflexivity.
Qed.

Theorem same_line_peek_sview : forall st, peek_next_token_on_same_line st = v_slp (snd (sview st)).
Proof. intros st; apply slp_norm. Qed.

Theorem same_line_peek_parametric : forall s1 s2,
  sview s1 = sview s2 -> peek_next_token_on_same_line s1 = peek_next_token_on_same_line s2.
Proof. intros s1 s2 H; rewrite !same_line_peek_sview, H; reflexivity. Qed.

(* the _with_span variant returns the same kind (its span is layout) *)
Theorem same_line_peek_with_span_kind : forall st,
  option_map fst (peek_next_token_on_same_line_with_span st) = peek_next_token_on_same_line st.
Proof.
  intros st; unfold peek_next_token_on_same_line_with_span, peek_next_token_on_same_line.
  destruct (same_line_peek (rest st)); reflexivity.
Qed.

(* ---- consume_until_next_token_on_same_line *)

Lemma cunt_norm : forall l c, norm (rest (cunt_loop c l)) = v_cunt (norm l).
Proof.
  unfold norm; induction l as [|t r IH]; intros c; [reflexivity|].
  rewrite norm_from_cons. simpl cunt_loop.
  destruct (classify t) as [E|W A|W A|W].
  - destruct (cls_nl _ E) as (D & K & _ & Wf). rewrite D, K, v_cunt_view, !Wf. simpl rest.
    rewrite norm_from_cons, D, K. reflexivity.
  - destruct (cls_drop _ W A) as (D & _ & _). rewrite D, W. apply IH.
  - destruct (cls_advws _ W A) as (D & K & _). rewrite D, K, v_cunt_view, !W. apply IH.
  - destruct (cls_sig _ W) as (D & K & Wf). rewrite D, K, v_cunt_view, !Wf. simpl rest.
    rewrite norm_from_cons, D, K. reflexivity.
Qed.

Lemma cunt_indent : forall l c,
  ichain c l -> tk c <> KNewLine -> tindent (cur (cunt_loop c l)) = tindent c.
Proof.
  induction l as [|t r IH]; intros c I C; [reflexivity|].
  simpl cunt_loop. destruct I as [I1 I2].
  destruct (is_whitespace (tk t)) eqn:W; [|reflexivity].
  rewrite (IH t I2 (is_ws_not_nl _ W)). exact (I1 C).
Qed.

Lemma cunt_parked : forall l c, parked l = true -> parked (rest (cunt_loop c l)) = true.
Proof.
  induction l as [|t r IH]; intros c H; [reflexivity|].
  simpl cunt_loop. destruct (is_whitespace (tk t)) eqn:W; [|exact H].
  rewrite parked_cons, (is_ws_wsnl _ W), (is_ws_nl_false _ W) in H.
  destruct (adv t); [discriminate|]. apply IH; exact H.
Qed.

Theorem cunt_sview : forall st,
  wf_indent st -> good st ->
  sview (consume_until_next_token_on_same_line st) = v_post (fst (sview st)) (v_cunt (snd (sview st))).
Proof.
  intros st I G. unfold consume_until_next_token_on_same_line, v_post.
  unfold sview at 3; simpl snd. rewrite <- (cunt_norm (rest st) (cur st)), parked_norm.
  unfold sview at 1.
  destruct (parked (rest (cunt_loop (cur st) (rest st)))) eqn:PP; [reflexivity|].
  assert (P : parked (rest st) = false).
  { destruct (parked (rest st)) eqn:P; [|reflexivity].
    rewrite (cunt_parked _ (cur st) P) in PP; discriminate. }
  destruct G as [C|C]; [|rewrite P in C; discriminate].
  rewrite (cunt_indent _ _ I C). unfold sview; simpl fst. rewrite P. reflexivity.
Qed.

Lemma cunt_loop_wf : forall l c,
  chain (eline c) l -> ichain c l -> schain c l -> good (mkst c l) -> wf (cunt_loop c l).
Proof.
  induction l as [|t r IH]; intros c L I S G; simpl cunt_loop.
  - split; [exact L|]. split; [exact I|]. split; [exact S|exact G].
  - destruct (is_whitespace (tk t)) eqn:W.
    + destruct L as (_ & _ & _ & L). destruct I as [_ I]. destruct S as [_ S].
      apply IH; try assumption. left; simpl; apply is_ws_not_nl; exact W.
    + split; [exact L|]. split; [exact I|]. split; [exact S|exact G].
Qed.

Theorem cunt_wf : forall st, wf st -> wf (consume_until_next_token_on_same_line st).
Proof. intros st (L & I & S & G). apply cunt_loop_wf; assumption. Qed.

Theorem cunt_parametric : forall s1 s2,
  wf s1 -> wf s2 -> sview s1 = sview s2 ->
  sview (consume_until_next_token_on_same_line s1) = sview (consume_until_next_token_on_same_line s2)
  /\ wf (consume_until_next_token_on_same_line s1) /\ wf (consume_until_next_token_on_same_line s2).
Proof.
  intros s1 s2 W1 W2 H.
  split; [|split; apply cunt_wf; assumption].
  destruct W1 as (_ & I1 & _ & G1). destruct W2 as (_ & I2 & _ & G2).
  rewrite (cunt_sview s1 I1 G1), (cunt_sview s2 I2 G2), H. reflexivity.
Qed.

(* ---- consume_next_token_on_same_line *)

Lemma cnt_result_norm : forall l c, fst (cnt_loop c l) = fst (v_cnt (norm l)).
Proof.
  unfold norm; induction l as [|t r IH]; intros c; [reflexivity|].
  rewrite norm_from_cons. simpl cnt_loop.
  destruct (classify t) as [E|W A|W A|W].
  - destruct (cls_nl _ E) as (D & K & _ & Wf). rewrite D, K, v_cnt_view, !Wf. reflexivity.
  - destruct (cls_drop _ W A) as (D & _ & _). rewrite D, W. apply IH.
  - destruct (cls_advws _ W A) as (D & K & _). rewrite D, K, v_cnt_view, !W. apply IH.
  - destruct (cls_sig _ W) as (D & K & Wf). rewrite D, K, v_cnt_view, !Wf. reflexivity.
Qed.

Lemma cnt_post_norm : forall l c,
  fst (cnt_loop c l) <> Some KNewLine -> sview (snd (cnt_loop c l)) = snd (v_cnt (norm l)).
Proof.
  unfold norm; induction l as [|t r IH]; intros c H; [reflexivity|].
  rewrite norm_from_cons. simpl cnt_loop in *.
  destruct (classify t) as [E|W A|W A|W].
  - destruct (cls_nl _ E) as (_ & _ & _ & Wf). rewrite Wf in H. simpl in H. rewrite E in H.
    exfalso; apply H; reflexivity.
  - destruct (cls_drop _ W A) as (D & _ & _). rewrite D. rewrite W in *. apply IH; exact H.
  - destruct (cls_advws _ W A) as (D & K & _). rewrite D, K, v_cnt_view. rewrite W in *.
    apply IH; exact H.
  - destruct (cls_sig _ W) as (D & K & Wf). rewrite D, K, v_cnt_view, !Wf. simpl snd.
    rewrite sview_mkst, <- parked_norm. reflexivity.
Qed.

Theorem cnt_sview : forall st,
  fst (consume_next_token_on_same_line st) = fst (v_cnt (snd (sview st)))
  /\ (fst (consume_next_token_on_same_line st) <> Some KNewLine ->
      sview (snd (consume_next_token_on_same_line st)) = snd (v_cnt (snd (sview st)))).
Proof.
  intros st; split; [apply cnt_result_norm | apply cnt_post_norm].
Qed.

Lemma cnt_loop_wf : forall l c,
  chain (eline c) l -> ichain c l -> schain c l ->
  fst (cnt_loop c l) <> Some KNewLine -> wf (snd (cnt_loop c l)).
Proof.
  induction l as [|t r IH]; intros c L I S H; simpl cnt_loop in *.
  - split; [exact L|]. split; [exact I|]. split; [exact S|]. right; reflexivity.
  - destruct L as (_ & _ & _ & L). destruct I as [_ I]. destruct S as [_ S].
    destruct (is_whitespace (tk t)) eqn:W; [apply IH; assumption|].
    simpl in *. split; [exact L|]. split; [exact I|]. split; [exact S|].
    left; simpl. intros E; apply H; rewrite E; reflexivity.
Qed.

Theorem cnt_wf : forall st,
  wf st -> fst (consume_next_token_on_same_line st) <> Some KNewLine ->
  wf (snd (consume_next_token_on_same_line st)).
Proof. intros st (L & I & S & _) H; apply cnt_loop_wf; assumption. Qed.

(* restriction: the post-states are related only if the consumed token is not a NewLine
   (the parser calls this after peeking a `,` / `;`); see cnt_newline_breaks_view *)
Theorem cnt_parametric : forall s1 s2,
  wf s1 -> wf s2 -> sview s1 = sview s2 ->
  fst (consume_next_token_on_same_line s1) = fst (consume_next_token_on_same_line s2)
  /\ (fst (consume_next_token_on_same_line s1) <> Some KNewLine ->
      sview (snd (consume_next_token_on_same_line s1)) = sview (snd (consume_next_token_on_same_line s2))
      /\ wf (snd (consume_next_token_on_same_line s1))
      /\ wf (snd (consume_next_token_on_same_line s2))).
Proof.
  intros s1 s2 W1 W2 H.
  destruct (cnt_sview s1) as [A1 B1]. destruct (cnt_sview s2) as [A2 B2].
  assert (E : fst (consume_next_token_on_same_line s1) = fst (consume_next_token_on_same_line s2)).
  { rewrite A1, A2, H; reflexivity. }
  split; [exact E|]. intros NN.
  assert (NN2 : fst (consume_next_token_on_same_line s2) <> Some KNewLine) by (rewrite <- E; exact NN).
  split; [rewrite (B1 NN), (B2 NN2), H; reflexivity|].
  split; apply cnt_wf; assumption.
Qed.

(* ------------------------------------------------------------------ *)
(** * Raw peeks are layout-sensitive by design *)

Lemma norm_head_kept : forall t r, droppable t = false -> exists vs, norm (t :: r) = view t :: vs.
Proof.
  intros t r D. unfold norm. rewrite norm_from_cons, D.
  destruct (kind_eqb (tk t) KNewLine); eexists; reflexivity.
Qed.

Theorem raw_peek_class : forall s1 s2,
  sview s1 = sview s2 -> head_kept s1 -> head_kept s2 -> peek_token s1 = peek_token s2.
Proof.
  intros s1 s2 H K1 K2. apply (f_equal snd) in H. unfold sview in H; simpl in H.
  unfold peek_token, peek_token_n, head_kept in *.
  destruct (rest s1) as [|t1 r1]; destruct (rest s2) as [|t2 r2]; simpl.
  - reflexivity.
  - destruct (norm_head_kept t2 r2 K2) as [vs E]. rewrite E in H. discriminate.
  - destruct (norm_head_kept t1 r1 K1) as [vs E]. rewrite E in H. discriminate.
  - destruct (norm_head_kept t1 r1 K1) as [vs1 E1]. destruct (norm_head_kept t2 r2 K2) as [vs2 E2].
    rewrite E1, E2 in H. injection H as Hk _ _ _. rewrite Hk. reflexivity.
Qed.

(* `f(` vs `f (` *)
Example raw_peek_sensitive :
  let f := mktok (KTok 1) 0 0 0 in
  let s1 := mkst f [mktok (KTok 2) 0 0 0] in
  let s2 := mkst f [mktok KWhitespace 0 0 0; mktok (KTok 2) 0 0 0] in
  sview s1 = sview s2 /\ peek_token s1 <> peek_token s2.
Proof. split; [reflexivity | discriminate]. Qed.

(* ------------------------------------------------------------------ *)
(** * Input that ends after a header line / dedent: no block *)

Lemma peek_loop_all_wsnl : forall ctx si l n sl,
  Forall (fun t => wsnl (tk t) = true) l -> peek_loop ctx si l n sl = None.
Proof.
  intros ctx si l; induction l as [|a l IH]; intros n sl H; [reflexivity|].
  pose proof (Forall_inv H) as Ha. pose proof (Forall_inv_tail H) as Hl.
  cbv beta in Ha. simpl. destruct (tk a); simpl in Ha; try discriminate; apply IH; assumption.
Qed.

(* the model-level half of "a program cut off after a header is an indentation error": the
   callers of parse_indented_block turn this None into ExpectedIndentation errors *)
Theorem needs_more_is_indentation : forall h l,
  Forall (fun t => wsnl (tk t) = true) l ->
  block_peek (mkst h l) = None
  /\ forall ctx, peek_token_with_context ctx (mkst h l) = None.
Proof.
  intros h l H.
  assert (P : forall ctx, peek_token_with_context ctx (mkst h l) = None).
  { intros ctx; apply peek_loop_all_wsnl; exact H. }
  split; [|exact P]. unfold block_peek. rewrite P. reflexivity.
Qed.

Lemma peek_loop_first_sig : forall ctx si pre s r n sl p,
  Forall (fun t => wsnl (tk t) = true) pre -> wsnl (tk s) = false ->
  peek_loop ctx si (pre ++ s :: r) n sl = Some p -> pi_info p = s.
Proof.
  intros ctx si pre s r; induction pre as [|a pre IH]; intros n sl p H Hs Hp.
  - simpl in Hp. destruct (tk s) eqn:E; try discriminate.
    destruct sl; [injection Hp as Hp; subst p; reflexivity|].
    destruct (allow_linebreaks ctx); [|discriminate].
    destruct (gen_indent_rule (expected_indentation ctx) (tindent s) si); [|discriminate].
    injection Hp as Hp; subst p; reflexivity.
  - pose proof (Forall_inv H) as Ha. pose proof (Forall_inv_tail H) as Hl.
    cbv beta in Ha. simpl in Hp. destruct (tk a); simpl in Ha; try discriminate; eapply IH; eassumption.
Qed.

(* "no block found": the next significant token is not indented further than the current token
   (typically: it is on a later line, dedented).  Same result None as above -- the distinction
   between "input ended" and "no block" is made by the callers, not by the access layer. *)
Theorem block_peek_dedent : forall h pre s r,
  Forall (fun t => wsnl (tk t) = true) pre -> wsnl (tk s) = false ->
  tindent s <= tindent h ->
  block_peek (mkst h (pre ++ s :: r)) = None.
Proof.
  intros h pre s r H Hs Hi. unfold block_peek.
  destruct (peek_token_with_context ctx_permissive (mkst h (pre ++ s :: r))) as [p|] eqn:Pk; [|reflexivity].
  unfold peek_token_with_context in Pk. simpl rest in Pk.
  rewrite (peek_loop_first_sig _ _ _ _ _ _ _ _ H Hs Pk).
  unfold current_indent; simpl cur.
  destruct (N.ltb_spec (tindent h) (tindent s)); [lia|reflexivity].
Qed.

(* and conversely an indented next token IS found by block_peek *)
Theorem block_peek_indent : forall h pre s r,
  Forall (fun t => wsnl (tk t) = true) pre -> wsnl (tk s) = false ->
  tindent h < tindent s ->
  option_map pobs (block_peek (mkst h (pre ++ s :: r))) = Some (tk s, tindent s).
Proof.
  intros h pre s r H Hs Hi. unfold block_peek, peek_token_with_context, current_indent.
  simpl rest; simpl cur. generalize 0 at 1. generalize true.
  induction pre as [|a pre IH]; intros sl n.
  - simpl. destruct (tk s) eqn:E; try discriminate.
    assert (L : (tindent h <? tindent s) = true) by (apply N.ltb_lt; exact Hi).
    destruct sl; simpl; rewrite ?L; simpl; rewrite ?L; reflexivity.
  - pose proof (Forall_inv H) as Ha. pose proof (Forall_inv_tail H) as Hl.
    cbv beta in Ha. simpl. destruct (tk a); simpl in Ha; try discriminate; apply IH; assumption.
Qed.

(* ------------------------------------------------------------------ *)
(** * The whole layer at once *)

Theorem access_parametric : forall s1 s2,
  wf s1 -> wf s2 -> sview s1 = sview s2 ->
  (* peek_token_with_context *)
  (forall ctx, option_map pobs (peek_token_with_context ctx s1)
               = option_map pobs (peek_token_with_context ctx s2))
  (* the block peek of parse_indented_block -- only when the current token is not a NewLine *)
  /\ (tk (cur s1) <> KNewLine -> tk (cur s2) <> KNewLine ->
      option_map pobs (block_peek s1) = option_map pobs (block_peek s2))
  (* consume_token_with_context *)
  /\ (forall ctx,
        fst (consume_token_with_context ctx s1) = fst (consume_token_with_context ctx s2)
        /\ sview (snd (consume_token_with_context ctx s1)) = sview (snd (consume_token_with_context ctx s2))
        /\ wf (snd (consume_token_with_context ctx s1)) /\ wf (snd (consume_token_with_context ctx s2)))
  (* consume_until_token_with_context *)
  /\ (forall ctx,
        fst (consume_until_token_with_context ctx s1) = fst (consume_until_token_with_context ctx s2)
        /\ sview (snd (consume_until_token_with_context ctx s1))
           = sview (snd (consume_until_token_with_context ctx s2))
        /\ wf (snd (consume_until_token_with_context ctx s1))
        /\ wf (snd (consume_until_token_with_context ctx s2)))
  (* peek_next_token_on_same_line *)
  /\ peek_next_token_on_same_line s1 = peek_next_token_on_same_line s2
  (* consume_until_next_token_on_same_line *)
  /\ (sview (consume_until_next_token_on_same_line s1) = sview (consume_until_next_token_on_same_line s2)
      /\ wf (consume_until_next_token_on_same_line s1) /\ wf (consume_until_next_token_on_same_line s2))
  (* consume_next_token_on_same_line -- post-states only when the consumed token is not a NewLine *)
  /\ (fst (consume_next_token_on_same_line s1) = fst (consume_next_token_on_same_line s2)
      /\ (fst (consume_next_token_on_same_line s1) <> Some KNewLine ->
          sview (snd (consume_next_token_on_same_line s1)) = sview (snd (consume_next_token_on_same_line s2))
          /\ wf (snd (consume_next_token_on_same_line s1))
          /\ wf (snd (consume_next_token_on_same_line s2))))
  (* raw peek_token -- only when no insertable trivia is next on either side *)
  /\ (head_kept s1 -> head_kept s2 -> peek_token s1 = peek_token s2).
Proof.
  intros s1 s2 W1 W2 H.
  split; [intros ctx; apply peek_parametric; exact H|].
  split; [intros C1 C2; apply block_peek_parametric; try assumption;
          [exact (proj1 (proj2 W1)) | exact (proj1 (proj2 W2))]|].
  split; [intros ctx; apply ctwc_parametric; assumption|].
  split; [intros ctx; apply cutwc_parametric; assumption|].
  split; [apply same_line_peek_parametric; exact H|].
  split; [apply cunt_parametric; assumption|].
  split; [apply cnt_parametric; assumption|].
  apply raw_peek_class; exact H.
Qed.

(* ------------------------------------------------------------------ *)
(** * Any deterministic consumer of the layer *)

Definition is_some_nl (o : option kind) : bool :=
  match o with Some k => kind_eqb k KNewLine | None => false end.

Lemma is_some_nl_false : forall o, is_some_nl o = false -> o <> Some KNewLine.
Proof. intros o H E; subst o; discriminate. Qed.

Section Consumer.
  Variable R : Type.

  (* a consumer is a decision tree over the observable answers of the access functions *)
  Inductive prog : Type :=
  | Ret (r : R)
  | PPeek (ctx : ectx) (k : option (kind * N) -> prog)
  | PBlockPeek (k : option (kind * N) -> prog)
  | PCtwc (ctx : ectx) (k : option (kind * ectx) -> prog)
  | PCutwc (ctx : ectx) (k : option ectx -> prog)
  | PSameLinePeek (k : option kind -> prog)
  | PCunt (k : prog)
  | PCnt (k : option kind -> prog).

  (* None = the consumer left the discipline: block peek while the current token is a NewLine,
     or consume_next_token_on_same_line swallowed a NewLine *)
  Fixpoint run (p : prog) (st : pstate) : option R :=
    match p with
    | Ret r => Some r
    | PPeek ctx k => run (k (option_map pobs (peek_token_with_context ctx st))) st
    | PBlockPeek k =>
        if kind_eqb (tk (cur st)) KNewLine then None
        else run (k (option_map pobs (block_peek st))) st
    | PCtwc ctx k =>
        run (k (fst (consume_token_with_context ctx st))) (snd (consume_token_with_context ctx st))
    | PCutwc ctx k =>
        run (k (fst (consume_until_token_with_context ctx st)))
            (snd (consume_until_token_with_context ctx st))
    | PSameLinePeek k => run (k (peek_next_token_on_same_line st)) st
    | PCunt k => run k (consume_until_next_token_on_same_line st)
    | PCnt k =>
        if is_some_nl (fst (consume_next_token_on_same_line st)) then None
        else run (k (fst (consume_next_token_on_same_line st))) (snd (consume_next_token_on_same_line st))
    end.

  Theorem consumer_parametric : forall p s1 s2 r1 r2,
    wf s1 -> wf s2 -> sview s1 = sview s2 ->
    run p s1 = Some r1 -> run p s2 = Some r2 -> r1 = r2.
  Proof.
    induction p as [r | ctx k IH | k IH | ctx k IH | ctx k IH | k IH | k IH | k IH];
      intros s1 s2 r1 r2 W1 W2 H R1 R2; simpl in R1, R2.
    - congruence.
    - rewrite (peek_parametric ctx s1 s2 H) in R1. exact (IH _ s1 s2 r1 r2 W1 W2 H R1 R2).
    - destruct (kind_eqb (tk (cur s1)) KNewLine) eqn:K1; [discriminate|].
      destruct (kind_eqb (tk (cur s2)) KNewLine) eqn:K2; [discriminate|].
      assert (C1 : tk (cur s1) <> KNewLine) by (intros E; apply kind_eqb_nl in E; congruence).
      assert (C2 : tk (cur s2) <> KNewLine) by (intros E; apply kind_eqb_nl in E; congruence).
      rewrite (block_peek_parametric s1 s2 (proj1 (proj2 W1)) (proj1 (proj2 W2)) C1 C2 H) in R1.
      exact (IH _ s1 s2 r1 r2 W1 W2 H R1 R2).
    - destruct (ctwc_parametric ctx s1 s2 W1 W2 H) as (E & V & P1 & P2).
      rewrite E in R1. exact (IH _ _ _ r1 r2 P1 P2 V R1 R2).
    - destruct (cutwc_parametric ctx s1 s2 W1 W2 H) as (E & V & P1 & P2).
      rewrite E in R1. exact (IH _ _ _ r1 r2 P1 P2 V R1 R2).
    - rewrite (same_line_peek_parametric s1 s2 H) in R1. exact (IH _ s1 s2 r1 r2 W1 W2 H R1 R2).
    - destruct (cunt_parametric s1 s2 W1 W2 H) as (V & P1 & P2). exact (IH _ _ r1 r2 P1 P2 V R1 R2).
    - destruct (cnt_parametric s1 s2 W1 W2 H) as (E & K).
      destruct (is_some_nl (fst (consume_next_token_on_same_line s1))) eqn:N1; [discriminate|].
      destruct (is_some_nl (fst (consume_next_token_on_same_line s2))) eqn:N2; [discriminate|].
      destruct (K (is_some_nl_false _ N1)) as (V & P1 & P2).
      rewrite E in R1. exact (IH _ _ _ r1 r2 P1 P2 V R1 R2).
  Qed.
End Consumer.

(* ------------------------------------------------------------------ *)
(** * Why the hypotheses are what they are: refutations of the stronger statements *)

Ltac wf_tac :=
  unfold wf, wf_lines, wf_indent, wf_sig, good; simpl;
  repeat split;
  try reflexivity; try lia; try discriminate; try congruence;
  try (left; discriminate); try (right; reflexivity).

(* 1. block_peek reads the indent of the current token directly, so it is NOT transparent in a
   state parked on a NewLine (reachable through consume_until_token_with_context):
   `...\n  1` vs `...\n      # c\n  1`, current token = the last NewLine passed over *)
Example block_peek_sensitive_when_parked_on_newline :
  let s1 := mkst (mktok KNewLine 0 1 0) [mktok KWhitespace 1 1 2; mktok (KTok 12) 1 1 2] in
  let s2 := mkst (mktok KNewLine 2 3 6) [mktok KWhitespace 3 3 2; mktok (KTok 12) 3 3 2] in
  wf s1 /\ wf s2 /\ sview s1 = sview s2
  /\ option_map pobs (block_peek s1) = Some (KTok 12, 2)
  /\ option_map pobs (block_peek s2) = None.
Proof. split; [wf_tac|]. split; [wf_tac|]. repeat split. Qed.

(* 2. without wf_sig (a significant line-spanning token directly after trivia), two equivalent
   states are taken by consume_until_token_with_context to states in which
   consume_token_with_context answers differently: the indentation of a comment-only line
   would leak into the expression context *)
Example cutwc_needs_sig_guard :
  let eq_ := mktok (KTok 11) 0 0 0 in
  let s1 := mkst eq_ [mktok KNewLine 0 1 0; mktok (KTok 13) 1 2 2] in
  let s2 := mkst eq_ [mktok KNewLine 0 1 0; mktok KWhitespace 1 1 6; mktok KCommentSingle 1 1 6;
                      mktok KNewLine 1 2 6; mktok (KTok 13) 2 3 2] in
  (wf_lines s1 /\ wf_indent s1 /\ good s1) /\ (wf_lines s2 /\ wf_indent s2 /\ good s2)
  /\ sview s1 = sview s2
  /\ sview (snd (consume_until_token_with_context ctx_permissive s1))
     <> sview (snd (consume_until_token_with_context ctx_permissive s2))
  /\ fst (consume_token_with_context ctx_permissive (snd (consume_until_token_with_context ctx_permissive s1)))
     = Some (KTok 13, indented_block_ctx ctx_permissive 2)
  /\ fst (consume_token_with_context ctx_permissive (snd (consume_until_token_with_context ctx_permissive s2)))
     = Some (KTok 13, ctx_permissive).
Proof.
  split; [wf_tac|]. split; [wf_tac|]. split; [reflexivity|].
  split; [vm_compute; discriminate|]. split; reflexivity.
Qed.

(* 3. consume_next_token_on_same_line swallowing a NewLine: `;\n\nx` vs `;\nx` *)
Example cnt_newline_breaks_view :
  let semi := mktok (KTok 14) 0 0 0 in
  let s1 := mkst semi [mktok KNewLine 0 1 0; mktok KNewLine 1 2 0; mktok (KTok 10) 2 2 0] in
  let s2 := mkst semi [mktok KNewLine 0 1 0; mktok (KTok 10) 1 1 0] in
  wf s1 /\ wf s2 /\ sview s1 = sview s2
  /\ fst (consume_next_token_on_same_line s1) = Some KNewLine
  /\ sview (snd (consume_next_token_on_same_line s1)) <> sview (snd (consume_next_token_on_same_line s2)).
Proof.
  split; [wf_tac|]. split; [wf_tac|]. split; [reflexivity|]. split; [reflexivity|].
  vm_compute; discriminate.
Qed.

(* ------------------------------------------------------------------ *)
(** * Non-vacuity *)

(* `x =\n  1`  vs  `x =   # c\n\n      # c2\n  1`, both after `x =` has been consumed *)
Definition ex_eq : tok := mktok (KTok 11) 0 0 0.
Definition ex_plain : pstate :=
  mkst ex_eq [mktok KNewLine 0 1 0; mktok KWhitespace 1 1 2; mktok (KTok 12) 1 1 2].
Definition ex_trivia : pstate :=
  mkst ex_eq [mktok KWhitespace 0 0 0; mktok KCommentSingle 0 0 0; mktok KNewLine 0 1 0;
              mktok KNewLine 1 2 0;
              mktok KWhitespace 2 2 6; mktok KCommentSingle 2 2 6; mktok KNewLine 2 3 6;
              mktok KWhitespace 3 3 2; mktok (KTok 12) 3 3 2].

Example ex_wf : wf ex_plain /\ wf ex_trivia.
Proof. split; wf_tac. Qed.

Example ex_sview :
  sview ex_plain = sview ex_trivia
  /\ sview ex_plain = (Some 0, [mkv KNewLine true 0; mkv (KTok 12) false 2]).
Proof. split; vm_compute; reflexivity. Qed.

Example ex_cutwc :
  fst (consume_until_token_with_context ctx_permissive ex_plain)
  = Some (mkctx true true true false (IEqual 2) false)
  /\ fst (consume_until_token_with_context ctx_permissive ex_trivia)
     = Some (mkctx true true true false (IEqual 2) false)
  /\ sview (snd (consume_until_token_with_context ctx_permissive ex_plain)) = (None, [mkv (KTok 12) false 2])
  /\ sview (snd (consume_until_token_with_context ctx_permissive ex_trivia)) = (None, [mkv (KTok 12) false 2])
  (* the concrete post-states differ: parked on tokens of different indent *)
  /\ tindent (cur (snd (consume_until_token_with_context ctx_permissive ex_plain))) = 2
  /\ tk (cur (snd (consume_until_token_with_context ctx_permissive ex_trivia))) = KWhitespace.
Proof. repeat split; vm_compute; reflexivity. Qed.

Example ex_ctwc :
  fst (consume_token_with_context ctx_permissive ex_plain)
  = Some (KTok 12, mkctx true true true false (IEqual 2) false)
  /\ fst (consume_token_with_context ctx_permissive ex_trivia)
     = Some (KTok 12, mkctx true true true false (IEqual 2) false).
Proof. split; vm_compute; reflexivity. Qed.

Example ex_peek :
  option_map pobs (peek_token_with_context ctx_permissive ex_plain) = Some (KTok 12, 2)
  /\ option_map pobs (peek_token_with_context ctx_permissive ex_trivia) = Some (KTok 12, 2)
  /\ option_map pi_count (peek_token_with_context ctx_permissive ex_plain) = Some 2
  /\ option_map pi_count (peek_token_with_context ctx_permissive ex_trivia) = Some 8
  /\ peek_token_with_context ctx_inline ex_plain = None
  /\ option_map pobs (block_peek ex_trivia) = Some (KTok 12, 2).
Proof. repeat split; vm_compute; reflexivity. Qed.

(* a stream that is NOT equivalent: the same tokens with the value dedented *)
Example ex_inequivalent :
  sview ex_plain <> sview (mkst ex_eq [mktok KNewLine 0 1 0; mktok (KTok 12) 1 1 0]).
Proof. vm_compute; discriminate. Qed.

(* header without a body: `if x\n` + comment line, nothing else *)
Example ex_needs_more :
  block_peek (mkst (mktok (KTok 10) 0 0 0)
                   [mktok KNewLine 0 1 0; mktok KWhitespace 1 1 2; mktok KCommentSingle 1 1 2;
                    mktok KNewLine 1 2 2]) = None.
Proof. reflexivity. Qed.

Print Assumptions access_parametric.
Print Assumptions consumer_parametric.
Print Assumptions needs_more_is_indentation.
Print Assumptions ctwc_abstract.
Print Assumptions norm_insert_blank_line.
