(* Encoders for the correspondence check of the precedence model (checks/c10.py):
   run_climb ts = (1, preorder encoding of the tree) | (0, [outcome tag])
   preorder: Leaf n -> [0; n]      Bin o l r -> [1; binop_code o] ++ enc l ++ enc r
   outcome tags: 1 = tokens left over, 2 = PNone, 3 = PErr, 4 = PFuel *)
From Coq Require Import NArith List.
From KV.syn Require Import SynBase GenPrecedence PrecModel.
Import ListNotations.
Open Scope N_scope.

Fixpoint enc_tree (t : tree) : list N :=
  match t with
  | Leaf n => [0; n]
  | Bin o l r => [1; binop_code o] ++ enc_tree l ++ enc_tree r
  end.

Definition run_climb (ts : list ptok) : N * list N :=
  match climb_res gen_prec ts with
  | POk t [] => (1, enc_tree t)
  | POk _ _ => (0, [1])
  | PNone => (0, [2])
  | PErr => (0, [3])
  | PFuel => (0, [4])
  end.
