(* C11  The formatter preserves meaning, keeps comments, is idempotent and total.
   PINNED statements only (proofs: FmtSpecProofs.v, SliceProofs.v).

   Only the two layers of crates/format that can be stated without its renderer are modelled:
   render_format_options as the inverse of StringFormatOptions::parse, and
   FormatContext::source_slice composed with the lexer's spans.  Both FAIL at full strength on the
   faithful model (that is what the real formatter does: `{z:x}` -> `{z}`, `é = 99` -> `é =  9`,
   `ééé=1` panics); each is proved outside a decidable class and refuted by a witness inside it.
   format_node / GroupBuilder / FormatItem::render / Trivia are NOT modelled: meaning preservation,
   comment preservation and idempotence of the formatter as a whole are searched (checks/c11.py),
   not proved. *)
From Coq Require Import NArith List Bool.
From KV.syn Require Import SynBase GenFmtSpec FmtSpecModel FmtSpecProofs SliceModel SliceProofs TriviaSkip.
Import ListNotations.
Open Scope N_scope.

(* ---- format options.  G = number of code points of the first extended grapheme cluster
   (unicode-segmentation), a parameter.  render_sfo iterates over the field list and the
   representation characters REGENERATED from render_format_options (koto 06483c8 made it write
   the representation; before that this statement was refuted by s = "x").

   For EVERY option string: re-parsing what the formatter writes gives the options the parser had.
   The only assumption is locality of grapheme segmentation (UAX#29 rules look one character past
   a boundary). *)
Theorem format_spec_roundtrip :
  forall G : list N -> nat,
    (forall (g : list N) (a : N) (t t' : list N),
       g <> [] -> is_align a = true -> G (g ++ a :: t) = length g -> G (g ++ a :: t') = length g) ->
    forall (s : list N) (o : sfo),
      parse_sfo G s = FOk o -> parse_sfo G (render_sfo o) = FOk o.
Proof. exact FmtSpecProofs.format_spec_roundtrip. Qed.
Print Assumptions format_spec_roundtrip.

(* the representation is part of what is written (the repaired defect was
   render_sfo o = render_sfo (set_repr o None)) *)
Theorem render_writes_representation :
  render_sfo (mksfo ADefault None None None (Some RHexLower))
  <> render_sfo (mksfo ADefault None None None None).
Proof. exact FmtSpecProofs.render_sfo_writes_representation. Qed.
Print Assumptions render_writes_representation.

(* ---- source slices.  width = the unicode-width oracle, a parameter *)
Theorem slice_is_token_text :
  forall (width : N -> N) (pre t post : list N),
    no_newline t ->
    (forall c : N, In c (line_prefix pre ++ t) -> width c = utf8_len c) ->
    source_slice (pre ++ t ++ post) (tok_span width pre t) = SliceOk t.
Proof. exact SliceProofs.slice_is_token_text. Qed.
Print Assumptions slice_is_token_text.

(* the line-offset table of FormatContext::new, for every source (CR LF included): the entry of a line is
   the byte index of its first character *)
Theorem line_offsets_spec :
  forall pre rest : list N,
    has_nl pre = true ->
    exists v : N,
      nth_error (line_offsets (pre ++ rest)) (N.to_nat (count_nl pre)) = Some v /\
      v + byte_len (line_prefix pre) = byte_len pre.
Proof. exact SliceProofs.line_offsets_spec. Qed.
Print Assumptions line_offsets_spec.

Example nv_line_offsets_crlf : line_offsets [97; 13; 10; 98; 99; 13; 10] = [0; 3; 7].
Proof. vm_compute; reflexivity. Qed.

(* `é = 99`: the number is re-read as " 9" *)
Theorem slice_refuted :
  let pre := [233; 32; 61; 32] in
  let t := [57; 57] in
  w_demo 233 = 1 /\
  source_slice (pre ++ t ++ []) (tok_span w_demo pre t) = SliceOk [32; 57] /\
  source_slice (pre ++ t ++ []) (tok_span w_demo pre t) <> SliceOk t /\
  non_ascii_before w_demo pre t = true.
Proof. exact SliceProofs.slice_refuted. Qed.
Print Assumptions slice_refuted.

(* `ééé=1`: the byte range ends inside a character: the Rust slice panics *)
Theorem slice_panics :
  tok_span w_demo [233; 233; 233; 61] [49] = (0, 4, 0, 5) /\
  source_slice ([233; 233; 233; 61] ++ [49] ++ []) (tok_span w_demo [233; 233; 233; 61] [49]) = SlicePanic.
Proof. exact SliceProofs.slice_panics_small. Qed.
Print Assumptions slice_panics.

(* ---- the only place where the formatter discards trivia: after copying a `#[fmt:skip]` node verbatim it
   skips the items "already captured in the node's span".  The comparison is regenerated from format.rs
   (gen_skip_test).  Spans are half-open: an item starting exactly at the node's end is outside. *)
Theorem gen_skip_test_spec : forall i e : pos, gen_skip_test i e = true <-> inside e i.
Proof. exact TriviaSkip.gen_skip_test_spec. Qed.
Print Assumptions gen_skip_test_spec.

(* a comment outside the copied region is never consumed -- for every list of trivia items *)
Theorem skip_keeps_outside :
  forall (e : pos) (items : list pos) (i : pos),
    In i items -> ~ inside e i -> In i (skip_captured e items).
Proof. exact TriviaSkip.skip_keeps_outside. Qed.
Print Assumptions skip_keeps_outside.

Example nv_skip_adjacent : skip_captured (3, 17) [(3, 12); (3, 17)] = [(3, 17)].
Proof. vm_compute; reflexivity. Qed.

(* ---- non-vacuity *)
Example nv_parse_08 :
  parse_sfo (fun _ => 1%nat) [48; 56] = FOk (mksfo ADefault (Some 8) None (Some [48]) None).
Proof. vm_compute; reflexivity. Qed.
Example nv_parse_render_x :
  render_sfo (mksfo ADefault None None None (Some RHexLower)) = [120]
  /\ parse_sfo (fun _ => 1%nat) [120] = FOk (mksfo ADefault None None None (Some RHexLower)).
Proof. vm_compute; split; reflexivity. Qed.
Example nv_render_roundtrip :
  parse_sfo (fun _ => 1%nat) (render_sfo (mksfo ACenter (Some 9) (Some 2) (Some [95]) None))
  = FOk (mksfo ACenter (Some 9) (Some 2) (Some [95]) None).
Proof. vm_compute; reflexivity. Qed.
Example nv_slice_ascii :
  source_slice ([120; 32; 61; 32] ++ [57; 57] ++ [10]) (tok_span w_demo [120; 32; 61; 32] [57; 57]) = SliceOk [57; 57].
Proof. vm_compute; reflexivity. Qed.
