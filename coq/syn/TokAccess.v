(* TokAccess: the parser's ONLY ways of looking at tokens
   (crates/parser/src/parser.rs, section "Lexer getters" and below), transcribed
   function by function.  Executable definitions only -- proofs are in
   TokAccessProofs.v.

   Rust state                           model
   ----------------------------------   ------------------------------------
   self.current_token : LexedToken      cur  : tok
   self.lexer (queue + unlexed input)   rest : list tok   (the tokens the lexer will still deliver, in order)
   LexedToken { token, span, indent }   tok  { tk; sline = span.start.line; eline = span.end.line; tindent }
   ExpressionContext                    ectx (all six fields)
   Indentation                          SynBase.indentation

   The `match context.expected_indentation` of peek_token_with_context and
   Token::is_whitespace are NOT transcribed by hand: they are regenerated from
   the Rust source into GenTokAccess.v (gen_indent_rule, gen_is_whitespace) on
   every run; the text of the functions transcribed here is fingerprinted by
   tools/k2v_syn.py. *)
From Coq Require Import NArith List Bool.
From KV.syn Require Import SynBase GenTokAccess.
Import ListNotations.
Open Scope N_scope.

Record tok := mktok { tk : kind; sline : N; eline : N; tindent : N }.

Record ectx := mkctx {
  allow_space_separated_call : bool;
  allow_linebreaks : bool;
  allow_map_block : bool;
  inside_braces : bool;
  expected_indentation : indentation;
  export_map_entries : bool }.

Record pstate := mkst { cur : tok; rest : list tok }.

(* LexedToken::default(): Token::Error, empty span, indent 0 *)
Definition tok_Error : N := 0.
Definition default_tok : tok := mktok (KTok tok_Error) 0 0 0.
Definition init_state (ts : list tok) : pstate := mkst default_tok ts.

(* ExpressionContext constructors *)
Definition ctx_restricted : ectx := mkctx false false false false IGreater false.
Definition ctx_permissive : ectx := mkctx true true false false IGreater false.
Definition ctx_inline : ectx := mkctx true false false false IGreater false.
Definition ctx_inside_braces : ectx := mkctx true true false true Flexible false.
Definition with_expected_indentation (c : ectx) (i : indentation) : ectx :=
  mkctx (allow_space_separated_call c) (allow_linebreaks c) (allow_map_block c) (inside_braces c) i
        (export_map_entries c).
Definition ctx_chain_start (c : ectx) : ectx :=
  let ei := match expected_indentation c with
            | Flexible | IEqual _ => IGreater
            | other => other
            end in
  mkctx (allow_space_separated_call c) (allow_linebreaks c) false (inside_braces c) ei false.

(* Token::is_whitespace / is_whitespace_including_newline *)
Definition is_whitespace (k : kind) : bool := gen_is_whitespace k.
Definition is_whitespace_including_newline (k : kind) : bool :=
  is_whitespace k || kind_eqb k KNewLine.

(* ---- raw getters *)

(* fn consume_token: `if let Some(next) = self.lexer.next() { self.current_token = next; Some(token) } else { None }` *)
Definition consume_token (st : pstate) : option kind * pstate :=
  match rest st with
  | [] => (None, st)
  | t :: r => (Some (tk t), mkst t r)
  end.

(* fn peek_token_n: self.lexer.peek(n).map(|p| p.token) *)
Definition peek_token_n (st : pstate) (n : nat) : option kind :=
  option_map tk (nth_error (rest st) n).
Definition peek_token (st : pstate) : option kind := peek_token_n st 0.

Definition current_line (st : pstate) : N := eline (cur st).
Definition current_indent (st : pstate) : N := tindent (cur st).

(* ---- peek_token_with_context *)

Record peekinfo := mkpeek { pi_token : kind; pi_count : N; pi_info : tok }.

(* the `while let Some(peeked) = self.lexer.peek(peek_count)` loop; l = the tokens from peek_count on *)
Fixpoint peek_loop (ctx : ectx) (start_indent : N) (l : list tok) (peek_count : N) (same_line : bool)
  : option peekinfo :=
  match l with
  | [] => None
  | p :: r =>
      match tk p with
      | KNewLine => peek_loop ctx start_indent r (peek_count + 1) false
      | KWhitespace | KCommentMulti | KCommentSingle => peek_loop ctx start_indent r (peek_count + 1) same_line
      | _ =>
          let result := Some (mkpeek (tk p) peek_count p) in
          if same_line then result
          else if allow_linebreaks ctx then
                 (if gen_indent_rule (expected_indentation ctx) (tindent p) start_indent then result else None)
               else None
      end
  end.

Definition peek_token_with_context (ctx : ectx) (st : pstate) : option peekinfo :=
  peek_loop ctx (current_indent st) (rest st) 0 true.

(* ---- consume_token_with_context *)

Definition is_greater (i : indentation) : bool :=
  match i with IGreater => true | _ => false end.

(* ExpressionContext { expected_indentation: Equal(indent), allow_map_block: true, ..*context } *)
Definition indented_block_ctx (c : ectx) (indent : N) : ectx :=
  mkctx (allow_space_separated_call c) (allow_linebreaks c) true (inside_braces c) (IEqual indent)
        (export_map_entries c).

(* `while let Some(token) = self.consume_token()`; c = current_token, l = what the lexer still holds *)
Fixpoint ctwc_loop (ctx : ectx) (start_line start_indent : N) (c : tok) (l : list tok)
  : option (kind * ectx) * pstate :=
  match l with
  | [] => (None, mkst c [])
  | t :: r =>
      (* consume_token(): current_token := t *)
      if is_whitespace_including_newline (tk t) then ctwc_loop ctx start_line start_indent t r
      else
        let is_indented_block :=
          (start_line <? eline t)            (* self.current_line() > start_line *)
          && (start_indent <? tindent t)     (* self.current_indent() > start_indent *)
          && allow_linebreaks ctx
          && is_greater (expected_indentation ctx) in
        let new_context := if is_indented_block then indented_block_ctx ctx (tindent t) else ctx in
        (Some (tk t, new_context), mkst t r)
  end.

Definition consume_token_with_context (ctx : ectx) (st : pstate) : option (kind * ectx) * pstate :=
  ctwc_loop ctx (current_line st) (current_indent st) (cur st) (rest st).

(* ---- consume_until_token_with_context *)

(* `while let Some(peeked) = self.lexer.peek(0)` *)
Fixpoint cutwc_loop (ctx : ectx) (start_line start_indent : N) (c : tok) (l : list tok)
  : option ectx * pstate :=
  match l with
  | [] => (None, mkst c [])
  | p :: r =>
      if is_whitespace_including_newline (tk p) then cutwc_loop ctx start_line start_indent p r
      else
        let is_indented_block :=
          (start_line <? sline p)            (* peeked.span.start.line > start_line *)
          && (start_indent <? tindent p)     (* peeked.indent > start_indent *)
          && allow_linebreaks ctx
          && is_greater (expected_indentation ctx) in
        let new_context := if is_indented_block then indented_block_ctx ctx (tindent p) else ctx in
        (Some new_context, mkst c l)
  end.

Definition consume_until_token_with_context (ctx : ectx) (st : pstate) : option ectx * pstate :=
  cutwc_loop ctx (current_line st) (current_indent st) (cur st) (rest st).

(* ---- same-line getters *)

(* peek_next_token_on_same_line(_with_span): first token that is not Token::is_whitespace *)
Fixpoint same_line_peek (l : list tok) : option tok :=
  match l with
  | [] => None
  | p :: r => if is_whitespace (tk p) then same_line_peek r else Some p
  end.

Definition peek_next_token_on_same_line (st : pstate) : option kind :=
  option_map tk (same_line_peek (rest st)).
Definition peek_next_token_on_same_line_with_span (st : pstate) : option (kind * (N * N)) :=
  option_map (fun p => (tk p, (sline p, eline p))) (same_line_peek (rest st)).

(* consume_until_next_token_on_same_line *)
Fixpoint cunt_loop (c : tok) (l : list tok) : pstate :=
  match l with
  | [] => mkst c []
  | p :: r => if is_whitespace (tk p) then cunt_loop p r else mkst c l
  end.
Definition consume_until_next_token_on_same_line (st : pstate) : pstate :=
  cunt_loop (cur st) (rest st).

(* consume_next_token_on_same_line: skips Token::is_whitespace tokens, then consumes the next
   token whatever it is (a NewLine included) *)
Fixpoint cnt_loop (c : tok) (l : list tok) : option kind * pstate :=
  match l with
  | [] => (None, mkst c [])
  | p :: r => if is_whitespace (tk p) then cnt_loop p r else (Some (tk p), mkst p r)
  end.
Definition consume_next_token_on_same_line (st : pstate) : option kind * pstate :=
  cnt_loop (cur st) (rest st).

(* ---- the block peek of parse_indented_block:
   `match self.peek_token_with_context(&permissive) { Some(peeked) if peeked.info.indent > start_indent => {} _ => return Ok(None) }`
   The callers turn Ok(None) into ExpectedIndentation::* errors (is_indentation_error). *)
Definition block_peek (st : pstate) : option peekinfo :=
  match peek_token_with_context ctx_permissive st with
  | Some p => if current_indent st <? tindent (pi_info p) then Some p else None
  | None => None
  end.
