(* Impl-shaped model of the operator-precedence climbing in
   /repo/crates/parser/src/parser.rs:
     parse_expression_start / parse_expression_continued / operator_precedence,
   over a token list of atoms, binary operators and round parentheses.

   The model is PARAMETERISED by the table `prec : binop -> N * N`
   (= (left_priority, right_priority) of `fn operator_precedence`); the table
   transcribed from the Rust source is GenPrecedence.gen_prec.

   What is kept from the Rust code: the three mutually recursive routines, the
   test `left_priority >= min_precedence`, the rhs parsed by
   parse_expression_start with `right_priority`, the tail call
   parse_expression_continued(op_node, .., min_precedence, ..) with the SAME
   min_precedence, `Ok(None)` (no term) vs `Err(..)` as distinct outcomes.
   What is abstracted: indentation contexts, spans, assignment `=`, ranges,
   commas, chains; terms are atoms or `( expr )`.  The real parser wraps a
   parenthesised single expression in a `Nested` node (consume_tuple); the
   correspondence check collapses `Nested`, so here `( e )` yields e's tree.
   `()` (the empty tuple in koto) and `(a, b)` are outside the model: the
   model reports PErr for them and the check never generates them.

   nat is used for fuel only.  No proofs in this file. *)
From Coq Require Import NArith List Bool.
From KV.syn Require Import SynBase.
Import ListNotations.
Open Scope N_scope.

Inductive ptok := PAtom (n : N) | POp (o : binop) | PLParen | PRParen.

Inductive tree := Leaf (n : N) | Bin (o : binop) (l r : tree).

(* Result<Option<AstIndex>> plus the remaining tokens:
     POk t rest  = Ok(Some(t)), parser now positioned at `rest`
     PNone       = Ok(None)   (nothing consumed: no term here)
     PErr        = Err(..)
     PFuel       = the model ran out of fuel (never happens from `climb`,
                   PrecProofs.climb_deterministic_total) *)
Inductive pres :=
| POk (t : tree) (rest : list ptok)
| PNone
| PErr
| PFuel.

Section Climb.
Variable prec : binop -> N * N.

Fixpoint parse_term (fuel : nat) (ts : list ptok) : pres :=
  match fuel with
  | O => PFuel
  | S fuel =>
    match ts with
    | PAtom n :: rest => POk (Leaf n) rest
    | PLParen :: rest =>
        (* consume_tuple with exactly one entry: parse_expression (min_precedence 0),
           then expect_and_consume_token(RoundClose, ExpectedCloseParen) *)
        match parse_expression_start fuel 0 rest with
        | POk t (PRParen :: rest') => POk t rest'
        | POk _ _ => PErr
        | PNone => PErr
        | PErr => PErr
        | PFuel => PFuel
        end
    | _ => PNone
    end
  end

(* fn parse_expression_start(&mut self, _, min_precedence, context) *)
with parse_expression_start (fuel : nat) (min_precedence : N) (ts : list ptok) : pres :=
  match fuel with
  | O => PFuel
  | S fuel =>
    (* let Some(expression_start) = self.parse_term(context)? else { return Ok(None) }; *)
    match parse_term fuel ts with
    | POk expression_start rest =>
        parse_expression_continued fuel expression_start min_precedence rest
    | PNone => PNone
    | PErr => PErr
    | PFuel => PFuel
    end
  end

(* fn parse_expression_continued(&mut self, expression_start, _, _, min_precedence, context) *)
with parse_expression_continued (fuel : nat) (expression_start : tree) (min_precedence : N)
                                (ts : list ptok) : pres :=
  match fuel with
  | O => PFuel
  | S fuel =>
    match ts with
    | POp op :: rest =>
        let '(left_priority, right_priority) := prec op in
        (* && left_priority >= min_precedence *)
        if min_precedence <=? left_priority then
          (* let Some(rhs) = self.parse_expression_start(&[], right_priority, ..)?
               else { return self.error(ExpectedIndentation::RhsExpression) }; *)
          match parse_expression_start fuel right_priority rest with
          | POk rhs rest' =>
              (* return self.parse_expression_continued(op_node, .., min_precedence, ..) *)
              parse_expression_continued fuel (Bin op expression_start rhs) min_precedence rest'
          | PNone => PErr
          | PErr => PErr
          | PFuel => PFuel
          end
        else POk expression_start ts
    | _ => POk expression_start ts
    end
  end.

(* Enough for every token list (PrecProofs.climb_deterministic_total): each of the three
   routines spends one unit per call, and a token causes at most two calls. *)
Definition climb_fuel (ts : list ptok) : nat := 2 * length ts + 2.

(* A whole-input parse: an expression at min_precedence 0 that consumes every token. *)
Definition climb_res (ts : list ptok) : pres :=
  parse_expression_start (climb_fuel ts) 0 ts.

Definition climb (ts : list ptok) : option tree :=
  match climb_res ts with
  | POk t [] => Some t
  | _ => None
  end.

End Climb.
