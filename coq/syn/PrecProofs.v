(* Proofs about the precedence-climbing model (PrecModel) against the conventional
   precedence / associativity specification (PrecSpec) and the table generated from
   the Rust source (GenPrecedence).

   Main results
     gen_prec_eq_spec            the Rust table IS the conventional table
     prec_roundtrip_any          for ANY table p: climb p (flat p 0 None t) = Some t
     prec_roundtrip(_gen)        climb (flatten t) = Some t, every tree, no hypothesis
     flatten_eq_conv             the printer = the textbook level/assoc printer
     climb_deterministic_total   climb's fuel always suffices; more fuel changes nothing
     mul_binds_tighter_than_add, sub_left_assoc, pow_highest, comparison_below_arith,
     and_over_or, pipe_lowest, ...   on the GENERATED table, for all operand subtrees *)
From Coq Require Import NArith List Bool Lia Arith.
From KV.syn Require Import SynBase GenPrecedence PrecModel PrecSpec.
Import ListNotations.
Open Scope N_scope.

(* ------------------------------------------------------------------ *)
(* 1. the generated table is the conventional one                      *)
(* ------------------------------------------------------------------ *)

Theorem gen_prec_eq_spec : forall o, gen_prec o = spec_prec o.
Proof. destruct o; reflexivity. Qed.

(* ------------------------------------------------------------------ *)
(* Generic facts about the three routines, for an arbitrary table       *)
(* ------------------------------------------------------------------ *)

Section Generic.
Variable prec : binop -> N * N.

Notation pterm := (parse_term prec).
Notation pes := (parse_expression_start prec).
Notation pec := (parse_expression_continued prec).

Lemma pterm_S f ts :
  pterm (S f) ts =
  match ts with
  | PAtom n :: rest => POk (Leaf n) rest
  | PLParen :: rest =>
      match pes f 0 rest with
      | POk t (PRParen :: rest') => POk t rest'
      | POk _ _ => PErr
      | PNone => PErr
      | PErr => PErr
      | PFuel => PFuel
      end
  | _ => PNone
  end.
Proof. reflexivity. Qed.

Lemma pes_S f m ts :
  pes (S f) m ts =
  match pterm f ts with
  | POk lhs rest => pec f lhs m rest
  | PNone => PNone
  | PErr => PErr
  | PFuel => PFuel
  end.
Proof. reflexivity. Qed.

Lemma pec_S f lhs m ts :
  pec (S f) lhs m ts =
  match ts with
  | POp op :: rest =>
      let '(lp, rp) := prec op in
      if m <=? lp then
        match pes f rp rest with
        | POk rhs rest' => pec f (Bin op lhs rhs) m rest'
        | PNone => PErr
        | PErr => PErr
        | PFuel => PFuel
        end
      else POk lhs ts
  | _ => POk lhs ts
  end.
Proof. reflexivity. Qed.

(* More fuel never changes a result that is not "out of fuel". *)
Lemma fuel_mono : forall f,
  (forall ts, pterm f ts <> PFuel -> forall f', (f <= f')%nat -> pterm f' ts = pterm f ts) /\
  (forall m ts, pes f m ts <> PFuel -> forall f', (f <= f')%nat -> pes f' m ts = pes f m ts) /\
  (forall lhs m ts, pec f lhs m ts <> PFuel ->
      forall f', (f <= f')%nat -> pec f' lhs m ts = pec f lhs m ts).
Proof.
  induction f as [|f [IHt [IHs IHc]]].
  - repeat split; intros; exfalso; apply H; reflexivity.
  - repeat split.
    + intros ts H f' Hle. destruct f' as [|f']; [lia|].
      rewrite pterm_S in H. rewrite !pterm_S. destruct ts as [|[n|o| |] rest]; try reflexivity.
      assert (Hs : pes f 0 rest <> PFuel) by (intro E; rewrite E in H; apply H; reflexivity).
      rewrite (IHs _ _ Hs f') by lia. reflexivity.
    + intros m ts H f' Hle. destruct f' as [|f']; [lia|].
      rewrite pes_S in H. rewrite !pes_S.
      assert (Ht : pterm f ts <> PFuel) by (intro E; rewrite E in H; apply H; reflexivity).
      rewrite (IHt _ Ht f') by lia.
      destruct (pterm f ts); try reflexivity.
      apply IHc; [exact H | lia].
    + intros lhs m ts H f' Hle. destruct f' as [|f']; [lia|].
      rewrite pec_S in H. rewrite !pec_S. destruct ts as [|[n|o| |] rest]; try reflexivity.
      destruct (prec o) as [lp rp]. destruct (m <=? lp); try reflexivity.
      assert (Hs : pes f rp rest <> PFuel) by (intro E; rewrite E in H; apply H; reflexivity).
      rewrite (IHs _ _ Hs f') by lia.
      destruct (pes f rp rest); try reflexivity.
      apply IHc; [exact H | lia].
Qed.

(* A successful parse consumes tokens (a term: at least one; a continuation: maybe none). *)
Lemma rest_length : forall f,
  (forall ts t r, pterm f ts = POk t r -> (length r < length ts)%nat) /\
  (forall m ts t r, pes f m ts = POk t r -> (length r < length ts)%nat) /\
  (forall lhs m ts t r, pec f lhs m ts = POk t r -> (length r <= length ts)%nat).
Proof.
  induction f as [|f [IHt [IHs IHc]]].
  - repeat split; intros; discriminate.
  - repeat split.
    + intros ts t r H. rewrite pterm_S in H.
      destruct ts as [|[n|o| |] rest]; try discriminate.
      * inversion H; subst. simpl. lia.
      * destruct (pes f 0 rest) as [t' r'| | |] eqn:E; try discriminate.
        destruct r' as [|[n|o| |] r'']; try discriminate.
        inversion H; subst. apply IHs in E. simpl in *. lia.
    + intros m ts t r H. rewrite pes_S in H.
      destruct (pterm f ts) as [t' r'| | |] eqn:E; try discriminate.
      apply IHt in E. apply IHc in H. lia.
    + intros lhs m ts t r H. rewrite pec_S in H.
      destruct ts as [|[n|o| |] rest]; try (inversion H; subst; simpl; lia).
      destruct (prec o) as [lp rp]. destruct (m <=? lp).
      * destruct (pes f rp rest) as [t' r'| | |] eqn:E; try discriminate.
        apply IHs in E. apply IHc in H. simpl. lia.
      * inversion H; subst. simpl. lia.
Qed.

(* Fuel 2*|ts|+1 (term, continuation) / 2*|ts|+2 (expression) is always enough. *)
Lemma fuel_enough : forall f,
  (forall ts, (2 * length ts + 1 <= f)%nat -> pterm f ts <> PFuel) /\
  (forall m ts, (2 * length ts + 2 <= f)%nat -> pes f m ts <> PFuel) /\
  (forall lhs m ts, (2 * length ts + 1 <= f)%nat -> pec f lhs m ts <> PFuel).
Proof.
  induction f as [|f [IHt [IHs IHc]]].
  - repeat split; intros; lia.
  - repeat split.
    + intros ts H. rewrite pterm_S.
      destruct ts as [|[n|o| |] rest]; try discriminate.
      simpl in H.
      assert (Hs : pes f 0 rest <> PFuel) by (apply IHs; lia).
      destruct (pes f 0 rest) as [t' r'| | |]; try discriminate; [|congruence].
      destruct r' as [|[n|o| |] r'']; discriminate.
    + intros m ts H. rewrite pes_S.
      assert (Ht : pterm f ts <> PFuel) by (apply IHt; lia).
      destruct (pterm f ts) as [t' r'| | |] eqn:E; try discriminate; [|congruence].
      apply (proj1 (rest_length f)) in E. apply IHc. lia.
    + intros lhs m ts H. rewrite pec_S.
      destruct ts as [|[n|o| |] rest]; try discriminate.
      destruct (prec o) as [lp rp]. destruct (m <=? lp); try discriminate.
      simpl in H.
      assert (Hs : pes f rp rest <> PFuel) by (apply IHs; lia).
      destruct (pes f rp rest) as [t' r'| | |] eqn:E; try discriminate; [|congruence].
      apply (proj1 (proj2 (rest_length f))) in E. apply IHc. lia.
Qed.

(* ---- fuel-free ("big-step") view: some fuel gives this non-PFuel result ---- *)
Definition Term (ts : list ptok) (res : pres) : Prop :=
  exists f, pterm f ts = res /\ res <> PFuel.
Definition Start (m : N) (ts : list ptok) (res : pres) : Prop :=
  exists f, pes f m ts = res /\ res <> PFuel.
Definition Cont (lhs : tree) (m : N) (ts : list ptok) (res : pres) : Prop :=
  exists f, pec f lhs m ts = res /\ res <> PFuel.

Lemma pterm_lift f f' ts res :
  pterm f ts = res -> res <> PFuel -> (f <= f')%nat -> pterm f' ts = res.
Proof.
  intros E H L. rewrite <- E. apply (proj1 (fuel_mono f)); [rewrite E; exact H | exact L].
Qed.
Lemma pes_lift f f' m ts res :
  pes f m ts = res -> res <> PFuel -> (f <= f')%nat -> pes f' m ts = res.
Proof.
  intros E H L. rewrite <- E.
  apply (proj1 (proj2 (fuel_mono f))); [rewrite E; exact H | exact L].
Qed.
Lemma pec_lift f f' lhs m ts res :
  pec f lhs m ts = res -> res <> PFuel -> (f <= f')%nat -> pec f' lhs m ts = res.
Proof.
  intros E H L. rewrite <- E.
  apply (proj2 (proj2 (fuel_mono f))); [rewrite E; exact H | exact L].
Qed.

Lemma Term_atom n r : Term (PAtom n :: r) (POk (Leaf n) r).
Proof. exists 1%nat. split; [reflexivity | discriminate]. Qed.

Lemma Term_paren r t r' :
  Start 0 r (POk t (PRParen :: r')) -> Term (PLParen :: r) (POk t r').
Proof.
  intros [f [E _]]. exists (S f). split; [|discriminate].
  rewrite pterm_S, E. reflexivity.
Qed.

Lemma Start_intro m ts lhs r res :
  Term ts (POk lhs r) -> Cont lhs m r res -> Start m ts res.
Proof.
  intros [f1 [E1 H1]] [f2 [E2 H2]]. exists (S (Nat.max f1 f2)). split; [|exact H2].
  rewrite pes_S.
  rewrite (pterm_lift f1 (Nat.max f1 f2) _ _ E1 H1) by lia.
  apply (pec_lift f2); [exact E2 | exact H2 | lia].
Qed.

Lemma Cont_op lhs m o r rhs r' res :
  m <= fst (prec o) ->
  Start (snd (prec o)) r (POk rhs r') ->
  Cont (Bin o lhs rhs) m r' res ->
  Cont lhs m (POp o :: r) res.
Proof.
  intros Hm [f1 [E1 H1]] [f2 [E2 H2]]. exists (S (Nat.max f1 f2)). split; [|exact H2].
  rewrite pec_S. destruct (prec o) as [lp rp]. simpl in *.
  apply N.leb_le in Hm. rewrite Hm.
  rewrite (pes_lift f1 (Nat.max f1 f2) _ _ _ E1 H1) by lia.
  apply (pec_lift f2); [exact E2 | exact H2 | lia].
Qed.

Lemma Cont_nil lhs m : Cont lhs m [] (POk lhs []).
Proof. exists 1%nat. split; [reflexivity | discriminate]. Qed.

Lemma Cont_rparen lhs m r : Cont lhs m (PRParen :: r) (POk lhs (PRParen :: r)).
Proof. exists 1%nat. split; [reflexivity | discriminate]. Qed.

Lemma Cont_op_stop lhs m o r :
  fst (prec o) < m -> Cont lhs m (POp o :: r) (POk lhs (POp o :: r)).
Proof.
  intros Hm. exists 1%nat. split; [|discriminate].
  rewrite pec_S. destruct (prec o) as [lp rp]. simpl in *.
  apply N.leb_gt in Hm. rewrite Hm. reflexivity.
Qed.

Lemma climb_res_of_Start ts res :
  Start 0 ts res -> climb_res prec ts = res.
Proof.
  intros [f [E H]]. unfold climb_res.
  assert (T : pes (climb_fuel ts) 0 ts <> PFuel).
  { apply (proj1 (proj2 (fuel_enough (climb_fuel ts)))). unfold climb_fuel. lia. }
  rewrite <- (proj1 (proj2 (fuel_mono (climb_fuel ts))) 0 ts T (Nat.max f (climb_fuel ts)))
    by lia.
  apply (pes_lift f); [exact E | exact H | lia].
Qed.

Lemma climb_of_Start ts t : Start 0 ts (POk t []) -> climb prec ts = Some t.
Proof. intros H. unfold climb. rewrite (climb_res_of_Start _ _ H). reflexivity. Qed.

(* ---- the round trip, for an arbitrary table ---- *)

(* what may come right after a subtree printed with `follow` *)
Definition compat (follow : option binop) (rest : list ptok) : Prop :=
  match follow with
  | None => rest = [] \/ exists r, rest = PRParen :: r
  | Some f => exists r, rest = POp f :: r
  end.

(* Parsing the printed form of t as the start of an expression at level m is the same as
   HAVING t as the left operand and continuing at level m with what follows. *)
Lemma start_flat : forall t m follow rest res,
  compat follow rest ->
  Cont t m rest res ->
  Start m (flat prec m follow t ++ rest) res.
Proof.
  induction t as [n | o l IHl r IHr]; intros m follow rest res Hc HC.
  - simpl. eapply Start_intro; [apply Term_atom | exact HC].
  - assert (body : forall m' follow' rest' res',
        m' <= fst (prec o) ->
        compat follow' rest' ->
        match follow' with Some f => fst (prec f) < snd (prec o) | None => True end ->
        Cont (Bin o l r) m' rest' res' ->
        Start m' (flat prec m' (Some o) l ++
                  POp o :: flat prec (snd (prec o)) follow' r ++ rest') res').
    { intros m' follow' rest' res' Hm Hc' Hf HC'.
      apply IHl; [eexists; reflexivity|].
      eapply Cont_op; [exact Hm | | exact HC'].
      apply IHr; [exact Hc'|].
      destruct follow' as [f|]; simpl in Hc'.
      - destruct Hc' as [r0 ->]. apply Cont_op_stop. exact Hf.
      - destruct Hc' as [-> | [r0 ->]]; [apply Cont_nil | apply Cont_rparen]. }
    simpl. destruct (needs_parens prec m follow o) eqn:W.
    + simpl. rewrite <- !app_assoc. simpl.
      eapply Start_intro; [|exact HC].
      apply Term_paren.
      apply body.
      * apply N.le_0_l.
      * right. eexists; reflexivity.
      * exact I.
      * apply Cont_rparen.
    + rewrite <- !app_assoc. simpl.
      unfold needs_parens in W. apply orb_false_iff in W. destruct W as [W1 W2].
      apply body; [apply N.ltb_ge; exact W1 | exact Hc | | exact HC].
      destruct follow as [f|]; [|exact I].
      apply N.leb_gt. exact W2.
Qed.

Theorem prec_roundtrip_any : forall t, climb prec (flat prec 0 None t) = Some t.
Proof.
  intros t. apply climb_of_Start.
  rewrite <- (app_nil_r (flat prec 0 None t)).
  apply start_flat; [left; reflexivity | apply Cont_nil].
Qed.

(* ---- 4. totality / fuel independence ---- *)
Theorem climb_deterministic_total : forall ts,
  climb_res prec ts <> PFuel /\
  forall fuel, (climb_fuel ts <= fuel)%nat ->
    parse_expression_start prec fuel 0 ts = climb_res prec ts.
Proof.
  intros ts.
  assert (T : pes (climb_fuel ts) 0 ts <> PFuel).
  { apply (proj1 (proj2 (fuel_enough (climb_fuel ts)))). unfold climb_fuel. lia. }
  split; [exact T|].
  intros fuel H. unfold climb_res.
  apply (proj1 (proj2 (fuel_mono (climb_fuel ts)))); assumption.
Qed.

End Generic.

(* ---- pointwise-equal tables give the same parser ---- *)
Section Ext.
Variables p q : binop -> N * N.
Hypothesis pq : forall o, p o = q o.

Lemma routines_ext : forall f,
  (forall ts, parse_term p f ts = parse_term q f ts) /\
  (forall m ts, parse_expression_start p f m ts = parse_expression_start q f m ts) /\
  (forall lhs m ts,
     parse_expression_continued p f lhs m ts = parse_expression_continued q f lhs m ts).
Proof.
  induction f as [|f [IHt [IHs IHc]]].
  - repeat split; reflexivity.
  - repeat split.
    + intros ts. rewrite !pterm_S. destruct ts as [|[n|o| |] rest]; try reflexivity.
      rewrite IHs. reflexivity.
    + intros m ts. rewrite !pes_S, IHt. destruct (parse_term q f ts); try reflexivity.
      apply IHc.
    + intros lhs m ts. rewrite !pec_S. destruct ts as [|[n|o| |] rest]; try reflexivity.
      rewrite pq. destruct (q o) as [lp rp]. destruct (m <=? lp); try reflexivity.
      rewrite IHs. destruct (parse_expression_start q f rp rest); try reflexivity.
      apply IHc.
Qed.

Lemma climb_res_ext ts : climb_res p ts = climb_res q ts.
Proof. unfold climb_res. apply (proj1 (proj2 (routines_ext _))). Qed.

Lemma climb_ext ts : climb p ts = climb q ts.
Proof. unfold climb. rewrite climb_res_ext. reflexivity. Qed.
End Ext.

(* ------------------------------------------------------------------ *)
(* 2. the round trip                                                    *)
(* ------------------------------------------------------------------ *)

Theorem prec_roundtrip : forall t, climb spec_prec (flatten t) = Some t.
Proof. intros t. apply prec_roundtrip_any. Qed.

Theorem prec_roundtrip_gen : forall t, climb gen_prec (flatten t) = Some t.
Proof.
  intros t. rewrite (climb_ext gen_prec spec_prec gen_prec_eq_spec). apply prec_roundtrip.
Qed.

(* The printer is injective: two different trees never print the same. *)
Corollary flatten_injective : forall t u, flatten t = flatten u -> t = u.
Proof.
  intros t u H. pose proof (prec_roundtrip t) as Ht. rewrite H, prec_roundtrip in Ht.
  congruence.
Qed.

(* ------------------------------------------------------------------ *)
(* The printer is the textbook level / associativity printer            *)
(* ------------------------------------------------------------------ *)

Lemma tbl_left : forall o o',
  (snd (spec_prec o') <=? fst (spec_prec o)) = child_needs_parens AssocLeft o o'.
Proof. destruct o, o'; reflexivity. Qed.

Lemma tbl_left_lt : forall o o',
  (fst (spec_prec o') <? fst (spec_prec o)) = true ->
  (snd (spec_prec o') <=? fst (spec_prec o)) = true.
Proof. destruct o, o'; vm_compute; intros H; first [reflexivity | discriminate H]. Qed.

Lemma tbl_right : forall o o',
  (fst (spec_prec o') <? snd (spec_prec o)) = child_needs_parens AssocRight o o'.
Proof. destruct o, o'; reflexivity. Qed.

Lemma tbl_right_lt : forall o o',
  (snd (spec_prec o') <? snd (spec_prec o)) = true ->
  (fst (spec_prec o') <? snd (spec_prec o)) = true.
Proof. destruct o, o'; vm_compute; intros H; first [reflexivity | discriminate H]. Qed.

Lemma flat_conv : forall t m follow,
  flat spec_prec m follow t =
  paren_if (match top_op t with
            | Some o => needs_parens spec_prec m follow o
            | None => false
            end) (conv t).
Proof.
  induction t as [n | o l IHl r IHr]; intros m follow; [reflexivity|].
  assert (L : forall m', m' <= fst (spec_prec o) ->
      flat spec_prec m' (Some o) l = paren_if (child_parens AssocLeft o l) (conv l)).
  { intros m' Hm. rewrite IHl. f_equal. unfold child_parens.
    destruct l as [n | o' l1 l2]; [reflexivity|]. simpl. unfold needs_parens.
    rewrite <- tbl_left.
    destruct (fst (spec_prec o') <? m') eqn:E; [|reflexivity].
    simpl. symmetry. apply tbl_left_lt. apply N.ltb_lt. apply N.ltb_lt in E. lia. }
  assert (R : forall follow',
      match follow' with Some f => fst (spec_prec f) < snd (spec_prec o) | None => True end ->
      flat spec_prec (snd (spec_prec o)) follow' r =
      paren_if (child_parens AssocRight o r) (conv r)).
  { intros follow' Hf. rewrite IHr. f_equal. unfold child_parens.
    destruct r as [n | o' r1 r2]; [reflexivity|]. simpl. unfold needs_parens.
    rewrite <- tbl_right.
    destruct follow' as [f|]; [|apply orb_false_r].
    destruct (snd (spec_prec o') <=? fst (spec_prec f)) eqn:E; [|apply orb_false_r].
    rewrite orb_true_r. symmetry. apply tbl_right_lt.
    apply N.ltb_lt. apply N.leb_le in E. lia. }
  simpl. destruct (needs_parens spec_prec m follow o) eqn:W; simpl.
  - rewrite L by apply N.le_0_l. rewrite R by exact I. reflexivity.
  - unfold needs_parens in W. apply orb_false_iff in W. destruct W as [W1 W2].
    rewrite L by (apply N.ltb_ge; exact W1).
    rewrite R; [reflexivity|].
    destruct follow as [f|]; [|exact I]. apply N.leb_gt. exact W2.
Qed.

Theorem flatten_eq_conv : forall t, flatten t = conv t.
Proof.
  intros t. unfold flatten. rewrite flat_conv.
  destruct t as [n | o l r]; [reflexivity|]. simpl.
  unfold needs_parens. rewrite orb_false_r.
  destruct (fst (spec_prec o)); reflexivity.
Qed.

Corollary prec_roundtrip_conv : forall t, climb gen_prec (conv t) = Some t.
Proof. intros t. rewrite <- flatten_eq_conv. apply prec_roundtrip_gen. Qed.

(* ------------------------------------------------------------------ *)
(* 3. conventional-precedence corollaries on the GENERATED table,       *)
(*    for ALL operand subtrees (each operand printed by `par`: an atom   *)
(*    as is, anything else parenthesised)                                *)
(* ------------------------------------------------------------------ *)

Lemma Term_par t rest : Term spec_prec (par t ++ rest) (POk t rest).
Proof.
  destruct t as [n | o l r]; [apply Term_atom|].
  unfold par. simpl. rewrite <- app_assoc. simpl.
  apply Term_paren. unfold flatten.
  apply start_flat; [right; eexists; reflexivity | apply Cont_rparen].
Qed.

Ltac prec_start :=
  eapply Start_intro; [apply Term_par | prec_cont]
with prec_cont :=
  first
    [ apply Cont_nil
    | apply Cont_rparen
    | apply Cont_op_stop; vm_compute; reflexivity
    | eapply Cont_op; [vm_compute; discriminate | prec_start | prec_cont] ].

Ltac prec_solve last :=
  intros;
  rewrite (climb_ext gen_prec spec_prec gen_prec_eq_spec);
  apply climb_of_Start;
  rewrite <- (app_nil_r (par last));
  simpl app;
  prec_start.

(* a + b * c = a + (b * c) *)
Theorem mul_binds_tighter_than_add : forall a b c,
  climb gen_prec (par a ++ [POp OpAdd] ++ par b ++ [POp OpMultiply] ++ par c)
  = Some (Bin OpAdd a (Bin OpMultiply b c)).
Proof. intros a b c. prec_solve c. Qed.

(* a * b + c = (a * b) + c *)
Theorem mul_binds_tighter_than_add_l : forall a b c,
  climb gen_prec (par a ++ [POp OpMultiply] ++ par b ++ [POp OpAdd] ++ par c)
  = Some (Bin OpAdd (Bin OpMultiply a b) c).
Proof. intros a b c. prec_solve c. Qed.

(* a - b - c = (a - b) - c *)
Theorem sub_left_assoc : forall a b c,
  climb gen_prec (par a ++ [POp OpSubtract] ++ par b ++ [POp OpSubtract] ++ par c)
  = Some (Bin OpSubtract (Bin OpSubtract a b) c).
Proof. intros a b c. prec_solve c. Qed.

(* a ^ b ^ c = (a ^ b) ^ c  (koto's `^` is left-associative) *)
Theorem pow_left_assoc : forall a b c,
  climb gen_prec (par a ++ [POp OpPower] ++ par b ++ [POp OpPower] ++ par c)
  = Some (Bin OpPower (Bin OpPower a b) c).
Proof. intros a b c. prec_solve c. Qed.

(* `^` binds tighter than every other operator, on either side:
   a o b ^ c = a o (b ^ c)   and   a ^ b o c = (a ^ b) o c *)
Theorem pow_highest : forall o a b c, o <> OpPower ->
  climb gen_prec (par a ++ [POp o] ++ par b ++ [POp OpPower] ++ par c)
  = Some (Bin o a (Bin OpPower b c)) /\
  climb gen_prec (par a ++ [POp OpPower] ++ par b ++ [POp o] ++ par c)
  = Some (Bin o (Bin OpPower a b) c).
Proof.
  intros o a b c Ho.
  destruct o; try (exfalso; apply Ho; reflexivity); split; prec_solve c.
Qed.

(* a + b < c + d = (a + b) < (c + d) *)
Theorem comparison_below_arith : forall a b c d,
  climb gen_prec (par a ++ [POp OpAdd] ++ par b ++ [POp OpLess] ++
                  par c ++ [POp OpAdd] ++ par d)
  = Some (Bin OpLess (Bin OpAdd a b) (Bin OpAdd c d)).
Proof. intros a b c d. prec_solve d. Qed.

(* a < b == c < d = (a < b) == (c < d) ; a < b < c = a < (b < c) (chained comparison) *)
Theorem equality_below_ordering : forall a b c d,
  climb gen_prec (par a ++ [POp OpLess] ++ par b ++ [POp OpEqual] ++
                  par c ++ [POp OpLess] ++ par d)
  = Some (Bin OpEqual (Bin OpLess a b) (Bin OpLess c d)).
Proof. intros a b c d. prec_solve d. Qed.

Theorem comparison_right_nested : forall a b c,
  climb gen_prec (par a ++ [POp OpLess] ++ par b ++ [POp OpLessOrEqual] ++ par c)
  = Some (Bin OpLess a (Bin OpLessOrEqual b c)).
Proof. intros a b c. prec_solve c. Qed.

(* a or b and c = a or (b and c) *)
Theorem and_over_or : forall a b c,
  climb gen_prec (par a ++ [POp OpOr] ++ par b ++ [POp OpAnd] ++ par c)
  = Some (Bin OpOr a (Bin OpAnd b c)).
Proof. intros a b c. prec_solve c. Qed.

(* a and b or c = (a and b) or c *)
Theorem and_over_or_l : forall a b c,
  climb gen_prec (par a ++ [POp OpAnd] ++ par b ++ [POp OpOr] ++ par c)
  = Some (Bin OpOr (Bin OpAnd a b) c).
Proof. intros a b c. prec_solve c. Qed.

(* a == b and c == d = (a == b) and (c == d) *)
Theorem logic_below_comparison : forall a b c d,
  climb gen_prec (par a ++ [POp OpEqual] ++ par b ++ [POp OpAnd] ++
                  par c ++ [POp OpEqual] ++ par d)
  = Some (Bin OpAnd (Bin OpEqual a b) (Bin OpEqual c d)).
Proof. intros a b c d. prec_solve d. Qed.

(* a += b -= c = a += (b -= c) ; a += b or c = a += (b or c) *)
Theorem compound_assign_right_assoc : forall a b c,
  climb gen_prec (par a ++ [POp OpAddAssign] ++ par b ++ [POp OpSubtractAssign] ++ par c)
  = Some (Bin OpAddAssign a (Bin OpSubtractAssign b c)).
Proof. intros a b c. prec_solve c. Qed.

Theorem compound_assign_below_or : forall a b c,
  climb gen_prec (par a ++ [POp OpAddAssign] ++ par b ++ [POp OpOr] ++ par c)
  = Some (Bin OpAddAssign a (Bin OpOr b c)).
Proof. intros a b c. prec_solve c. Qed.

(* `->` binds looser than every other operator, on either side:
   a -> b o c = a -> (b o c)   and   a o b -> c = (a o b) -> c *)
Theorem pipe_lowest : forall o a b c, o <> OpPipe ->
  climb gen_prec (par a ++ [POp OpPipe] ++ par b ++ [POp o] ++ par c)
  = Some (Bin OpPipe a (Bin o b c)) /\
  climb gen_prec (par a ++ [POp o] ++ par b ++ [POp OpPipe] ++ par c)
  = Some (Bin OpPipe (Bin o a b) c).
Proof.
  intros o a b c Ho.
  destruct o; try (exfalso; apply Ho; reflexivity); split; prec_solve c.
Qed.

(* a -> b -> c = (a -> b) -> c *)
Theorem pipe_left_assoc : forall a b c,
  climb gen_prec (par a ++ [POp OpPipe] ++ par b ++ [POp OpPipe] ++ par c)
  = Some (Bin OpPipe (Bin OpPipe a b) c).
Proof. intros a b c. prec_solve c. Qed.

(* non-vacuity: operands that are themselves compound *)
Example mul_add_compound :
  climb gen_prec (par (Bin OpOr (Leaf 0) (Leaf 1)) ++ [POp OpAdd] ++ par (Leaf 2) ++
                  [POp OpMultiply] ++ par (Bin OpAdd (Leaf 3) (Leaf 4)))
  = Some (Bin OpAdd (Bin OpOr (Leaf 0) (Leaf 1))
                    (Bin OpMultiply (Leaf 2) (Bin OpAdd (Leaf 3) (Leaf 4)))).
Proof. vm_compute; reflexivity. Qed.

(* errors are distinguished from "no expression" and from leftover input *)
Example climb_res_missing_rhs :
  climb_res gen_prec [PAtom 0; POp OpAdd] = PErr.
Proof. vm_compute; reflexivity. Qed.
Example climb_res_empty : climb_res gen_prec [] = PNone.
Proof. vm_compute; reflexivity. Qed.
Example climb_res_leftover :
  climb_res gen_prec [PAtom 0; PRParen] = POk (Leaf 0) [PRParen].
Proof. vm_compute; reflexivity. Qed.
Example climb_res_unclosed :
  climb_res gen_prec [PLParen; PAtom 0; POp OpAdd; PAtom 1] = PErr.
Proof. vm_compute; reflexivity. Qed.

Print Assumptions gen_prec_eq_spec.
Print Assumptions prec_roundtrip.
Print Assumptions prec_roundtrip_gen.
Print Assumptions flatten_eq_conv.
Print Assumptions climb_deterministic_total.
Print Assumptions pipe_lowest.
