(* Proofs about the string iterators (C15, theorems 2-3) and the exactness of re-slicing. *)
From KV.str Require Import StrBase StrModel StrProofs.
Open Scope N_scope.

(* ---------- lists ---------- *)

Lemma skipn_skipn' {A} : forall b a (l : list A), skipn a (skipn b l) = skipn (a + b) l.
Proof.
  induction b; intros a l.
  - rewrite Nat.add_0_r. reflexivity.
  - rewrite Nat.add_succ_r. destruct l; simpl; [apply skipn_nil | apply IHb].
Qed.

Lemma nth_error_firstn' {A} : forall n i (l : list A), (i < n)%nat -> nth_error (firstn n l) i = nth_error l i.
Proof.
  induction n; intros i l H; [lia|]. destruct l; [destruct i; reflexivity|].
  destruct i; simpl; [reflexivity | apply IHn; lia].
Qed.

Lemma drop_drop a b s : drop a (drop b s) = drop (a + b) s.
Proof. unfold drop. rewrite skipn_skipn'. f_equal. lia. Qed.

Lemma take_drop n s : take n s ++ drop n s = s.
Proof. apply firstn_skipn. Qed.

Lemma len_take n s : n <= len s -> len (take n s) = n.
Proof. unfold len, take. intro H. rewrite firstn_length_le by lia. lia. Qed.

Lemma len_slice s a b : a <= b -> b <= len s -> len (slice s a b) = b - a.
Proof. intros H1 H2. unfold slice. apply len_take. rewrite len_drop. lia. Qed.

Lemma slice_full s a : slice s a (len s) = drop a s.
Proof. unfold slice, take. apply firstn_all2. pose proof (len_drop a s) as H. unfold len in *. lia. Qed.

Lemma slice_0 s b : slice s 0 b = take b s.
Proof. unfold slice. rewrite N.sub_0_r. reflexivity. Qed.

Lemma nth_slice s a b i : i < b - a ->
  nth_error (slice s a b) (N.to_nat i) = nth_error s (N.to_nat (a + i)).
Proof.
  intro H. unfold slice, take, drop. rewrite nth_error_firstn' by lia. rewrite nth_error_skipn'. f_equal. lia.
Qed.

Lemma slice_slice s st en a b : a <= b -> b <= en - st ->
  slice (slice s st en) a b = slice s (st + a) (st + b).
Proof.
  intros H1 H2. unfold slice, take, drop.
  rewrite skipn_firstn_comm, firstn_firstn, skipn_skipn'.
  f_equal; [lia | f_equal; lia].
Qed.

Lemma drop_cons_nth s i b t : drop i s = b :: t -> nth_error s (N.to_nat i) = Some b.
Proof.
  unfold drop. intro H. pose proof (nth_error_skipn' s (N.to_nat i) 0) as E. rewrite H in E. simpl in E.
  rewrite Nat.add_0_r in E. auto.
Qed.

(* ---------- more on well-formed characters: prefix freeness ---------- *)

Lemma wf_char_len c : wf_char c = true -> length c = N.to_nat (lead_len (hd 0 c)).
Proof.
  unfold wf_char, is_cont, in_range, lead_len.
  destruct c as [|b0 [|b1 [|b2 [|b3 [|b4 t]]]]]; try discriminate; intro H; simpl hd; simpl length;
    repeat (rewrite ?andb_true_iff, ?orb_true_iff, ?N.leb_le, ?N.eqb_eq in H);
    destruct (N.ltb_spec b0 128); try lia;
    destruct (N.ltb_spec b0 224); try lia;
    destruct (N.ltb_spec b0 240); try lia.
Qed.

Lemma wf_char_prefix_free c d x y :
  wf_char c = true -> wf_char d = true -> c ++ x = d ++ y -> c = d.
Proof.
  intros Hc Hd E.
  pose proof (wf_char_len _ Hc) as Lc. pose proof (wf_char_len _ Hd) as Ld.
  destruct (wf_char_shape _ Hc) as [b [t [-> _]]]. destruct (wf_char_shape _ Hd) as [b' [t' [-> _]]].
  simpl in E. inversion E; subst b'. simpl hd in *.
  assert (L : length (b :: t) = length (b :: t')) by congruence.
  assert (F : firstn (length (b :: t)) ((b :: t) ++ x) = firstn (length (b :: t)) ((b :: t') ++ y)) by (simpl in *; congruence).
  rewrite firstn_app, Nat.sub_diag, firstn_all, firstn_O, app_nil_r in F.
  rewrite L in F. rewrite firstn_app, Nat.sub_diag, firstn_all, firstn_O, app_nil_r in F. exact F.
Qed.

Lemma valid_app_inv_l a b : valid_utf8 a -> valid_utf8 (a ++ b) -> valid_utf8 b.
Proof.
  intros [ca [Ha <-]]. revert b. induction ca as [|c ca IH]; intros b Hab; [exact Hab|].
  simpl in Ha. apply andb_true_iff in Ha as [Hc Hca].
  destruct Hab as [cs [Hcs E]].
  destruct cs as [|d cs].
  - exfalso. simpl in E. destruct (wf_char_shape _ Hc) as [x [t [-> _]]]. discriminate.
  - simpl in Hcs. apply andb_true_iff in Hcs as [Hd Hcs]. simpl in E. rewrite <- app_assoc in E.
    pose proof (wf_char_prefix_free _ _ _ _ Hd Hc E) as ->.
    apply app_inv_head in E. apply (IH Hca). exists cs. auto.
Qed.

Lemma valid_head_noncont s : valid_utf8 s -> s <> [] -> exists b t, s = b :: t /\ is_cont b = false.
Proof.
  intros [cs [Hwf <-]] Hne. destruct cs as [|c cs]; [contradiction|].
  simpl in Hwf. apply andb_true_iff in Hwf as [Hc _].
  destruct (wf_char_shape _ Hc) as [b [t [-> [Hb _]]]]. simpl. eauto.
Qed.

(* a position after which the rest is valid text is a character boundary *)
Lemma seam_is_boundary s i : i <= len s -> valid_utf8 (drop i s) -> is_char_boundary s i = true.
Proof.
  intros Hi Hv. apply icb_spec.
  destruct (N.eq_dec i 0); [auto|]. destruct (N.eq_dec i (len s)); [auto|].
  right; right. split; [lia|].
  destruct (valid_head_noncont _ Hv) as [b [t [E Hb]]].
  { intro E. apply (f_equal len) in E. rewrite len_drop in E. unfold len in E at 2. simpl in E. lia. }
  exists b. split; [eapply drop_cons_nth; eauto | assumption].
Qed.

Lemma icb_slice s st en i : st <= en -> en <= len s ->
  is_char_boundary s st = true -> is_char_boundary s en = true -> i <= en - st ->
  is_char_boundary (slice s st en) i = true -> is_char_boundary s (st + i) = true.
Proof.
  intros H1 H2 Hst Hen Hi H. apply icb_spec in H. rewrite len_slice in H by assumption.
  destruct H as [->|[->|[Hlt [x [Hx Hc]]]]].
  - rewrite N.add_0_r. assumption.
  - replace (st + (en - st)) with en by lia. assumption.
  - apply icb_spec. right; right. split; [lia|]. exists x. split; [|assumption].
    rewrite nth_slice in Hx by assumption. exact Hx.
Qed.

Lemma icb_drop_inv s a i : a <= len s -> is_char_boundary s a = true ->
  is_char_boundary (drop a s) i = true -> is_char_boundary s (a + i) = true.
Proof.
  intros Ha Hb H. pose proof (icb_le_len _ _ H) as Hi. rewrite len_drop in Hi.
  rewrite <- slice_full in H. apply icb_slice in H; auto; try lia.
  unfold is_char_boundary. destruct (len s =? 0) eqn:E; [reflexivity|].
  rewrite N.leb_refl, N.eqb_refl. reflexivity.
Qed.

(* ---------- exact re-slicing ---------- *)

Lemma fits_mono w n m : n <= m -> fits w m = true -> fits w n = true.
Proof. unfold fits. destruct w; rewrite !N.leb_le; lia. Qed.

Lemma ks_of_slice_as_str s : ks_as_str (ks_of_slice s) = ss_as_str s.
Proof. unfold ks_of_slice, ss_try_convert. destruct (fits W16 (ss_start s) && fits W16 (ss_end s)); reflexivity. Qed.

(* new bounds a..b that are character boundaries of the slice's own text *)
Lemma ss_wf_sub d st en w a b :
  ss_wf (mk_ss d st en w) -> a <= b -> b <= en - st ->
  is_char_boundary (slice d st en) a = true -> is_char_boundary (slice d st en) b = true ->
  ss_wf (mk_ss d (st + a) (st + b) w) /\
  ss_as_str (mk_ss d (st + a) (st + b) w) = Ok (slice (slice d st en) a b).
Proof.
  intros Hwf Hab Hb Ba Bb. pose proof (ss_wf_bounds _ Hwf) as [E1 E2].
  destruct Hwf as [Hv [Hl [Hle [Hs [He [F1 F2]]]]]]. simpl in *.
  pose proof (icb_le_len _ _ He) as Hel.
  assert (Ba' : is_char_boundary d (st + a) = true) by (apply (icb_slice d st en); auto; lia).
  assert (Bb' : is_char_boundary d (st + b) = true) by (apply (icb_slice d st en); auto; lia).
  split.
  - unfold ss_wf; simpl. repeat split; auto; try lia.
    + apply (fits_mono w _ en); [lia | assumption].
    + apply (fits_mono w _ en); [lia | assumption].
  - unfold ss_as_str; simpl. rewrite str_get_intro by (auto; lia). rewrite slice_slice by assumption. reflexivity.
Qed.

Lemma ss_len_wf d st en w : ss_wf (mk_ss d st en w) -> len (slice d st en) = en - st.
Proof.
  intro H. destruct H as [_ [_ [Hle [_ [He _]]]]]. simpl in *. apply len_slice; [assumption | apply icb_le_len; assumption].
Qed.

(* KString::with_bounds with bounds that are boundaries of the string's own text returns exactly
   that sub-string, for every representation (also for Full: the bounds are then valid) *)
Lemma ks_with_bounds_exact k s a b : ks_wf k -> ks_as_str k = Ok s ->
  a <= b -> b <= len s -> is_char_boundary s a = true -> is_char_boundary s b = true ->
  exists k', ks_with_bounds k a b = Ok k' /\ ks_wf k' /\ ks_as_str k' = Ok (slice s a b).
Proof.
  intros Hwf Hs Hab Hb Ba Bb. destruct k as [d|[d st en w]|[d st en w]]; simpl in Hwf, Hs.
  - inversion Hs; subst d. destruct Hwf as [Hv Hl].
    assert (W : ss_wf (mk_ss s 0 (len s) W64)).
    { unfold ss_wf; simpl. repeat split; auto; try lia.
      - unfold is_char_boundary. destruct (len s =? 0); [reflexivity|]. rewrite N.leb_refl, N.eqb_refl. reflexivity.
      - apply N.leb_le. unfold isize_max, usize_max in *. lia. }
    assert (E : slice s 0 (len s) = s) by (rewrite slice_full; reflexivity).
    destruct (ss_wf_sub s 0 (len s) W64 a b W Hab) as [W' A']; rewrite ?E; auto; try lia.
    simpl in W', A'. rewrite E in A'.
    unfold ks_with_bounds, ss_new.
    assert (Fa : fits W64 a = true) by (apply N.leb_le; unfold isize_max, usize_max in *; lia).
    assert (Fb : fits W64 b = true) by (apply N.leb_le; unfold isize_max, usize_max in *; lia).
    rewrite Fa, Fb. simpl. eexists. split; [reflexivity|]. split.
    + apply ks_of_slice_wf; [exact W' | reflexivity].
    + rewrite ks_of_slice_as_str. exact A'.
  - destruct Hwf as [W Hw]. simpl in Hw. subst w.
    destruct (ss_as_str_wf _ W) as [A _]. simpl in A. rewrite A in Hs. inversion Hs; subst s.
    rewrite (ss_len_wf _ _ _ _ W) in Hb.
    destruct (ss_wf_sub d st en W16 a b W Hab Hb Ba Bb) as [W' A'].
    pose proof (ss_wf_bounds _ W) as [E1 E2]. simpl in E1, E2.
    unfold ks_with_bounds, ss_with_bounds. simpl.
    rewrite !uadd_ok by (unfold isize_max, usize_max in *; lia). simpl.
    rewrite (N.add_comm a st), (N.add_comm b st).
    destruct W' as [Hv [Hl [Hle [Hs' [He' [F1 F2]]]]]]. simpl in *.
    rewrite str_get_intro by assumption. rewrite F1, F2. simpl.
    eexists. split; [reflexivity|]. split; [|exact A'].
    split; [|reflexivity]. unfold ss_wf; simpl. auto 10.
  - destruct Hwf as [W Hw]. simpl in Hw. subst w.
    destruct (ss_as_str_wf _ W) as [A _]. simpl in A. rewrite A in Hs. inversion Hs; subst s.
    rewrite (ss_len_wf _ _ _ _ W) in Hb.
    destruct (ss_wf_sub d st en W64 a b W Hab Hb Ba Bb) as [W' A'].
    pose proof (ss_wf_bounds _ W) as [E1 E2]. simpl in E1, E2.
    unfold ks_with_bounds, ss_with_bounds. simpl.
    rewrite !uadd_ok by (unfold isize_max, usize_max in *; lia). simpl.
    rewrite (N.add_comm a st), (N.add_comm b st).
    pose proof W' as W''. destruct W' as [Hv [Hl [Hle [Hs' [He' [F1 F2]]]]]]. simpl in *.
    rewrite str_get_intro by assumption. rewrite F1, F2. simpl.
    eexists. split; [reflexivity|]. split.
    + apply ks_of_slice_wf; [exact W'' | reflexivity].
    + rewrite ks_of_slice_as_str. exact A'.
Qed.

(* ---------- size_hint (after the fix of C15c: saturating_sub) ---------- *)

Lemma ks_len_as_str k s : ks_as_str k = Ok s -> ks_len k = Ok (len s).
Proof. unfold ks_len. intros ->. reflexivity. Qed.

Lemma wf_len_bound k s : ks_wf k -> ks_as_str k = Ok s -> len s <= isize_max.
Proof.
  intros W A. destruct (ks_len_wf k W) as [l [Hl B]]. rewrite (ks_len_as_str _ _ A) in Hl. inversion Hl. lia.
Qed.

Lemma lines_size_hint_total it : ks_wf (li_input it) -> exists a b, lines_size_hint it = Ok (a, b).
Proof. intro W. destruct (ks_len_wf _ W) as [l [Hl _]]. unfold lines_size_hint. rewrite Hl. simpl. eauto. Qed.

Lemma split_size_hint_total it : ks_wf (sp_input it) -> exists a b, split_size_hint it = Ok (a, b).
Proof. intro W. destruct (ks_len_wf _ W) as [l [Hl _]]. unfold split_size_hint. rewrite Hl. simpl. eauto. Qed.

Lemma sw_size_hint_total it : ks_wf (sw_input it) -> exists a b, sw_size_hint it = Ok (a, b).
Proof. intro W. destruct (ks_len_wf _ W) as [l [Hl _]]. unfold sw_size_hint. rewrite Hl. simpl. eauto. Qed.

(* to_list on an exhausted iterator is the empty list *)
Lemma to_list_exhausted {St Out} (next : St -> outcome (option (Out * St))) hint st f :
  next st = Ok None -> (exists a b, hint st = Ok (a, b)) ->
  to_list next hint (S f) st = Ok ([], true, st).
Proof. intros Hn [a [b Hh]]. unfold to_list. rewrite Hh. simpl. rewrite Hn. reflexivity. Qed.

(* ---------- chars / char_indices ---------- *)

Lemma icb_0 s : is_char_boundary s 0 = true.
Proof. reflexivity. Qed.

Lemma icb_len s : is_char_boundary s (len s) = true.
Proof.
  unfold is_char_boundary. destruct (len s =? 0); [reflexivity|]. rewrite N.leb_refl, N.eqb_refl. reflexivity.
Qed.

Definition str_of (k : kstring) : bytes := match ks_as_str k with Ok r => r | _ => [] end.

Lemma ss_split_exact d st en w g : ss_wf (mk_ss d st en w) -> g <= en - st ->
  is_char_boundary (slice d st en) g = true ->
  exists p r, ss_split (mk_ss d st en w) g = Ok (p, r) /\ ss_wf p /\ ss_wf r /\ ss_w p = w /\ ss_w r = w /\
              ss_as_str p = Ok (take g (slice d st en)) /\ ss_as_str r = Ok (drop g (slice d st en)).
Proof.
  intros W Hg Bg. pose proof (ss_len_wf _ _ _ _ W) as L. pose proof (ss_wf_bounds _ W) as [E1 E2]. simpl in E1, E2.
  destruct (ss_wf_sub d st en w 0 g W) as [W1 A1]; auto using icb_0; try lia.
  destruct (ss_wf_sub d st en w g (en - st) W) as [W2 A2]; auto; try lia.
  { rewrite <- L. apply icb_len. }
  rewrite N.add_0_r in W1, A1. replace (st + (en - st)) with en in W2, A2 by lia.
  rewrite slice_0 in A1. rewrite <- L in A2. rewrite slice_full in A2.
  exists (mk_ss d st (st + g) w), (mk_ss d (st + g) en w).
  unfold ss_split. simpl. rewrite uadd_ok by (unfold isize_max, usize_max in *; lia). simpl.
  pose proof W1 as W1'. destruct W1 as [_ [_ [_ [_ [He [_ F]]]]]]. simpl in He, F. rewrite He, F.
  split; [reflexivity|]. split; [exact W1'|]. split; [exact W2|]. simpl. auto.
Qed.

Section WithGraphemes.
  Variable fg : bytes -> N.
  (* the partition hypothesis on unicode-segmentation: the first cluster of a non-empty valid
     string is a non-empty prefix that ends on a character boundary *)
  Hypothesis fg_ok : forall s, s <> [] -> valid_utf8 s ->
    0 < fg s /\ fg s <= len s /\ is_char_boundary s (fg s) = true.

  Lemma ks_pop_front_spec k s : ks_wf k -> ks_as_str k = Ok s -> s <> [] ->
    exists p r, ks_pop_front fg k = Ok (Some (p, r)) /\ ks_wf p /\ ks_wf r /\
                ks_as_str p = Ok (take (fg s) s) /\ ks_as_str r = Ok (drop (fg s) s).
  Proof.
    intros W A Hne.
    assert (V : valid_utf8 s) by (destruct (ks_as_str_wf k W) as [r [Hr Hv]]; congruence).
    destruct (fg_ok s Hne V) as [G0 [G1 G2]].
    unfold ks_pop_front. rewrite A. simpl. destruct s as [|x s']; [contradiction|]. set (s := x :: s') in *.
    destruct k as [d|[d st en w]|[d st en w]]; simpl in W, A.
    - inversion A; subst d. destruct W as [Hv Hl].
      assert (W0 : ss_wf (mk_ss s 0 (len s) W64)).
      { unfold ss_wf; simpl. repeat split; auto using icb_len; try lia. apply N.leb_le. unfold isize_max, usize_max in *. lia. }
      assert (E : slice s 0 (len s) = s) by (rewrite slice_full; reflexivity).
      destruct (ss_split_exact s 0 (len s) W64 (fg s) W0) as [p [r [S [Wp [Wr [Hp [Hr [Ap Ar]]]]]]]]; rewrite ?E; auto; try lia.
      rewrite S. simpl. rewrite E in Ap, Ar.
      eexists. eexists. split; [reflexivity|].
      split; [apply ks_of_slice_wf; auto|]. split; [apply ks_of_slice_wf; auto|].
      rewrite !ks_of_slice_as_str. auto.
    - destruct W as [W Hw]. simpl in Hw. subst w.
      destruct (ss_as_str_wf _ W) as [A' _]. simpl in A'. rewrite A' in A. inversion A as [E].
      pose proof (ss_len_wf _ _ _ _ W) as L. rewrite E in L.
      destruct (ss_split_exact d st en W16 (fg s) W) as [p [r [S [Wp [Wr [Hp [Hr [Ap Ar]]]]]]]]; rewrite ?E; auto; try lia.
      rewrite S. simpl. rewrite E in Ap, Ar.
      eexists. eexists. split; [reflexivity|]. simpl. auto 10.
    - destruct W as [W Hw]. simpl in Hw. subst w.
      destruct (ss_as_str_wf _ W) as [A' _]. simpl in A'. rewrite A' in A. inversion A as [E].
      pose proof (ss_len_wf _ _ _ _ W) as L. rewrite E in L.
      destruct (ss_split_exact d st en W64 (fg s) W) as [p [r [S [Wp [Wr [Hp [Hr [Ap Ar]]]]]]]]; rewrite ?E; auto; try lia.
      rewrite S. simpl. rewrite E in Ap, Ar.
      eexists. eexists. split; [reflexivity|].
      split; [apply ks_of_slice_wf; auto|]. split; [simpl; auto|].
      rewrite ks_of_slice_as_str. simpl. auto.
  Qed.

  Lemma chars_concat_lemma : forall n k s, ks_wf k -> ks_as_str k = Ok s -> (length s < n)%nat ->
    exists ps kf, drain (chars_next fg) n k = Ok (ps, true, kf) /\ Forall ks_wf ps /\
                  Forall (fun p => str_of p <> []) ps /\ concat (map str_of ps) = s.
  Proof.
    induction n as [|n IH]; intros k s W A L; [lia|].
    destruct s as [|x s'] eqn:Es.
    - exists [], k. simpl. unfold chars_next, ks_pop_front. rewrite A. simpl. auto.
    - rewrite <- Es in *. assert (Hne : s <> []) by (rewrite Es; discriminate).
      destruct (ks_pop_front_spec k s W A Hne) as [p [r [P [Wp [Wr [Ap Ar]]]]]].
      assert (V : valid_utf8 s) by (destruct (ks_as_str_wf k W) as [r' [Hr Hv]]; congruence).
      destruct (fg_ok s Hne V) as [G0 [G1 G2]].
      destruct (IH r (drop (fg s) s) Wr Ar) as [ps [kf [D [Fw [Fn C]]]]].
      { pose proof (len_drop (fg s) s) as LD. unfold len in LD, G1. lia. }
      exists (p :: ps), kf. simpl. unfold chars_next at 1. rewrite P. simpl. rewrite D. simpl.
      split; [reflexivity|]. split; [constructor; auto|]. split.
      + constructor; auto. unfold str_of. rewrite Ap. intro E0. apply (f_equal len) in E0.
        rewrite len_take in E0 by assumption. change (len []) with 0 in E0. lia.
      + unfold str_of at 1. rewrite Ap. rewrite C. apply take_drop.
  Qed.

  Fixpoint tiles (a b : N) (rs : list (N * N)) : Prop :=
    match rs with
    | [] => a = b
    | (x, y) :: t => x = a /\ a < y /\ tiles y b t
    end.

  Lemma char_indices_tile_lemma : forall n s i, valid_utf8 s -> len s <= isize_max ->
    i <= len s -> is_char_boundary s i = true -> (N.to_nat (len s - i) < n)%nat ->
    exists rs itf, drain (ci_next fg) n (mk_ci s i) = Ok (rs, true, itf) /\ tiles i (len s) rs.
  Proof.
    induction n as [|n IH]; intros s i V Hl Hi Bi L; [lia|].
    simpl. unfold ci_next at 1. simpl. unfold str_from. rewrite Bi. simpl.
    destruct (drop i s) as [|x r'] eqn:Er.
    - exists [], (mk_ci s i). split; [reflexivity|]. simpl.
      apply (f_equal len) in Er. rewrite len_drop in Er. unfold len in Er at 2. simpl in Er. lia.
    - rewrite <- Er in *. set (rest := drop i s) in *.
      assert (Hne : rest <> []) by (rewrite Er; discriminate).
      assert (Vr : valid_utf8 rest) by (apply (valid_split s i V Bi)).
      destruct (fg_ok rest Hne Vr) as [G0 [G1 G2]].
      assert (LR : len rest = len s - i) by apply len_drop.
      rewrite !uadd_ok by (unfold isize_max, usize_max in *; lia). simpl.
      rewrite N.add_0_r.
      rewrite ?uadd_ok by (unfold isize_max, usize_max in *; lia). simpl.
      assert (B' : is_char_boundary s (i + fg rest) = true) by (apply icb_drop_inv; auto).
      destruct (IH s (i + fg rest) V Hl) as [rs [itf [D T]]]; auto; try lia.
      rewrite D. simpl. exists ((i, i + fg rest) :: rs), itf. split; [reflexivity|].
      simpl. repeat split; auto. lia.
  Qed.
End WithGraphemes.

(* ---------- split (pattern) ---------- *)

Lemma drop_succ_cons e x t : drop (e + 1) (x :: t) = drop e t.
Proof. unfold drop. replace (N.to_nat (e + 1)) with (S (N.to_nat e)) by lia. reflexivity. Qed.

Lemma find_from_some p : forall s i r, find_from p s i = Some r ->
  exists e, r = i + e /\ e <= len s /\ is_prefix p (drop e s) = true.
Proof.
  induction s as [|x t IH]; intros i r H; simpl in H.
  - destruct (is_prefix p []) eqn:E; [|discriminate]. inversion H. exists 0. rewrite N.add_0_r. repeat split; auto. unfold len; simpl; lia.
  - destruct (is_prefix p (x :: t)) eqn:E.
    + inversion H. exists 0. rewrite N.add_0_r. repeat split; auto. lia.
    + destruct (IH _ _ H) as [e [-> [Hl Hp]]]. exists (e + 1). rewrite drop_succ_cons.
      repeat split; auto; [lia|]. unfold len in *. simpl. lia.
Qed.

Lemma is_prefix_app p : forall t, is_prefix p t = true -> t = p ++ drop (len p) t.
Proof.
  induction p as [|x p IH]; intros t H; [reflexivity|].
  destruct t as [|y t]; [discriminate|]. simpl in H. apply andb_true_iff in H as [E H]. apply N.eqb_eq in E. subst y.
  simpl. f_equal. replace (len (x :: p)) with (len p + 1) by (unfold len; simpl; lia).
  rewrite drop_succ_cons. auto.
Qed.

Lemma join_cons sep x l : l <> [] -> join sep (x :: l) = x ++ sep ++ join sep l.
Proof. destruct l; [contradiction | reflexivity]. Qed.

Lemma noncont_boundary s i b : nth_error s (N.to_nat i) = Some b -> is_cont b = false -> is_char_boundary s i = true.
Proof.
  intros Hn Hc. apply icb_spec. destruct (N.eq_dec i 0); [auto|]. right; right. split.
  - assert (N.to_nat i < length s)%nat by (apply nth_error_Some; congruence). unfold len. lia.
  - exists b. auto.
Qed.

Lemma slice_from s a e : slice s a (a + e) = take e (drop a s).
Proof. unfold slice. f_equal. lia. Qed.

Section Split.
  Variable k : kstring.
  Variable s p : bytes.
  Hypothesis W : ks_wf k.
  Hypothesis A : ks_as_str k = Ok s.
  Hypothesis Vp : valid_utf8 p.
  Hypothesis Pne : p <> [].
  Hypothesis Pl : len p <= isize_max.

  Lemma split_join_lemma : forall n start, start <= len s -> is_char_boundary s start = true ->
    (N.to_nat (len s - start) + 1 < n)%nat ->
    exists ps itf, drain split_next n (mk_split k p start) = Ok (ps, true, itf) /\ Forall ks_wf ps /\ ps <> [] /\
                   join p (map str_of ps) = drop start s.
  Proof.
    assert (V : valid_utf8 s) by (destruct (ks_as_str_wf k W) as [r' [Hr Hv]]; congruence).
    pose proof (wf_len_bound k s W A) as Sl.
    assert (Pp : 0 < len p) by (destruct p; [contradiction | unfold len; simpl; lia]).
    induction n as [|n IH]; intros start Hs Bs L; [lia|].
    simpl. unfold split_next at 1. simpl. rewrite A. simpl.
    replace (start <=? len s) with true by (symmetry; apply N.leb_le; assumption).
    unfold str_from. rewrite Bs. simpl.
    set (rest := drop start s).
    assert (Vr : valid_utf8 rest) by (apply (valid_split s start V Bs)).
    assert (LR : len rest = len s - start) by apply len_drop.
    destruct (find_sub p rest) as [r|] eqn:F.
    - (* a match at offset e of the rest *)
      unfold find_sub in F. destruct (find_from_some _ _ _ _ F) as [e [-> [He Hp]]]. rewrite N.add_0_l.
      pose proof (is_prefix_app _ _ Hp) as D. set (tail := drop (len p) (drop e rest)) in D.
      destruct (valid_head_noncont p Vp Pne) as [b [pt [Ep Hb]]].
      assert (Be : is_char_boundary rest e = true).
      { apply (noncont_boundary rest e b); [|assumption]. eapply drop_cons_nth. rewrite D, Ep. reflexivity. }
      assert (Vd : valid_utf8 (drop e rest)) by (apply (valid_split rest e Vr Be)).
      assert (Vt : valid_utf8 tail) by (apply (valid_app_inv_l p tail Vp); rewrite <- D; exact Vd).
      assert (Ld : len (drop e rest) = len p + len tail) by (rewrite D at 1; apply len_app).
      rewrite len_drop in Ld.
      assert (Et : tail = drop (e + len p) rest) by (unfold tail; rewrite drop_drop; f_equal; lia).
      assert (Bt : is_char_boundary rest (e + len p) = true) by (apply seam_is_boundary; [lia | rewrite <- Et; exact Vt]).
      assert (B1 : is_char_boundary s (start + e) = true) by (apply icb_drop_inv; auto).
      assert (B2 : is_char_boundary s (start + (e + len p)) = true) by (apply icb_drop_inv; auto).
      destruct (ks_with_bounds_exact k s start (start + e) W A) as [k' [Wb [Wk' Ak']]]; auto; try lia.
      rewrite Wb. simpl. rewrite uadd_ok by (unfold isize_max, usize_max in *; lia). simpl.
      destruct (IH (start + e + len p)) as [ps [itf [Dr [Fw [Pn J]]]]]; try lia.
      { rewrite <- N.add_assoc. exact B2. }
      rewrite Dr. simpl. exists (k' :: ps), itf. split; [reflexivity|]. split; [constructor; auto|]. split; [discriminate|].
      simpl map. rewrite join_cons by (destruct ps; [contradiction | discriminate]).
      unfold str_of at 1. rewrite Ak'. rewrite J. rewrite slice_from. fold rest.
      transitivity (take e rest ++ drop e rest); [|apply take_drop]. f_equal. rewrite D. f_equal.
      rewrite Et. unfold rest. rewrite drop_drop. f_equal. lia.
    - (* no further match: the last piece *)
      destruct (ks_with_bounds_exact k s start (len s) W A) as [k' [Wb [Wk' Ak']]]; auto using icb_len; try lia.
      rewrite Wb. simpl. rewrite uadd_ok by (unfold isize_max, usize_max in *; lia). simpl.
      destruct n as [|n]; [lia|]. simpl. unfold split_next at 1. simpl. rewrite A. simpl.
      replace (len s + len p <=? len s) with false by (symmetry; apply N.leb_gt; lia).
      simpl. exists [k'], (mk_split k p (len s + len p)). split; [reflexivity|]. split; [constructor; auto|]. split; [discriminate|].
      simpl. unfold str_of. rewrite Ak'. apply slice_full.
  Qed.
End Split.

(* ---------- lines ---------- *)

Lemma is13 (o : option N) : (match o with Some 13 => true | _ => false end) = true -> o = Some 13.
Proof.
  destruct o as [[|q]|]; try discriminate.
  destruct q as [q|q|]; try discriminate. destruct q as [q|q|]; try discriminate.
  destruct q as [q|q|]; try discriminate. destruct q; try discriminate. reflexivity.
Qed.

Lemma take_succ_cons e x t : take (e + 1) (x :: t) = x :: take e t.
Proof. unfold take. replace (N.to_nat (e + 1)) with (S (N.to_nat e)) by lia. reflexivity. Qed.

Lemma find_byte b : forall s i,
  match find_from [b] s i with
  | Some r => exists e, r = i + e /\ nth_error s (N.to_nat e) = Some b /\ ~ In b (take e s)
  | None => ~ In b s
  end.
Proof.
  induction s as [|x t IH]; intro i; simpl; [auto|].
  destruct (N.eqb_spec b x) as [->|Hne]; simpl.
  - exists 0. rewrite N.add_0_r. repeat split; auto.
  - specialize (IH (i + 1)). destruct (find_from [b] t (i + 1)) as [r|].
    + destruct IH as [e [-> [Hn Hi]]]. exists (e + 1). repeat split; [lia | |].
      * replace (N.to_nat (e + 1)) with (S (N.to_nat e)) by lia. exact Hn.
      * rewrite take_succ_cons. simpl. intros [?|?]; [congruence | contradiction].
    + simpl. intros [?|?]; [congruence | contradiction].
Qed.

Lemma drop_nth : forall s i x, nth_error s (N.to_nat i) = Some x -> drop i s = x :: drop (i + 1) s.
Proof.
  intros s i. unfold drop. replace (N.to_nat (i + 1)) with (S (N.to_nat i)) by lia.
  generalize (N.to_nat i). clear i. induction s as [|y t IH]; intros n x H; destruct n; try discriminate.
  - simpl in *. congruence.
  - simpl in H. simpl. apply IH. exact H.
Qed.

Lemma in_take x n s : In x (take n s) -> In x s.
Proof. intro H. rewrite <- (take_drop n s). apply in_or_app. auto. Qed.

Lemma in_take_le x a b s : a <= b -> In x (take a s) -> In x (take b s).
Proof.
  intros Hab H. unfold take in *. replace (N.to_nat a) with (Nat.min (N.to_nat a) (N.to_nat b)) in H by lia.
  rewrite <- firstn_firstn in H. apply (in_take x a (firstn (N.to_nat b) s)). exact H.
Qed.

Lemma valid_ascii b : b <= 127 -> valid_utf8 [b].
Proof. intro H. exists [[b]]. split; [|reflexivity]. simpl. apply N.leb_le in H. rewrite H. reflexivity. Qed.

Definition is_term (t : bytes) : Prop := t = [10] \/ t = [13; 10] \/ t = [].

Fixpoint interleave (ps ts : list bytes) : bytes :=
  match ps, ts with
  | p :: ps', t :: ts' => p ++ t ++ interleave ps' ts'
  | _, _ => []
  end.

Section Lines.
  Variable k : kstring.
  Variable s : bytes.
  Hypothesis W : ks_wf k.
  Hypothesis A : ks_as_str k = Ok s.

  Lemma lines_lemma : forall n start, start <= len s -> is_char_boundary s start = true ->
    (N.to_nat (len s - start) + 1 < n)%nat ->
    exists ps ts itf, drain lines_next n (mk_lines k start) = Ok (ps, true, itf) /\ Forall ks_wf ps /\
      length ts = length ps /\ Forall is_term ts /\ Forall (fun x => ~ In 10 (str_of x)) ps /\
      interleave (map str_of ps) ts = drop start s.
  Proof.
    assert (V : valid_utf8 s) by (destruct (ks_as_str_wf k W) as [r' [Hr Hv]]; congruence).
    pose proof (wf_len_bound k s W A) as Sl.
    induction n as [|n IH]; intros start Hs Bs L; [lia|].
    simpl. unfold lines_next at 1. simpl. rewrite A. simpl.
    destruct (N.ltb_spec start (len s)) as [Hlt|Hge].
    2:{ exists [], [], (mk_lines k start). simpl. repeat split; auto.
        unfold drop. symmetry. apply skipn_all2. unfold len in *. lia. }
    unfold str_from. rewrite Bs. simpl. set (rest := drop start s).
    assert (Vr : valid_utf8 rest) by (apply (valid_split s start V Bs)).
    assert (LR : len rest = len s - start) by apply len_drop.
    unfold find_sub. pose proof (find_byte 10 rest 0) as F.
    destruct (find_from [10] rest 0) as [r|].
    - destruct F as [e [-> [Hn Hni]]]. rewrite N.add_0_l.
      assert (He : e < len rest).
      { assert (N.to_nat e < length rest)%nat by (apply nth_error_Some; congruence). unfold len. lia. }
      assert (Be : is_char_boundary rest e = true) by (apply (noncont_boundary rest e 10); auto).
      pose proof (drop_nth _ _ _ Hn) as De.
      assert (Bn : is_char_boundary rest (e + 1) = true).
      { apply seam_is_boundary; [lia|]. apply (valid_app_inv_l [10]); [apply valid_ascii; lia|].
        change ([10] ++ drop (e + 1) rest) with (10 :: drop (e + 1) rest). rewrite <- De. apply (valid_split rest e Vr Be). }
      assert (B2 : is_char_boundary s (start + (e + 1)) = true) by (apply icb_drop_inv; auto).
      destruct ((0 <? e) && match nthb rest (e - 1) with Some 13 => true | _ => false end) eqn:C; simpl.
      + (* "\r\n" *)
        apply andb_true_iff in C as [C0 C1]. apply N.ltb_lt in C0. apply is13 in C1. unfold nthb in C1.
        assert (Bc : is_char_boundary rest (e - 1) = true) by (apply (noncont_boundary rest (e - 1) 13); auto).
        pose proof (drop_nth _ _ _ C1) as Dc. replace (e - 1 + 1) with e in Dc by lia.
        assert (B1 : is_char_boundary s (start + (e - 1)) = true) by (apply icb_drop_inv; auto).
        replace (start + e - 1) with (start + (e - 1)) by lia.
        destruct (ks_with_bounds_exact k s start (start + (e - 1)) W A) as [k' [Wb [Wk' Ak']]]; auto; try lia.
        rewrite Wb. simpl. rewrite uadd_ok by (unfold isize_max, usize_max in *; lia). simpl.
        destruct (IH (start + (e - 1) + 2)) as [ps [ts [itf [Dr [Fw [Lt [Ft [Fn J]]]]]]]]; try lia.
        { replace (start + (e - 1) + 2) with (start + (e + 1)) by lia. exact B2. }
        rewrite Dr. simpl. exists (k' :: ps), ([13; 10] :: ts), itf.
        split; [reflexivity|]. split; [constructor; auto|]. split; [simpl; congruence|].
        split; [constructor; auto; right; left; reflexivity|]. split.
        * constructor; auto. unfold str_of. rewrite Ak'. rewrite slice_from. fold rest.
          intro Hin. apply Hni. apply (in_take_le 10 (e - 1) e); [lia | exact Hin].
        * simpl. unfold str_of at 1. rewrite Ak'. rewrite J. rewrite slice_from. fold rest.
          transitivity (take (e - 1) rest ++ drop (e - 1) rest); [|apply take_drop]. f_equal.
          rewrite Dc, De. simpl. do 2 f_equal. unfold rest. rewrite drop_drop. f_equal. lia.
      + (* "\n" *)
        assert (B1 : is_char_boundary s (start + e) = true) by (apply icb_drop_inv; auto).
        destruct (ks_with_bounds_exact k s start (start + e) W A) as [k' [Wb [Wk' Ak']]]; auto; try lia.
        rewrite Wb. simpl. rewrite uadd_ok by (unfold isize_max, usize_max in *; lia). simpl.
        destruct (IH (start + e + 1)) as [ps [ts [itf [Dr [Fw [Lt [Ft [Fn J]]]]]]]]; try lia.
        { rewrite <- N.add_assoc. exact B2. }
        rewrite Dr. simpl. exists (k' :: ps), ([10] :: ts), itf.
        split; [reflexivity|]. split; [constructor; auto|]. split; [simpl; congruence|].
        split; [constructor; auto; left; reflexivity|]. split.
        * constructor; auto. unfold str_of. rewrite Ak'. rewrite slice_from. exact Hni.
        * simpl. unfold str_of at 1. rewrite Ak'. rewrite J. rewrite slice_from. fold rest.
          transitivity (take e rest ++ drop e rest); [|apply take_drop]. f_equal.
          rewrite De. simpl. f_equal. unfold rest. rewrite drop_drop. f_equal. lia.
    - (* last line, not terminated *)
      simpl.
      destruct (ks_with_bounds_exact k s start (len s) W A) as [k' [Wb [Wk' Ak']]]; auto using icb_len; try lia.
      rewrite Wb. simpl. rewrite uadd_ok by (unfold isize_max, usize_max in *; lia). simpl.
      destruct n as [|n]; [lia|]. simpl. unfold lines_next at 1. simpl. rewrite A. simpl.
      replace (len s + 1 <? len s) with false by (symmetry; apply N.ltb_ge; lia).
      exists [k'], [[]], (mk_lines k (len s + 1)). split; [reflexivity|]. split; [constructor; auto|]. split; [reflexivity|].
      split; [constructor; auto; right; right; reflexivity|].
      assert (Es : str_of k' = rest) by (unfold str_of; rewrite Ak'; apply slice_full).
      split; [constructor; auto; rewrite Es; exact F|]. simpl. rewrite Es. rewrite !app_nil_r. reflexivity.
  Qed.
End Lines.
