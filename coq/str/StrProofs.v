(* Proofs for the string unit (C15). *)
From KV.str Require Import StrBase StrModel.
Open Scope N_scope.

(* ---------- lists / N ---------- *)

Lemma len_app a b : len (a ++ b) = len a + len b.
Proof. unfold len. rewrite app_length. lia. Qed.

Lemma len_nil_inv s : len s = 0 -> s = [].
Proof. destruct s; unfold len; simpl; [auto | lia]. Qed.

Lemma len_drop n s : len (drop n s) = len s - n.
Proof. unfold len, drop. rewrite skipn_length. lia. Qed.

Lemma drop_0 s : drop 0 s = s.
Proof. reflexivity. Qed.

Lemma drop_app_len a b : drop (len a) (a ++ b) = b.
Proof.
  unfold drop, len. rewrite Nat2N.id. rewrite skipn_app, skipn_all, Nat.sub_diag. reflexivity.
Qed.

Lemma take_app_len a b : take (len a) (a ++ b) = a.
Proof.
  unfold take, len. rewrite Nat2N.id. rewrite firstn_app, firstn_all, Nat.sub_diag. simpl. apply app_nil_r.
Qed.

Lemma nth_error_skipn' {A} (l : list A) : forall n i, nth_error (skipn n l) i = nth_error l (n + i)%nat.
Proof. induction l; intros [|n] i; simpl; auto. destruct i; reflexivity. Qed.

(* ---------- well-formed characters ---------- *)

Lemma wf_char_shape c : wf_char c = true ->
  exists b t, c = b :: t /\ is_cont b = false /\ forallb is_cont t = true.
Proof.
  unfold wf_char, is_cont, in_range.
  destruct c as [|b0 [|b1 [|b2 [|b3 [|b4 t]]]]]; try discriminate; intro H;
    exists b0; eexists; (split; [reflexivity|]); simpl;
    repeat (rewrite ?andb_true_iff, ?orb_true_iff, ?N.leb_le, ?N.eqb_eq in H);
    rewrite ?andb_true_iff, ?andb_false_iff, ?N.leb_le, ?N.leb_gt; lia.
Qed.

Lemma wf_char_nonempty c : wf_char c = true -> c <> [].
Proof. destruct c; [discriminate | discriminate]. Qed.

(* ---------- character boundaries ---------- *)

Definition noncont_at (s : bytes) (i : nat) : Prop :=
  exists b, nth_error s i = Some b /\ is_cont b = false.

Lemma icb_spec s i : is_char_boundary s i = true <->
  (i = 0 \/ i = len s \/ (i < len s /\ noncont_at s (N.to_nat i))).
Proof.
  unfold is_char_boundary, noncont_at, nthb.
  destruct (N.eqb_spec i 0); [intuition|].
  destruct (N.leb_spec (len s) i).
  - rewrite N.eqb_eq. intuition lia.
  - destruct (nth_error s (N.to_nat i)) as [b|] eqn:E.
    + rewrite negb_true_iff. split.
      * intro. right. right. split; [lia|]. eauto.
      * intros [?|[?|[_ [b' [Hb Hc]]]]]; try lia. congruence.
    + split; [discriminate|]. intros [?|[?|[_ [b' [Hb _]]]]]; try lia. discriminate.
Qed.

Lemma icb_le_len s i : is_char_boundary s i = true -> i <= len s.
Proof. rewrite icb_spec. unfold len. intros [?|[?|[? _]]]; lia. Qed.

(* a boundary of a concatenation of well-formed characters splits the list of characters *)
Lemma boundary_splits cs : forallb wf_char cs = true ->
  forall i : nat, (i = 0%nat \/ i = length (concat cs) \/ noncont_at (concat cs) i) ->
  exists c1 c2, cs = c1 ++ c2 /\ length (concat c1) = i.
Proof.
  induction cs as [|c cs IH]; intros Hwf i Hi.
  - exists [], []. simpl in *. split; [reflexivity|].
    destruct Hi as [?|[?|[b [Hb _]]]]; try lia. destruct i; discriminate.
  - simpl in Hwf. apply andb_true_iff in Hwf as [Hc Hcs].
    destruct (wf_char_shape _ Hc) as [b0 [t [-> [Hb0 Ht]]]].
    destruct (Nat.eq_dec i 0) as [->|Hnz].
    { exists [], ((b0 :: t) :: cs). split; reflexivity. }
    destruct (Nat.lt_ge_cases i (length (b0 :: t))) as [Hlt|Hge].
    + (* strictly inside the first character: that byte is a continuation byte *)
      exfalso. destruct Hi as [?|[Hi|[b [Hb Hn]]]]; [lia| |].
      * simpl in Hi. rewrite app_length in Hi. simpl in Hlt. lia.
      * simpl in Hb. destruct i as [|i]; [lia|]. simpl in Hb, Hlt.
        rewrite nth_error_app1 in Hb by lia.
        rewrite forallb_forall in Ht. apply nth_error_In in Hb. apply Ht in Hb. congruence.
    + destruct (IH Hcs (i - length (b0 :: t))%nat) as [c1 [c2 [E L]]].
      { destruct Hi as [?|[Hi|[b [Hb Hn]]]]; [lia| |].
        - right; left. simpl in *. rewrite app_length in Hi. lia.
        - right; right. exists b. split; [|assumption].
          change (concat ((b0 :: t) :: cs)) with ((b0 :: t) ++ concat cs) in Hb.
          rewrite nth_error_app2 in Hb by assumption. exact Hb. }
      exists ((b0 :: t) :: c1), c2. split; [simpl; congruence|].
      change (concat ((b0 :: t) :: c1)) with ((b0 :: t) ++ concat c1).
      rewrite app_length. lia.
Qed.

Lemma valid_nil : valid_utf8 [].
Proof. exists []. split; reflexivity. Qed.

Lemma valid_app a b : valid_utf8 a -> valid_utf8 b -> valid_utf8 (a ++ b).
Proof.
  intros [ca [Ha <-]] [cb [Hb <-]]. exists (ca ++ cb). split.
  - rewrite forallb_app, Ha, Hb. reflexivity.
  - apply concat_app.
Qed.

Lemma valid_split s i : valid_utf8 s -> is_char_boundary s i = true ->
  valid_utf8 (take i s) /\ valid_utf8 (drop i s).
Proof.
  intros [cs [Hwf <-]] Hb.
  destruct (boundary_splits cs Hwf (N.to_nat i)) as [c1 [c2 [-> L]]].
  { apply icb_spec in Hb. unfold len in Hb. destruct Hb as [?|[?|[_ ?]]]; [left|right;left|right;right]; try lia; assumption. }
  rewrite forallb_app in Hwf. apply andb_true_iff in Hwf as [H1 H2].
  rewrite concat_app.
  assert (i = len (concat c1)) as -> by (unfold len; lia).
  rewrite take_app_len, drop_app_len. split; [exists c1 | exists c2]; auto.
Qed.

Lemma icb_drop s a b : a <= b -> a <= len s ->
  is_char_boundary s b = true -> is_char_boundary (drop a s) (b - a) = true.
Proof.
  intros Hab Ha Hb. apply icb_spec. apply icb_spec in Hb. rewrite len_drop.
  destruct (N.eq_dec a b) as [->|Hne]; [left; lia|].
  destruct Hb as [?|[?|[Hlt [x [Hx Hc]]]]]; [lia|right; left; lia|].
  right; right. split; [lia|]. exists x. split; [|assumption].
  unfold drop. rewrite nth_error_skipn'. rewrite <- Hx. f_equal. lia.
Qed.

(* T1 core: cutting a valid string at two character boundaries gives valid text *)
Lemma slice_valid s a b : valid_utf8 s -> a <= b ->
  is_char_boundary s a = true -> is_char_boundary s b = true -> valid_utf8 (slice s a b).
Proof.
  intros Hv Hab Ha Hb. unfold slice.
  pose proof (icb_le_len _ _ Ha) as Hal.
  destruct (valid_split s a Hv Ha) as [_ Hd].
  apply (valid_split (drop a s) (b - a) Hd). apply icb_drop; assumption.
Qed.

Lemma str_get_some s a b r : str_get s a b = Some r ->
  a <= b /\ is_char_boundary s a = true /\ is_char_boundary s b = true /\ r = slice s a b.
Proof.
  unfold str_get. destruct (a <=? b) eqn:E1; [|discriminate].
  destruct (is_char_boundary s a) eqn:E2; [|discriminate].
  destruct (is_char_boundary s b) eqn:E3; [|discriminate].
  simpl. intro H. inversion H. apply N.leb_le in E1. auto.
Qed.

Lemma str_get_valid s a b r : valid_utf8 s -> str_get s a b = Some r -> valid_utf8 r.
Proof.
  intros Hv H. apply str_get_some in H as [? [? [? ->]]]. apply slice_valid; assumption.
Qed.

Lemma str_get_intro s a b : a <= b -> is_char_boundary s a = true -> is_char_boundary s b = true ->
  str_get s a b = Some (slice s a b).
Proof. intros H1 H2 H3. unfold str_get. apply N.leb_le in H1. rewrite H1, H2, H3. reflexivity. Qed.

(* ---------- StringSlice / KString invariants ---------- *)

Definition isize_max : N := 9223372036854775807.

(* "The bounds are guaranteed to be indices to a valid UTF-8 sub-string of the original data" *)
Definition ss_wf (s : sslice) : Prop :=
  valid_utf8 (ss_data s) /\ len (ss_data s) <= isize_max /\ ss_start s <= ss_end s /\
  is_char_boundary (ss_data s) (ss_start s) = true /\ is_char_boundary (ss_data s) (ss_end s) = true /\
  fits (ss_w s) (ss_start s) = true /\ fits (ss_w s) (ss_end s) = true.

Definition ks_wf (k : kstring) : Prop :=
  match k with
  | KFull d => valid_utf8 d /\ len d <= isize_max
  | KSlice s => ss_wf s /\ ss_w s = W16
  | KSliceLarge s => ss_wf s /\ ss_w s = W64
  end.

Definition is_full (k : kstring) : bool := match k with KFull _ => true | _ => false end.

Lemma ss_as_str_wf s : ss_wf s ->
  ss_as_str s = Ok (slice (ss_data s) (ss_start s) (ss_end s)) /\
  valid_utf8 (slice (ss_data s) (ss_start s) (ss_end s)).
Proof.
  intros [Hv [_ [Hle [Ha [Hb _]]]]]. unfold ss_as_str. rewrite (str_get_intro _ _ _ Hle Ha Hb).
  split; [reflexivity | apply slice_valid; assumption].
Qed.

Lemma ks_as_str_wf k : ks_wf k -> exists r, ks_as_str k = Ok r /\ valid_utf8 r.
Proof.
  destruct k as [d|s|s]; simpl.
  - intros [Hv _]. eauto.
  - intros [H _]. destruct (ss_as_str_wf s H). eauto.
  - intros [H _]. destruct (ss_as_str_wf s H). eauto.
Qed.

Lemma ks_of_slice_wf s : ss_wf s -> ss_w s = W64 -> ks_wf (ks_of_slice s).
Proof.
  intros H Hw. unfold ks_of_slice, ss_try_convert.
  destruct (fits W16 (ss_start s) && fits W16 (ss_end s)) eqn:E.
  - simpl. split; [|reflexivity]. apply andb_true_iff in E as [E1 E2].
    destruct H as [Hv [Hl [Hle [Ha [Hb _]]]]]. repeat split; assumption.
  - simpl. auto.
Qed.

Lemma uadd_ok a b : a + b <= usize_max -> uadd a b = Ok (a + b).
Proof. intro H. unfold uadd. apply N.leb_le in H. rewrite H. reflexivity. Qed.

(* with_bounds on a slice: the new bounds are checked against the buffer, so the result is
   again a well-formed slice, for ALL a b (in, on, beyond the bounds) *)
Lemma ss_with_bounds_wf s a b : ss_wf s ->
  match ss_with_bounds s a b with
  | Ok s' => ss_wf s' /\ ss_w s' = ss_w s /\ ss_data s' = ss_data s /\
             ss_start s' = a + ss_start s /\ ss_end s' = b + ss_start s
  | Err => True
  | UB => False
  | Panic => usize_max < b + ss_start s \/ usize_max < a + ss_start s
  end.
Proof.
  intros Hwf. unfold ss_with_bounds, uadd.
  destruct (N.leb_spec (a + ss_start s) usize_max); simpl; [|lia].
  destruct (N.leb_spec (b + ss_start s) usize_max); simpl; [|lia].
  destruct (str_get (ss_data s) (a + ss_start s) (b + ss_start s)) eqn:G; [|exact I].
  destruct (fits (ss_w s) (a + ss_start s) && fits (ss_w s) (b + ss_start s)) eqn:F; [|exact I].
  apply andb_true_iff in F as [F1 F2]. apply str_get_some in G as [G1 [G2 [G3 _]]].
  destruct Hwf as [Hv [Hl _]]. simpl. repeat split; assumption.
Qed.

Lemma ss_wf_bounds s : ss_wf s -> ss_end s <= isize_max /\ ss_start s <= ss_end s.
Proof.
  intros [_ [Hl [Hle [_ [Hb _]]]]]. apply icb_le_len in Hb. lia.
Qed.

(* T1 at the KString level, for strings that are slices of a shared buffer *)
Lemma ks_with_bounds_sliced k a b : ks_wf k -> is_full k = false ->
  a <= isize_max + 1 -> b <= isize_max + 1 ->
  match ks_with_bounds k a b with
  | Ok k' => ks_wf k' /\ is_full k' = false
  | Err => True
  | UB | Panic => False
  end.
Proof.
  intros Hwf Hf Ha Hb. destruct k as [d|s|s]; [discriminate| |]; simpl in *; destruct Hwf as [Hwf Hw];
    pose proof (ss_with_bounds_wf s a b Hwf) as H; pose proof (ss_wf_bounds s Hwf) as [B1 B2];
    destruct (ss_with_bounds s a b) as [s'| | |]; simpl; auto;
    try (unfold usize_max, isize_max in *; lia).
  - destruct H as [H1 [H2 _]]. split; [split; [assumption | congruence] | reflexivity].
  - destruct H as [H1 [H2 _]]. split.
    + apply ks_of_slice_wf; [assumption | congruence].
    + unfold ks_of_slice. destruct (ss_try_convert s' W16); reflexivity.
Qed.

(* ---------- VM level ---------- *)

Inductive vop :=
| OpIndex (n : Z)
| OpRange (r : krange)
| OpTempIndex (i : Z)
| OpSlice (i : Z) (is_to : bool).

Definition run_op (k : kstring) (op : vop) : vres :=
  match op with
  | OpIndex n => run_index_num k n
  | OpRange r => run_index_range k r
  | OpTempIndex i => run_temp_index k i
  | OpSlice i t => run_slice k i t
  end.

(* class of the known finding C15b: an inclusive range that ends at i64::MAX *)
Definition range_end_overflows (r : krange) : bool :=
  match r with
  | RTo e true | RBounded _ e true => (e =? i64_max)%Z
  | _ => false
  end.

(* operands that the VM can produce: i64 range ends, i8 immediate indices *)
Definition op_in_domain (op : vop) : Prop :=
  match op with
  | OpIndex n => (i64_min <= n <= i64_max)%Z
  | OpRange r => range_end_overflows r = false /\
                 match r with
                 | RFrom s => (i64_min <= s <= i64_max)%Z
                 | RTo e _ => (i64_min <= e <= i64_max)%Z
                 | RBounded s e _ => (i64_min <= s <= i64_max)%Z /\ (i64_min <= e <= i64_max)%Z
                 | RUnbounded => True
                 end
  | OpTempIndex i | OpSlice i _ => (-128 <= i <= 127)%Z
  end.

Definition vres_good (v : vres) : Prop :=
  match v with
  | VStr k' => ks_wf k'
  | VNull | VErr => True
  | VUB | VPanic => False
  end.

Lemma ks_len_wf k : ks_wf k -> exists l, ks_len k = Ok l /\ l <= isize_max.
Proof.
  intro H. unfold ks_len. destruct k as [d|s|s]; simpl in *.
  - destruct H. eauto.
  - destruct H as [H _]. destruct (ss_as_str_wf s H) as [-> _]. simpl. eexists. split; [reflexivity|].
    pose proof (ss_wf_bounds s H). unfold slice, take, drop, len. rewrite firstn_length, skipn_length.
    unfold isize_max in *. lia.
  - destruct H as [H _]. destruct (ss_as_str_wf s H) as [-> _]. simpl. eexists. split; [reflexivity|].
    pose proof (ss_wf_bounds s H). unfold slice, take, drop, len. rewrite firstn_length, skipn_length.
    unfold isize_max in *. lia.
Qed.

Lemma indices_ok r l : l <= isize_max -> range_end_overflows r = false ->
  exists a b, indices r l = Ok (a, b) /\ a <= b /\ b <= l.
Proof.
  intros Hl Hr. unfold indices, as_bounded_range, clamp.
  assert (HL : (0 <= Z.of_N l)%Z) by lia.
  destruct r as [s|e incl|s e incl|]; simpl in *.
  all: try (destruct incl; [destruct (Z.eqb_spec e i64_max); [discriminate|]|]); simpl.
  all: repeat match goal with
         | |- context [if (?x <? ?y)%Z then _ else _] => destruct (Z.ltb_spec x y); simpl
         | H : context [if (?x <? ?y)%Z then _ else _] |- _ => destruct (Z.ltb_spec x y); simpl in H
         end;
       try (exfalso; unfold i64_min, i64_max, isize_max in *; lia);
       try (eexists; eexists; split; [reflexivity|]; unfold i64_min, i64_max, isize_max in *; lia).
Qed.

Theorem slice_valid_or_error_lemma : forall k op,
  ks_wf k -> is_full k = false -> op_in_domain op -> vres_good (run_op k op).
Proof.
  intros k op Hwf Hf Hd.
  destruct (ks_len_wf k Hwf) as [l [Hl Hlm]].
  destruct op as [n|r|i|i t]; simpl in *.
  - unfold run_index_num. rewrite Hl. simpl. unfold validate_index.
    destruct (n <? 0)%Z eqn:E1; simpl; [exact I|].
    destruct (Z.of_N l <=? n)%Z eqn:E2; simpl; [exact I|].
    apply Z.ltb_ge in E1. apply Z.leb_gt in E2.
    pose proof (ks_with_bounds_sliced k (Z.to_N n) (Z.to_N n + 1) Hwf Hf) as H.
    destruct (ks_with_bounds k (Z.to_N n) (Z.to_N n + 1)); simpl; auto;
      apply H; unfold isize_max in *; lia.
  - destruct Hd as [Hr _]. unfold run_index_range. rewrite Hl. simpl.
    destruct (indices_ok r l Hlm Hr) as [a [b [-> [Hab Hbl]]]]. simpl.
    pose proof (ks_with_bounds_sliced k a b Hwf Hf) as H.
    destruct (ks_with_bounds k a b); simpl; auto; apply H; unfold isize_max in *; lia.
  - unfold run_temp_index. rewrite Hl. simpl.
    set (j := signed_index_to_unsigned i l).
    assert (Hj : j <= l \/ j <= 127).
    { unfold j, signed_index_to_unsigned. destruct (i <? 0)%Z eqn:E; [left; lia|right; lia]. }
    pose proof (ks_with_bounds_sliced k j (j + 1) Hwf Hf) as H.
    destruct (ks_with_bounds k j (j + 1)); simpl; auto; apply H; unfold isize_max in *; lia.
  - unfold run_slice. rewrite Hl. simpl.
    set (j := signed_index_to_unsigned i l).
    assert (Hj : j <= l \/ j <= 127).
    { unfold j, signed_index_to_unsigned. destruct (i <? 0)%Z eqn:E; [left; lia|right; lia]. }
    destruct t.
    + pose proof (ks_with_bounds_sliced k 0 j Hwf Hf) as H.
      destruct (ks_with_bounds k 0 j); simpl; auto; apply H; unfold isize_max in *; lia.
    + pose proof (ks_with_bounds_sliced k j l Hwf Hf) as H.
      destruct (ks_with_bounds k j l); simpl; auto; apply H; unfold isize_max in *; lia.
Qed.

(* ---------- witnesses: where the property fails on the faithful model ---------- *)

(* C15a: a string that owns its buffer: s[0] of "é" is an unchecked slice 0..1 *)
Lemma full_index_unchecked :
  let k := KFull [195; 169] in
  ks_wf k /\ exists k', run_op k (OpIndex 0) = VStr k' /\ ks_as_str k' = UB.
Proof.
  split.
  - split; [exists [[195; 169]]; split; reflexivity | unfold isize_max, len; simpl; lia].
  - eexists. split; reflexivity.
Qed.

(* C15b: ..=i64::MAX *)
Lemma range_incl_max_panics :
  run_op (KSlice (mk_ss [97; 98; 99] 0 3 W16)) (OpRange (RTo i64_max true)) = VPanic.
Proof. reflexivity. Qed.

(* C15e: with_bounds beyond the end of a slice returns bytes of the neighbouring data *)
Lemma with_bounds_beyond_end_leaks :
  let k := KSlice (mk_ss [97; 98] 0 1 W16) in
  ks_as_str k = Ok [97] /\ exists k', ks_with_bounds k 0 2 = Ok k' /\ ks_as_str k' = Ok [97; 98].
Proof. split; [reflexivity|]. eexists. split; reflexivity. Qed.

(* C15d: split with the empty pattern: the iterator state is a fixed point of next(), for every string *)
Lemma ks_with_bounds_00 k : ks_wf k -> exists r, ks_with_bounds k 0 0 = Ok r.
Proof.
  destruct k as [d|s|s]; simpl.
  - intros _. eexists. reflexivity.
  - intros [H Hw]. pose proof (ss_with_bounds_wf s 0 0 H) as W. pose proof (ss_wf_bounds s H) as [B1 B2].
    destruct H as [Hv [Hl [Hle [Ha [Hb [F1 F2]]]]]].
    unfold ss_with_bounds in *. rewrite !uadd_ok in * by (unfold isize_max, usize_max in *; simpl; lia). simpl in *.
    rewrite (str_get_intro _ _ _ (N.le_refl _) Ha Ha) in *. rewrite F1 in *. simpl. eauto.
  - intros [H Hw]. pose proof (ss_wf_bounds s H) as [B1 B2].
    destruct H as [Hv [Hl [Hle [Ha [Hb [F1 F2]]]]]].
    unfold ss_with_bounds. rewrite !uadd_ok by (unfold isize_max, usize_max in *; simpl; lia). simpl.
    rewrite (str_get_intro _ _ _ (N.le_refl _) Ha Ha). rewrite F1. simpl. eauto.
Qed.

Lemma split_empty_pattern_stuck_lemma k : ks_wf k ->
  exists r, split_next (mk_split k [] 0) = Ok (Some (r, mk_split k [] 0)).
Proof.
  intro H. destruct (ks_as_str_wf k H) as [s [Hs _]]. destruct (ks_with_bounds_00 k H) as [r Hr].
  exists r. unfold split_next. simpl. rewrite Hs. simpl.
  replace (0 <=? len s) with true by (symmetry; apply N.leb_le; lia).
  unfold str_from. simpl. unfold find_sub. destruct s; simpl; rewrite Hr; reflexivity.
Qed.

(* hence no amount of fuel finishes the drain *)
Lemma split_empty_never_finishes k : ks_wf k ->
  forall fuel, exists os, drain split_next fuel (mk_split k [] 0) = Ok (os, false, mk_split k [] 0) /\ length os = fuel.
Proof.
  intros H fuel. destruct (split_empty_pattern_stuck_lemma k H) as [r Hr].
  induction fuel as [|f [os [IH L]]]; simpl.
  - exists []. auto.
  - rewrite Hr. simpl. rewrite IH. exists (r :: os). simpl. auto.
Qed.

(* ---------- format: centre alignment ---------- *)
From KV.str Require Import FmtModel.

Lemma half_sum x : x / 2 + (x + 1) / 2 = x.
Proof. zify. Z.div_mod_to_equations. lia. Qed.

Lemma pad_counts_exact al num w g : w - g <= 16777216 ->
  let '(l, r) := pad_counts al num w g in l + r = w - g.
Proof.
  intro Hb. unfold pad_counts. destruct (N.ltb_spec g w); [|simpl; lia].
  destruct al; [destruct num; simpl; lia | simpl; lia | | simpl; lia].
  unfold f32_of_uint. destruct (N.ltb_spec (w - g) 16777216).
  - apply half_sum.
  - assert (w - g = 16777216) as -> by lia. reflexivity.
Qed.

(* K17: beyond 2^24 fill characters `as f32` loses a column *)
Lemma centre_loses_column :
  pad_counts ACenter false 16777218 1 = (8388608, 8388608) /\ 8388608 + 8388608 < 16777218 - 1.
Proof. split; [vm_compute; reflexivity | lia]. Qed.

Lemma length_repeat_bytes fill n : length (repeat_bytes fill n) = (n * length fill)%nat.
Proof. induction n; simpl; [reflexivity|]. rewrite app_length, IHn. lia. Qed.
