(* run_string_push (crates/runtime/src/vm.rs): the padding arithmetic, as written.
     let fill_chars = min_width - len;
     Center => { let half_fill_chars = fill_chars as f32 / 2.0;
                 fill.repeat(half_fill_chars.floor() as usize) ++ rendered ++ fill.repeat(half_fill_chars.ceil() as usize) }
   min_width is a u32, len the number of grapheme clusters of the rendered value. *)
From KV.str Require Import StrBase.
Open Scope N_scope.

(* `x as f32` for an unsigned integer below 2^32: round to nearest, ties to even, 24-bit significand;
   the result is an integer, returned as N *)
Definition f32_of_uint (x : N) : N :=
  if x <? 16777216 then x
  else
    let e := N.log2 x - 23 in
    let q := x / 2 ^ e in
    let r := x mod 2 ^ e in
    let half := 2 ^ (e - 1) in
    let q' := if (half <? r) || ((r =? half) && N.odd q) then q + 1 else q in
    q' * 2 ^ e.

Inductive alignment := ADefault | ALeft | ACenter | ARight.

(* number of copies of the fill string put (before, after) the rendered value *)
Definition pad_counts (al : alignment) (value_is_number : bool) (min_width len_graphemes : N) : N * N :=
  if len_graphemes <? min_width then
    let fill_chars := min_width - len_graphemes in
    match al with
    | ADefault => if value_is_number then (fill_chars, 0) else (0, fill_chars)
    | ALeft => (0, fill_chars)
    | ARight => (fill_chars, 0)
    | ACenter =>
        let f := f32_of_uint fill_chars in
        (* f / 2.0 is exact; floor and ceil of it *)
        (f / 2, (f + 1) / 2)
    end
  else (0, 0).

Fixpoint repeat_bytes (fill : bytes) (n : nat) : bytes :=
  match n with O => [] | S m => fill ++ repeat_bytes fill m end.

Definition pad (al : alignment) (value_is_number : bool) (min_width : N) (fill rendered : bytes) (len_graphemes : N) : bytes :=
  let '(l, r) := pad_counts al value_is_number min_width len_graphemes in
  repeat_bytes fill (N.to_nat l) ++ rendered ++ repeat_bytes fill (N.to_nat r).
