(* Encoders for the correspondence check (checks/c15.py): every table is a list of
   lists of N, in an order shared with harness/src/bin/kh_str.rs. *)
From KV.str Require Import StrBase StrModel FmtModel OpsModel.
Open Scope N_scope.

(* tags: 0 valid string (bytes follow) | 1 Null/None | 2 error | 3 unchecked access
   (the raw bytes follow when the bounds lie inside the buffer, else 256) | 4 panic | 5 end marker *)
Definition enc_ss_raw (s : sslice) : list N :=
  if (ss_start s <=? ss_end s) && (ss_end s <=? len (ss_data s))
  then let raw := slice (ss_data s) (ss_start s) (ss_end s) in
       (* an unchecked slice whose bytes happen to be well-formed is observed as a plain string *)
       (if utf8_check raw then 0 else 3) :: raw
  else [3; 256].

Definition enc_k (k : kstring) : list N :=
  match ks_as_str k with
  | Ok s => 0 :: s
  | Err => [2]
  | Panic => [4]
  | UB => match k with KFull d => [3] | KSlice s | KSliceLarge s => enc_ss_raw s end
  end.

Definition enc_ok (x : outcome kstring) : list N :=
  match x with Ok k => enc_k k | Err => [1] | UB => [3] | Panic => [4] end.

Definition enc_v (v : vres) : list N :=
  match v with VStr k => enc_k k | VNull => [1] | VErr => [2] | VUB => [3] | VPanic => [4] end.

(* the KString under test: variant 0 = Full(s); 1/2 = slice pre|s|post of a Full parent
   (Slice when the bounds fit u16, else SliceLarge) *)
Definition mk_k (variant : N) (pre s post : bytes) : kstring :=
  if variant =? 0 then KFull s
  else match ks_with_bounds (KFull (pre ++ s ++ post)) (len pre) (len pre + len s) with
       | Ok k => k
       | _ => KFull s
       end.

Fixpoint nrange (n : nat) (from : N) : list N :=
  match n with O => [] | S m => from :: nrange m (from + 1) end.
Definition zrange (n : nat) (from : Z) : list Z := map (fun i => (from + Z.of_N i)%Z) (nrange n 0).

(* --- table 1: slicing --- *)
Definition slice_table (variant : N) (pre s post : bytes) : list (list N) :=
  let k := mk_k variant pre s post in
  let L := length s in
  let api := flat_map (fun a => map (fun b => enc_ok (ks_with_bounds k a b)) (nrange (L + 2) 0)) (nrange (L + 2) 0) in
  let zs := zrange (L + 3) (-1) in
  let idx := map (fun n => enc_v (run_index_num k n)) zs in
  let rng := flat_map (fun a => flat_map (fun b =>
               [enc_v (run_index_range k (RBounded a b false)); enc_v (run_index_range k (RBounded a b true))]) zs) zs in
  let from := map (fun a => enc_v (run_index_range k (RFrom a))) zs in
  let to_ := flat_map (fun b => [enc_v (run_index_range k (RTo b false)); enc_v (run_index_range k (RTo b true))]) zs in
  let misc := [enc_v (run_index_range k RUnbounded); enc_v (run_index_range k (RTo i64_max true));
               enc_v (run_index_range k (RBounded i64_min i64_max false));
               enc_v (run_index_range k (RBounded 0 i64_max true))] in
  api ++ idx ++ rng ++ from ++ to_ ++ misc.

(* --- nested unpacking of a string argument: CheckSizeEqual/Min, then TempIndex / SliceFrom / SliceTo
   (compile_unpack_nested_args_of_tuple).  A failed size check is a runtime error. --- *)
Definition size_check (k : kstring) (exact : bool) (n : N) : bool :=
  match ks_len k with Ok l => if exact then l =? n else n <=? l | _ => false end.

Definition unpack_table (variant : N) (pre s post : bytes) : list (list N) :=
  let k := mk_k variant pre s post in
  let ti i := enc_v (run_temp_index k i) in
  let sf i := enc_v (run_slice k i false) in
  let st i := enc_v (run_slice k i true) in
  (* |(a, b)| *)
  (if size_check k true 2 then [ti 0; ti 1]%Z else [[2]]) ++ [[5]] ++
  (* |(a, b, c)| *)
  (if size_check k true 3 then [ti 0; ti 1; ti 2]%Z else [[2]]) ++ [[5]] ++
  (* |(a, rest...)| *)
  (if size_check k false 1 then [ti 0; sf 1]%Z else [[2]]) ++ [[5]] ++
  (* |(a, b, rest...)| *)
  (if size_check k false 2 then [ti 0; ti 1; sf 2]%Z else [[2]]) ++ [[5]] ++
  (* |(first..., z)| *)
  (if size_check k false 1 then [st (-1); ti (-1)]%Z else [[2]]) ++ [[5]] ++
  (* |(first..., y, z)| *)
  (if size_check k false 2 then [st (-2); ti (-2); ti (-1)]%Z else [[2]]) ++ [[5]] ++
  (* |(a, rest..., z)| is not allowed; |(a, b, c, rest...)| *)
  (if size_check k false 3 then [ti 0; ti 1; ti 2; sf 3]%Z else [[2]]).

(* --- grapheme oracle from a table of cluster boundaries (computed by unicode-segmentation
   in the harness for the whole string; the harness also checks that re-segmenting every
   suffix / prefix that starts / ends on a boundary gives the same clusters) --- *)
Fixpoint next_bound (bs : list N) (pos : N) : N :=
  match bs with
  | [] => pos + 1
  | b :: t => if pos <? b then b else next_bound t pos
  end.
Fixpoint prev_bound (bs : list N) (pos : N) (best : N) : N :=
  match bs with
  | [] => best
  | b :: t => if b <? pos then prev_bound t pos b else best
  end.
Definition fg_tab (bs : list N) (total : N) (rest : bytes) : N :=
  let pos := total - len rest in next_bound bs pos - pos.
Definition lg_tab (bs : list N) (s : bytes) : N :=
  len s - prev_bound bs (len s) 0.

Definition enc_drain {O St} (enc : O -> list N) (r : outcome (list O * bool * St)) : list (list N) :=
  match r with
  | Ok (os, fin, _) => map enc os ++ [[5; if fin then 1 else 0]]
  | Err => [[2]] | UB => [[3]] | Panic => [[4]]
  end.

Definition enc_hint (r : outcome (N * N)) : list N :=
  match r with Ok (a, b) => [0; a; b] | Err => [2] | UB => [3] | Panic => [4] end.

(* drain with `fuel`, then (when finished) ask the exhausted iterator for its size_hint,
   which is what to_list / to_tuple do first *)
Definition drain_then_hint {O St} (next : St -> outcome (option (O * St))) (hint : St -> outcome (N * N))
           (enc : O -> list N) (fuel : nat) (st : St) : list (list N) :=
  let r := drain next fuel st in
  enc_drain enc r ++
  match r with
  | Ok (_, true, stf) => [enc_hint (hint stf)]
  | _ => []
  end.

Definition preds : list (bytes -> bool) :=
  [ bytes_eqb [32]; bytes_eqb [195; 169]; (fun c => 1 <? len c); (fun _ => true); (fun _ => false);
    bytes_eqb [10] ].

Definition iter_table (variant : N) (pre s post : bytes) (gb : list N) (pats : list bytes) : list (list N) :=
  let k := mk_k variant pre s post in
  let total := len s in
  let fg := fg_tab gb total in
  let lg := lg_tab gb in
  let fuel := (length s + 3)%nat in
  let encp (p : N * N) := [7; fst p; snd p] in
  [[5; 100]] ++ drain_then_hint bytes_next bytes_size_hint (fun b => [b]) fuel (mk_bytes s 0) ++
  [[5; 101]] ++ drain_then_hint (ci_next fg) ci_size_hint encp fuel (mk_ci s 0) ++
  [[5; 102]] ++ drain_then_hint (chars_next fg) chars_size_hint enc_k fuel k ++
  [[5; 103]] ++ drain_then_hint (chars_next_back lg) chars_size_hint enc_k fuel k ++
  [[5; 104]] ++ drain_then_hint lines_next lines_size_hint enc_k fuel (mk_lines k 0) ++
  flat_map (fun p => [[5; 105]] ++ drain_then_hint split_next split_size_hint enc_k fuel (mk_split k p 0)) pats ++
  flat_map (fun pr => [[5; 106]] ++ drain_then_hint (sw_next fg pr) sw_size_hint enc_k fuel (mk_sw k 0)) preds.

(* the correspondence check compares a hash of each table (printing big tables is slow);
   a mismatching case is re-evaluated in full *)
(* --- table 4: core_lib string functions, per pattern: starts_with, ends_with, contains, strip_prefix,
   strip_suffix; then repeat 0, 1, 2 --- *)
Definition enc_b (b : bool) : list N := [6; if b then 1 else 0].
Definition ops_table (variant : N) (pre s post : bytes) (pats : list bytes) : list (list N) :=
  let k := mk_k variant pre s post in
  flat_map (fun p => [enc_b (is_prefix p s); enc_b (is_suffix p s); enc_b (op_contains s p);
                      enc_v (op_strip_prefix k p); enc_v (op_strip_suffix k p)]) pats ++
  map (fun n => 0 :: op_repeat s n) [0; 1; 2].

(* --- table 5: pattern-taking functions, per pattern: trim, trim_start, trim_end, replace with each
   replacement, then split (drained, with the exhausted size_hint) --- *)
Definition pat_table (variant : N) (pre s post : bytes) (pats reps : list bytes) : list (list N) :=
  let k := mk_k variant pre s post in
  let fuel := (length s + 3)%nat in
  flat_map (fun p =>
    [enc_v (op_trim k p); enc_v (op_trim_start k p); enc_v (op_trim_end k p)] ++
    map (fun r => 0 :: op_replace s p r) reps ++
    [[5; 105]] ++ drain_then_hint split_next split_size_hint enc_k fuel (mk_split k p 0)) pats.

(* Fletcher-style position-sensitive checksum (additions only: cheap under vm_compute) *)
Definition hash_step (ab : N * N) (x : N) : N * N := let a := fst ab + x in (a, snd ab + a).
Definition hash_table (t : list (list N)) : list N :=
  let '(a, b) := fold_left (fun h e => hash_step (fold_left (fun h x => hash_step h (x + 1)) e h) 100003) t (0, 0) in
  [a; b].
