From KV.str Require Import StrBase StrModel FmtModel StrProofs IterProofs OpsModel.
Open Scope N_scope.

Lemma is_prefix_refl_app p r : is_prefix p (p ++ r) = true.
Proof. induction p; simpl; [reflexivity|]. rewrite N.eqb_refl. assumption. Qed.

Lemma is_prefix_split p s : is_prefix p s = true -> exists r, s = p ++ r.
Proof. intro H. exists (drop (len p) s). apply is_prefix_app. exact H. Qed.

Section StripPrefix.
  Variable k : kstring.
  Variable s p : bytes.
  Hypothesis W : ks_wf k.
  Hypothesis A : ks_as_str k = Ok s.
  Hypothesis Vp : valid_utf8 p.

  (* strip_prefix: exactly the rest after the prefix (a well-formed string), or Null; never a panic *)
  Lemma strip_prefix_lemma :
    (forall r, s = p ++ r -> exists k', op_strip_prefix k p = VStr k' /\ ks_wf k' /\ ks_as_str k' = Ok r) /\
    (is_prefix p s = false -> op_strip_prefix k p = VNull).
  Proof.
    assert (V : valid_utf8 s) by (destruct (ks_as_str_wf k W) as [r' [Hr Hv]]; congruence).
    split.
    - intros r E. unfold op_strip_prefix. rewrite A. simpl.
      assert (P : is_prefix p s = true) by (rewrite E; apply is_prefix_refl_app). rewrite P.
      assert (D : drop (len p) s = r) by (rewrite E; apply drop_app_len).
      rewrite D. assert (Ls : len s = len p + len r) by (rewrite E; apply len_app).
      assert (Vr : valid_utf8 r) by (apply (valid_app_inv_l p r Vp); rewrite <- E; exact V).
      assert (B : is_char_boundary s (len p) = true) by (apply seam_is_boundary; [lia | rewrite D; exact Vr]).
      replace (len s - len r) with (len p) by lia.
      destruct (ks_with_bounds_exact k s (len p) (len s) W A) as [k' [Wb [Wk A']]]; auto using icb_len; try lia.
      unfold of_unwrap. rewrite Wb. simpl. exists k'. rewrite slice_full, D in A'. auto.
    - intro H. unfold op_strip_prefix. rewrite A. simpl. rewrite H. reflexivity.
  Qed.

  Lemma strip_suffix_lemma :
    (forall r, s = r ++ p -> p <> [] -> exists k', op_strip_suffix k p = VStr k' /\ ks_wf k' /\ ks_as_str k' = Ok r) /\
    (is_suffix p s = false -> op_strip_suffix k p = VNull).
  Proof.
    assert (V : valid_utf8 s) by (destruct (ks_as_str_wf k W) as [r' [Hr Hv]]; congruence).
    split.
    - intros r E Pne. unfold op_strip_suffix. rewrite A. simpl.
      assert (S : is_suffix p s = true) by (unfold is_suffix; rewrite E, rev_app_distr; apply is_prefix_refl_app).
      rewrite S. assert (Ls : len s = len r + len p) by (rewrite E; apply len_app).
      replace (len s - len p) with (len r) by lia.
      assert (T : take (len r) s = r) by (rewrite E; apply take_app_len). rewrite T.
      destruct (valid_head_noncont p Vp Pne) as [b [pt [Ep Hb]]].
      assert (B : is_char_boundary s (len r) = true).
      { apply (noncont_boundary s (len r) b); [|assumption]. eapply drop_cons_nth. rewrite E, drop_app_len. exact Ep. }
      destruct (ks_with_bounds_exact k s 0 (len r) W A) as [k' [Wb [Wk A']]]; auto using icb_0; try lia.
      unfold of_unwrap. rewrite Wb. simpl. exists k'. rewrite slice_0, T in A'. auto.
    - intro H. unfold op_strip_suffix. rewrite A. simpl. rewrite H. reflexivity.
  Qed.
End StripPrefix.

Lemma repeat_valid s : valid_utf8 s -> forall n, valid_utf8 (repeat_bytes s n).
Proof. intros V n. induction n; simpl; [apply valid_nil | apply valid_app; assumption]. Qed.

Lemma repeat_lemma s n : valid_utf8 s -> valid_utf8 (op_repeat s n) /\ len (op_repeat s n) = n * len s.
Proof.
  intro V. split; [apply repeat_valid; assumption|].
  unfold op_repeat, len. rewrite length_repeat_bytes. lia.
Qed.

(* ---------- trim with a pattern ---------- *)

Lemma repeat_snoc p : forall n, repeat_bytes p (S n) = repeat_bytes p n ++ p.
Proof. induction n; simpl in *; [rewrite app_nil_r; reflexivity|]. rewrite IHn at 1. rewrite app_assoc. reflexivity. Qed.

Lemma rev_repeat p : forall n, rev (repeat_bytes (rev p) n) = repeat_bytes p n.
Proof.
  induction n; [reflexivity|]. simpl repeat_bytes at 1. rewrite rev_app_distr, rev_involutive, IHn.
  symmetry. apply repeat_snoc.
Qed.

Lemma trim_start_fuel_decomp p : forall fuel s, exists n, s = repeat_bytes p n ++ trim_start_fuel fuel p s.
Proof.
  induction fuel as [|f IH]; intro s; simpl; [exists 0%nat; reflexivity|].
  destruct (is_prefix p s) eqn:E; [|exists 0%nat; reflexivity].
  destruct (IH (drop (len p) s)) as [n Hn]. exists (S n). simpl.
  rewrite (is_prefix_app _ _ E) at 1. rewrite <- app_assoc. f_equal. exact Hn.
Qed.

(* what is stripped at the front is a whole number of copies of the pattern *)
Lemma trim_start_decomp_lemma p s : exists n, s = repeat_bytes p n ++ trim_start_matches p s.
Proof. unfold trim_start_matches. destruct p; [exists 0%nat; reflexivity|]. apply trim_start_fuel_decomp. Qed.

Lemma trim_end_decomp_lemma p s : exists n, s = trim_end_matches p s ++ repeat_bytes p n.
Proof.
  unfold trim_end_matches. destruct (trim_start_decomp_lemma (rev p) (rev s)) as [n Hn]. exists n.
  transitivity (rev (rev s)); [symmetry; apply rev_involutive|].
  rewrite Hn at 1. rewrite rev_app_distr, rev_repeat. reflexivity.
Qed.

Lemma trim_start_fuel_S f p s :
  trim_start_fuel (S f) p s = if is_prefix p s then trim_start_fuel f p (drop (len p) s) else s.
Proof. reflexivity. Qed.

Lemma trim_start_fuel_stops x p : forall fuel s, (length s <= fuel)%nat ->
  is_prefix (x :: p) (trim_start_fuel fuel (x :: p) s) = false.
Proof.
  induction fuel as [|f IH]; intros s L.
  - destruct s; [reflexivity | simpl in L; lia].
  - rewrite trim_start_fuel_S. destruct (is_prefix (x :: p) s) eqn:E; [|exact E].
    apply IH. pose proof (len_drop (len (x :: p)) s) as LD.
    assert (len s <> 0) by (destruct s; [discriminate | unfold len; simpl; lia]).
    unfold len in *. simpl in *. lia.
Qed.

(* the result does not start with the pattern any more; hence trim_start is idempotent *)
Lemma trim_start_stops p s : p <> [] -> is_prefix p (trim_start_matches p s) = false.
Proof. intro H. destruct p as [|x p]; [contradiction|]. apply trim_start_fuel_stops. lia. Qed.

Lemma trim_start_idem_lemma p s : trim_start_matches p (trim_start_matches p s) = trim_start_matches p s.
Proof.
  destruct p as [|x p]; [reflexivity|].
  pose proof (trim_start_stops (x :: p) s ltac:(discriminate)) as H.
  set (t := trim_start_matches (x :: p) s) in *. unfold trim_start_matches.
  destruct (length t); [reflexivity|]. rewrite trim_start_fuel_S, H. reflexivity.
Qed.

Lemma trim_end_idem_lemma p s : trim_end_matches p (trim_end_matches p s) = trim_end_matches p s.
Proof. unfold trim_end_matches. rewrite rev_involutive, trim_start_idem_lemma. reflexivity. Qed.

Section Trim.
  Variable k : kstring.
  Variable s p : bytes.
  Hypothesis W : ks_wf k.
  Hypothesis A : ks_as_str k = Ok s.
  Hypothesis Vp : valid_utf8 p.

  (* core.string trim(pattern): never panics, and the result is exactly
     trim_end_matches p (trim_start_matches p s) -- a contiguous slice of s between two character
     boundaries, with whole copies of the pattern removed on both sides *)
  Lemma trim_lemma :
    exists k' n m, op_trim k p = VStr k' /\ ks_wf k' /\
      ks_as_str k' = Ok (trim_end_matches p (trim_start_matches p s)) /\
      s = repeat_bytes p n ++ trim_end_matches p (trim_start_matches p s) ++ repeat_bytes p m.
  Proof.
    assert (V : valid_utf8 s) by (destruct (ks_as_str_wf k W) as [r' [Hr Hv]]; congruence).
    set (ts := trim_start_matches p s). set (te := trim_end_matches p ts).
    destruct (trim_start_decomp_lemma p s) as [n Hn]. fold ts in Hn.
    destruct (trim_end_decomp_lemma p ts) as [m Hm]. fold te in Hm.
    assert (Ls : len s = len (repeat_bytes p n) + len ts) by (rewrite Hn at 1; apply len_app).
    assert (Lt : len ts = len te + len (repeat_bytes p m)) by (rewrite Hm at 1; apply len_app).
    assert (Vts : valid_utf8 ts).
    { apply (valid_app_inv_l (repeat_bytes p n)); [apply repeat_valid; assumption | rewrite <- Hn; exact V]. }
    assert (D : drop (len (repeat_bytes p n)) s = ts) by (rewrite Hn at 1; apply drop_app_len).
    assert (B1 : is_char_boundary s (len (repeat_bytes p n)) = true) by (apply seam_is_boundary; [lia | rewrite D; exact Vts]).
    assert (B2t : is_char_boundary ts (len te) = true).
    { destruct m as [|m'].
      - simpl in Hm. rewrite app_nil_r in Hm. rewrite <- Hm. apply icb_len.
      - destruct p as [|x p'] eqn:Ep.
        + replace (repeat_bytes [] (S m')) with (@nil N) in * by (clear; induction m'; simpl in *; auto).
          rewrite app_nil_r in Hm. rewrite <- Hm. apply icb_len.
        + rewrite <- Ep in *. destruct (valid_head_noncont p Vp ltac:(rewrite Ep; discriminate)) as [b [pt [Eb Hb]]].
          apply (noncont_boundary ts (len te) b); [|assumption]. eapply drop_cons_nth.
          rewrite Hm at 1. rewrite drop_app_len. simpl. rewrite Eb. reflexivity. }
    assert (B2 : is_char_boundary s (len (repeat_bytes p n) + len te) = true).
    { apply icb_drop_inv; [lia | assumption | rewrite D; exact B2t]. }
    unfold op_trim. rewrite A. simpl. fold ts. fold te.
    replace (len s - len ts) with (len (repeat_bytes p n)) by lia.
    destruct (ks_with_bounds_exact k s (len (repeat_bytes p n)) (len (repeat_bytes p n) + len te) W A)
      as [k' [Wb [Wk Ak]]]; auto; try lia.
    unfold of_unwrap. rewrite Wb. simpl. exists k', n, m. split; [reflexivity|]. split; [assumption|]. split.
    - rewrite Ak. f_equal. rewrite slice_from, D. rewrite Hm at 1. apply take_app_len.
    - rewrite Hn at 1. f_equal. exact Hm.
  Qed.
End Trim.

Lemma trim_overlap_example :
  trim_end_matches [97; 97] (trim_start_matches [97; 97] [97; 97; 97]) = [97] /\
  trim_end_matches [97; 98; 97] (trim_start_matches [97; 98; 97] [97; 98; 97; 98; 97]) = [98; 97] /\
  op_replace [97; 97; 97] [97; 97] [120] = [120; 97] /\ op_replace [97; 195; 169] [] [45] = [45; 97; 45; 195; 169; 45].
Proof. repeat split. Qed.

(* ---------- replace ---------- *)
Lemma pieces_fuel_nonempty p : forall f s, pieces_fuel f p s <> [].
Proof.
  induction f as [|f IH]; intro s; simpl; [discriminate|].
  destruct (is_prefix p s); [discriminate|].
  destruct s as [|b t]; [discriminate|]. destruct (pieces_fuel f p t); discriminate.
Qed.

Lemma join_cons_head (r : bytes) b h tl : join r ((b :: h) :: tl) = b :: join r (h :: tl).
Proof. destruct tl; reflexivity. Qed.

(* replace = join the pieces with the replacement, at every fuel *)
Lemma replace_fuel_join p r : forall f s, replace_fuel f p r s = join r (pieces_fuel f p s).
Proof.
  induction f as [|f IH]; intro s; [reflexivity|].
  cbn [replace_fuel pieces_fuel]. destruct (is_prefix p s) eqn:P.
  - rewrite IH. pose proof (pieces_fuel_nonempty p f (drop (len p) s)) as NE.
    destruct (pieces_fuel f p (drop (len p) s)) as [|h tl]; [congruence|]. reflexivity.
  - destruct s as [|b t]; [reflexivity|]. rewrite IH.
    pose proof (pieces_fuel_nonempty p f t) as NE.
    destruct (pieces_fuel f p t) as [|h tl]; [congruence|]. rewrite join_cons_head. reflexivity.
Qed.

(* replacing a pattern by itself changes nothing, at every fuel *)
Lemma replace_fuel_self p : forall f s, replace_fuel f p p s = s.
Proof.
  induction f as [|f IH]; intro s; [reflexivity|].
  cbn [replace_fuel]. destruct (is_prefix p s) eqn:P.
  - rewrite IH. symmetry. apply is_prefix_app. exact P.
  - destruct s as [|b t]; [reflexivity|]. rewrite IH. reflexivity.
Qed.

(* a piece never contains the pattern: an occurrence inside it would have been taken by the scan *)
Lemma is_prefix_app_r p : forall x y, is_prefix p x = true -> is_prefix p (x ++ y) = true.
Proof.
  induction p as [|a p IH]; intros x y H; [reflexivity|].
  destruct x as [|c x]; [discriminate|]. simpl in *.
  apply andb_true_iff in H as [H1 H2]. rewrite H1. simpl. apply IH. exact H2.
Qed.

Lemma pieces_fuel_concat p : forall f s, exists rest, s = hd [] (pieces_fuel f p s) ++ rest.
Proof.
  induction f as [|f IH]; intro s; simpl.
  - exists []. rewrite app_nil_r. reflexivity.
  - destruct (is_prefix p s); [exists s; reflexivity|].
    destruct s as [|b t]; [exists []; reflexivity|].
    destruct (IH t) as [rest E]. destruct (pieces_fuel f p t) as [|h tl]; simpl in *.
    + exists t. reflexivity.
    + exists rest. rewrite E at 1. reflexivity.
Qed.

Lemma find_from_none_iff p : forall s i, find_from p s i = None <->
  is_prefix p s = false /\ match s with [] => True | _ :: t => find_from p t (i + 1) = None end.
Proof.
  intros s i. destruct s as [|b t]; simpl; destruct (is_prefix p _); split; intro H; try tauto; try discriminate;
    try (destruct H; discriminate); try (split; auto).
Qed.

Lemma find_from_shift p : forall s i j, find_from p s i = None -> find_from p s j = None.
Proof.
  induction s as [|b t IH]; intros i j H; apply find_from_none_iff in H as [H1 H2]; apply find_from_none_iff; split; auto.
  eapply IH. exact H2.
Qed.

Lemma pieces_fuel_clean p : p <> [] -> forall f s, (length s < f)%nat ->
  Forall (fun x => find_sub p x = None) (pieces_fuel f p s).
Proof.
  intro Pne. induction f as [|f IH]; intros s L; [lia|].
  assert (Enil : find_sub p [] = None).
  { unfold find_sub. simpl. destruct p; [congruence | reflexivity]. }
  cbn [pieces_fuel]. destruct (is_prefix p s) eqn:P.
  - constructor; [exact Enil|]. apply IH.
    destruct p as [|a p']; [congruence|]. destruct s as [|c s']; [discriminate|].
    pose proof (is_prefix_app _ _ P) as E. apply (f_equal (@length N)) in E. rewrite app_length in E.
    simpl in E. simpl in L. lia.
  - destruct s as [|b t]; [constructor; [exact Enil | constructor]|].
    simpl in L. assert (Lt : (length t < f)%nat) by lia. pose proof (IH t Lt) as F.
    destruct (pieces_fuel_concat p f t) as [rest E].
    destruct (pieces_fuel f p t) as [|h tl] eqn:Eq; [exfalso; exact (pieces_fuel_nonempty p f t Eq)|].
    simpl in E. inversion F as [|x l Hh Htl]. subst x l. constructor; [|exact Htl].
    unfold find_sub. apply find_from_none_iff. split.
      * destruct (is_prefix p (b :: h)) eqn:P2; [|reflexivity].
        apply (is_prefix_app_r p (b :: h) rest) in P2. simpl in P2. rewrite <- E in P2. simpl in P. congruence.
      * eapply find_from_shift. exact Hh.
Qed.

(* replace, as a whole: s = pieces joined by the pattern, the result = the same pieces joined by the
   replacement, no piece contains the pattern (so the occurrences are the leftmost non-overlapping ones) *)
Lemma replace_lemma s p r : p <> [] ->
  join p (pieces p s) = s /\ op_replace s p r = join r (pieces p s) /\
  Forall (fun x => find_sub p x = None) (pieces p s) /\ op_replace s p p = s.
Proof.
  intro Pne. unfold pieces, op_replace. destruct p as [|a p']; [congruence|].
  repeat split.
  - rewrite <- replace_fuel_join. apply replace_fuel_self.
  - apply replace_fuel_join.
  - apply pieces_fuel_clean; [discriminate | lia].
  - apply replace_fuel_self.
Qed.

Example replace_pieces_example :
  pieces [97; 97] [97; 97; 97; 98; 97; 97] = [[]; [97; 98]; []] /\
  op_replace [97; 97; 97; 98; 97; 97] [97; 97] [120] = [120; 97; 98; 120].
Proof. split; reflexivity. Qed.

(* replace with the empty pattern: the replacement before every character and at the end *)
Lemma replace_empty_chars r : forall cs fuel, forallb wf_char cs = true -> (length (concat cs) <= fuel)%nat ->
  replace_empty fuel r (concat cs) = r ++ concat (map (fun c => c ++ r) cs).
Proof.
  induction cs as [|c cs IH]; intros fuel F L.
  - simpl. rewrite app_nil_r. destruct fuel; reflexivity.
  - simpl in F. apply andb_true_iff in F as [Fc Fcs].
    pose proof (wf_char_nonempty c Fc) as Cne. pose proof (wf_char_len c Fc) as Cl.
    destruct c as [|b ct]; [congruence|]. cbn [hd length] in Cl.
    destruct fuel as [|fuel]; [simpl in L; lia|].
    cbn [concat map]. change ((b :: ct) ++ concat cs) with (b :: (ct ++ concat cs)).
    cbn [replace_empty]. change (b :: ct ++ concat cs) with ((b :: ct) ++ concat cs).
    assert (E : lead_len b = len (b :: ct)) by (unfold len; cbn [length]; lia).
    rewrite E, take_app_len, drop_app_len. rewrite IH; [|exact Fcs|].
    + rewrite <- !app_assoc. reflexivity.
    + simpl in L. rewrite app_length in L. lia.
Qed.

Lemma replace_empty_lemma s r : valid_utf8 s -> exists cs, forallb wf_char cs = true /\ concat cs = s /\
  op_replace s [] r = r ++ concat (map (fun c => c ++ r) cs) /\ valid_utf8 s /\ op_replace s [] [] = s.
Proof.
  intros [cs [F E]]. exists cs. split; [exact F|]. split; [exact E|]. split; [|split].
  - unfold op_replace. rewrite <- E. apply replace_empty_chars; [exact F | lia].
  - exists cs. auto.
  - unfold op_replace. subst s. rewrite replace_empty_chars; [|exact F | lia].
    simpl. f_equal. clear. induction cs as [|c cs IH]; simpl; [reflexivity|]. rewrite app_nil_r, IH. reflexivity.
Qed.

Lemma replace_empty_valid s r : valid_utf8 s -> valid_utf8 r -> valid_utf8 (op_replace s [] r).
Proof.
  intros Vs Vr. destruct (replace_empty_lemma s r Vs) as [cs [F [_ [E _]]]]. rewrite E.
  apply valid_app; [exact Vr|]. clear E. induction cs as [|c cs IH]; simpl; [apply valid_nil|].
  simpl in F. apply andb_true_iff in F as [Fc Fcs].
  apply valid_app; [apply valid_app; [|exact Vr] | apply IH; exact Fcs].
  exists [c]. simpl. rewrite Fc, app_nil_r. auto.
Qed.

(* ---------- contains / starts_with / ends_with: exactly "is a substring / prefix / suffix" ---------- *)
Lemma is_prefix_iff p s : is_prefix p s = true <-> exists b, s = p ++ b.
Proof. split; [apply is_prefix_split | intros [b ->]; apply is_prefix_refl_app]. Qed.

Lemma is_suffix_iff p s : is_suffix p s = true <-> exists a, s = a ++ p.
Proof.
  unfold is_suffix. rewrite is_prefix_iff. split; intros [x E].
  - exists (rev x). rewrite <- (rev_involutive s), E, rev_app_distr, rev_involutive. reflexivity.
  - exists (rev x). rewrite E, rev_app_distr. reflexivity.
Qed.

Lemma find_from_none_all p : forall s i, find_from p s i = None -> forall a b, s = a ++ b -> is_prefix p b = false.
Proof.
  induction s as [|x t IH]; intros i H a b E; apply find_from_none_iff in H as [H1 H2].
  - destruct a; [|discriminate]. simpl in E. subst b. exact H1.
  - destruct a as [|y a].
    + simpl in E. subst b. exact H1.
    + inversion E; subst. eapply IH; [exact H2 | reflexivity].
Qed.

Lemma contains_iff s p : op_contains s p = true <-> exists a b, s = a ++ p ++ b.
Proof.
  unfold op_contains, find_sub. split.
  - destruct (find_from p s 0) as [r|] eqn:F; [|discriminate]. intros _.
    destruct (find_from_some p s 0 r F) as [e [_ [_ Hp]]].
    apply is_prefix_split in Hp as [b Eb]. exists (take e s), b. rewrite <- Eb.
    unfold take, drop. symmetry. apply firstn_skipn.
  - intros [a [b E]]. destruct (find_from p s 0) eqn:F; [reflexivity|].
    pose proof (find_from_none_all p s 0 F a (p ++ b) E) as N. rewrite is_prefix_refl_app in N. discriminate.
Qed.

Lemma trim_end_stops p s : p <> [] -> is_suffix p (trim_end_matches p s) = false.
Proof.
  intro Pne. unfold is_suffix, trim_end_matches. rewrite rev_involutive. apply trim_start_stops.
  intro E. apply Pne. rewrite <- (rev_involutive p), E. reflexivity.
Qed.

(* length of replace's result: every occurrence trades len p bytes for len r bytes *)
Lemma join_length (sep : bytes) : forall ps, ps <> [] ->
  (length (join sep ps) = length (concat ps) + (length ps - 1) * length sep)%nat.
Proof.
  induction ps as [|x ps IH]; intro NE; [congruence|].
  destruct ps as [|y ps]; [simpl; rewrite app_nil_r; lia|].
  change (join sep (x :: y :: ps)) with (x ++ sep ++ join sep (y :: ps)).
  rewrite !app_length, IH by discriminate. cbn [concat length]. rewrite !app_length. lia.
Qed.

Lemma replace_length s p r : p <> [] ->
  (length (op_replace s p r) + (length (pieces p s) - 1) * length p =
   length s + (length (pieces p s) - 1) * length r)%nat.
Proof.
  intro Pne. destruct (replace_lemma s p r Pne) as [J [R _]].
  assert (NE : pieces p s <> []) by apply pieces_fuel_nonempty.
  pose proof (join_length p _ NE) as Lp. rewrite J in Lp. rewrite R, (join_length r _ NE). lia.
Qed.
