From KV.str Require Import StrBase StrModel FmtModel StrProofs IterProofs OpsModel.
Open Scope N_scope.

Lemma is_prefix_refl_app p r : is_prefix p (p ++ r) = true.
Proof. induction p; simpl; [reflexivity|]. rewrite N.eqb_refl. assumption. Qed.

Lemma is_prefix_split p s : is_prefix p s = true -> exists r, s = p ++ r.
Proof. intro H. exists (drop (len p) s). apply is_prefix_app. exact H. Qed.

Section StripPrefix.
  Variable k : kstring.
  Variable s p : bytes.
  Hypothesis W : ks_wf k.
  Hypothesis A : ks_as_str k = Ok s.
  Hypothesis Vp : valid_utf8 p.

  (* strip_prefix: exactly the rest after the prefix (a well-formed string), or Null; never a panic *)
  Lemma strip_prefix_lemma :
    (forall r, s = p ++ r -> exists k', op_strip_prefix k p = VStr k' /\ ks_wf k' /\ ks_as_str k' = Ok r) /\
    (is_prefix p s = false -> op_strip_prefix k p = VNull).
  Proof.
    assert (V : valid_utf8 s) by (destruct (ks_as_str_wf k W) as [r' [Hr Hv]]; congruence).
    split.
    - intros r E. unfold op_strip_prefix. rewrite A. simpl.
      assert (P : is_prefix p s = true) by (rewrite E; apply is_prefix_refl_app). rewrite P.
      assert (D : drop (len p) s = r) by (rewrite E; apply drop_app_len).
      rewrite D. assert (Ls : len s = len p + len r) by (rewrite E; apply len_app).
      assert (Vr : valid_utf8 r) by (apply (valid_app_inv_l p r Vp); rewrite <- E; exact V).
      assert (B : is_char_boundary s (len p) = true) by (apply seam_is_boundary; [lia | rewrite D; exact Vr]).
      replace (len s - len r) with (len p) by lia.
      destruct (ks_with_bounds_exact k s (len p) (len s) W A) as [k' [Wb [Wk A']]]; auto using icb_len; try lia.
      unfold of_unwrap. rewrite Wb. simpl. exists k'. rewrite slice_full, D in A'. auto.
    - intro H. unfold op_strip_prefix. rewrite A. simpl. rewrite H. reflexivity.
  Qed.

  Lemma strip_suffix_lemma :
    (forall r, s = r ++ p -> p <> [] -> exists k', op_strip_suffix k p = VStr k' /\ ks_wf k' /\ ks_as_str k' = Ok r) /\
    (is_suffix p s = false -> op_strip_suffix k p = VNull).
  Proof.
    assert (V : valid_utf8 s) by (destruct (ks_as_str_wf k W) as [r' [Hr Hv]]; congruence).
    split.
    - intros r E Pne. unfold op_strip_suffix. rewrite A. simpl.
      assert (S : is_suffix p s = true) by (unfold is_suffix; rewrite E, rev_app_distr; apply is_prefix_refl_app).
      rewrite S. assert (Ls : len s = len r + len p) by (rewrite E; apply len_app).
      replace (len s - len p) with (len r) by lia.
      assert (T : take (len r) s = r) by (rewrite E; apply take_app_len). rewrite T.
      destruct (valid_head_noncont p Vp Pne) as [b [pt [Ep Hb]]].
      assert (B : is_char_boundary s (len r) = true).
      { apply (noncont_boundary s (len r) b); [|assumption]. eapply drop_cons_nth. rewrite E, drop_app_len. exact Ep. }
      destruct (ks_with_bounds_exact k s 0 (len r) W A) as [k' [Wb [Wk A']]]; auto using icb_0; try lia.
      unfold of_unwrap. rewrite Wb. simpl. exists k'. rewrite slice_0, T in A'. auto.
    - intro H. unfold op_strip_suffix. rewrite A. simpl. rewrite H. reflexivity.
  Qed.
End StripPrefix.

Lemma repeat_valid s : valid_utf8 s -> forall n, valid_utf8 (repeat_bytes s n).
Proof. intros V n. induction n; simpl; [apply valid_nil | apply valid_app; assumption]. Qed.

Lemma repeat_lemma s n : valid_utf8 s -> valid_utf8 (op_repeat s n) /\ len (op_repeat s n) = n * len s.
Proof.
  intro V. split; [apply repeat_valid; assumption|].
  unfold op_repeat, len. rewrite length_repeat_bytes. lia.
Qed.
