(* core_lib/string.rs: starts_with / ends_with / contains / strip_prefix / strip_suffix / repeat, as written
   (std::str primitives restated on bytes; the re-slicing goes through KString::with_bounds(..).unwrap()) *)
From KV.str Require Import StrBase StrModel FmtModel.
Open Scope N_scope.

Definition is_suffix (p s : bytes) : bool := is_prefix (rev p) (rev s).
Definition op_contains (s p : bytes) : bool := match find_sub p s with Some _ => true | None => false end.

Definition of_unwrap (x : outcome kstring) : vres :=
  match unwrap x with Ok r => VStr r | Err => VErr | UB => VUB | Panic => VPanic end.

(* if let Some(stripped) = s.strip_prefix(prefix) { s.with_bounds(s.len() - stripped.len()..s.len()).unwrap() } else { Null } *)
Definition op_strip_prefix (k : kstring) (p : bytes) : vres :=
  vbind (ks_as_str k) (fun s =>
    if is_prefix p s then
      let stripped := drop (len p) s in
      of_unwrap (ks_with_bounds k (len s - len stripped) (len s))
    else VNull).

(* if let Some(stripped) = s.strip_suffix(suffix) { s.with_bounds(0..stripped.len()).unwrap() } else { Null } *)
Definition op_strip_suffix (k : kstring) (p : bytes) : vres :=
  vbind (ks_as_str k) (fun s =>
    if is_suffix p s then
      let stripped := take (len s - len p) s in
      of_unwrap (ks_with_bounds k 0 (len stripped))
    else VNull).

(* input.as_str().repeat(n) for n >= 0 *)
Definition op_repeat (s : bytes) (n : N) : bytes := repeat_bytes s (N.to_nat n).
