(* core_lib/string.rs: starts_with / ends_with / contains / strip_prefix / strip_suffix / repeat, as written
   (std::str primitives restated on bytes; the re-slicing goes through KString::with_bounds(..).unwrap()) *)
From KV.str Require Import StrBase StrModel FmtModel.
Open Scope N_scope.

Definition is_suffix (p s : bytes) : bool := is_prefix (rev p) (rev s).
Definition op_contains (s p : bytes) : bool := match find_sub p s with Some _ => true | None => false end.

Definition of_unwrap (x : outcome kstring) : vres :=
  match unwrap x with Ok r => VStr r | Err => VErr | UB => VUB | Panic => VPanic end.

(* if let Some(stripped) = s.strip_prefix(prefix) { s.with_bounds(s.len() - stripped.len()..s.len()).unwrap() } else { Null } *)
Definition op_strip_prefix (k : kstring) (p : bytes) : vres :=
  vbind (ks_as_str k) (fun s =>
    if is_prefix p s then
      let stripped := drop (len p) s in
      of_unwrap (ks_with_bounds k (len s - len stripped) (len s))
    else VNull).

(* if let Some(stripped) = s.strip_suffix(suffix) { s.with_bounds(0..stripped.len()).unwrap() } else { Null } *)
Definition op_strip_suffix (k : kstring) (p : bytes) : vres :=
  vbind (ks_as_str k) (fun s =>
    if is_suffix p s then
      let stripped := take (len s - len p) s in
      of_unwrap (ks_with_bounds k 0 (len stripped))
    else VNull).

(* input.as_str().repeat(n) for n >= 0 *)
Definition op_repeat (s : bytes) (n : N) : bytes := repeat_bytes s (N.to_nat n).

(* ---------- pattern-taking functions: trim variants and replace ---------- *)

(* str::trim_start_matches(&str): strip leading repetitions of the pattern (the searcher's first
   reject); the empty pattern strips nothing *)
Fixpoint trim_start_fuel (fuel : nat) (p s : bytes) : bytes :=
  match fuel with
  | O => s
  | S f => if is_prefix p s then trim_start_fuel f p (drop (len p) s) else s
  end.
Definition trim_start_matches (p s : bytes) : bytes :=
  match p with [] => s | _ => trim_start_fuel (length s) p s end.

(* str::trim_end_matches(&str): the same from the back *)
Definition trim_end_matches (p s : bytes) : bytes := rev (trim_start_matches (rev p) (rev s)).

(* core.string trim / trim_start / trim_end with a pattern, as written:
     let trimmed_start = s.trim_start_matches(p); let trimmed_end = trimmed_start.trim_end_matches(p);
     let new_start = input.len() - trimmed_start.len(); let new_end = new_start + trimmed_end.len();
     input.with_bounds(new_start..new_end).unwrap() *)
Definition op_trim (k : kstring) (p : bytes) : vres :=
  vbind (ks_as_str k) (fun s =>
    let ts := trim_start_matches p s in
    let te := trim_end_matches p ts in
    let new_start := len s - len ts in
    let new_end := new_start + len te in
    of_unwrap (ks_with_bounds k new_start new_end)).

Definition op_trim_start (k : kstring) (p : bytes) : vres :=
  vbind (ks_as_str k) (fun s =>
    let ts := trim_start_matches p s in
    of_unwrap (ks_with_bounds k (len s - len ts) (len s))).

Definition op_trim_end (k : kstring) (p : bytes) : vres :=
  vbind (ks_as_str k) (fun s =>
    let te := trim_end_matches p s in
    of_unwrap (ks_with_bounds k 0 (len te))).

(* str::replace: leftmost non-overlapping matches; the empty pattern matches at every character boundary *)
Fixpoint replace_fuel (fuel : nat) (p r s : bytes) : bytes :=
  match fuel with
  | O => s
  | S f =>
      if is_prefix p s then r ++ replace_fuel f p r (drop (len p) s)
      else match s with
           | [] => []
           | b :: t => b :: replace_fuel f p r t
           end
  end.
Fixpoint replace_empty (fuel : nat) (r s : bytes) : bytes :=
  match fuel with
  | O => r
  | S f =>
      match s with
      | [] => r
      | b :: _ => let n := lead_len b in r ++ take n s ++ replace_empty f r (drop n s)
      end
  end.
Definition op_replace (s p r : bytes) : bytes :=
  match p with
  | [] => replace_empty (length s) r s
  | _ => replace_fuel (S (length s)) p r s
  end.

(* ---------- specification side of replace: the pieces between the leftmost non-overlapping occurrences ---------- *)
Fixpoint pieces_fuel (fuel : nat) (p s : bytes) : list bytes :=
  match fuel with
  | O => [s]
  | S f =>
      if is_prefix p s then [] :: pieces_fuel f p (drop (len p) s)
      else match s with
           | [] => [[]]
           | b :: t => match pieces_fuel f p t with
                       | h :: tl => (b :: h) :: tl
                       | [] => [[b]]
                       end
           end
  end.
Definition pieces (p s : bytes) : list bytes := pieces_fuel (S (length s)) p s.
