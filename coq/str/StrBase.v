(* Shared vocabulary for the string unit (C15): byte strings, well-formed UTF-8
   (Unicode Table 3-7), outcomes.  Self-contained (does not import coq/lex). *)
From Coq Require Export List NArith ZArith Bool Lia.
Export ListNotations.
Open Scope N_scope.

Definition bytes := list N.

Definition len (s : bytes) : N := N.of_nat (length s).
Definition nthb (s : bytes) (i : N) : option N := nth_error s (N.to_nat i).
Definition drop (n : N) (s : bytes) : bytes := skipn (N.to_nat n) s.
Definition take (n : N) (s : bytes) : bytes := firstn (N.to_nat n) s.
(* the bytes a..b of s (empty when b <= a) *)
Definition slice (s : bytes) (a b : N) : bytes := take (b - a) (drop a s).

Definition in_range (lo hi b : N) : bool := (lo <=? b) && (b <=? hi).
(* continuation byte 10xxxxxx:  !(b as i8 >= -0x40) *)
Definition is_cont (b : N) : bool := in_range 128 191 b.

(* One well-formed UTF-8 encoded scalar value, Unicode 15 Table 3-7 *)
Definition wf_char (c : bytes) : bool :=
  match c with
  | [b0] => b0 <=? 127
  | [b0; b1] => in_range 194 223 b0 && is_cont b1
  | [b0; b1; b2] =>
      (((b0 =? 224) && in_range 160 191 b1) || (in_range 225 236 b0 && is_cont b1)
       || ((b0 =? 237) && in_range 128 159 b1) || (in_range 238 239 b0 && is_cont b1))
      && is_cont b2
  | [b0; b1; b2; b3] =>
      (((b0 =? 240) && in_range 144 191 b1) || (in_range 241 243 b0 && is_cont b1)
       || ((b0 =? 244) && in_range 128 143 b1))
      && is_cont b2 && is_cont b3
  | _ => false
  end.

(* a byte string is valid text iff it is a concatenation of well-formed characters *)
Definition valid_utf8 (s : bytes) : Prop :=
  exists cs : list bytes, forallb wf_char cs = true /\ concat cs = s.

(* executable validity check (used by examples and the correspondence encoders) *)
Definition lead_len (b : N) : N :=
  if b <? 128 then 1 else if b <? 224 then 2 else if b <? 240 then 3 else 4.

Fixpoint utf8_check_fuel (fuel : nat) (s : bytes) : bool :=
  match fuel with
  | O => false
  | S f =>
      match s with
      | [] => true
      | b :: _ =>
          let n := lead_len b in
          wf_char (take n s) && utf8_check_fuel f (drop n s)
      end
  end.
Definition utf8_check (s : bytes) : bool := utf8_check_fuel (S (length s)) s.

(* Results of operations.  Err: the documented failure (None / Null / runtime error);
   UB: an unchecked access whose precondition is violated; Panic: a Rust panic
   (unwrap on None, arithmetic overflow in a build with overflow checks, slice index). *)
Inductive outcome (A : Type) : Type :=
| Ok (a : A) | Err | UB | Panic.
Arguments Ok {A} _.
Arguments Err {A}.
Arguments UB {A}.
Arguments Panic {A}.

Definition bind {A B} (x : outcome A) (f : A -> outcome B) : outcome B :=
  match x with Ok a => f a | Err => Err | UB => UB | Panic => Panic end.
Notation "'do' x <- e ; k" := (bind e (fun x => k)) (at level 200, x pattern, e at level 100, k at level 200).

(* Option::unwrap *)
Definition unwrap {A} (x : outcome A) : outcome A :=
  match x with Err => Panic | o => o end.

Definition usize_max : N := 18446744073709551615.
Definition u16_max : N := 65535.
(* a + b on usize with overflow checks *)
Definition uadd (a b : N) : outcome N := if a + b <=? usize_max then Ok (a + b) else Panic.
(* a - b on usize with overflow checks *)
Definition usub (a b : N) : outcome N := if b <=? a then Ok (a - b) else Panic.

Fixpoint is_prefix (p s : bytes) : bool :=
  match p, s with
  | [], _ => true
  | x :: p', y :: s' => (x =? y) && is_prefix p' s'
  | _ :: _, [] => false
  end.

(* str::find(&str): byte offset of the leftmost occurrence *)
Fixpoint find_from (p s : bytes) (i : N) : option N :=
  if is_prefix p s then Some i
  else match s with
       | [] => None
       | _ :: t => find_from p t (i + 1)
       end.
Definition find_sub (p s : bytes) : option N := find_from p s 0.

Fixpoint bytes_eqb (a b : bytes) : bool :=
  match a, b with
  | [], [] => true
  | x :: a', y :: b' => (x =? y) && bytes_eqb a' b'
  | _, _ => false
  end.

Fixpoint join (sep : bytes) (ps : list bytes) : bytes :=
  match ps with
  | [] => []
  | [p] => p
  | p :: rest => p ++ sep ++ join sep rest
  end.
