From KV.str Require Import StrBase EscModel FmtParse.
Open Scope N_scope.

Lemma consume_loop_ok : forall cs n, n <= u32_max ->
  match consume_loop cs n with
  | Ok (m, r) => (length r <= length cs)%nat /\ m <= u32_max
  | Err => True
  | UB | Panic => False
  end.
Proof.
  induction cs as [|c t IH]; intros n Hn; simpl; [split; [lia | assumption]|].
  destruct (is_digit c) eqn:D; [|split; [simpl; lia | assumption]].
  unfold is_digit, in_range in D. apply andb_true_iff in D as [D1 D2]. apply N.leb_le in D1, D2.
  destruct (N.ltb_spec u64_max (n * 10)); [unfold u64_max, u32_max in *; lia|].
  destruct (N.ltb_spec u64_max (n * 10 + (c - 48))); [unfold u64_max, u32_max in *; lia|].
  destruct (N.ltb_spec u32_max (n * 10 + (c - 48))); [exact I|].
  specialize (IH (n * 10 + (c - 48)) ltac:(assumption)).
  destruct (consume_loop t (n * 10 + (c - 48))) as [[m r]| | |]; auto. destruct IH. split; [simpl; lia | assumption].
Qed.

Lemma consume_u32_ok first cs :
  match consume_u32 first cs with
  | Ok (m, r) => (length r <= length cs)%nat /\ m <= u32_max
  | Err => True
  | UB | Panic => False
  end.
Proof.
  unfold consume_u32. destruct (is_digit first) eqn:D; [|exact I].
  apply consume_loop_ok. unfold is_digit, in_range in D. apply andb_true_iff in D as [D1 D2].
  apply N.leb_le in D1, D2. unfold u32_max. lia.
Qed.

Section Total.
  Variable fgc : list N -> nat.
  Hypothesis fgc_pos : forall l, l <> [] -> (1 <= fgc l)%nat.

  (* one iteration never panics, leaves the Start position, and does not lengthen the input *)
  Lemma step_ok fs pos res next rest : (pos = PStart -> fs = next :: rest) ->
    match step fgc fs pos res next rest with
    | Ok (res', pos', rest') => pos' <> PStart /\ (length rest' <= length rest)%nat
    | Err => True
    | UB | Panic => False
    end.
  Proof.
    intro Hfs. unfold step.
    destruct (pos_in pos [PStart] && match hd_error rest with Some c => is_align c | None => false end) eqn:C1.
    { destruct rest as [|al rest']; [rewrite andb_false_r in C1; discriminate|]. split; [discriminate | simpl; lia]. }
    destruct (is_align next && pos_in pos [PStart; PAlignment]); [split; [discriminate | lia]|].
    destruct ((next =? 48) && match hd_error rest with Some c => is_digit c | None => false end && pos_in pos [PStart; PMinWidth]);
      [split; [discriminate | lia]|].
    destruct (is_digit next && pos_in pos [PStart; PMinWidth]).
    { pose proof (consume_u32_ok next rest) as H. destruct (consume_u32 next rest) as [[m r]| | |]; simpl; auto.
      destruct H. split; [discriminate | assumption]. }
    destruct ((next =? 46) && match hd_error rest with Some _ => true | None => false end && pos_in pos [PStart; PMinWidth; PPrecision]) eqn:C5.
    { destruct rest as [|fd rest']; [rewrite andb_false_r in C5; discriminate|].
      pose proof (consume_u32_ok fd rest') as H. destruct (consume_u32 fd rest') as [[m r]| | |]; simpl; auto.
      destruct H. split; [discriminate | simpl; lia]. }
    destruct (match repr_of next with Some _ => true | None => false end && pos_in pos [PStart; PMinWidth; PPrecision; PType]);
      [split; [discriminate | lia]|].
    destruct (pos_in pos [PStart]) eqn:C7; [|exact I].
    assert (pos = PStart) as -> by (destruct pos; simpl in C7; try discriminate; reflexivity).
    rewrite (Hfs eq_refl). split; [discriminate|].
    rewrite skipn_length. pose proof (fgc_pos (next :: rest) ltac:(discriminate)). simpl length. lia.
  Qed.

  Lemma parse_loop_total fs : forall fuel pos res chars, (length chars < fuel)%nat -> (pos = PStart -> fs = chars) ->
    match parse_loop fgc fs fuel pos res chars with POk _ | PErr => True | PPanic | PFuel => False end.
  Proof.
    induction fuel as [|f IH]; intros pos res chars L Hs; [lia|].
    simpl. destruct chars as [|next rest]; [exact I|].
    pose proof (step_ok fs pos res next rest Hs) as H.
    destruct (step fgc fs pos res next rest) as [[[res' pos'] rest']| | |]; auto.
    destruct H as [Hp Hl]. apply IH; [simpl in L; lia | intro; contradiction].
  Qed.

  (* format_spec_parse_total: for every format string the parser returns options or an error;
     it never panics (unwrap, unreachable, u64 overflow) and the loop always finishes *)
  Lemma parse_total_lemma fs :
    match parse fgc fs with POk _ | PErr => True | PPanic | PFuel => False end.
  Proof. unfold parse. apply parse_loop_total; auto. Qed.
End Total.
