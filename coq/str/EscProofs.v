From KV.str Require Import StrBase EscModel.
Open Scope N_scope.

Lemma is_hex_val c : is_hex c = true -> hex_val c <= 15.
Proof.
  unfold is_hex, in_range, hex_val. rewrite !orb_true_iff, !andb_true_iff, !N.leb_le. intro H.
  destruct (N.leb_spec c 57); [lia|]. destruct (N.leb_spec c 70); lia.
Qed.

Lemma hex_run_cons c t : hex_run (c :: t) = if is_hex c then 1 + hex_run t else 0.
Proof. reflexivity. Qed.

Lemma hex_loop_no_panic : forall cs code j, code < 16 ^ j -> hex_run cs + j <= 8 -> hex_loop cs code <> Panic.
Proof.
  induction cs as [|c t IH]; intros code j Hc Hr; simpl; [discriminate|].
  rewrite hex_run_cons in Hr. destruct (is_hex c) eqn:E; [|discriminate].
  pose proof (is_hex_val c E) as Hv.
  assert (P1 : 16 ^ (j + 1) = 16 * 16 ^ j) by (rewrite N.add_1_r, N.pow_succ_r'; reflexivity).
  assert (P2 : 16 ^ (j + 1) <= 16 ^ 8) by (apply N.pow_le_mono_r; lia).
  change (16 ^ 8) with 4294967296 in P2.
  destruct (N.ltb_spec u32_max (code * 16)); [unfold u32_max in *; lia|].
  destruct (N.ltb_spec u32_max (code * 16 + hex_val c)); [unfold u32_max in *; lia|].
  apply (IH _ (j + 1)); lia.
Qed.

Lemma hex_loop_ok_or_panic : forall cs code, (exists r, hex_loop cs code = Ok r) \/ hex_loop cs code = Panic.
Proof.
  induction cs as [|c t IH]; intro code; simpl; [eauto|].
  destruct (is_hex c); [|eauto]. destruct (u32_max <? code * 16); [auto|].
  destruct (u32_max <? code * 16 + hex_val c); [auto|]. apply IH.
Qed.

(* escape_total: every escape denotes a Unicode scalar value, is a line continuation, or is an error;
   the only panic is the u32 overflow of a \u{...} with more than 8 hex digits *)
Lemma escape_total_lemma cs :
  match escape cs with
  | EChar c _ => is_scalar c = true
  | ESkip _ | EErr => True
  | EPanic => exists t, cs = 117 :: 123 :: t /\ 8 < hex_run t
  end.
Proof.
  destruct cs as [|next t]; simpl; [exact I|].
  destruct ((next =? 92) || (next =? 39) || (next =? 34) || (next =? 123)) eqn:E1.
  { rewrite !orb_true_iff, !N.eqb_eq in E1. destruct E1 as [[[->| ->]| ->]| ->]; reflexivity. }
  destruct (next =? 110); [reflexivity|]. destruct (next =? 114); [reflexivity|]. destruct (next =? 116); [reflexivity|].
  destruct ((next =? 13) || (next =? 10)).
  { destruct (next =? 13); [|exact I]. destruct t as [|c t']; [exact I|]. destruct (c =? 10); exact I. }
  destruct (next =? 120).
  { destruct t as [|c1 t1]; [exact I|]. destruct (is_hex c1); [|exact I]. destruct t1 as [|c2 t2]; [exact I|].
    destruct (is_hex c2); [|exact I]. destruct (N.leb_spec (hex_val c1 * 16 + hex_val c2) 127); [|exact I].
    unfold is_scalar, in_range. apply andb_true_iff. split; [apply N.leb_le; lia|].
    apply negb_true_iff. apply andb_false_iff. left. apply N.leb_gt. lia. }
  destruct (N.eqb_spec next 117) as [->|]; [|exact I].
  destruct t as [|c t1]; [exact I|]. destruct (N.eqb_spec c 123) as [->|]; [|exact I].
  destruct (hex_loop t1 0) as [[code r]| | |] eqn:H.
  - destruct r as [|c' r']; [exact I|]. destruct (c' =? 125); [|exact I]. destruct (is_scalar code) eqn:S; [exact S | exact I].
  - exfalso. destruct (hex_loop_ok_or_panic t1 0) as [[r Hr]|Hp]; congruence.
  - exfalso. destruct (hex_loop_ok_or_panic t1 0) as [[r Hr]|Hp]; congruence.
  - exists t1. split; [reflexivity|]. destruct (N.ltb_spec 8 (hex_run t1)) as [|Hle]; [assumption|].
    exfalso. apply (hex_loop_no_panic t1 0 0); [reflexivity | lia | exact H].
Qed.

(* the value denoted by \u{hhhh}: the hexadecimal number *)
Definition hexnum (ds : list N) (code : N) : N := fold_left (fun a c => a * 16 + hex_val c) ds code.

Lemma hexnum_ge : forall ds code, code <= hexnum ds code.
Proof.
  induction ds as [|c t IH]; intro code; unfold hexnum in *; simpl; [lia|].
  specialize (IH (code * 16 + hex_val c)). lia.
Qed.

Lemma hex_loop_value : forall ds code r, forallb is_hex ds = true -> hexnum ds code <= u32_max ->
  hex_loop (ds ++ 125 :: r) code = Ok (hexnum ds code, 125 :: r).
Proof.
  induction ds as [|c t IH]; intros code r Hh Hm; [reflexivity|].
  simpl in Hh. apply andb_true_iff in Hh as [Hc Ht]. simpl. rewrite Hc.
  unfold hexnum in Hm. simpl in Hm. pose proof (hexnum_ge t (code * 16 + hex_val c)) as G. unfold hexnum in G.
  destruct (N.ltb_spec u32_max (code * 16)); [lia|].
  destruct (N.ltb_spec u32_max (code * 16 + hex_val c)); [lia|].
  apply IH; assumption.
Qed.

Lemma escape_u_value ds r : forallb is_hex ds = true -> hexnum ds 0 <= u32_max ->
  escape (117 :: 123 :: ds ++ 125 :: r) = if is_scalar (hexnum ds 0) then EChar (hexnum ds 0) r else EErr.
Proof.
  intros Hh Hm. unfold escape. simpl. rewrite (hex_loop_value ds 0 r Hh Hm). reflexivity.
Qed.

(* line continuation = backslash, optional CR, LF, then the leading whitespace of the next line is skipped:
   the LF after a CR is consumed too (CRLF sources) *)
Lemma continuation_skips_crlf_lemma t :
  escape (13 :: 10 :: t) = ESkip (skip_ws t) /\ escape (10 :: t) = ESkip (skip_ws t) /\
  (forall ws c r, forallb (fun x => is_whitespace x && negb (x =? 10)) ws = true ->
                  is_whitespace c && negb (c =? 10) = false -> skip_ws (ws ++ c :: r) = c :: r).
Proof.
  split; [reflexivity|]. split; [reflexivity|].
  induction ws as [|w ws IH]; intros c r Hw Hc; simpl.
  - rewrite Hc. reflexivity.
  - simpl in Hw. apply andb_true_iff in Hw as [H1 H2]. rewrite H1. apply IH; assumption.
Qed.
