(* StringFormatOptions::parse (crates/parser/src/string_format_options.rs), as written, over code
   points.  The grapheme oracle gives the number of code points of the first cluster. *)
From KV.str Require Import StrBase EscModel.
Open Scope N_scope.

Definition u64_max : N := 18446744073709551615.
Definition is_digit (c : N) : bool := in_range 48 57 c.
Definition is_align (c : N) : bool := (c =? 60) || (c =? 94) || (c =? 62).
(* char_to_alignment: Left 1, Center 2, Right 3 (Default 0) *)
Definition align_of (c : N) : N := if c =? 60 then 1 else if c =? 94 then 2 else 3.

(* consume_u32: `n` is a u64; Err = ExpectedNumber / FormatNumberIsTooLarge *)
Fixpoint consume_loop (cs : list N) (n : N) : outcome (N * list N) :=
  match cs with
  | c :: t =>
      if is_digit c then
        let m := n * 10 in
        if u64_max <? m then Panic
        else let a := m + (c - 48) in
             if u64_max <? a then Panic
             else if u32_max <? a then Err else consume_loop t a
      else Ok (n, cs)
  | [] => Ok (n, [])
  end.
Definition consume_u32 (first : N) (cs : list N) : outcome (N * list N) :=
  if is_digit first then consume_loop cs (first - 48) else Err.

Inductive fpos := PStart | PAlignment | PMinWidth | PPrecision | PType | PEnd.

Record fopts := mk_fo { fo_align : N; fo_width : option N; fo_prec : option N; fo_fill : option (list N); fo_repr : option N }.
Definition fo_default := mk_fo 0 None None None None.

(* representation codes: Debug 0, HexLower 1, HexUpper 2, Binary 3, Octal 4, ExpLower 5, ExpUpper 6 *)
Definition repr_of (c : N) : option N :=
  if c =? 63 then Some 0 else if c =? 98 then Some 3 else if c =? 111 then Some 4 else if c =? 120 then Some 1
  else if c =? 88 then Some 2 else if c =? 101 then Some 5 else if c =? 69 then Some 6 else None.

Definition pos_in (p : fpos) (l : list fpos) : bool :=
  existsb (fun q => match p, q with
                    | PStart, PStart | PAlignment, PAlignment | PMinWidth, PMinWidth
                    | PPrecision, PPrecision | PType, PType | PEnd, PEnd => true
                    | _, _ => false end) l.

Section Parse.
  Variable fgc : list N -> nat.   (* code points in the first grapheme cluster *)
  Variable fs : list N.           (* format_string *)

  (* one iteration of `while let Some(next) = chars.next() { match (next, chars.peek(), position) {..} }` *)
  Definition step (pos : fpos) (res : fopts) (next : N) (rest : list N) : outcome (fopts * fpos * list N) :=
    let peek := hd_error rest in
    if pos_in pos [PStart] && (match peek with Some c => is_align c | None => false end) then
      (* single-char fill character followed by an alignment *)
      match rest with
      | al :: rest' => Ok (mk_fo (align_of al) (fo_width res) (fo_prec res) (Some [next]) (fo_repr res), PMinWidth, rest')
      | [] => Panic   (* chars.next().unwrap() *)
      end
    else if is_align next && pos_in pos [PStart; PAlignment] then
      Ok (mk_fo (align_of next) (fo_width res) (fo_prec res) (fo_fill res) (fo_repr res), PMinWidth, rest)
    else if (next =? 48) && (match peek with Some c => is_digit c | None => false end) && pos_in pos [PStart; PMinWidth] then
      Ok (mk_fo (fo_align res) (fo_width res) (fo_prec res) (Some [48]) (fo_repr res), PMinWidth, rest)
    else if is_digit next && pos_in pos [PStart; PMinWidth] then
      do nr <- consume_u32 next rest;
      Ok (mk_fo (fo_align res) (Some (fst nr)) (fo_prec res) (fo_fill res) (fo_repr res), PPrecision, snd nr)
    else if (next =? 46) && (match peek with Some _ => true | None => false end) && pos_in pos [PStart; PMinWidth; PPrecision] then
      match rest with
      | first_digit :: rest' =>
          do nr <- consume_u32 first_digit rest';
          Ok (mk_fo (fo_align res) (fo_width res) (Some (fst nr)) (fo_fill res) (fo_repr res), PType, snd nr)
      | [] => Panic
      end
    else if (match repr_of next with Some _ => true | None => false end) && pos_in pos [PStart; PMinWidth; PPrecision; PType] then
      Ok (mk_fo (fo_align res) (fo_width res) (fo_prec res) (fo_fill res) (repr_of next), PEnd, rest)
    else if pos_in pos [PStart] then
      (* fill = first grapheme cluster of the whole format string; chars restart after it *)
      match fs with
      | [] => Panic   (* graphemes(true).next().unwrap() *)
      | _ => Ok (mk_fo (fo_align res) (fo_width res) (fo_prec res) (Some (firstn (fgc fs) fs)) (fo_repr res), PAlignment,
                 skipn (fgc fs) fs)
      end
    else Err.   (* UnexpectedToken *)

  Inductive pres := POk (o : fopts) | PErr | PPanic | PFuel.

  Fixpoint parse_loop (fuel : nat) (pos : fpos) (res : fopts) (chars : list N) : pres :=
    match fuel with
    | O => PFuel
    | S f =>
        match chars with
        | [] => POk res
        | next :: rest =>
            match step pos res next rest with
            | Ok (res', pos', rest') => parse_loop f pos' res' rest'
            | Err => PErr
            | _ => PPanic
            end
        end
    end.

  Definition parse : pres := parse_loop (S (length fs)) PStart fo_default fs.
End Parse.

Definition enc_opt (o : option N) : list N := match o with Some n => [1; n] | None => [0; 0] end.
Definition enc_pres (r : pres) : list N :=
  match r with
  | POk o => [0; fo_align o] ++ enc_opt (fo_width o) ++ enc_opt (fo_prec o) ++ enc_opt (fo_repr o)
             ++ match fo_fill o with Some f => 1 :: f | None => [0] end
  | PErr => [2]
  | PPanic => [4]
  | PFuel => [5]
  end.
