(* Executable, implementation-shaped model of koto's string slicing and string iterators.
   NO proofs here.  Sources (pinned tree /repo):
     crates/parser/src/string_slice.rs   StringSlice::{new, with_bounds, try_convert, as_str, split}
     crates/parser/src/string.rs         KString::{with_bounds, pop_front, pop_back, as_str}
     crates/runtime/src/vm.rs            validate_index, run_index (Str arms), run_slice (Str arm),
                                         run_temp_index (Str arm), signed_index_to_unsigned
     crates/runtime/src/types/range.rs   KRange::{as_bounded_range, indices}
     crates/runtime/src/core_lib/string/iterators.rs  Bytes, CharIndices, Lines, Split, SplitWith
     crates/runtime/src/types/iterator.rs             StringIterator (chars)
     crates/runtime/src/core_lib/iterator.rs          to_list / to_tuple (size_hint first)        *)
From KV.str Require Import StrBase.
Open Scope N_scope.

(* ---------- std::str ---------- *)

(* str::is_char_boundary *)
Definition is_char_boundary (s : bytes) (i : N) : bool :=
  if i =? 0 then true
  else if len s <=? i then i =? len s
  else match nthb s i with
       | Some b => negb (is_cont b)
       | None => false
       end.

(* str::get(a..b) *)
Definition str_get (s : bytes) (a b : N) : option bytes :=
  if (a <=? b) && is_char_boundary s a && is_char_boundary s b then Some (slice s a b) else None.

(* &s[a..] : panics when a is not a character boundary of s *)
Definition str_from (s : bytes) (a : N) : outcome bytes :=
  if is_char_boundary s a then Ok (drop a s) else Panic.

(* ---------- StringSlice<T> ---------- *)

Inductive width := W16 | W64.
(* T::try_from(usize).is_ok() *)
Definition fits (w : width) (n : N) : bool :=
  match w with W16 => n <=? u16_max | W64 => n <=? usize_max end.

Record sslice := mk_ss { ss_data : bytes; ss_start : N; ss_end : N; ss_w : width }.

(* StringSlice::new : NO check of the bounds against the data *)
Definition ss_new (w : width) (data : bytes) (a b : N) : outcome sslice :=
  if fits w a && fits w b then Ok (mk_ss data a b w) else Err.

(* StringSlice::with_bounds *)
Definition ss_with_bounds (s : sslice) (a b : N) : outcome sslice :=
  do na <- uadd a (ss_start s);
  do nb <- uadd b (ss_start s);
  match str_get (ss_data s) na nb with
  | Some _ => if fits (ss_w s) na && fits (ss_w s) nb then Ok (mk_ss (ss_data s) na nb (ss_w s)) else Err
  | None => Err
  end.

(* StringSlice::try_convert *)
Definition ss_try_convert (s : sslice) (w : width) : outcome sslice :=
  if fits w (ss_start s) && fits w (ss_end s) then Ok (mk_ss (ss_data s) (ss_start s) (ss_end s) w) else Err.

(* StringSlice::as_str : data.get_unchecked(bounds) *)
Definition ss_as_str (s : sslice) : outcome bytes :=
  match str_get (ss_data s) (ss_start s) (ss_end s) with
  | Some r => Ok r
  | None => UB
  end.

(* StringSlice::split *)
Definition ss_split (s : sslice) (offset : N) : outcome (sslice * sslice) :=
  do sp <- uadd (ss_start s) offset;
  if is_char_boundary (ss_data s) sp then
    if fits (ss_w s) sp then
      Ok (mk_ss (ss_data s) (ss_start s) sp (ss_w s), mk_ss (ss_data s) sp (ss_end s) (ss_w s))
    else Err
  else Err.

(* ---------- KString ---------- *)

Inductive kstring :=
| KFull (data : bytes)
| KSlice (s : sslice)        (* StringSlice<u16> *)
| KSliceLarge (s : sslice).  (* Ptr<StringSlice<usize>> *)

(* From<StringSlice<usize>> for KString *)
Definition ks_of_slice (s : sslice) : kstring :=
  match ss_try_convert s W16 with
  | Ok s16 => KSlice s16
  | _ => KSliceLarge s
  end.

Definition ks_as_str (k : kstring) : outcome bytes :=
  match k with
  | KFull d => Ok d
  | KSlice s | KSliceLarge s => ss_as_str s
  end.

Definition ks_len (k : kstring) : outcome N := do s <- ks_as_str k; Ok (len s).

(* KString::with_bounds *)
Definition ks_with_bounds (k : kstring) (a b : N) : outcome kstring :=
  match k with
  | KFull d => do s <- ss_new W64 d a b; Ok (ks_of_slice s)
  | KSlice s => do s' <- ss_with_bounds s a b; Ok (KSlice s')
  | KSliceLarge s => do s' <- ss_with_bounds s a b; Ok (ks_of_slice s')
  end.

Section Graphemes.
  (* unicode-segmentation: byte length of the first / last extended grapheme cluster of a
     non-empty string *)
  Variable fg : bytes -> N.
  Variable lg : bytes -> N.

  (* KString::pop_front : (popped, rest) *)
  Definition ks_pop_front (k : kstring) : outcome (option (kstring * kstring)) :=
    do s <- ks_as_str k;
    match s with
    | [] => Ok None
    | _ =>
        let g := fg s in
        match k with
        | KFull d =>
            do pr <- unwrap (ss_split (mk_ss d 0 (len d) W64) g);
            Ok (Some (ks_of_slice (fst pr), ks_of_slice (snd pr)))
        | KSlice sl =>
            do pr <- unwrap (ss_split sl g);
            Ok (Some (KSlice (fst pr), KSlice (snd pr)))
        | KSliceLarge sl =>
            do pr <- unwrap (ss_split sl g);
            Ok (Some (ks_of_slice (fst pr), KSliceLarge (snd pr)))
        end
    end.

  (* KString::pop_back : (popped, rest) *)
  Definition ks_pop_back (k : kstring) : outcome (option (kstring * kstring)) :=
    do s <- ks_as_str k;
    match s with
    | [] => Ok None
    | _ =>
        let g := lg s in
        match k with
        | KFull d =>
            do off <- usub (len d) g;
            do pr <- unwrap (ss_split (mk_ss d 0 (len d) W64) off);
            Ok (Some (ks_of_slice (snd pr), ks_of_slice (fst pr)))
        | KSlice sl =>
            do l <- (do x <- ss_as_str sl; Ok (len x));
            do off <- usub l g;
            do pr <- unwrap (ss_split sl off);
            Ok (Some (KSlice (snd pr), KSlice (fst pr)))
        | KSliceLarge sl =>
            do l <- (do x <- ss_as_str sl; Ok (len x));
            do off <- usub l g;
            do pr <- unwrap (ss_split sl off);
            Ok (Some (ks_of_slice (snd pr), KSliceLarge (fst pr)))
        end
    end.
End Graphemes.

(* ---------- VM: indexing and slicing of Str ---------- *)

Open Scope Z_scope.
Definition i64_min : Z := -9223372036854775808.
Definition i64_max : Z := 9223372036854775807.

(* KRange (Bounded and BoundedLarge behave alike in as_bounded_range) *)
Inductive krange :=
| RFrom (s : Z)
| RTo (e : Z) (incl : bool)
| RBounded (s e : Z) (incl : bool)
| RUnbounded.

(* KRange::as_bounded_range;  `end + 1` overflows for ..=i64::MAX *)
Definition as_bounded_range (r : krange) : outcome (Z * Z) :=
  let '(s, e, incl) :=
    match r with
    | RFrom s => (s, i64_max, false)
    | RTo e incl => (i64_min, e, incl)
    | RBounded s e incl => (s, e, incl)
    | RUnbounded => (i64_min, i64_max, false)
    end in
  do e' <- (if incl then (if e =? i64_max then Panic else Ok (e + 1)) else Ok e);
  Ok (s, Z.max e' s).

(* Ord::clamp (asserts min <= max) *)
Definition clamp (x lo hi : Z) : outcome Z :=
  if hi <? lo then Panic else Ok (if x <? lo then lo else if hi <? x then hi else x).

(* KRange::indices *)
Definition indices (r : krange) (max_index : N) : outcome (N * N) :=
  let m := Z.of_N max_index in
  do se <- as_bounded_range r;
  do s <- clamp (fst se) 0 m;
  do e <- clamp (snd se) s m;
  Ok (Z.to_N s, Z.to_N e).

(* the values a VM operation on a string can produce *)
Inductive vres :=
| VStr (k : kstring)
| VNull
| VErr      (* runtime error *)
| VUB
| VPanic.

Definition vbind {A} (x : outcome A) (f : A -> vres) : vres :=
  match x with Ok a => f a | Err => VErr | UB => VUB | Panic => VPanic end.

(* Option<KString> -> KValue  (None => Null) *)
Definition opt_into (x : outcome kstring) : vres :=
  match x with Ok k => VStr k | Err => VNull | UB => VUB | Panic => VPanic end.

(* validate_index for an i64 index *)
Definition validate_index (n : Z) (size : N) : outcome N :=
  if n <? 0 then Err
  else if Z.of_N size <=? n then Err
  else Ok (Z.to_N n).

(* run_index, (Str, Number) *)
Definition run_index_num (k : kstring) (n : Z) : vres :=
  vbind (ks_len k) (fun l =>
  vbind (validate_index n l) (fun i =>
  match ks_with_bounds k i (i + 1)%N with
  | Ok r => VStr r
  | Err => VErr
  | UB => VUB
  | Panic => VPanic
  end)).

(* run_index, (Str, Range) *)
Definition run_index_range (k : kstring) (r : krange) : vres :=
  vbind (ks_len k) (fun l =>
  vbind (indices r l) (fun ab =>
  match ks_with_bounds k (fst ab) (snd ab) with
  | Ok r => VStr r
  | Err => VErr
  | UB => VUB
  | Panic => VPanic
  end)).

(* signed_index_to_unsigned (index : i8) *)
Definition signed_index_to_unsigned (index : Z) (size : N) : N :=
  if index <? 0 then (size - N.min (Z.to_N (- index)) size)%N else Z.to_N index.

(* run_temp_index, Str arm *)
Definition run_temp_index (k : kstring) (index : Z) : vres :=
  vbind (ks_len k) (fun l =>
  let i := signed_index_to_unsigned index l in
  opt_into (ks_with_bounds k i (i + 1)%N)).

(* run_slice, Str arm *)
Definition run_slice (k : kstring) (index : Z) (is_slice_to : bool) : vres :=
  vbind (ks_len k) (fun l =>
  let i := signed_index_to_unsigned index l in
  if is_slice_to then opt_into (ks_with_bounds k 0%N i) else opt_into (ks_with_bounds k i l)).

Open Scope N_scope.

(* ---------- iterators ---------- *)

(* usize::min *)
Definition umin (a b : N) := if a <=? b then a else b.

(* string::iterators::Bytes *)
Record bytes_it := mk_bytes { by_input : bytes; by_index : N }.
Definition bytes_next (it : bytes_it) : outcome (option (N * bytes_it)) :=
  match nthb (by_input it) (by_index it) with
  | Some b => do i <- uadd (by_index it) 1; Ok (Some (b, mk_bytes (by_input it) i))
  | None => Ok None
  end.
Definition bytes_size_hint (it : bytes_it) : outcome (N * N) :=
  do r <- usub (len (by_input it)) (by_index it); Ok (r, r).

Section Iterators.
  Variable fg : bytes -> N.
  Variable lg : bytes -> N.

  (* string::iterators::CharIndices *)
  Record ci_it := mk_ci { ci_input : bytes; ci_index : N }.
  Definition ci_next (it : ci_it) : outcome (option ((N * N) * ci_it)) :=
    do rest <- str_from (ci_input it) (ci_index it);
    match rest with
    | [] => Ok None
    | _ =>
        let g := fg rest in
        do start <- uadd (ci_index it) 0;
        do e <- uadd start g;
        do ni <- uadd (ci_index it) g;
        Ok (Some ((start, e), mk_ci (ci_input it) ni))
    end.
  Definition ci_size_hint (it : ci_it) : outcome (N * N) :=
    do r <- usub (len (ci_input it)) (ci_index it); Ok (r, r).

  (* StringIterator (chars): pop_front / pop_back on the held KString *)
  Definition chars_next (k : kstring) : outcome (option (kstring * kstring)) := ks_pop_front fg k.
  Definition chars_next_back (k : kstring) : outcome (option (kstring * kstring)) := ks_pop_back lg k.
  Definition chars_size_hint (k : kstring) : outcome (N * N) :=
    do l <- ks_len k; Ok ((if l =? 0 then 0 else 1), l).
End Iterators.

(* string::iterators::Lines *)
Record lines_it := mk_lines { li_input : kstring; li_start : N }.
Definition lines_next (it : lines_it) : outcome (option (kstring * lines_it)) :=
  let start := li_start it in
  do s <- ks_as_str (li_input it);
  if start <? len s then
    do remaining <- str_from s start;
    do en <- (match find_sub [10] remaining with
              | Some e =>
                  if (0 <? e) && (match nthb remaining (e - 1) with Some 13 => true | _ => false end)
                  then Ok (start + e - 1, 2) else Ok (start + e, 1)
              | None => Ok (len s, 1)
              end);
    do r <- unwrap (ks_with_bounds (li_input it) start (fst en));
    do ns <- uadd (fst en) (snd en);
    Ok (Some (r, mk_lines (li_input it) ns))
  else Ok None.
Definition lines_size_hint (it : lines_it) : outcome (N * N) :=
  do l <- ks_len (li_input it);
  (* self.input.len().saturating_sub(self.start) *)
  let r := l - li_start it in Ok (umin 1 r, r).

(* string::iterators::Split *)
Record split_it := mk_split { sp_input : kstring; sp_pat : bytes; sp_start : N }.
Definition split_next (it : split_it) : outcome (option (kstring * split_it)) :=
  let start := sp_start it in
  do s <- ks_as_str (sp_input it);
  if start <=? len s then
    do remaining <- str_from s start;
    let en := match find_sub (sp_pat it) remaining with
              | Some e => start + e
              | None => len s
              end in
    do r <- unwrap (ks_with_bounds (sp_input it) start en);
    do ns <- uadd en (len (sp_pat it));
    Ok (Some (r, mk_split (sp_input it) (sp_pat it) ns))
  else Ok None.
Definition split_size_hint (it : split_it) : outcome (N * N) :=
  do l <- ks_len (sp_input it);
  (* self.input.len().saturating_sub(self.start) *)
  let r := l - sp_start it in Ok (umin 1 r, r).

Section SplitWith.
  Variable fg : bytes -> N.
  (* the koto predicate, restricted to functions that return a Bool *)
  Variable pred : bytes -> bool.

  (* the `for (grapheme_index, grapheme) in input[start..].grapheme_indices(true)` loop:
     returns (end, grapheme_len) ; fuel = number of bytes left *)
  Fixpoint sw_scan (fuel : nat) (input : kstring) (rest : bytes) (gstart : N) (glen : N)
    : outcome (option N * N) :=
    match fuel with
    | O => Ok (None, glen)
    | S f =>
        match rest with
        | [] => Ok (None, glen)
        | _ =>
            let g := fg rest in
            do x <- unwrap (ks_with_bounds input gstart (gstart + g));
            do xs <- ks_as_str x;
            if pred xs then Ok (Some gstart, g)
            else sw_scan f input (drop g rest) (gstart + g) g
        end
    end.

  Record sw_it := mk_sw { sw_input : kstring; sw_start : N }.
  Definition sw_next (it : sw_it) : outcome (option (kstring * sw_it)) :=
    let start := sw_start it in
    do s <- ks_as_str (sw_input it);
    if start <? len s then
      do rest <- str_from s start;
      do eg <- sw_scan (length rest) (sw_input it) rest start 0;
      let en := match fst eg with Some e => e | None => len s end in
      do r <- unwrap (ks_with_bounds (sw_input it) start en);
      do ns <- uadd en (snd eg);
      Ok (Some (r, mk_sw (sw_input it) ns))
    else Ok None.
  Definition sw_size_hint (it : sw_it) : outcome (N * N) :=
    do l <- ks_len (sw_input it);
    (* self.input.len().saturating_sub(self.start) *)
  let r := l - sw_start it in Ok (umin 1 r, r).
End SplitWith.

(* ---------- driving an iterator ---------- *)

Section Drain.
  Context {St Out : Type}.
  Variable next : St -> outcome (option (Out * St)).

  (* the outputs of at most `fuel` calls of next; the flag says whether None was reached *)
  Fixpoint drain (fuel : nat) (st : St) : outcome (list Out * bool * St) :=
    match fuel with
    | O => Ok ([], false, st)
    | S f =>
        do r <- next st;
        match r with
        | None => Ok ([], true, st)
        | Some (o, st') =>
            do rest <- drain f st';
            let '(os, fin, stf) := rest in Ok (o :: os, fin, stf)
        end
    end.

  Variable size_hint : St -> outcome (N * N).
  (* iterator.to_list / to_tuple: size_hint() first (capacity), then the loop *)
  Definition to_list (fuel : nat) (st : St) : outcome (list Out * bool * St) :=
    do _ <- size_hint st; drain fuel st.
End Drain.
