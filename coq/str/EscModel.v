(* Parser::escape_string_character (crates/parser/src/parser.rs), as written, over code points.
   `chars` is the iterator positioned just after the backslash. *)
From KV.str Require Import StrBase.
Open Scope N_scope.

(* char::is_ascii_hexdigit / to_digit(16) *)
Definition is_hex (c : N) : bool := in_range 48 57 c || in_range 65 70 c || in_range 97 102 c.
Definition hex_val (c : N) : N := if c <=? 57 then c - 48 else if c <=? 70 then c - 55 else c - 87.
(* char::from_u32(c).is_some() *)
Definition is_scalar (c : N) : bool := (c <=? 1114111) && negb (in_range 55296 57343 c).
(* char::is_whitespace (Unicode White_Space) *)
Definition is_whitespace (c : N) : bool :=
  in_range 9 13 c || (c =? 32) || (c =? 133) || (c =? 160) || (c =? 5760) || in_range 8192 8202 c
  || (c =? 8232) || (c =? 8233) || (c =? 8239) || (c =? 8287) || (c =? 12288).
Definition u32_max : N := 4294967295.

(* while let Some(c) = chars.peek() { if c.is_whitespace() && *c != '\n' { chars.next() } else { break } } *)
Fixpoint skip_ws (cs : list N) : list N :=
  match cs with
  | c :: t => if is_whitespace c && negb (c =? 10) then skip_ws t else cs
  | [] => []
  end.

(* the `\u{` loop:  code *= 16; code += digit   on a u32, overflow checks on *)
Fixpoint hex_loop (cs : list N) (code : N) : outcome (N * list N) :=
  match cs with
  | c :: t =>
      if is_hex c then
        let m := code * 16 in
        if u32_max <? m then Panic
        else let a := m + hex_val c in
             if u32_max <? a then Panic else hex_loop t a
      else Ok (code, cs)
  | [] => Ok (code, [])
  end.

Inductive eres :=
| EChar (c : N) (rest : list N)   (* Ok(Some(c)) *)
| ESkip (rest : list N)           (* Ok(None): line continuation *)
| EErr                            (* a syntax error *)
| EPanic.

Definition escape (cs : list N) : eres :=
  match cs with
  | [] => EErr
  | next :: t =>
      if (next =? 92) || (next =? 39) || (next =? 34) || (next =? 123) then EChar next t
      else if next =? 110 then EChar 10 t
      else if next =? 114 then EChar 13 t
      else if next =? 116 then EChar 9 t
      else if (next =? 13) || (next =? 10) then
        if next =? 13 then
          match t with
          | c :: t' => if c =? 10 then ESkip (skip_ws t') else ESkip t
          | [] => ESkip t
          end
        else ESkip (skip_ws t)
      else if next =? 120 then
        match t with
        | c1 :: t1 =>
            if is_hex c1 then
              match t1 with
              | c2 :: t2 =>
                  if is_hex c2 then
                    let d := hex_val c1 * 16 + hex_val c2 in
                    if d <=? 127 then EChar d t2 else EErr
                  else EErr
              | [] => EErr
              end
            else EErr
        | [] => EErr
        end
      else if next =? 117 then
        match t with
        | c :: t1 =>
            if c =? 123 then
              match hex_loop t1 0 with
              | Ok (code, r) =>
                  match r with
                  | c' :: r' => if c' =? 125 then (if is_scalar code then EChar code r' else EErr) else EErr
                  | [] => EErr
                  end
              | _ => EPanic
              end
            else EErr
        | [] => EErr
        end
      else EErr
  end.

(* the body of a string literal (between the quotes, no interpolation): escapes decoded one after the other,
   as parse_string does; fuel = number of code points *)
Fixpoint decode (fuel : nat) (cs : list N) : outcome (list N) :=
  match fuel with
  | O => Ok []
  | S f =>
      match cs with
      | [] => Ok []
      | c :: t =>
          if c =? 92 then
            match escape t with
            | EChar x r => do rest <- decode f r; Ok (x :: rest)
            | ESkip r => decode f r
            | EErr => Err
            | EPanic => Panic
            end
          else do rest <- decode f t; Ok (c :: rest)
      end
  end.
Definition enc_decode (cs : list N) : list N :=
  match decode (S (length cs)) cs with Ok r => 0 :: r | Err => [2] | _ => [4] end.

(* number of leading hex digits *)
Fixpoint hex_run (cs : list N) : N :=
  match cs with
  | c :: t => if is_hex c then 1 + hex_run t else 0
  | [] => 0
  end.

Definition enc_eres (r : eres) : list N :=
  match r with
  | EChar c rest => 0 :: c :: rest
  | ESkip rest => 1 :: rest
  | EErr => [2]
  | EPanic => [4]
  end.
