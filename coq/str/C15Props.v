(* C15: pinned statements.  Strings are byte lists; valid_utf8 is "a concatenation of well-formed
   characters (Unicode Table 3-7)".  See StrModel.v for the implementation-shaped model. *)
From KV.str Require Import StrBase StrModel FmtModel StrProofs IterProofs EscModel EscProofs FmtParse FmtParseProofs OpsModel OpsProofs.
Open Scope N_scope.

(* T1 (std level): cutting valid text at two character boundaries gives valid text; str::get never
   returns malformed text. *)
Theorem str_get_valid_text : forall s a b r,
  valid_utf8 s -> str_get s a b = Some r -> valid_utf8 r /\ r = slice s a b.
Proof. intros s a b r Hv H. split; [exact (str_get_valid s a b r Hv H) | apply str_get_some in H; tauto]. Qed.
Print Assumptions str_get_valid_text.

(* T1 (API level): with_bounds on a well-formed slice of a shared buffer, for ALL bounds *)
Theorem with_bounds_sliced_valid : forall k a b,
  ks_wf k -> is_full k = false -> a <= isize_max + 1 -> b <= isize_max + 1 ->
  match ks_with_bounds k a b with
  | Ok k' => ks_wf k' /\ is_full k' = false
  | Err => True
  | UB | Panic => False
  end.
Proof. exact ks_with_bounds_sliced. Qed.
Print Assumptions with_bounds_sliced_valid.

(* a well-formed KString always dereferences to valid text (as_str never takes the unchecked path
   outside its precondition) *)
Theorem wf_as_str_valid : forall k, ks_wf k -> exists r, ks_as_str k = Ok r /\ valid_utf8 r.
Proof. exact ks_as_str_wf. Qed.
Print Assumptions wf_as_str_valid.

(* T1 (VM level): s[n], s[range], unpacking (TempIndex / SliceFrom / SliceTo) on a string that is a
   slice of a shared buffer give a well-formed string, Null or an error -- never an unchecked access
   or a panic -- for all i64 offsets / i8 immediates, outside the class C15b (..=i64::MAX). *)
Theorem slice_valid_or_error : forall k op,
  ks_wf k -> is_full k = false -> op_in_domain op -> vres_good (run_op k op).
Proof. exact slice_valid_or_error_lemma. Qed.
Print Assumptions slice_valid_or_error.

(* ... and it is REFUTED for strings that own their buffer (KString::with_bounds, Inner::Full arm,
   goes through the unchecked StringSlice::new): finding C15a *)
Theorem slice_valid_or_error_full_refuted :
  exists k op, ks_wf k /\ is_full k = true /\ op_in_domain op /\
               exists k', run_op k op = VStr k' /\ ks_as_str k' = UB.
Proof.
  exists (KFull [195; 169]), (OpIndex 0). destruct full_index_unchecked as [H1 [k' H2]].
  split; [exact H1|]. split; [reflexivity|]. split; [unfold op_in_domain, i64_min, i64_max; lia|]. eauto.
Qed.
Print Assumptions slice_valid_or_error_full_refuted.

(* C15b *)
Theorem range_incl_max_refuted :
  exists k, ks_wf k /\ is_full k = false /\ run_op k (OpRange (RTo i64_max true)) = VPanic.
Proof.
  exists (KSlice (mk_ss [97; 98; 99] 0 3 W16)). split; [|split; [reflexivity | exact range_incl_max_panics]].
  split; [|reflexivity]. unfold ss_wf; simpl. repeat split; try reflexivity; try (unfold isize_max, len; simpl; lia).
  exists [[97]; [98]; [99]]. split; reflexivity.
Qed.
Print Assumptions range_incl_max_refuted.

(* C15e (API level only) *)
Theorem with_bounds_beyond_end_refuted :
  exists k, ks_as_str k = Ok [97] /\ exists k', ks_with_bounds k 0 2 = Ok k' /\ ks_as_str k' = Ok [97; 98].
Proof. eexists. exact with_bounds_beyond_end_leaks. Qed.
Print Assumptions with_bounds_beyond_end_refuted.

(* C15d: for EVERY string, split with the empty pattern never advances its cursor *)
Theorem split_empty_pattern_stuck : forall k, ks_wf k ->
  forall fuel, exists os, drain split_next fuel (mk_split k [] 0) = Ok (os, false, mk_split k [] 0) /\ length os = fuel.
Proof. exact split_empty_never_finishes. Qed.
Print Assumptions split_empty_pattern_stuck.

(* C15c is FIXED in koto (size_hint uses saturating_sub): the size_hint of Lines / Split / SplitWith never
   panics, for ANY iterator state over a well-formed string, and to_list on an exhausted iterator is empty *)
Theorem size_hint_never_panics :
  (forall it, ks_wf (li_input it) -> exists a b, lines_size_hint it = Ok (a, b)) /\
  (forall it, ks_wf (sp_input it) -> exists a b, split_size_hint it = Ok (a, b)) /\
  (forall it, ks_wf (sw_input it) -> exists a b, sw_size_hint it = Ok (a, b)).
Proof. exact (conj lines_size_hint_total (conj split_size_hint_total sw_size_hint_total)). Qed.
Print Assumptions size_hint_never_panics.

Theorem to_list_exhausted_is_empty :
  (forall it f, ks_wf (sp_input it) -> split_next it = Ok None ->
     to_list split_next split_size_hint (S f) it = Ok ([], true, it)) /\
  (forall it f, ks_wf (li_input it) -> lines_next it = Ok None ->
     to_list lines_next lines_size_hint (S f) it = Ok ([], true, it)).
Proof.
  split; intros it f W H; apply to_list_exhausted; auto.
  - apply split_size_hint_total; assumption.
  - apply lines_size_hint_total; assumption.
Qed.
Print Assumptions to_list_exhausted_is_empty.

(* the partition hypothesis on the grapheme oracle (unicode-segmentation) *)
Definition fg_ok (fg : bytes -> N) : Prop :=
  forall s, s <> [] -> valid_utf8 s -> 0 < fg s /\ fg s <= len s /\ is_char_boundary s (fg s) = true.

(* T2: chars (KString::pop_front driven to exhaustion): finishes within len+1 calls, never panics / UB,
   every piece is a non-empty well-formed string, and the pieces concatenate to the string *)
Theorem chars_concat : forall fg, fg_ok fg -> forall k s, ks_wf k -> ks_as_str k = Ok s ->
  exists ps kf, drain (chars_next fg) (S (length s)) k = Ok (ps, true, kf) /\ Forall ks_wf ps /\
                Forall (fun p => str_of p <> []) ps /\ concat (map str_of ps) = s.
Proof. intros fg H k s W A. apply (chars_concat_lemma fg H); auto. Qed.
Print Assumptions chars_concat.

(* T2: the ranges produced by char_indices tile 0..len *)
Theorem char_indices_tile : forall fg, fg_ok fg -> forall s, valid_utf8 s -> len s <= isize_max ->
  exists rs itf, drain (ci_next fg) (S (length s)) (mk_ci s 0) = Ok (rs, true, itf) /\ tiles 0 (len s) rs.
Proof.
  intros fg H s V L. apply (char_indices_tile_lemma fg H); auto; [lia|]. unfold len. lia.
Qed.
Print Assumptions char_indices_tile.

(* T3: split with a non-empty (valid) pattern finishes, never panics, and the pieces re-joined with the
   pattern are the string -- for every representation of the string *)
Theorem split_join : forall k s p, ks_wf k -> ks_as_str k = Ok s -> valid_utf8 p -> p <> [] -> len p <= isize_max ->
  exists ps itf, drain split_next (length s + 2) (mk_split k p 0) = Ok (ps, true, itf) /\ Forall ks_wf ps /\
                 join p (map str_of ps) = s.
Proof.
  intros k s p W A Vp Pne Pl.
  destruct (split_join_lemma k s p W A Vp Pne Pl (length s + 2) 0) as [ps [itf [D [F [_ J]]]]]; auto; try lia.
  { unfold len. lia. }
  exists ps, itf. auto.
Qed.
Print Assumptions split_join.

(* T3: lines: no piece contains a line feed, and putting the removed terminators ("\n", "\r\n", or nothing
   after the last line) back gives the string *)
Theorem lines_spec : forall k s, ks_wf k -> ks_as_str k = Ok s ->
  exists ps ts itf, drain lines_next (length s + 2) (mk_lines k 0) = Ok (ps, true, itf) /\ Forall ks_wf ps /\
    length ts = length ps /\ Forall is_term ts /\ Forall (fun x => ~ In 10 (str_of x)) ps /\
    interleave (map str_of ps) ts = s.
Proof.
  intros k s W A. destruct (lines_lemma k s W A (length s + 2) 0) as [ps [ts [itf H]]]; auto; try lia.
  { unfold len. lia. }
  exists ps, ts, itf. exact H.
Qed.
Print Assumptions lines_spec.

(* T5 escape_total: every escape code denotes a Unicode scalar value (backslash, quotes, brace, \n \r \t, \xNN <= 0x7f,
   \u{...} <= 0x10FFFF and not a surrogate), is a line continuation, or is a syntax error.  The ONLY panic is
   the u32 overflow of \u{...} with more than 8 hex digits (finding C15h). *)
Theorem escape_total : forall cs,
  match escape cs with
  | EChar c _ => is_scalar c = true
  | ESkip _ | EErr => True
  | EPanic => exists t, cs = 117 :: 123 :: t /\ 8 < hex_run t
  end.
Proof. exact escape_total_lemma. Qed.
Print Assumptions escape_total.

(* \u{h..h} denotes exactly the hexadecimal number h..h (when it fits a u32) *)
Theorem escape_unicode_value : forall ds r, forallb is_hex ds = true -> hexnum ds 0 <= u32_max ->
  escape (117 :: 123 :: ds ++ 125 :: r) = if is_scalar (hexnum ds 0) then EChar (hexnum ds 0) r else EErr.
Proof. exact escape_u_value. Qed.
Print Assumptions escape_unicode_value.

(* the literal \u{100000041} : panic (with overflow checks) -- in a release build it would wrap to the letter A *)
Theorem escape_overflow_refuted :
  escape [117; 123; 49; 48; 48; 48; 48; 48; 48; 48; 52; 49; 125] = EPanic.
Proof. reflexivity. Qed.
Print Assumptions escape_overflow_refuted.

Example escape_examples :
  escape [110; 97] = EChar 10 [97] /\ escape [120; 52; 49] = EChar 65 [] /\ escape [120; 56; 48] = EErr /\
  escape [117; 123; 49; 102; 54; 48; 48; 125] = EChar 128512 [] /\ escape [117; 123; 100; 56; 48; 48; 125] = EErr /\
  escape [13; 10; 32; 9; 97] = ESkip [97] /\ escape [113] = EErr.
Proof. repeat split. Qed.

(* T7 format_spec_parse_total: StringFormatOptions::parse returns options or an error for EVERY format string
   (any grapheme oracle that returns non-empty clusters): no unwrap / unreachable / u64 overflow is reachable
   and the loop ends within len+1 iterations *)
Theorem format_spec_parse_total : forall fgc, (forall l, l <> [] -> (1 <= fgc l)%nat) -> forall fs,
  match parse fgc fs with POk _ | PErr => True | PPanic | PFuel => False end.
Proof. exact parse_total_lemma. Qed.
Print Assumptions format_spec_parse_total.

(* T4: strip_prefix / strip_suffix give exactly the remainder as a well-formed string, or Null; the unwrap of
   with_bounds never fails (any representation of the string) *)
Theorem strip_prefix_spec : forall k s p, ks_wf k -> ks_as_str k = Ok s -> valid_utf8 p ->
  (forall r, s = p ++ r -> exists k', op_strip_prefix k p = VStr k' /\ ks_wf k' /\ ks_as_str k' = Ok r) /\
  (is_prefix p s = false -> op_strip_prefix k p = VNull).
Proof. exact strip_prefix_lemma. Qed.
Print Assumptions strip_prefix_spec.

Theorem strip_suffix_spec : forall k s p, ks_wf k -> ks_as_str k = Ok s -> valid_utf8 p ->
  (forall r, s = r ++ p -> p <> [] -> exists k', op_strip_suffix k p = VStr k' /\ ks_wf k' /\ ks_as_str k' = Ok r) /\
  (is_suffix p s = false -> op_strip_suffix k p = VNull).
Proof. exact strip_suffix_lemma. Qed.
Print Assumptions strip_suffix_spec.

Theorem repeat_len : forall s n, valid_utf8 s -> valid_utf8 (op_repeat s n) /\ len (op_repeat s n) = n * len s.
Proof. exact repeat_lemma. Qed.
Print Assumptions repeat_len.

Example parse_examples :
  enc_pres (parse (fun _ => 1%nat) [42; 60; 53]) = [0; 1; 1; 5; 0; 0; 0; 0; 1; 42] /\
  enc_pres (parse (fun _ => 1%nat) [48; 56; 46; 50; 120]) = [0; 0; 1; 8; 1; 2; 1; 1; 1; 48] /\
  parse (fun _ => 2%nat) [101; 769; 60; 53] = PErr.
Proof. repeat split. Qed.

(* T4 trim with a pattern (incl. self-overlapping patterns): trim is trim_end AFTER trim_start -- the result of
   core.string trim is exactly trim_end_matches p (trim_start_matches p s), a well-formed string that is a
   contiguous slice of s with whole copies of the pattern removed on both sides; the unwrap never fails *)
Theorem trim_is_end_after_start : forall k s p, ks_wf k -> ks_as_str k = Ok s -> valid_utf8 p ->
  exists k' n m, op_trim k p = VStr k' /\ ks_wf k' /\
    ks_as_str k' = Ok (trim_end_matches p (trim_start_matches p s)) /\
    s = repeat_bytes p n ++ trim_end_matches p (trim_start_matches p s) ++ repeat_bytes p m.
Proof. exact trim_lemma. Qed.
Print Assumptions trim_is_end_after_start.

Theorem trim_matches_laws : forall p s,
  (exists n, s = repeat_bytes p n ++ trim_start_matches p s) /\
  (exists n, s = trim_end_matches p s ++ repeat_bytes p n) /\
  (p <> [] -> is_prefix p (trim_start_matches p s) = false) /\
  (p <> [] -> is_suffix p (trim_end_matches p s) = false) /\
  trim_start_matches p (trim_start_matches p s) = trim_start_matches p s /\
  trim_end_matches p (trim_end_matches p s) = trim_end_matches p s.
Proof.
  intros p s. split; [apply trim_start_decomp_lemma|]. split; [apply trim_end_decomp_lemma|].
  split; [apply trim_start_stops|]. split; [apply trim_end_stops|]. split; [apply trim_start_idem_lemma | apply trim_end_idem_lemma].
Qed.
Print Assumptions trim_matches_laws.

(* T4 replace (non-empty pattern), complete functional statement: the string is its pieces joined by the
   pattern, the result is the same pieces joined by the replacement, and no piece contains the pattern
   (the replaced occurrences are the leftmost non-overlapping ones); replacing p by p is the identity *)
Theorem replace_spec : forall s p r, p <> [] ->
  join p (pieces p s) = s /\ op_replace s p r = join r (pieces p s) /\
  Forall (fun x => find_sub p x = None) (pieces p s) /\ op_replace s p p = s.
Proof. exact replace_lemma. Qed.
Print Assumptions replace_spec.

Example replace_spec_example :
  pieces [97; 97] [97; 97; 97; 98; 97; 97] = [[]; [97; 98]; []] /\
  op_replace [97; 97; 97; 98; 97; 97] [97; 97] [120] = [120; 97; 98; 120].
Proof. exact replace_pieces_example. Qed.

(* T4 replace, size: with n = number of replaced occurrences, |result| + n*|p| = |s| + n*|r| *)
Theorem replace_length_law : forall s p r, p <> [] ->
  (length (op_replace s p r) + (length (pieces p s) - 1) * length p =
   length s + (length (pieces p s) - 1) * length r)%nat.
Proof. exact replace_length. Qed.
Print Assumptions replace_length_law.

(* T4 replace with the empty pattern: the replacement goes before every character and after the last
   one (never inside a character), the result is valid text, and an empty replacement gives the string back *)
Theorem replace_empty_pattern_spec : forall s r, valid_utf8 s ->
  (exists cs, forallb wf_char cs = true /\ concat cs = s /\
              op_replace s [] r = r ++ concat (map (fun c => c ++ r) cs)) /\
  (valid_utf8 r -> valid_utf8 (op_replace s [] r)) /\ op_replace s [] [] = s.
Proof.
  intros s r V. destruct (replace_empty_lemma s r V) as [cs [F [E [R [_ I]]]]].
  split; [exists cs; auto|]. split; [apply replace_empty_valid; exact V | exact I].
Qed.
Print Assumptions replace_empty_pattern_spec.

(* T4 contains / starts_with / ends_with (core.string calls str::contains / starts_with / ends_with; the model's
   find_sub / is_prefix / is_suffix are what table 4 of the correspondence compares): exactly substring,
   prefix and suffix, for all byte strings *)
Theorem contains_starts_ends_spec : forall s p,
  (op_contains s p = true <-> exists a b, s = a ++ p ++ b) /\
  (is_prefix p s = true <-> exists b, s = p ++ b) /\
  (is_suffix p s = true <-> exists a, s = a ++ p).
Proof. intros s p. split; [apply contains_iff|]. split; [apply is_prefix_iff | apply is_suffix_iff]. Qed.
Print Assumptions contains_starts_ends_spec.

(* the overlapping case: the ends must not be located independently *)
Example trim_overlap : trim_end_matches [97; 97] (trim_start_matches [97; 97] [97; 97; 97]) = [97] /\
  trim_end_matches [97; 97] [97; 97; 97] = [97] /\ trim_start_matches [97; 97] [97; 97; 97] = [97].
Proof. repeat split. Qed.

(* line continuation in CRLF and LF sources *)
Theorem continuation_skips_crlf : forall t,
  escape (13 :: 10 :: t) = ESkip (skip_ws t) /\ escape (10 :: t) = ESkip (skip_ws t) /\
  (forall ws c r, forallb (fun x => is_whitespace x && negb (x =? 10)) ws = true ->
                  is_whitespace c && negb (c =? 10) = false -> skip_ws (ws ++ c :: r) = c :: r).
Proof. exact continuation_skips_crlf_lemma. Qed.
Print Assumptions continuation_skips_crlf.

Example continuation_example :
  enc_decode [102; 111; 111; 92; 13; 10; 32; 32; 9; 98; 97; 114] = [0; 102; 111; 111; 98; 97; 114] /\
  enc_decode [102; 92; 10; 32; 98; 92; 110] = [0; 102; 98; 10].
Proof. split; reflexivity. Qed.

(* T6 format_width, arithmetic core: the number of fill copies added is exactly min_width - len as long
   as at most 2^24 fill characters are needed (every alignment) ... *)
Theorem format_fill_count : forall al num w g, w - g <= 16777216 ->
  let '(l, r) := pad_counts al num w g in l + r = w - g.
Proof. exact pad_counts_exact. Qed.
Print Assumptions format_fill_count.

(* ... and one column is lost at 2^24 + 1 (centre alignment, `as f32`): K17 *)
Theorem format_fill_count_refuted :
  exists w g, let '(l, r) := pad_counts ACenter false w g in l + r < w - g.
Proof. exists 16777218, 1. destruct centre_loses_column as [-> H]. exact H. Qed.
Print Assumptions format_fill_count_refuted.

(* non-vacuity *)
Example wf_slice_exists :
  let k := KSlice (mk_ss [97; 195; 169; 226; 130; 172] 1 3 W16) in
  ks_as_str k = Ok [195; 169] /\ run_op k (OpIndex 0) = VErr /\
  (exists k', run_op k (OpRange (RBounded 0 2 false)) = VStr k' /\ ks_as_str k' = Ok [195; 169]) /\
  run_op k (OpTempIndex 1) = VNull.
Proof. repeat split. eexists. split; reflexivity. Qed.

Example utf8_check_examples :
  utf8_check [97; 195; 169; 226; 130; 172; 240; 159; 152; 128] = true /\ utf8_check [195] = false /\
  utf8_check [237; 160; 128] = false /\ utf8_check [192; 128] = false.
Proof. repeat split. Qed.

(* the partition hypothesis is satisfiable: "one character per cluster" *)
Example fg_ok_inhabited : fg_ok (fun s => lead_len (hd 0 s)).
Proof.
  intros s Hne [cs [Hwf E]]. destruct cs as [|c cs]; [simpl in E; congruence|].
  simpl in Hwf. apply andb_true_iff in Hwf as [Hc Hcs]. simpl in E.
  pose proof (wf_char_len _ Hc) as L. destruct (wf_char_shape _ Hc) as [b [t [Ec _]]].
  assert (Hh : hd 0 s = hd 0 c) by (rewrite <- E, Ec; reflexivity). rewrite Hh.
  assert (Lc : lead_len (hd 0 c) = len c) by (unfold len; lia).
  rewrite Lc. assert (Ls : len s = len c + len (concat cs)) by (rewrite <- E; apply len_app).
  split; [rewrite Ec; unfold len; simpl; lia|]. split; [lia|].
  apply seam_is_boundary; [lia|]. rewrite <- E. rewrite drop_app_len. exists cs. auto.
Qed.

Example split_example :
  exists ps itf, drain split_next 9 (mk_split (KFull [97; 44; 195; 169; 44]) [44] 0) = Ok (ps, true, itf) /\
                 map str_of ps = [[97]; [195; 169]; []].
Proof. eexists. eexists. split; reflexivity. Qed.
