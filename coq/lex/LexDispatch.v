(* Specifications of the consume_* routines and of the dispatchers. *)
From KV.lex Require Import LexBase GenLexTables LexModel LexSpec LexLemmas LexLoops LexRoutines.
Open Scope N_scope.

Arguments N.add : simpl never.
Arguments N.sub : simpl never.
Arguments N.mul : simpl never.
Arguments N.eqb : simpl never.
Arguments N.ltb : simpl never.
Arguments N.leb : simpl never.

Definition Pre (st : lstate) (pre post : list cp) : Prop :=
  cur st = utf8len pre /\ PosOK pre (sp_end st) /\ ModesOK (modes st) post.

Lemma is_error_Error : is_error (TK tok_Error) = true.
Proof. reflexivity. Qed.

Lemma firstn_exact {A} (a r : list A) : firstn (length a) (a ++ r) = a.
Proof. induction a as [|x a IH]; [destruct r; reflexivity|]. cbn. rewrite IH. reflexivity. Qed.

Lemma modesok_keep ms post b :
  match ms with MRawEnd _ _ :: _ => False | _ => True end -> ModesOK ms post -> ModesOK ms b.
Proof.
  intros Hd [H1 H2]. split; [assumption|].
  destruct ms as [|[] ?]; try exact I; contradiction.
Qed.

Lemma nonspecial_not_zero ms : Forall (fun m => special m = false) ms -> zero_top ms = false.
Proof. intros H. destruct ms as [|m r]; [reflexivity|]. inversion H; subst. destruct m; try reflexivity; discriminate. Qed.

Ltac is_err H :=
  unfold err in H; inversion H; subst; apply rspec_error; reflexivity.

(* same-line advance: leaves the goals
   post = A ++ B, bytes = utf8len A, A <> [], count_nl A = 0, indent, ModesOK, is_kind *)
Ltac line_tac Hcur Hpos A B :=
  eapply (rspec_line _ _ _ _ _ _ A B);
  [ exact Hcur | exact Hpos | | | | | reflexivity | reflexivity | reflexivity | reflexivity
  | reflexivity | | | ].

Section Dispatch.
  Variable width : cp -> N.
  Variable xid_start xid_continue : cp -> bool.
  Variable grapheme_len : list cp -> nat.
  Hypothesis xid_continue_lf : xid_continue LF = false.

  Lemma xid_no_lf : forall c, xid_continue c = true -> c <> LF.
  Proof. intros c H ->. congruence. Qed.

  (* ---- newline ---- *)
  Lemma consume_newline_spec st pre post :
    Pre st pre post -> default_top (modes st) = true ->
    forall k st', consume_newline st post = (k, st') -> RSpec st pre post (indent st) k st'.
  Proof.
    intros (Hcur & Hpos & Hm) Hd k st' H. unfold consume_newline in H.
    destruct post as [|c t]; [is_err H|].
    destruct Hpos as [Hl Hc].
    eqb_case c CR.
    - destruct t as [|d t']; [is_err H|].
      eqb_case d LF; [|is_err H].
      inversion H; subst.
      eapply (rspec_intro _ _ _ _ _ _ [CR; LF] t' 2);
        try reflexivity; try assumption.
      + cbn [sp_end advance_to_position]. split; cbn [line col].
        * rewrite count_nl_app. change (count_nl [CR; LF]) with 1. lia.
        * apply colok_zero.
      + eapply modesok_default; eauto.
      + left. discriminate.
      + intros _. split; [reflexivity|]. split; [assumption|]. exists (pre ++ [CR]). rewrite <- app_assoc. reflexivity.
    - eqb_case c LF; [|is_err H].
      inversion H; subst.
      eapply (rspec_intro _ _ _ _ _ _ [LF] t 1);
        try reflexivity; try assumption.
      + cbn [sp_end advance_to_position]. split; cbn [line col].
        * rewrite count_nl_app. change (count_nl [LF]) with 1. lia.
        * apply colok_zero.
      + eapply modesok_default; eauto.
      + left. discriminate.
      + intros _. split; [reflexivity|]. split; [assumption|]. exists pre. reflexivity.
  Qed.

  (* ---- comments ---- *)
  Lemma consume_comment_spec st pre t :
    Pre st pre (HASH :: t) -> default_top (modes st) = true ->
    forall k st', consume_comment width st (HASH :: t) = (k, st') ->
                  RSpec st pre (HASH :: t) (indent st) k st'.
  Proof.
    intros (Hcur & Hpos & Hm) Hd k st' H. unfold consume_comment in H. cbn [tl] in H.
    destruct t as [|c t'].
    { inversion H; subst. line_tac Hcur Hpos [HASH] (@nil cp); try reflexivity.
      - discriminate.
      - eapply modesok_default; eauto. }
    eqb_case c MINUS.
    - destruct (comment_loop width (MINUS :: t') 1 (line (sp_end st)) (col (sp_end st) + 1))
        as [[[[found bytes] ln] cl]|] eqn:El; [|is_err H].
      eapply (comment_loop_spec width (cur st) _ _ (pre ++ [HASH])) in El; [|apply le_n|].
      2:{ destruct Hpos as [Hl Hc]. split; [|split].
          - rewrite utf8len_app, Hcur. reflexivity.
          - rewrite count_nl_app. change (count_nl [HASH]) with 0. lia.
          - apply colok_last. discriminate. }
      destruct El as (a & b & Hab & HA1 & HA2 & HA3).
      rewrite <- app_assoc in HA1, HA2, HA3. cbn [app] in HA1, HA2, HA3.
      destruct found; [|inversion H; subst; apply rspec_error; reflexivity].
      inversion H; subst k st'.
      eapply (rspec_intro _ _ _ _ _ _ (HASH :: a) b bytes);
        try reflexivity; try assumption.
      + rewrite Hab. reflexivity.
      + rewrite utf8len_app in HA1. lia.
      + split; assumption.
      + eapply modesok_default; eauto.
      + left. discriminate.
      + intros HH. vm_compute in HH. discriminate.
    - destruct (consume_and_count_utf8 width (fun c0 => negb ((c0 =? CR) || (c0 =? LF))) (c :: t'))
        as [[b w] r] eqn:Ec.
      apply cacu_spec in Ec. destruct Ec as (a & Ha & -> & Fa).
      inversion H; subst k st'.
      line_tac Hcur Hpos (HASH :: a) r; try reflexivity.
      + rewrite Ha. reflexivity.
      + rewrite utf8len_cons. lens. lia.
      + discriminate.
      + rewrite count_nl_cons. change (HASH =? LF) with false.
        rewrite (forall_count_nl (fun c0 => negb ((c0 =? CR) || (c0 =? LF))) a); [reflexivity| |exact Fa].
        intros c1 Hc1 ->. change (LF =? LF) with true in Hc1. rewrite orb_true_r in Hc1. discriminate.
      + eapply modesok_default; eauto.
  Qed.

  (* ---- string literal ---- *)
  Lemma consume_string_literal_spec st pre c t q ms :
    Pre st pre (c :: t) -> modes st = MLiteral q :: ms ->
    is_quote q c = false -> c <> LBRACE ->
    forall k st', consume_string_literal width st (c :: t) = (k, st') ->
                  RSpec st pre (c :: t) (indent st) k st'.
  Proof.
    intros (Hcur & Hpos & Hm) Hms Hq Hb k st' H. unfold consume_string_literal in H.
    rewrite Hms in H.
    destruct (strlit_loop width q (c :: t) 0 (line (sp_end st)) (col (sp_end st)))
      as [[[bytes ln] cl]|] eqn:El; [|is_err H].
    eapply (strlit_loop_spec width (cur st) q _ _ pre) in El; [|apply le_n|].
    2:{ destruct Hpos as [Hl Hc]. split; [|split]; [lia|assumption|assumption]. }
    destruct El as (a & b & Hab & (HA1 & HA2 & HA3) & Hhd).
    inversion H; subst k st'.
    eapply (rspec_intro _ _ _ _ _ _ a b bytes); try reflexivity; try assumption.
    - rewrite utf8len_app in HA1. lia.
    - split; assumption.
    - eapply modesok_keep; [|eassumption]. cbn [modes advance_to_position]. rewrite Hms. exact I.
    - left. intros ->. cbn [app] in Hab. subst b. rewrite Hq in Hhd. cbn [orb] in Hhd.
      apply N.eqb_eq in Hhd. contradiction.
    - intros HH. vm_compute in HH. discriminate.
  Qed.

  (* ---- raw strings ---- *)
  Lemma consume_raw_contents_spec st pre post q h ms :
    Pre st pre post -> modes st = MRawStart q h :: ms ->
    forall k st', consume_raw_string_contents width st post q h = (k, st') ->
                  RSpec st pre post (indent st) k st'.
  Proof.
    intros (Hcur & Hpos & Hm) Hms k st' H. unfold consume_raw_string_contents in H.
    destruct (raw_loop width (S (length post)) q h post 0 (line (sp_end st)) (col (sp_end st)))
      as [bytes ln cl| |] eqn:El; [|is_err H|is_err H].
    eapply (raw_loop_spec width (cur st) q h _ _ pre) in El.
    2:{ destruct Hpos as [Hl Hc]. split; [|split]; [lia|assumption|assumption]. }
    destruct El as (a & qc & r & Hab & Hqc & (HA1 & HA2 & HA3)).
    inversion H; subst k st'.
    eapply (rspec_intro _ _ _ _ _ _ a (qc :: repeat HASH (N.to_nat h) ++ r) bytes);
      try reflexivity; try assumption.
    - rewrite utf8len_app in HA1. lia.
    - split; assumption.
    - cbn [modes push_mode pop_mode set_modes advance_to_position]. rewrite Hms. cbn [tl].
      destruct Hm as [Hm1 _]. rewrite Hms in Hm1. cbn [tl] in Hm1.
      split; [exact Hm1|]. exists qc, r. auto.
    - right. rewrite Hms. split; reflexivity.
    - intros HH. vm_compute in HH. discriminate.
  Qed.

  Lemma consume_raw_end_spec st pre post q h ms :
    Pre st pre post -> modes st = MRawEnd q h :: ms ->
    forall k st', consume_raw_string_end st h = (k, st') ->
                  RSpec st pre post (indent st) k st'.
  Proof.
    intros (Hcur & Hpos & Hm) Hms k st' H. unfold consume_raw_string_end in H.
    pose proof Hm as [Hm1 Hm2]. rewrite Hms in Hm2. destruct Hm2 as (qc & r & Hp & Hq).
    apply is_quote_inv in Hq. destruct Hq as (Q1 & Q2 & Q3).
    inversion H; subst k st'.
    line_tac Hcur Hpos (qc :: repeat HASH (N.to_nat h)) r; try reflexivity.
    - rewrite Hp. reflexivity.
    - rewrite utf8len_cons, utf8len_repeat_hash, Q1. lia.
    - discriminate.
    - rewrite count_nl_cons, count_nl_repeat_hash. apply N.eqb_neq in Q2. rewrite Q2. reflexivity.
    - cbn [modes pop_mode set_modes advance_line advance_line_utf8]. eapply modesok_pop; eauto.
  Qed.

  (* ---- format options ---- *)
  Lemma consume_format_options_spec st pre post ms :
    Pre st pre post -> modes st = MTemplateExprFormat :: ms ->
    forall k st', consume_format_options grapheme_len st post = (k, st') ->
                  RSpec st pre post (indent st) k st'.
  Proof.
    intros (Hcur & Hpos & Hm) Hms k st' H. unfold consume_format_options in H.
    destruct (format_skip grapheme_len post) as [sk sb] eqn:Ef.
    apply format_skip_spec in Ef.
    destruct (find_rbrace (skipn sk post) 0) as [e|] eqn:Er; [|is_err H].
    apply find_rbrace_spec in Er. destruct Er as (a1 & b1 & Hs & He).
    assert (Hpost : post = (firstn sk post ++ a1) ++ RBRACE :: b1).
    { rewrite <- app_assoc, <- Hs. symmetry. apply firstn_skipn. }
    assert (Hbytes : e + sb = utf8len (firstn sk post ++ a1)).
    { rewrite utf8len_app. lia. }
    destruct (fmt_pos post (e + sb) (line (sp_end st)) (col (sp_end st))) as [ln cl] eqn:Ep.
    rewrite Hbytes in Ep. rewrite Hpost in Ep at 1.
    destruct Hpos as [Hl Hc].
    apply (fmt_pos_spec _ _ pre) in Ep; [|assumption|assumption].
    destruct Ep as [Ep1 Ep2].
    inversion H; subst k st'.
    eapply (rspec_intro _ _ _ _ _ _ (firstn sk post ++ a1) (RBRACE :: b1) (e + sb));
      try reflexivity; try assumption.
    - split; assumption.
    - cbn [modes pop_mode set_modes advance_to_position]. eapply modesok_pop; eauto.
    - right. rewrite Hms. split; [reflexivity|].
      cbn [modes pop_mode set_modes advance_to_position]. rewrite Hms. cbn [tl].
      apply nonspecial_not_zero. destruct Hm as [Hm1 _]. rewrite Hms in Hm1. exact Hm1.
    - intros HH. vm_compute in HH. discriminate.
  Qed.

  (* ---- identifiers ---- *)
  Lemma id_shape c t b w r :
    consume_and_count_utf8 width xid_continue t = (b, w, r) ->
    exists a, t = a ++ r /\ b = utf8len a /\ count_nl a = 0 /\
              firstn (length (c :: t) - length r) (c :: t) = c :: a.
  Proof.
    intros H. apply cacu_spec in H. destruct H as (a & -> & -> & Fa).
    exists a. split; [reflexivity|]. split; [reflexivity|]. split.
    - eapply forall_count_nl; [exact xid_no_lf|exact Fa].
    - cbn [length]. rewrite app_length.
      replace (S (length a + length r) - length r)%nat with (S (length a)) by lia.
      cbn [firstn]. rewrite firstn_exact. reflexivity.
  Qed.

  Lemma consume_ignored_spec st pre c t :
    Pre st pre (c :: t) -> default_top (modes st) = true -> c <> LF ->
    forall k st', consume_ignored width xid_continue st (c :: t) = (k, st') ->
                  RSpec st pre (c :: t) (indent st) k st'.
  Proof.
    intros (Hcur & Hpos & Hm) Hd Hc k st' H. unfold consume_ignored in H.
    destruct (consume_and_count_utf8 width xid_continue t) as [[b w] r] eqn:Ec.
    apply (id_shape c) in Ec. destruct Ec as (a & Ht & Hb & Hn & _).
    inversion H; subst k st'.
    line_tac Hcur Hpos (c :: a) r; try reflexivity.
    - rewrite Ht. reflexivity.
    - rewrite utf8len_cons, Hb. reflexivity.
    - discriminate.
    - rewrite count_nl_cons, Hn. apply N.eqb_neq in Hc. rewrite Hc. reflexivity.
    - eapply modesok_default; eauto.
  Qed.

  Lemma parse_raw_start_spec st pre idt r post :
    Pre st pre post -> default_top (modes st) = true ->
    post = idt ++ r -> idt = [114] ->
    forall k st', parse_raw_string_start st r = Some (k, st') ->
                  RSpec st pre post (indent st) k st'.
  Proof.
    intros (Hcur & Hpos & Hm) Hd Hp Hid k st' H. unfold parse_raw_string_start in H.
    destruct (raw_start_loop r 0) as [[q h]|] eqn:El; [|discriminate].
    apply raw_start_loop_spec in El; [|lia].
    destruct El as (n & qc & r' & Hr & Hh & Hq & Hlt).
    apply quote_of_inv in Hq. pose proof (is_quote_inv _ _ Hq) as (Q1 & Q2 & Q3).
    rewrite N.mod_small in H by assumption.
    inversion H; subst k st'.
    line_tac Hcur Hpos (114 :: repeat HASH n ++ [qc]) r'; try reflexivity.
    - rewrite Hp, Hid, Hr. cbn [app]. rewrite <- app_assoc. reflexivity.
    - rewrite utf8len_cons, utf8len_app, utf8len_repeat_hash, utf8len_1, Q1.
      change (len_utf8 114) with 1. lia.
    - discriminate.
    - rewrite count_nl_cons, count_nl_app, count_nl_repeat_hash, neq_lf_count by assumption.
      reflexivity.
    - cbn [modes push_mode set_modes advance_line advance_line_utf8].
      eapply modesok_push; [eassumption|apply default_top_nonspecial; assumption|exact I].
  Qed.

  Lemma consume_id_spec st pre c t :
    Pre st pre (c :: t) -> default_top (modes st) = true -> c <> LF ->
    forall k st', consume_id_or_keyword width xid_continue st (c :: t) = (k, st') ->
                  RSpec st pre (c :: t) (indent st) k st'.
  Proof.
    intros HPre Hd Hc k st' H. pose proof HPre as (Hcur & Hpos & Hm).
    unfold consume_id_or_keyword in H.
    destruct (consume_and_count_utf8 width xid_continue t) as [[b w] r] eqn:Ec.
    apply (id_shape c) in Ec. destruct Ec as (a & Ht & Hb & Hn & Hid).
    rewrite Hid in H.
    assert (Hnl : count_nl (c :: a) = 0).
    { rewrite count_nl_cons, Hn. apply N.eqb_neq in Hc. rewrite Hc. reflexivity. }
    assert (Hpost : c :: t = (c :: a) ++ r) by (rewrite Ht; reflexivity).
    destruct (list_eqb (c :: a) kw_else) eqn:Eelse.
    { apply list_eqb_eq in Eelse.
      destruct (is_prefix kw_space_if r) eqn:Eif.
      - apply is_prefix_app in Eif. destruct Eif as [r' Hr'].
        inversion H; subst k st'.
        line_tac Hcur Hpos (kw_else ++ kw_space_if) r'; try reflexivity.
        + rewrite Hpost, Eelse, Hr', app_assoc. reflexivity.
        + discriminate.
        + eapply modesok_default; eauto.
      - inversion H; subst k st'.
        line_tac Hcur Hpos kw_else r; try reflexivity.
        + rewrite Hpost, Eelse. reflexivity.
        + discriminate.
        + eapply modesok_default; eauto. }
    destruct (if list_eqb (c :: a) [114] then parse_raw_string_start st r else None)
      as [[k0 st0]|] eqn:Eraw.
    { destruct (list_eqb (c :: a) [114]) eqn:Er; [|discriminate].
      apply list_eqb_eq in Er. inversion H; subst k0 st0.
      eapply parse_raw_start_spec; eauto. }
    destruct (if match prev_tok st with Some k1 => is_kind k1 tok_Dot | None => false end
              then None else lookup_kw (c :: a) keywords) as [[kw tk]|] eqn:Ekw.
    { destruct (match prev_tok st with Some k1 => is_kind k1 tok_Dot | None => false end);
        [discriminate|].
      apply lookup_kw_spec in Ekw; [|exact keywords_ok]. destruct Ekw as [Hkw Htk].
      inversion H; subst k st'.
      line_tac Hcur Hpos (c :: a) r; try reflexivity.
      - exact Hpost.
      - rewrite Hkw. reflexivity.
      - discriminate.
      - exact Hnl.
      - eapply modesok_default; eauto.
      - exact Htk. }
    inversion H; subst k st'.
    line_tac Hcur Hpos (c :: a) r; try reflexivity.
    - exact Hpost.
    - rewrite utf8len_cons, Hb. reflexivity.
    - discriminate.
    - exact Hnl.
    - eapply modesok_default; eauto.
  Qed.
End Dispatch.
