(* Shared vocabulary for the lexer model: code points, UTF-8 lengths, positions. *)
From Coq Require Export List NArith Bool Lia.
Export ListNotations.
Open Scope N_scope.

Definition cp := N.

(* char::len_utf8 *)
Definition len_utf8 (c : cp) : N :=
  if c <? 128 then 1 else if c <? 2048 then 2 else if c <? 65536 then 3 else 4.

Fixpoint utf8len (s : list cp) : N :=
  match s with
  | [] => 0
  | c :: t => len_utf8 c + utf8len t
  end.

(* str::get(n..) : None when n is past the end or not on a character boundary *)
Fixpoint skip_bytes (n : N) (s : list cp) : option (list cp) :=
  if n =? 0 then Some s
  else match s with
       | [] => None
       | c :: t => if len_utf8 c <=? n then skip_bytes (n - len_utf8 c) t else None
       end.

Definition LF : cp := 10.
Definition CR : cp := 13.
Definition TAB : cp := 9.
Definition SPACE : cp := 32.
Definition DQUOTE : cp := 34.
Definition HASH : cp := 35.
Definition SQUOTE : cp := 39.
Definition PLUS : cp := 43.
Definition MINUS : cp := 45.
Definition DOT : cp := 46.
Definition BACKSLASH : cp := 92.
Definition UNDERSCORE : cp := 95.
Definition LBRACE : cp := 123.
Definition RBRACE : cp := 125.
Definition LT : cp := 60.
Definition GT : cp := 62.
Definition CARET : cp := 94.

Fixpoint count_nl (s : list cp) : N :=
  match s with
  | [] => 0
  | c :: t => (if c =? LF then 1 else 0) + count_nl t
  end.

Fixpoint list_eqb (a b : list cp) : bool :=
  match a, b with
  | [], [] => true
  | x :: a', y :: b' => (x =? y) && list_eqb a' b'
  | _, _ => false
  end.

Fixpoint is_prefix (p s : list cp) : bool :=
  match p, s with
  | [], _ => true
  | x :: p', y :: s' => (x =? y) && is_prefix p' s'
  | _ :: _, [] => false
  end.

Record pos := mkpos { line : N; col : N }.
