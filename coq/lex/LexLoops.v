(* Specifications of the character-level loops of the lexer model. *)
From KV.lex Require Import LexBase GenLexTables LexModel LexSpec LexLemmas.
Open Scope N_scope.

Arguments N.add : simpl never.
Arguments N.sub : simpl never.
Arguments N.mul : simpl never.
Arguments N.eqb : simpl never.
Arguments N.ltb : simpl never.
Arguments N.leb : simpl never.

Ltac lens :=
  change (len_utf8 HASH) with 1 in *;
  change (len_utf8 MINUS) with 1 in *;
  change (len_utf8 LF) with 1 in *;
  change (len_utf8 CR) with 1 in *;
  change (len_utf8 BACKSLASH) with 1 in *;
  change (len_utf8 LBRACE) with 1 in *;
  change (len_utf8 RBRACE) with 1 in *;
  change (len_utf8 DQUOTE) with 1 in *;
  change (len_utf8 SQUOTE) with 1 in *;
  change (len_utf8 117) with 1 in *.

Ltac eqb_case c k :=
  let E := fresh "E" in
  destruct (c =? k) eqn:E; [apply N.eqb_eq in E; try subst c | apply N.eqb_neq in E].

Lemma is_quote_inv q c : is_quote q c = true -> len_utf8 c = 1 /\ c <> LF /\ c <> CR.
Proof.
  destruct q; cbn [is_quote]; intros H; apply N.eqb_eq in H; subst c;
    (split; [reflexivity | split; discriminate]).
Qed.

Lemma esc_char q d :
  (d =? LBRACE) || (d =? BACKSLASH) || is_quote q d = true -> len_utf8 d = 1 /\ d <> LF.
Proof.
  intros H. apply orb_prop in H. destruct H as [H|H].
  - apply orb_prop in H. destruct H as [H|H]; apply N.eqb_eq in H; subst d;
      (split; [reflexivity|discriminate]).
  - apply is_quote_inv in H. tauto.
Qed.

Lemma count_nl_2 c d : c <> LF -> d <> LF -> count_nl [c; d] = 0.
Proof.
  intros H1 H2. cbn [count_nl]. apply N.eqb_neq in H1, H2. rewrite H1, H2. reflexivity.
Qed.

Section Loops.
  Variable width : cp -> N.
  Variable c0 : N.

  Lemma comment_loop_spec : forall n chars done bytes ln cl found b' l' c',
      (length chars <= n)%nat ->
      Acc c0 done bytes ln cl ->
      comment_loop width chars bytes ln cl = Some (found, b', l', c') ->
      exists a b, chars = a ++ b /\ Acc c0 (done ++ a) b' l' c'.
  Proof.
    induction n as [|n IH]; intros chars done bytes ln cl found b' l' c' Hlen HA H.
    - destruct chars; [|cbn [length] in Hlen; lia].
      cbn [comment_loop] in H. inversion H; subst. exists [], []. rewrite !app_nil_r.
      split; [reflexivity|assumption].
    - destruct chars as [|c t].
      { cbn [comment_loop] in H. inversion H; subst. exists [], []. rewrite !app_nil_r.
        split; [reflexivity|assumption]. }
      cbn [comment_loop] in H. cbn [length] in Hlen.
      assert (STEP : forall x t1 bytes1 ln1 cl1,
                 (length t1 <= n)%nat -> c :: t = x ++ t1 ->
                 Acc c0 (done ++ x) bytes1 ln1 cl1 ->
                 comment_loop width t1 bytes1 ln1 cl1 = Some (found, b', l', c') ->
                 exists a b, c :: t = a ++ b /\ Acc c0 (done ++ a) b' l' c').
      { intros x t1 bytes1 ln1 cl1 Hl Hx HA1 H1.
        destruct (IH _ _ _ _ _ _ _ _ _ Hl HA1 H1) as (a & b & -> & HA2).
        exists (x ++ a), b. rewrite <- app_assoc. split; [assumption|].
        rewrite app_assoc. assumption. }
      eqb_case c HASH.
      { destruct t as [|d t'].
        - eapply (STEP [HASH]); [| reflexivity | | exact H]; [cbn [length] in *; lia|].
          eapply acc_nolf; [eassumption|discriminate|reflexivity|cbn [utf8len]; lia].
        - eqb_case d MINUS.
          + eapply (STEP [HASH; MINUS]); [| reflexivity | | exact H]; [cbn [length] in *; lia|].
            eapply acc_nolf; [eassumption|discriminate|reflexivity|cbn [utf8len]; lens; lia].
          + eapply (STEP [HASH]); [| reflexivity | | exact H]; [cbn [length] in *; lia|].
            eapply acc_nolf; [eassumption|discriminate|reflexivity|cbn [utf8len]; lia]. }
      eqb_case c MINUS.
      { destruct t as [|d t'].
        - eapply (STEP [MINUS]); [| reflexivity | | exact H]; [cbn [length] in *; lia|].
          eapply acc_nolf; [eassumption|discriminate|reflexivity|cbn [utf8len]; lia].
        - eqb_case d HASH.
          + inversion H; subst. exists [MINUS; HASH], t'. split; [reflexivity|].
            eapply acc_nolf; [eassumption|discriminate|reflexivity|cbn [utf8len]; lens; lia].
          + eapply (STEP [MINUS]); [| reflexivity | | exact H]; [cbn [length] in *; lia|].
            eapply acc_nolf; [eassumption|discriminate|reflexivity|cbn [utf8len]; lia]. }
      eqb_case c CR.
      { destruct t as [|d t']; [discriminate|].
        eqb_case d LF; [|discriminate].
        eapply (STEP [CR; LF]); [| reflexivity | | exact H]; [cbn [length] in *; lia|].
        eapply (acc_lf _ _ _ _ _ [CR]); [eassumption|reflexivity|cbn [utf8len]; lens; lia]. }
      eqb_case c LF.
      { eapply (STEP [LF]); [| reflexivity | | exact H]; [cbn [length] in *; lia|].
        eapply (acc_lf _ _ _ _ _ []); [eassumption|reflexivity|cbn [utf8len]; lens; lia]. }
      eapply (STEP [c]); [| reflexivity | | exact H]; [cbn [length] in *; lia|].
      eapply acc_nolf; [eassumption|discriminate|apply neq_lf_count; assumption|cbn [utf8len]; lia].
  Qed.

  Lemma strlit_loop_spec q : forall n chars done bytes ln cl b' l' c',
      (length chars <= n)%nat ->
      Acc c0 done bytes ln cl ->
      strlit_loop width q chars bytes ln cl = Some (b', l', c') ->
      exists a b, chars = a ++ b /\ Acc c0 (done ++ a) b' l' c' /\
                  match b with c :: _ => is_quote q c || (c =? LBRACE) = true | [] => False end.
  Proof.
    induction n as [|n IH]; intros chars done bytes ln cl b' l' c' Hlen HA H.
    - destruct chars; [|cbn [length] in Hlen; lia]. cbn [strlit_loop] in H. discriminate.
    - destruct chars as [|c t]; [cbn [strlit_loop] in H; discriminate|].
      cbn [strlit_loop] in H. cbn [length] in Hlen.
      destruct (is_quote q c) eqn:Eq.
      { inversion H; subst. exists [], (c :: t). rewrite app_nil_r.
        split; [reflexivity|]. split; [assumption|]. rewrite Eq. reflexivity. }
      eqb_case c LBRACE.
      { inversion H; subst. exists [], (LBRACE :: t). rewrite app_nil_r.
        split; [reflexivity|]. split; [assumption|]. apply orb_true_r. }
      assert (STEP : forall x t1 bytes1 ln1 cl1,
                 (length t1 <= n)%nat -> c :: t = x ++ t1 ->
                 Acc c0 (done ++ x) bytes1 ln1 cl1 ->
                 strlit_loop width q t1 bytes1 ln1 cl1 = Some (b', l', c') ->
                 exists a b, c :: t = a ++ b /\ Acc c0 (done ++ a) b' l' c' /\
                   match b with c :: _ => is_quote q c || (c =? LBRACE) = true | [] => False end).
      { intros x t1 bytes1 ln1 cl1 Hl Hx HA1 H1.
        destruct (IH _ _ _ _ _ _ _ _ Hl HA1 H1) as (a & b & -> & HA2 & Hb).
        exists (x ++ a), b. rewrite <- app_assoc. split; [assumption|].
        rewrite app_assoc. split; assumption. }
      eqb_case c BACKSLASH.
      { destruct t as [|d t'].
        - eapply (STEP [BACKSLASH]); [| reflexivity | | exact H]; [cbn [length]; lia|].
          eapply acc_nolf; [eassumption|discriminate|reflexivity|cbn [utf8len]; lens; lia].
        - eqb_case d 117.
          + destruct t' as [|e t''].
            * eapply (STEP [BACKSLASH; 117]); [| reflexivity | | exact H]; [cbn [length]; lia|].
              eapply acc_nolf; [eassumption|discriminate|reflexivity|cbn [utf8len]; lens; lia].
            * eqb_case e LBRACE.
              -- eapply (STEP [BACKSLASH; 117; LBRACE]); [| reflexivity | | exact H];
                   [cbn [length] in *; lia|].
                 eapply acc_nolf; [eassumption|discriminate|reflexivity|cbn [utf8len]; lens; lia].
              -- eapply (STEP [BACKSLASH; 117]); [| reflexivity | | exact H];
                   [cbn [length] in *; lia|].
                 eapply acc_nolf; [eassumption|discriminate|reflexivity|cbn [utf8len]; lens; lia].
          + destruct ((d =? LBRACE) || (d =? BACKSLASH) || is_quote q d) eqn:Ed.
            * apply esc_char in Ed. destruct Ed as [Ed1 Ed2].
              eapply (STEP [BACKSLASH; d]); [| reflexivity | | exact H]; [cbn [length] in *; lia|].
              eapply acc_nolf; [eassumption|discriminate|apply count_nl_2; [discriminate|assumption]|].
              cbn [utf8len]. rewrite Ed1. lens. lia.
            * eapply (STEP [BACKSLASH]); [| reflexivity | | exact H]; [cbn [length] in *; lia|].
              eapply acc_nolf; [eassumption|discriminate|reflexivity|cbn [utf8len]; lens; lia]. }
      eqb_case c CR.
      { destruct t as [|d t']; [discriminate|].
        eqb_case d LF; [|discriminate].
        eapply (STEP [CR; LF]); [| reflexivity | | exact H]; [cbn [length] in *; lia|].
        eapply (acc_lf _ _ _ _ _ [CR]); [eassumption|reflexivity|cbn [utf8len]; lens; lia]. }
      eqb_case c LF.
      { eapply (STEP [LF]); [| reflexivity | | exact H]; [cbn [length] in *; lia|].
        eapply (acc_lf _ _ _ _ _ []); [eassumption|reflexivity|cbn [utf8len]; lens; lia]. }
      eapply (STEP [c]); [| reflexivity | | exact H]; [cbn [length] in *; lia|].
      eapply acc_nolf; [eassumption|discriminate|apply neq_lf_count; assumption|cbn [utf8len]; lia].
  Qed.

  Lemma take_hashes_spec : forall n t i r,
      take_hashes n t = (i, r) -> t = repeat HASH (N.to_nat i) ++ r.
  Proof.
    induction n as [|n IH]; intros t i r H; cbn [take_hashes] in H.
    - inversion H; subst. reflexivity.
    - destruct t as [|c t]; [inversion H; subst; reflexivity|].
      eqb_case c HASH.
      + destruct (take_hashes n t) as [i' r'] eqn:E. inversion H; subst.
        apply IH in E. subst t. replace (N.to_nat (1 + i')) with (S (N.to_nat i')) by lia.
        reflexivity.
      + inversion H; subst. reflexivity.
  Qed.

  Lemma raw_loop_spec q h : forall fuel chars done bytes ln cl b' l' c',
      Acc c0 done bytes ln cl ->
      raw_loop width fuel q h chars bytes ln cl = RawEnd b' l' c' ->
      exists a qc r, chars = a ++ qc :: repeat HASH (N.to_nat h) ++ r /\ is_quote q qc = true /\
                     Acc c0 (done ++ a) b' l' c'.
  Proof.
    induction fuel as [|fuel IH]; intros chars done bytes ln cl b' l' c' HA H.
    - cbn [raw_loop] in H. discriminate.
    - cbn [raw_loop] in H. destruct chars as [|c t]; [discriminate|].
      assert (STEP : forall x t1 bytes1 ln1 cl1,
                 c :: t = x ++ t1 ->
                 Acc c0 (done ++ x) bytes1 ln1 cl1 ->
                 raw_loop width fuel q h t1 bytes1 ln1 cl1 = RawEnd b' l' c' ->
                 exists a qc r, c :: t = a ++ qc :: repeat HASH (N.to_nat h) ++ r /\
                                is_quote q qc = true /\ Acc c0 (done ++ a) b' l' c').
      { intros x t1 bytes1 ln1 cl1 Hx HA1 H1.
        destruct (IH _ _ _ _ _ _ _ _ HA1 H1) as (a & qc & r & -> & Hq & HA2).
        exists (x ++ a), qc, r. rewrite <- app_assoc. split; [assumption|].
        rewrite app_assoc. split; assumption. }
      destruct (is_quote q c) eqn:Eq.
      { destruct (take_hashes (N.to_nat h) t) as [i r] eqn:Et.
        apply take_hashes_spec in Et.
        eqb_case i h.
        - inversion H; subst. exists [], c, r. rewrite app_nil_r. auto.
        - apply is_quote_inv in Eq. destruct Eq as (Q1 & Q2 & Q3).
          eapply (STEP (c :: repeat HASH (N.to_nat i))); [| | exact H].
          + rewrite Et. reflexivity.
          + eapply acc_nolf; [eassumption|discriminate| |].
            * rewrite count_nl_cons, count_nl_repeat_hash. apply N.eqb_neq in Q2. rewrite Q2.
              reflexivity.
            * rewrite utf8len_cons, utf8len_repeat_hash, Q1. lia. }
      eqb_case c CR.
      { destruct t as [|d t']; [discriminate|].
        eqb_case d LF; [|discriminate].
        eapply (STEP [CR; LF]); [reflexivity| |exact H].
        eapply (acc_lf _ _ _ _ _ [CR]); [eassumption|reflexivity|cbn [utf8len]; lens; lia]. }
      eqb_case c LF.
      { eapply (STEP [LF]); [reflexivity| |exact H].
        eapply (acc_lf _ _ _ _ _ []); [eassumption|reflexivity|cbn [utf8len]; lens; lia]. }
      eapply (STEP [c]); [reflexivity| |exact H].
      eapply acc_nolf; [eassumption|discriminate|apply neq_lf_count; assumption|cbn [utf8len]; lia].
  Qed.

  Lemma raw_start_loop_spec : forall r hc q h,
      hc < 256 ->
      raw_start_loop r hc = Some (q, h) ->
      exists n qc r', r = repeat HASH n ++ qc :: r' /\ h = hc + N.of_nat n /\
                      quote_of qc = Some q /\ h < 256.
  Proof.
    induction r as [|c t IH]; intros hc q h Hlt H; cbn [raw_start_loop] in H; [discriminate|].
    eqb_case c HASH.
    - eqb_case (hc + 1) 256; [discriminate|].
      apply IH in H; [|lia]. destruct H as (n & qc & r' & -> & -> & Hq & Hlt').
      exists (S n), qc, r'. repeat split; auto. lia.
    - destruct (quote_of c) as [q'|] eqn:Eq; [|discriminate]. inversion H; subst.
      exists O, c, t. repeat split; auto. cbn. lia.
  Qed.

  Lemma quote_of_inv c q : quote_of c = Some q -> is_quote q c = true.
  Proof.
    unfold quote_of. eqb_case c DQUOTE.
    - intros H; inversion H; reflexivity.
    - eqb_case c SQUOTE; intros H; inversion H. reflexivity.
  Qed.

  Lemma find_rbrace_spec : forall chars off e,
      find_rbrace chars off = Some e ->
      exists a b, chars = a ++ RBRACE :: b /\ e = off + utf8len a.
  Proof.
    induction chars as [|c t IH]; intros off e H; cbn [find_rbrace] in H; [discriminate|].
    eqb_case c RBRACE.
    - inversion H; subst. exists [], t. split; [reflexivity|]. cbn [utf8len]. lia.
    - apply IH in H. destruct H as (a & b & -> & ->). exists (c :: a), b.
      split; [reflexivity|]. rewrite utf8len_cons. lia.
  Qed.

  Lemma fmt_pos_spec : forall a b done ln cl ln' cl',
      ln = count_nl done -> ColOK done cl ->
      fmt_pos (a ++ b) (utf8len a) ln cl = (ln', cl') ->
      ln' = count_nl (done ++ a) /\ ColOK (done ++ a) cl'.
  Proof.
    induction a as [|c a IH]; intros b done ln cl ln' cl' Hl Hc H.
    - rewrite app_nil_r. cbn [app utf8len] in H.
      destruct b as [|c b]; cbn [fmt_pos] in H.
      + inversion H; subst. auto.
      + change (0 =? 0) with true in H. cbv iota in H. inversion H; subst. auto.
    - cbn [app fmt_pos] in H. rewrite utf8len_cons in H.
      pose proof (len_utf8_pos c) as Hp.
      destruct (len_utf8 c + utf8len a =? 0) eqn:E0; [apply N.eqb_eq in E0; lia|].
      replace (len_utf8 c + utf8len a - len_utf8 c) with (utf8len a) in H by lia.
      replace (done ++ c :: a) with ((done ++ [c]) ++ a) by (rewrite <- app_assoc; reflexivity).
      eqb_case c LF.
      + eapply IH; [| |exact H].
        * rewrite count_nl_app. change (count_nl [LF]) with 1. lia.
        * apply colok_zero.
      + eapply IH; [| |exact H].
        * rewrite count_nl_app, neq_lf_count by assumption. lia.
        * apply colok_last. assumption.
  Qed.
End Loops.

Section Fmt.
  Variable grapheme_len : list cp -> nat.

  Lemma format_skip_spec input k sb :
    format_skip grapheme_len input = (k, sb) ->
    sb = utf8len (firstn k input).
  Proof.
    unfold format_skip. destruct input as [|c0 t0]; [intros H; inversion H; reflexivity|].
    set (input := c0 :: t0). set (g1 := grapheme_len input).
    destruct (skipn g1 input) as [|c rest] eqn:Es; [intros H; inversion H; reflexivity|].
    destruct ((Nat.eqb (grapheme_len (c :: rest)) 1) && ((c =? LT) || (c =? CARET) || (c =? GT))) eqn:E;
      [|intros H; inversion H; reflexivity].
    intros H; inversion H; subst k sb. clear H.
    apply andb_prop in E. destruct E as [_ E].
    assert (Hc : len_utf8 c = 1).
    { apply orb_prop in E. destruct E as [E|E]; [apply orb_prop in E; destruct E as [E|E]|];
        apply N.eqb_eq in E; subst c; reflexivity. }
    assert (Hin : input = firstn g1 input ++ c :: rest) by (rewrite <- Es; symmetry; apply firstn_skipn).
    assert (Hlen : length (firstn g1 input) = g1).
    { apply firstn_length_le. destruct (PeanoNat.Nat.le_gt_cases g1 (length input)) as [|Hgt]; [assumption|].
      rewrite skipn_all2 in Es by lia. discriminate. }
    rewrite Hin at 2.
    replace (S g1) with (length (firstn g1 input) + 1)%nat by lia.
    rewrite firstn_app_2. cbn [firstn]. rewrite utf8len_app, utf8len_1, Hc. reflexivity.
  Qed.
End Fmt.
