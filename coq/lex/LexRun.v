(* Executable instance of the lexer model for the correspondence check:
   the Unicode oracles are instantiated from tables dumped by the Rust harness
   from the very crates koto links (unicode-width, unicode-xid,
   unicode-segmentation) for the non-ASCII code points in the case file. *)
From KV.lex Require Import LexBase GenLexTables LexModel.
Open Scope N_scope.

(* utab: (cp, width, xid_start, xid_continue, grapheme_extend) for non-ASCII cps *)
Definition utab := list (N * (N * (bool * (bool * bool)))).

Fixpoint ulookup (t : utab) (c : cp) : option (N * (bool * (bool * bool))) :=
  match t with
  | [] => None
  | (k, v) :: r => if k =? c then Some v else ulookup r c
  end.

Definition is_ascii_alpha (c : cp) : bool :=
  ((65 <=? c) && (c <=? 90)) || ((97 <=? c) && (c <=? 122)).

Definition t_width (t : utab) (c : cp) : N :=
  if c <? 128 then (if (32 <=? c) && (c <? 127) then 1 else 0)
  else match ulookup t c with Some (w, _) => w | None => 1 end.

Definition t_xid_start (t : utab) (c : cp) : bool :=
  if c <? 128 then is_ascii_alpha c
  else match ulookup t c with Some (_, (s, _)) => s | None => false end.

Definition t_xid_continue (t : utab) (c : cp) : bool :=
  if c <? 128 then is_ascii_alpha c || is_ascii_digit c || (c =? UNDERSCORE)
  else match ulookup t c with Some (_, (_, (k, _))) => k | None => false end.

Definition t_extend (t : utab) (c : cp) : bool :=
  if c <? 128 then false
  else match ulookup t c with Some (_, (_, (_, e))) => e | None => false end.

Fixpoint count_extend (t : utab) (s : list cp) : nat :=
  match s with
  | c :: r => if t_extend t c then S (count_extend t r) else O
  | [] => O
  end.

(* first extended grapheme cluster for the alphabets the harness admits
   (it drops any input on which this rule and the crate disagree) *)
Definition t_grapheme_len (t : utab) (s : list cp) : nat :=
  match s with
  | [] => O
  | c :: r =>
      if c =? CR then (match r with d :: _ => if d =? LF then 2%nat else 1%nat | [] => 1%nat end)
      else if (c <? 32) || (c =? 127) then 1%nat
      else S (count_extend t r)
  end.

Definition run_lex (t : utab) (s : list cp) :=
  lex (t_width t) (t_xid_start t) (t_xid_continue t) (t_grapheme_len t) s.

Definition enc_kind (k : tkind) : list N :=
  match k with
  | TK d => [d; 0; 0]
  | TStrNormal QDouble => [tok_StringStart; 1; 0]
  | TStrNormal QSingle => [tok_StringStart; 2; 0]
  | TStrRaw QDouble h => [tok_StringStart; 3; h]
  | TStrRaw QSingle h => [tok_StringStart; 4; h]
  end.

Definition enc_tok (t : ltoken) : list N :=
  enc_kind (t_kind t) ++
  [t_sb t; t_eb t; line (t_start t); col (t_start t); line (t_end t); col (t_end t); t_indent t].

Definition enc_fault (f : lexfault) : N := match f with FaultNone => 0 | FaultOutOfFuel => 1 end.

(* result: (fault flag, tokens) *)
Definition lex_out (t : utab) (s : list cp) : N * list (list N) :=
  let '(ts, f) := run_lex t s in (enc_fault f, map enc_tok ts).
