(* The dispatchers and one pull of get_next_token preserve the invariant. *)
From KV.lex Require Import LexBase GenLexTables LexModel LexSpec LexLemmas LexLoops LexRoutines LexDispatch.
Open Scope N_scope.

Arguments N.add : simpl never.
Arguments N.sub : simpl never.
Arguments N.mul : simpl never.
Arguments N.eqb : simpl never.
Arguments N.ltb : simpl never.
Arguments N.leb : simpl never.

(* ---- after_last_nl ---- *)
Lemma after_last_nl_lf : forall p acc, after_last_nl (p ++ [LF]) acc = [].
Proof.
  induction p as [|c p IH]; intros acc; cbn [app after_last_nl].
  - reflexivity.
  - destruct (c =? LF); apply IH.
Qed.

Lemma after_last_nl_nolf : forall a acc, count_nl a = 0 -> after_last_nl a acc = acc ++ a.
Proof.
  induction a as [|c a IH]; intros acc H; cbn [after_last_nl].
  - rewrite app_nil_r. reflexivity.
  - rewrite count_nl_cons in H. destruct (c =? LF); [lia|].
    rewrite IH by lia. rewrite <- app_assoc. reflexivity.
Qed.

Lemma after_last_nl_app : forall pre a acc,
    count_nl a = 0 -> after_last_nl (pre ++ a) acc = after_last_nl pre acc ++ a.
Proof.
  induction pre as [|c pre IH]; intros a acc H; cbn [app after_last_nl].
  - apply after_last_nl_nolf. assumption.
  - destruct (c =? LF); apply IH; assumption.
Qed.

Section Step.
  Variable width : cp -> N.
  Variable xid_start xid_continue : cp -> bool.
  Variable grapheme_len : list cp -> nat.
  Hypothesis xid_continue_lf : xid_continue LF = false.

  (* ---- default dispatcher ---- *)
  Lemma default_dispatch_spec st pre c t :
    Pre st pre (c :: t) -> default_top (modes st) = true ->
    forall k st', default_dispatch width xid_start xid_continue st (c :: t) c = (k, st') ->
      RSpec st pre (c :: t)
        (if is_whitespace c && is_newline_or_none (prev_tok st) then leading_ws (c :: t) else indent st)
        k st'.
  Proof.
    intros HPre Hd k st' H. pose proof HPre as (Hcur & Hpos & Hm).
    unfold default_dispatch in H.
    destruct (is_whitespace c) eqn:Ews.
    { (* whitespace *)
      destruct (consume_and_count is_whitespace (c :: t)) as [count r] eqn:Ec.
      pose proof (cac_ws_leading (c :: t)) as Hlw. rewrite Ec in Hlw. cbn [fst] in Hlw.
      apply cac_spec in Ec. destruct Ec as (a & Ha & Hcount & Fa & Hr).
      assert (Hane : a <> []).
      { intros ->. cbn [app] in Ha. subst r. rewrite Ews in Hr. discriminate. }
      assert (Hbytes : count = utf8len a).
      { rewrite Hcount. symmetry. apply (forall_utf8len_ascii is_whitespace); [|assumption].
        intros x Hx. apply is_whitespace_inv in Hx. tauto. }
      assert (Hnl : count_nl a = 0).
      { apply (forall_count_nl is_whitespace); [|assumption].
        intros x Hx. apply is_whitespace_inv in Hx. tauto. }
      cbn [andb].
      destruct (is_newline_or_none (prev_tok st)); inversion H; subst k st'.
      - line_tac Hcur Hpos a r; try reflexivity; try assumption.
        eapply modesok_default; eauto.
      - line_tac Hcur Hpos a r; try reflexivity; try assumption.
        eapply modesok_default; eauto. }
    cbn [andb].
    destruct ((c =? CR) || (c =? LF)) eqn:Enl.
    { eapply consume_newline_spec; eauto. }
    assert (Hlf : c <> LF).
    { intros ->. rewrite orb_true_r in Enl. discriminate. }
    eqb_case c HASH.
    { eapply consume_comment_spec; eauto. }
    eqb_case c DQUOTE.
    { inversion H; subst k st'.
      line_tac Hcur Hpos [DQUOTE] t; try reflexivity.
      - discriminate.
      - cbn [modes push_mode set_modes advance_line advance_line_utf8].
        eapply modesok_push; [eassumption|apply default_top_nonspecial; assumption|exact I]. }
    eqb_case c SQUOTE.
    { inversion H; subst k st'.
      line_tac Hcur Hpos [SQUOTE] t; try reflexivity.
      - discriminate.
      - cbn [modes push_mode set_modes advance_line advance_line_utf8].
        eapply modesok_push; [eassumption|apply default_top_nonspecial; assumption|exact I]. }
    destruct (is_ascii_digit c) eqn:Edig.
    { destruct (consume_number_spec st c t Edig) as (n & Hn & (a & b & Hab & Hu & Hcn) & Hge).
      rewrite Hn in H. inversion H; subst k st'.
      line_tac Hcur Hpos a b; try reflexivity; try assumption.
      - symmetry. exact Hu.
      - intros ->. cbn [utf8len] in Hu. lia.
      - eapply modesok_default; eauto. }
    destruct (xid_start c) eqn:Exs.
    { eapply consume_id_spec; eauto. }
    eqb_case c UNDERSCORE.
    { eapply consume_ignored_spec; eauto. }
    (* symbols *)
    destruct (lookup_symbol (c :: t) symbols) as [[s tk]|] eqn:Es.
    2:{ cbv beta iota zeta in H. inversion H; subst. apply rspec_error. reflexivity. }
    apply lookup_symbol_spec in Es; [|exact symbols_ok].
    destruct Es as ([r Hr] & Hs1 & Hs2 & Hs3).
    cbv beta iota zeta in H.
    assert (G0 : RSpec st pre (c :: t) (indent st) (TK tk) (advance_line st (utf8len s))).
    { line_tac Hcur Hpos s r; try reflexivity; try assumption.
      eapply modesok_default; eauto. }
    assert (G : forall ms', ModesOK ms' r ->
                RSpec st pre (c :: t) (indent st) (TK tk) (set_modes (advance_line st (utf8len s)) ms')).
    { intros ms' Hms'. line_tac Hcur Hpos s r; try reflexivity; assumption. }
    assert (Gpop : RSpec st pre (c :: t) (indent st) (TK tk) (pop_mode (advance_line st (utf8len s)))).
    { apply G. cbn [modes advance_line advance_line_utf8]. eapply modesok_pop; eauto. }
    assert (Gpush : forall m, match m with MRawEnd _ _ => False | _ => True end ->
                RSpec st pre (c :: t) (indent st) (TK tk) (push_mode (advance_line st (utf8len s)) m)).
    { intros m Hmm. apply G. cbn [modes advance_line advance_line_utf8].
      eapply modesok_push; [eassumption|apply default_top_nonspecial; assumption|exact Hmm]. }
    unfold top_mode in H.
    destruct (modes st) as [|[] ms] eqn:Ems; try (inversion H; subst k st'; exact G0).
    - destruct (is_kind (TK tk) tok_CurlyOpen).
      { inversion H; subst k st'. apply Gpush. exact I. }
      destruct (is_kind (TK tk) tok_Colon).
      { inversion H; subst k st'. apply Gpush. exact I. }
      destruct (is_kind (TK tk) tok_CurlyClose).
      { inversion H; subst k st'. exact Gpop. }
      inversion H; subst k st'. exact G0.
    - destruct (is_kind (TK tk) tok_CurlyClose).
      { inversion H; subst k st'. exact Gpop. }
      inversion H; subst k st'. exact G0.
  Qed.

  (* ---- get_next_token ---- *)
  Definition reset_indent (st : lstate) : lstate :=
    match prev_tok st with
    | Some k => if is_kind k tok_NewLine then set_indent st 0 else st
    | None => st
    end.

  Definition dispatch (st : lstate) (remaining : list cp) (next_char : cp) : res :=
    match top_mode st with
    | Some (MLiteral q) =>
        if is_quote q next_char then (TK tok_StringEnd, pop_mode (advance_line st 1))
        else if next_char =? LBRACE then (TK tok_CurlyOpen, push_mode (advance_line st 1) MTemplateExpr)
        else consume_string_literal width st remaining
    | Some (MRawStart q h) => consume_raw_string_contents width st remaining q h
    | Some (MRawEnd q h) => consume_raw_string_end st h
    | Some MTemplateExprFormat => consume_format_options grapheme_len st remaining
    | _ => default_dispatch width xid_start xid_continue st remaining next_char
    end.

  Lemma gnt_unfold st :
    get_next_token width xid_start xid_continue grapheme_len st =
      match skip_bytes (cur st) (src st) with
      | Some (next_char :: t) =>
          let '(k, st') := dispatch (reset_indent st) (next_char :: t) next_char in
          Some (k, set_prev_tok st' (Some k))
      | _ => None
      end.
  Proof.
    unfold get_next_token. destruct (skip_bytes (cur st) (src st)) as [[|c t]|]; reflexivity.
  Qed.

  Lemma reset_indent_facts st :
    let st0 := reset_indent st in
    src st0 = src st /\ cur st0 = cur st /\ sp_end st0 = sp_end st /\ modes st0 = modes st /\
    prev_tok st0 = prev_tok st /\
    indent st0 = match prev_tok st with
                 | Some k => if is_kind k tok_NewLine then 0 else indent st
                 | None => indent st
                 end.
  Proof.
    unfold reset_indent. destruct (prev_tok st) as [k|] eqn:E.
    - destruct (is_kind k tok_NewLine); cbn; rewrite ?E; repeat split; reflexivity.
    - cbn. rewrite E. repeat split; reflexivity.
  Qed.

  Lemma dispatch_spec st pre c t :
    Pre st pre (c :: t) ->
    forall k st', dispatch st (c :: t) c = (k, st') ->
      RSpec st pre (c :: t)
        (if default_top (modes st) && is_whitespace c && is_newline_or_none (prev_tok st)
         then leading_ws (c :: t) else indent st)
        k st'.
  Proof.
    intros HPre k st' H. pose proof HPre as (Hcur & Hpos & Hm).
    unfold dispatch, top_mode in H.
    destruct (modes st) as [|m ms] eqn:Ems.
    { cbn [default_top andb]. eapply default_dispatch_spec; eauto. rewrite Ems. reflexivity. }
    destruct m as [q| | | |q h|q h]; cbn [default_top andb].
    - (* MLiteral *)
      destruct (is_quote q c) eqn:Eq.
      { pose proof (is_quote_inv _ _ Eq) as (Q1 & Q2 & Q3).
        inversion H; subst k st'.
        line_tac Hcur Hpos [c] t; try reflexivity.
        - rewrite utf8len_1, Q1. reflexivity.
        - discriminate.
        - apply neq_lf_count. assumption.
        - cbn [modes pop_mode set_modes advance_line advance_line_utf8]. rewrite Ems.
          eapply modesok_pop; eauto. }
      eqb_case c LBRACE.
      { inversion H; subst k st'.
        line_tac Hcur Hpos [LBRACE] t; try reflexivity.
        - discriminate.
        - cbn [modes push_mode set_modes advance_line advance_line_utf8]. rewrite Ems.
          eapply modesok_push; [eassumption|reflexivity|exact I]. }
      eapply consume_string_literal_spec; eauto.
    - eapply default_dispatch_spec; eauto. rewrite Ems. reflexivity.
    - eapply default_dispatch_spec; eauto. rewrite Ems. reflexivity.
    - eapply consume_format_options_spec; eauto.
    - eapply consume_raw_contents_spec; eauto.
    - eapply consume_raw_end_spec; eauto.
  Qed.
End Step.
