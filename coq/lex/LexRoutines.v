(* Per-routine specifications: every consume_* routine, on a non-error result,
   consumes exactly a prefix [a] of the remaining text and reports exact
   byte / line / column-reset information for it. *)
From KV.lex Require Import LexBase GenLexTables LexModel LexSpec LexLemmas LexLoops.
Open Scope N_scope.

Arguments N.add : simpl never.
Arguments N.sub : simpl never.
Arguments N.mul : simpl never.
Arguments N.eqb : simpl never.
Arguments N.ltb : simpl never.
Arguments N.leb : simpl never.

Definition special (m : smode) : bool :=
  match m with MTemplateExprFormat | MRawStart _ _ | MRawEnd _ _ => true | _ => false end.

Definition ModesOK (ms : list smode) (post : list cp) : Prop :=
  Forall (fun m => special m = false) (tl ms) /\
  match ms with
  | MRawEnd q h :: _ =>
      exists qc r, post = qc :: repeat HASH (N.to_nat h) ++ r /\ is_quote q qc = true
  | _ => True
  end.

Definition zero_top (ms : list smode) : bool :=
  match ms with MTemplateExprFormat :: _ | MRawStart _ _ :: _ => true | _ => false end.

Definition default_top (ms : list smode) : bool :=
  match ms with [] | MTemplateExpr :: _ | MTemplateExprInlineMap :: _ => true | _ => false end.

Definition RSpec (st : lstate) (pre post : list cp) (ind' : N) (k : tkind) (st' : lstate) : Prop :=
  is_error k = false ->
  exists a b, post = a ++ b /\
    src st' = src st /\ cur st' = utf8len (pre ++ a) /\ prev st' = cur st /\
    sp_start st' = sp_end st /\ PosOK (pre ++ a) (sp_end st') /\
    indent st' = ind' /\
    ModesOK (modes st') b /\
    (a <> [] \/ (zero_top (modes st) = true /\ zero_top (modes st') = false)) /\
    (is_kind k tok_NewLine = true ->
     modes st' = modes st /\ default_top (modes st) = true /\ exists p, pre ++ a = p ++ [LF]).

Lemma rspec_error st pre post ind' k st' : is_error k = true -> RSpec st pre post ind' k st'.
Proof. intros H H'. congruence. Qed.

Lemma rspec_intro st pre post ind' k st' a b bytes :
  cur st = utf8len pre ->
  post = a ++ b -> bytes = utf8len a ->
  src st' = src st -> cur st' = cur st + bytes -> prev st' = cur st -> sp_start st' = sp_end st ->
  PosOK (pre ++ a) (sp_end st') -> indent st' = ind' -> ModesOK (modes st') b ->
  (a <> [] \/ (zero_top (modes st) = true /\ zero_top (modes st') = false)) ->
  (is_kind k tok_NewLine = true ->
     modes st' = modes st /\ default_top (modes st) = true /\ exists p, pre ++ a = p ++ [LF]) ->
  RSpec st pre post ind' k st'.
Proof.
  intros Hc Hp Hb H1 H2 H3 H4 H5 H6 H7 H8 H9 _. exists a, b.
  repeat (split; [assumption|]). split.
  - rewrite H2, Hc, Hb, utf8len_app. reflexivity.
  - repeat (split; [assumption|]). assumption.
Qed.

Lemma rspec_line st pre post ind' k st' a b bytes c' :
  cur st = utf8len pre -> PosOK pre (sp_end st) ->
  post = a ++ b -> bytes = utf8len a -> a <> [] -> count_nl a = 0 ->
  src st' = src st -> cur st' = cur st + bytes -> prev st' = cur st -> sp_start st' = sp_end st ->
  sp_end st' = mkpos (line (sp_end st)) c' ->
  indent st' = ind' -> ModesOK (modes st') b ->
  is_kind k tok_NewLine = false ->
  RSpec st pre post ind' k st'.
Proof.
  intros Hc [Hl Hcol] Hp Hb Ha Hn H1 H2 H3 H4 H5 H6 H7 H8.
  eapply rspec_intro; eauto.
  - rewrite H5. split; cbn [line col].
    + rewrite count_nl_app. lia.
    + apply colok_nolf; assumption.
  - intros H. congruence.
Qed.

Lemma modesok_default ms post b : default_top ms = true -> ModesOK ms post -> ModesOK ms b.
Proof.
  intros Hd [H1 H2]. split; [assumption|].
  destruct ms as [|[] ?]; try exact I; discriminate.
Qed.

Lemma modesok_pop ms post b : ModesOK ms post -> ModesOK (tl ms) b.
Proof.
  intros [H1 _]. destruct ms as [|m [|m2 r]]; cbn [tl] in *.
  - split; [constructor|exact I].
  - split; [constructor|exact I].
  - inversion H1; subst. split; [assumption|]. destruct m2; try exact I. discriminate.
Qed.

Lemma modes_nonspecial ms post :
  ModesOK ms post -> match ms with [] => True | m :: _ => special m = false end ->
  Forall (fun m => special m = false) ms.
Proof.
  intros [H1 _] H. destruct ms as [|m r]; [constructor|]. constructor; assumption.
Qed.

Lemma modesok_push ms post b m :
  ModesOK ms post -> match ms with [] => True | m :: _ => special m = false end ->
  match m with MRawEnd _ _ => False | _ => True end ->
  ModesOK (m :: ms) b.
Proof.
  intros H1 H2 H3. split; [cbn [tl]; eapply modes_nonspecial; eauto|].
  destruct m; try exact I. contradiction.
Qed.

Lemma default_top_nonspecial ms :
  default_top ms = true -> match ms with [] => True | m :: _ => special m = false end.
Proof. destruct ms as [|[] ?]; intros H; try exact I; try reflexivity; discriminate. Qed.

Lemma default_top_not_zero ms : default_top ms = true -> zero_top ms = false.
Proof. destruct ms as [|[] ?]; intros H; try reflexivity; discriminate. Qed.

(* ------------------------------------------------------------------ *)
(* characters that stay on the line and take one byte *)

Definition plain (c : cp) : Prop := len_utf8 c = 1 /\ c <> LF.

Lemma ascii_plain c : c < 128 -> c <> 10 -> plain c.
Proof.
  intros H1 H2. split; [|exact H2]. unfold len_utf8.
  destruct (c <? 128) eqn:E; [reflexivity|]. apply N.ltb_ge in E. lia.
Qed.

Ltac bool_to_prop H :=
  repeat (rewrite ?orb_true_iff, ?andb_true_iff, ?N.leb_le, ?N.eqb_eq, ?N.ltb_lt in H).

Lemma decimal_plain c : is_decimal_digit c = true -> plain c.
Proof.
  unfold is_decimal_digit, is_ascii_digit, UNDERSCORE. intros H. bool_to_prop H.
  apply ascii_plain; lia.
Qed.

Lemma ascii_digit_plain c : is_ascii_digit c = true -> plain c.
Proof.
  unfold is_ascii_digit. intros H. bool_to_prop H. apply ascii_plain; lia.
Qed.

Lemma binary_plain c : is_binary_digit c = true -> plain c.
Proof.
  unfold is_binary_digit, UNDERSCORE. intros H. bool_to_prop H. apply ascii_plain; lia.
Qed.

Lemma octal_plain c : is_octal_digit c = true -> plain c.
Proof.
  unfold is_octal_digit, UNDERSCORE. intros H. bool_to_prop H. apply ascii_plain; lia.
Qed.

Lemma hex_plain c : is_hex_digit c = true -> plain c.
Proof.
  unfold is_hex_digit, is_ascii_digit, UNDERSCORE. intros H. bool_to_prop H.
  apply ascii_plain; lia.
Qed.

Definition SameLine (n : N) (chars : list cp) : Prop :=
  exists a b, chars = a ++ b /\ utf8len a = n /\ count_nl a = 0.

Lemma sl_nil chars : SameLine 0 chars.
Proof. exists [], chars. auto. Qed.

Lemma sl_app chars a1 r n1 m n :
  chars = a1 ++ r -> utf8len a1 = n1 -> count_nl a1 = 0 -> SameLine m r -> n = n1 + m ->
  SameLine n chars.
Proof.
  intros -> H1 H2 (a & b & -> & H3 & H4) ->. exists (a1 ++ a), b.
  rewrite app_assoc, utf8len_app, count_nl_app. split; [reflexivity|]. split; lia.
Qed.

Lemma sl_cons c t m n : plain c -> SameLine m t -> n = 1 + m -> SameLine n (c :: t).
Proof.
  intros [H1 H2] H ->. eapply (sl_app _ [c]); [reflexivity| | |exact H|reflexivity].
  - rewrite utf8len_1. exact H1.
  - apply neq_lf_count. exact H2.
Qed.

Lemma sl_cac p t n r m k :
  (forall c, p c = true -> plain c) -> consume_and_count p t = (n, r) ->
  SameLine m r -> k = n + m -> SameLine k t.
Proof.
  intros Hp H Hr ->. apply cac_spec in H. destruct H as (a & -> & -> & Fa & _).
  eapply sl_app; [reflexivity| | |exact Hr|reflexivity].
  - apply (forall_utf8len_ascii p); [|assumption]. intros c Hc. apply Hp. assumption.
  - apply (forall_count_nl p); [|assumption]. intros c Hc. apply Hp. assumption.
Qed.

(* ------------------------------------------------------------------ *)
(* consume_number *)

Definition exponent' (st : lstate) (char_bytes : N) (chars : list cp) : res :=
  match chars with
  | c :: t =>
      if c =? 101 then
        let char_bytes := char_bytes + 1 in
        let '(char_bytes, t) :=
          match t with
          | s :: t' => if (s =? PLUS) || (s =? MINUS) then (char_bytes + 1, t') else (char_bytes, t)
          | [] => (char_bytes, t)
          end in
        let '(n, _) := consume_and_count is_decimal_digit t in
        (TK tok_Number, advance_line st (char_bytes + n))
      else (TK tok_Number, advance_line st char_bytes)
  | [] => (TK tok_Number, advance_line st char_bytes)
  end.

Lemma exponent_spec st cb chars :
  exists m, exponent' st cb chars = (TK tok_Number, advance_line st (cb + m)) /\ SameLine m chars.
Proof.
  unfold exponent'. destruct chars as [|c t].
  { exists 0. rewrite N.add_0_r. split; [reflexivity|apply sl_nil]. }
  eqb_case c 101.
  2:{ exists 0. rewrite N.add_0_r. split; [reflexivity|apply sl_nil]. }
  assert (P101 : plain 101) by (apply ascii_plain; lia).
  destruct t as [|s t'].
  { cbn [consume_and_count]. exists 1. split; [f_equal; f_equal; lia|].
    eapply sl_cons; [exact P101|apply sl_nil|reflexivity]. }
  destruct ((s =? PLUS) || (s =? MINUS)) eqn:Es.
  - destruct (consume_and_count is_decimal_digit t') as [n r] eqn:En.
    exists (1 + (1 + (n + 0))). split; [f_equal; f_equal; lia|].
    eapply sl_cons; [exact P101| |reflexivity].
    eapply sl_cons; [| |reflexivity].
    + apply orb_prop in Es. destruct Es as [E|E]; apply N.eqb_eq in E; subst s;
        apply ascii_plain; unfold PLUS, MINUS; lia.
    + eapply sl_cac; [exact decimal_plain|exact En|apply sl_nil|reflexivity].
  - destruct (consume_and_count is_decimal_digit (s :: t')) as [n r] eqn:En.
    exists (1 + (n + 0)). split; [f_equal; f_equal; lia|].
    eapply sl_cons; [exact P101| |reflexivity].
    eapply sl_cac; [exact decimal_plain|exact En|apply sl_nil|reflexivity].
Qed.

Lemma consume_number_unfold st chars :
  consume_number st chars =
    let has_leading_zero := peek_is chars 48 in
    let '(char_bytes, chars) :=
      match chars with
      | c :: t => if is_ascii_digit c
                  then let '(n, r) := consume_and_count is_decimal_digit t in (1 + n, r)
                  else (0, chars)
      | [] => (0, chars)
      end in
    let radix (p : cp -> bool) (t : list cp) : res :=
      let '(n, _) := consume_and_count p t in
      (TK tok_Number, advance_line st (char_bytes + (1 + n))) in
    match chars with
    | c :: t =>
        if (c =? 98) && has_leading_zero && (char_bytes =? 1) then radix is_binary_digit t
        else if (c =? 111) && has_leading_zero && (char_bytes =? 1) then radix is_octal_digit t
        else if (c =? 120) && has_leading_zero && (char_bytes =? 1) then radix is_hex_digit t
        else if c =? DOT then
          let continue_fraction :=
            let '(n, r) := consume_and_count is_decimal_digit t in
            exponent' st (char_bytes + (1 + n)) r in
          match t with
          | d :: t' =>
              if is_ascii_digit d then continue_fraction
              else if d =? 101 then
                match t' with
                | e :: _ =>
                    if is_decimal_digit e || (e =? PLUS) || (e =? MINUS) then continue_fraction
                    else (TK tok_Number, advance_line st char_bytes)
                | [] => (TK tok_Number, advance_line st char_bytes)
                end
              else (TK tok_Number, advance_line st char_bytes)
          | [] => (TK tok_Number, advance_line st char_bytes)
          end
        else exponent' st char_bytes chars
    | [] => exponent' st char_bytes chars
    end.
Proof. reflexivity. Qed.

Lemma consume_number_spec st c t :
  is_ascii_digit c = true ->
  exists n, consume_number st (c :: t) = (TK tok_Number, advance_line st n) /\
            SameLine n (c :: t) /\ 1 <= n.
Proof.
  intros Hd. rewrite consume_number_unfold. cbv zeta. rewrite Hd.
  destruct (consume_and_count is_decimal_digit t) as [n r] eqn:En.
  pose proof (ascii_digit_plain _ Hd) as Pc.
  (* finishing: a result for the rest r consuming m more bytes *)
  assert (FIN : forall m res0,
             res0 = (TK tok_Number, advance_line st (1 + n + m)) -> SameLine m r ->
             exists n0, res0 = (TK tok_Number, advance_line st n0) /\
                        SameLine n0 (c :: t) /\ 1 <= n0).
  { intros m res0 -> Hm. exists (1 + n + m). split; [reflexivity|]. split; [|lia].
    eapply sl_cons; [exact Pc| |].
    - eapply sl_cac; [exact decimal_plain|exact En|exact Hm|reflexivity].
    - lia. }
  assert (FIN0 : exists n0, (TK tok_Number, advance_line st (1 + n)) = (TK tok_Number, advance_line st n0) /\
                        SameLine n0 (c :: t) /\ 1 <= n0).
  { apply (FIN 0); [rewrite N.add_0_r; reflexivity|apply sl_nil]. }
  assert (EXP : exists n0, exponent' st (1 + n) r = (TK tok_Number, advance_line st n0) /\
                        SameLine n0 (c :: t) /\ 1 <= n0).
  { destruct (exponent_spec st (1 + n) r) as (m & Hm & Sm). eapply FIN; eassumption. }
  assert (RADIX : forall p c2 t2, r = c2 :: t2 -> plain c2 -> (forall x, p x = true -> plain x) ->
             exists n0, (let '(n2, _) := consume_and_count p t2 in
                         (TK tok_Number, advance_line st (1 + n + (1 + n2)))) =
                        (TK tok_Number, advance_line st n0) /\
                        SameLine n0 (c :: t) /\ 1 <= n0).
  { intros p c2 t2 Hr Pc2 Hp. destruct (consume_and_count p t2) as [n2 r2] eqn:En2.
    apply (FIN (1 + (n2 + 0))); [f_equal; f_equal; lia|]. rewrite Hr.
    eapply sl_cons; [exact Pc2| |reflexivity].
    eapply sl_cac; [exact Hp|exact En2|apply sl_nil|reflexivity]. }
  destruct r as [|c2 t2]; [exact EXP|].
  destruct ((c2 =? 98) && peek_is (c :: t) 48 && (1 + n =? 1)) eqn:E1.
  { apply andb_prop in E1. destruct E1 as [E1 _]. apply andb_prop in E1. destruct E1 as [E1 _].
    apply N.eqb_eq in E1. subst c2.
    apply (RADIX is_binary_digit 98 t2 eq_refl); [apply ascii_plain; lia|exact binary_plain]. }
  destruct ((c2 =? 111) && peek_is (c :: t) 48 && (1 + n =? 1)) eqn:E2.
  { apply andb_prop in E2. destruct E2 as [E2 _]. apply andb_prop in E2. destruct E2 as [E2 _].
    apply N.eqb_eq in E2. subst c2.
    apply (RADIX is_octal_digit 111 t2 eq_refl); [apply ascii_plain; lia|exact octal_plain]. }
  destruct ((c2 =? 120) && peek_is (c :: t) 48 && (1 + n =? 1)) eqn:E3.
  { apply andb_prop in E3. destruct E3 as [E3 _]. apply andb_prop in E3. destruct E3 as [E3 _].
    apply N.eqb_eq in E3. subst c2.
    apply (RADIX is_hex_digit 120 t2 eq_refl); [apply ascii_plain; lia|exact hex_plain]. }
  eqb_case c2 DOT; [|exact EXP].
  assert (FRAC : exists n0,
             (let '(n2, r2) := consume_and_count is_decimal_digit t2 in
              exponent' st (1 + n + (1 + n2)) r2) = (TK tok_Number, advance_line st n0) /\
             SameLine n0 (c :: t) /\ 1 <= n0).
  { destruct (consume_and_count is_decimal_digit t2) as [n2 r2] eqn:En2.
    destruct (exponent_spec st (1 + n + (1 + n2)) r2) as (m & Hm & Sm).
    apply (FIN (1 + (n2 + m))); [rewrite Hm; f_equal; f_equal; lia|].
    eapply sl_cons; [apply ascii_plain; unfold DOT; lia| |reflexivity].
    eapply sl_cac; [exact decimal_plain|exact En2|exact Sm|reflexivity]. }
  destruct t2 as [|d t3]; [exact FIN0|].
  destruct (is_ascii_digit d); [exact FRAC|].
  destruct (d =? 101); [|exact FIN0].
  destruct t3 as [|e t4]; [exact FIN0|].
  destruct (is_decimal_digit e || (e =? PLUS) || (e =? MINUS)); [exact FRAC|exact FIN0].
Qed.
