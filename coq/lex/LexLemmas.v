(* Basic facts about code-point lists, UTF-8 lengths, positions, and the
   character-level loops of the lexer model. *)
From KV.lex Require Import LexBase GenLexTables LexModel LexSpec.
Open Scope N_scope.

Arguments N.add : simpl never.
Arguments N.sub : simpl never.
Arguments N.mul : simpl never.
Arguments N.eqb : simpl never.
Arguments N.ltb : simpl never.
Arguments N.leb : simpl never.

(* ------------------------------------------------------------------ *)
(* utf8 / count_nl / skip_bytes                                        *)

Lemma len_utf8_pos c : 1 <= len_utf8 c.
Proof.
  unfold len_utf8.
  destruct (c <? 128); [lia|]. destruct (c <? 2048); [lia|]. destruct (c <? 65536); lia.
Qed.

Lemma utf8len_app a b : utf8len (a ++ b) = utf8len a + utf8len b.
Proof. induction a as [|c a IH]; cbn [utf8len app]; [lia|]. rewrite IH. lia. Qed.

Lemma count_nl_app a b : count_nl (a ++ b) = count_nl a + count_nl b.
Proof. induction a as [|c a IH]; cbn [count_nl app]; [lia|]. rewrite IH. lia. Qed.

Lemma utf8len_cons c a : utf8len (c :: a) = len_utf8 c + utf8len a.
Proof. reflexivity. Qed.

Lemma count_nl_cons c a : count_nl (c :: a) = (if c =? LF then 1 else 0) + count_nl a.
Proof. reflexivity. Qed.

Lemma utf8len_nil_inv a : utf8len a = 0 -> a = [].
Proof.
  destruct a as [|c a]; [reflexivity|]. rewrite utf8len_cons.
  pose proof (len_utf8_pos c). lia.
Qed.

Lemma skip_bytes_0 s : skip_bytes 0 s = Some s.
Proof. destruct s; reflexivity. Qed.

Lemma skip_bytes_app pre post : skip_bytes (utf8len pre) (pre ++ post) = Some post.
Proof.
  induction pre as [|c pre IH]; cbn [utf8len app].
  - apply skip_bytes_0.
  - cbn [skip_bytes]. pose proof (len_utf8_pos c).
    destruct (len_utf8 c + utf8len pre =? 0) eqn:E.
    + apply N.eqb_eq in E. lia.
    + destruct (len_utf8 c <=? len_utf8 c + utf8len pre) eqn:E2.
      * replace (len_utf8 c + utf8len pre - len_utf8 c) with (utf8len pre) by lia. exact IH.
      * apply N.leb_gt in E2. lia.
Qed.

Lemma prefix_unique : forall pre1 post1 pre2 post2,
    pre1 ++ post1 = pre2 ++ post2 -> utf8len pre1 = utf8len pre2 -> pre1 = pre2 /\ post1 = post2.
Proof.
  induction pre1 as [|c pre1 IH]; intros post1 pre2 post2 H U.
  - cbn [utf8len] in U. symmetry in U. apply utf8len_nil_inv in U. subst. auto.
  - destruct pre2 as [|d pre2].
    + apply utf8len_nil_inv in U. discriminate.
    + cbn [app] in H. inversion H; subst. rewrite !utf8len_cons in U.
      destruct (IH post1 pre2 post2 H2) as [-> ->]; [lia|]. auto.
Qed.

Lemma utf8len_repeat_hash n : utf8len (repeat HASH n) = N.of_nat n.
Proof.
  induction n as [|n IH]; [reflexivity|].
  cbn [repeat]. rewrite utf8len_cons, IH. change (len_utf8 HASH) with 1. lia.
Qed.

Lemma count_nl_repeat_hash n : count_nl (repeat HASH n) = 0.
Proof.
  induction n as [|n IH]; [reflexivity|].
  cbn [repeat]. rewrite count_nl_cons, IH. reflexivity.
Qed.

Lemma list_eqb_eq : forall a b, list_eqb a b = true -> a = b.
Proof.
  induction a as [|x a IH]; destruct b as [|y b]; cbn [list_eqb]; intros H; try discriminate; auto.
  apply andb_prop in H. destruct H as [H1 H2]. apply N.eqb_eq in H1. subst. f_equal. auto.
Qed.

Lemma is_prefix_app : forall p s, is_prefix p s = true -> exists r, s = p ++ r.
Proof.
  induction p as [|x p IH]; intros s H.
  - exists s. reflexivity.
  - destruct s as [|y s]; cbn [is_prefix] in H; [discriminate|].
    apply andb_prop in H. destruct H as [H1 H2]. apply N.eqb_eq in H1. subst.
    destruct (IH s H2) as [r ->]. exists r. reflexivity.
Qed.

(* ------------------------------------------------------------------ *)
(* positions                                                            *)

Definition ColOK (pre : list cp) (c : N) : Prop := forall p, pre = p ++ [LF] -> c = 0.

Definition PosOK (pre : list cp) (p : pos) : Prop := line p = count_nl pre /\ ColOK pre (col p).

Lemma colok_zero pre : ColOK pre 0.
Proof. intros p _. reflexivity. Qed.

Lemma colok_last pre x c : x <> LF -> ColOK (pre ++ [x]) c.
Proof. intros Hx p H. apply app_inj_tail in H. destruct H as [_ H]. contradiction. Qed.

Lemma count_nl_last a x : count_nl (a ++ [x]) = 0 -> x <> LF.
Proof.
  rewrite count_nl_app, count_nl_cons. intros H E. subst x. change (LF =? LF) with true in H.
  cbn [count_nl] in H. lia.
Qed.

Lemma colok_nolf pre a c : a <> [] -> count_nl a = 0 -> ColOK (pre ++ a) c.
Proof.
  intros Ha Hn. destruct (exists_last Ha) as [a' [x ->]].
  rewrite app_assoc. apply colok_last. eapply count_nl_last; eauto.
Qed.

(* accumulators of the multi-line loops: [done] is the whole text in front of
   the loop's cursor, [c0] the byte offset of the token start *)
Definition Acc (c0 : N) (done : list cp) (bytes ln cl : N) : Prop :=
  c0 + bytes = utf8len done /\ ln = count_nl done /\ ColOK done cl.

Lemma acc_nolf c0 done b l c x b' c' :
  Acc c0 done b l c -> x <> [] -> count_nl x = 0 -> b' = b + utf8len x ->
  Acc c0 (done ++ x) b' l c'.
Proof.
  intros (H1 & H2 & H3) Hx Hn ->. split; [|split].
  - rewrite utf8len_app. lia.
  - rewrite count_nl_app. lia.
  - apply colok_nolf; assumption.
Qed.

Lemma acc_lf c0 done b l c x b' :
  Acc c0 done b l c -> count_nl x = 0 -> b' = b + utf8len x + 1 ->
  Acc c0 (done ++ x ++ [LF]) b' (l + 1) 0.
Proof.
  intros (H1 & H2 & H3) Hn ->. split; [|split].
  - rewrite !utf8len_app. change (utf8len [LF]) with 1. lia.
  - rewrite !count_nl_app. change (count_nl [LF]) with 1. lia.
  - apply colok_zero.
Qed.

Lemma neq_lf_count c : c <> LF -> count_nl [c] = 0.
Proof. intros H. cbn [count_nl]. apply N.eqb_neq in H. rewrite H. reflexivity. Qed.

Lemma utf8len_1 c : utf8len [c] = len_utf8 c.
Proof. cbn [utf8len]. lia. Qed.

(* ------------------------------------------------------------------ *)
(* consume_and_count                                                    *)

Lemma cac_spec p : forall chars n r,
    consume_and_count p chars = (n, r) ->
    exists a, chars = a ++ r /\ n = N.of_nat (length a) /\ Forall (fun c => p c = true) a
              /\ match r with c :: _ => p c = false | [] => True end.
Proof.
  induction chars as [|c t IH]; intros n r H; cbn [consume_and_count] in H.
  - inversion H; subst. exists []. repeat split; auto.
  - destruct (p c) eqn:E.
    + destruct (consume_and_count p t) as [n' r'] eqn:E'. inversion H; subst.
      destruct (IH _ _ eq_refl) as (a & -> & -> & Fa & Hr).
      exists (c :: a). repeat split; auto. cbn [length]. lia.
    + inversion H; subst. exists []. repeat split; auto.
Qed.

Section Oracles.
  Variable width : cp -> N.

  Lemma cacu_spec p : forall chars b w r,
      consume_and_count_utf8 width p chars = (b, w, r) ->
      exists a, chars = a ++ r /\ b = utf8len a /\ Forall (fun c => p c = true) a.
  Proof.
    induction chars as [|c t IH]; intros b w r H; cbn [consume_and_count_utf8] in H.
    - inversion H; subst. exists []. repeat split; auto.
    - destruct (p c) eqn:E.
      + destruct (consume_and_count_utf8 width p t) as [[b' w'] r'] eqn:E'. inversion H; subst.
        destruct (IH _ _ _ eq_refl) as (a & -> & -> & Fa).
        exists (c :: a). repeat split; auto.
      + inversion H; subst. exists []. repeat split; auto.
  Qed.
End Oracles.

Lemma forall_count_nl (p : cp -> bool) a :
  (forall c, p c = true -> c <> LF) -> Forall (fun c => p c = true) a -> count_nl a = 0.
Proof.
  intros Hp. induction 1 as [|c a Hc _ IH]; [reflexivity|].
  rewrite count_nl_cons, IH. apply Hp in Hc. apply N.eqb_neq in Hc. rewrite Hc. reflexivity.
Qed.

Lemma forall_utf8len_ascii (p : cp -> bool) a :
  (forall c, p c = true -> len_utf8 c = 1) -> Forall (fun c => p c = true) a ->
  utf8len a = N.of_nat (length a).
Proof.
  intros Hp. induction 1 as [|c a Hc _ IH]; [reflexivity|].
  rewrite utf8len_cons, IH, (Hp _ Hc). cbn [length]. lia.
Qed.

(* ------------------------------------------------------------------ *)
(* table facts, by computation                                          *)

Lemma ws_table_ok :
  forallb (fun c => (c <? 128) && negb (c =? LF) && negb (c =? CR)) whitespace_chars = true.
Proof. vm_compute. reflexivity. Qed.

Lemma is_whitespace_inv c : is_whitespace c = true -> len_utf8 c = 1 /\ c <> LF /\ c <> CR.
Proof.
  unfold is_whitespace. intros H. apply existsb_exists in H. destruct H as (x & Hin & E).
  apply N.eqb_eq in E. subst x.
  pose proof (proj1 (forallb_forall _ _) ws_table_ok c Hin) as H.
  apply andb_prop in H. destruct H as [H H3]. apply andb_prop in H. destruct H as [H1 H2].
  repeat split.
  - unfold len_utf8. rewrite H1. reflexivity.
  - intros ->. discriminate.
  - intros ->. discriminate.
Qed.

Lemma cac_ws_leading l : fst (consume_and_count is_whitespace l) = leading_ws l.
Proof.
  induction l as [|c t IH]; [reflexivity|].
  cbn [consume_and_count leading_ws]. destruct (is_whitespace c); [|reflexivity].
  destruct (consume_and_count is_whitespace t) as [n r]. cbn [fst] in *. rewrite IH. reflexivity.
Qed.

Definition sym_entry_ok (e : list N * N) : bool :=
  negb (match fst e with [] => true | _ => false end)
  && forallb (fun c => negb (c =? LF)) (fst e)
  && negb (snd e =? tok_NewLine).

Lemma symbols_ok : forallb sym_entry_ok symbols = true.
Proof. vm_compute. reflexivity. Qed.

Lemma keywords_ok : forallb (fun e => negb (snd e =? tok_NewLine)) keywords = true.
Proof. vm_compute. reflexivity. Qed.

Lemma forallb_count_nl a : forallb (fun c => negb (c =? LF)) a = true -> count_nl a = 0.
Proof.
  induction a as [|c a IH]; cbn [forallb]; intros H; [reflexivity|].
  apply andb_prop in H. destruct H as [H1 H2]. rewrite count_nl_cons, (IH H2).
  destruct (c =? LF); [discriminate|reflexivity].
Qed.

Section Oracles2.
  Variable width : cp -> N.
  Variable xid_start xid_continue : cp -> bool.
  Variable grapheme_len : list cp -> nat.

  Lemma lookup_symbol_spec : forall tbl remaining s t,
      forallb sym_entry_ok tbl = true ->
      lookup_symbol remaining tbl = Some (s, t) ->
      (exists r, remaining = s ++ r) /\ s <> [] /\ count_nl s = 0 /\ (t =? tok_NewLine) = false.
  Proof.
    induction tbl as [|[s0 t0] tbl IH]; intros remaining s t Hok H; cbn [lookup_symbol] in H.
    - discriminate.
    - cbn [forallb] in Hok. apply andb_prop in Hok. destruct Hok as [He Hok].
      destruct (is_prefix s0 remaining) eqn:E.
      + inversion H; subst. unfold sym_entry_ok in He. cbn [fst snd] in He.
        apply andb_prop in He. destruct He as [He H3]. apply andb_prop in He. destruct He as [H1 H2].
        repeat split.
        * apply is_prefix_app. exact E.
        * intros ->. discriminate.
        * apply forallb_count_nl. exact H2.
        * destruct (t =? tok_NewLine); [discriminate|reflexivity].
      + eapply IH; eauto.
  Qed.

  Lemma lookup_kw_spec : forall tbl id k t,
      forallb (fun e => negb (snd e =? tok_NewLine)) tbl = true ->
      lookup_kw id tbl = Some (k, t) -> id = k /\ (t =? tok_NewLine) = false.
  Proof.
    induction tbl as [|[k0 t0] tbl IH]; intros id k t Hok H; cbn [lookup_kw] in H.
    - discriminate.
    - cbn [forallb] in Hok. apply andb_prop in Hok. destruct Hok as [He Hok].
      destruct (list_eqb id k0) eqn:E.
      + inversion H; subst. cbn [snd] in He. split; [apply list_eqb_eq; exact E|].
        destruct (t =? tok_NewLine); [discriminate|reflexivity].
      + eapply IH; eauto.
  Qed.
End Oracles2.
