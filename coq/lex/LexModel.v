(* Impl-shaped model of koto_lexer::TokenLexer (crates/lexer/src/lexer.rs).
   Same state, same cursors, same counters as the Rust code: every consume_*
   routine keeps its OWN byte / width / line counters exactly as the Rust does,
   and the text that the next token sees is recomputed from the byte cursor
   (source.get(current_byte..)), so a wrong counter is visible.

   No proofs in this file. *)
From KV.lex Require Export LexBase GenLexTables.
Open Scope N_scope.

Inductive quote := QDouble | QSingle.

Definition quote_of (c : cp) : option quote :=
  if c =? DQUOTE then Some QDouble else if c =? SQUOTE then Some QSingle else None.

Definition is_quote (q : quote) (c : cp) : bool :=
  match q with QDouble => c =? DQUOTE | QSingle => c =? SQUOTE end.

(* Token kinds: the discriminant in `enum Token` order (from GenLexTables),
   StringStart carries its StringType. *)
Inductive tkind :=
| TK (disc : N)
| TStrNormal (q : quote)
| TStrRaw (q : quote) (hashes : N).

Definition tkind_disc (k : tkind) : N :=
  match k with TK d => d | _ => tok_StringStart end.

Definition is_kind (k : tkind) (d : N) : bool := tkind_disc k =? d.

Inductive smode :=
| MLiteral (q : quote)
| MTemplateExpr
| MTemplateExprInlineMap
| MTemplateExprFormat
| MRawStart (q : quote) (hashes : N)
| MRawEnd (q : quote) (hashes : N).

Record lstate := mkst {
  src : list cp;
  cur : N;                    (* current_byte *)
  prev : N;                   (* previous_byte *)
  prev_tok : option tkind;    (* previous_token *)
  sp_start : pos;             (* span.start *)
  sp_end : pos;               (* span.end *)
  indent : N;
  modes : list smode          (* string_mode_stack, top = head *)
}.

Definition init (s : list cp) : lstate :=
  mkst s 0 0 None (mkpos 0 0) (mkpos 0 0) 0 [].

(* advance_line_utf8 *)
Definition advance_line_utf8 (st : lstate) (char_bytes char_count : N) : lstate :=
  mkst (src st) (cur st + char_bytes) (cur st) (prev_tok st)
       (sp_end st) (mkpos (line (sp_end st)) (col (sp_end st) + char_count))
       (indent st) (modes st).

Definition advance_line (st : lstate) (char_bytes : N) : lstate :=
  advance_line_utf8 st char_bytes char_bytes.

Definition advance_to_position (st : lstate) (char_bytes : N) (p : pos) : lstate :=
  mkst (src st) (cur st + char_bytes) (cur st) (prev_tok st)
       (sp_end st) p (indent st) (modes st).

Definition set_modes (st : lstate) (m : list smode) : lstate :=
  mkst (src st) (cur st) (prev st) (prev_tok st) (sp_start st) (sp_end st) (indent st) m.

Definition set_indent (st : lstate) (i : N) : lstate :=
  mkst (src st) (cur st) (prev st) (prev_tok st) (sp_start st) (sp_end st) i (modes st).

Definition set_prev_tok (st : lstate) (t : option tkind) : lstate :=
  mkst (src st) (cur st) (prev st) t (sp_start st) (sp_end st) (indent st) (modes st).

Definition push_mode (st : lstate) (m : smode) : lstate := set_modes st (m :: modes st).
Definition pop_mode (st : lstate) : lstate := set_modes st (tl (modes st)).

(* character classes written out in the Rust source *)
Definition is_ascii_digit (c : cp) : bool := (48 <=? c) && (c <=? 57).
Definition is_decimal_digit (c : cp) : bool := is_ascii_digit c || (c =? UNDERSCORE).
Definition is_binary_digit (c : cp) : bool := (c =? 48) || (c =? 49) || (c =? UNDERSCORE).
Definition is_octal_digit (c : cp) : bool := ((48 <=? c) && (c <=? 55)) || (c =? UNDERSCORE).
Definition is_hex_digit (c : cp) : bool :=
  is_ascii_digit c || ((65 <=? c) && (c <=? 70)) || ((97 <=? c) && (c <=? 102)) || (c =? UNDERSCORE).
Definition is_whitespace (c : cp) : bool := existsb (N.eqb c) whitespace_chars.

(* consume_and_count: counts CHARACTERS (the Rust adds 1 per char) *)
Fixpoint consume_and_count (p : cp -> bool) (chars : list cp) : N * list cp :=
  match chars with
  | c :: t => if p c then let '(n, r) := consume_and_count p t in (1 + n, r) else (0, chars)
  | [] => (0, [])
  end.

Section Lexer.
  (* Unicode oracles (third-party crates): c.width().unwrap_or(0), XID_Start,
     XID_Continue, number of code points in the first grapheme cluster. *)
  Variable width : cp -> N.
  Variable xid_start xid_continue : cp -> bool.
  Variable grapheme_len : list cp -> nat.

  Fixpoint consume_and_count_utf8 (p : cp -> bool) (chars : list cp) : N * N * list cp :=
    match chars with
    | c :: t =>
        if p c then let '(b, w, r) := consume_and_count_utf8 p t in (len_utf8 c + b, width c + w, r)
        else (0, 0, chars)
    | [] => (0, 0, [])
    end.

  (* Every routine returns the token kind and the new state; on the Error
     returns that happen before any advance_* call the state is unchanged. *)
  Definition res := (tkind * lstate)%type.
  Definition err (st : lstate) : res := (TK tok_Error, st).

  (* ---- consume_newline ------------------------------------------------ *)
  Definition consume_newline (st : lstate) (chars : list cp) : res :=
    (* the first char ('\r' or '\n') has been peeked by the dispatcher; the Rust
       starts with consumed_bytes = 1 and looks at chars.peek() *)
    let '(consumed, chars1) :=
      match chars with
      | c :: t => if c =? CR then (2, t) else (1, chars)
      | [] => (1, chars)
      end in
    match chars1 with
    | c :: _ =>
        if c =? LF
        then (TK tok_NewLine,
              advance_to_position st consumed (mkpos (line (sp_end st) + 1) 0))
        else err st
    | [] => err st
    end.

  (* ---- consume_comment ------------------------------------------------ *)
  (* multi-line loop; result None = `return Error` inside the loop *)
  Fixpoint comment_loop (chars : list cp) (bytes ln cl : N) : option (bool * N * N * N) :=
    match chars with
    | [] => Some (false, bytes, ln, cl)
    | c :: t =>
        let bytes := bytes + len_utf8 c in
        let cl := cl + width c in
        if c =? HASH then
          match t with
          | d :: t' => if d =? MINUS then comment_loop t' (bytes + 1) ln (cl + 1)
                       else comment_loop t bytes ln cl
          | [] => comment_loop t bytes ln cl
          end
        else if c =? MINUS then
          match t with
          | d :: t' => if d =? HASH then Some (true, bytes + 1, ln, cl + 1)
                       else comment_loop t bytes ln cl
          | [] => comment_loop t bytes ln cl
          end
        else if c =? CR then
          match t with
          | d :: t' => if d =? LF then comment_loop t' (bytes + 1) (ln + 1) 0 else None
          | [] => None
          end
        else if c =? LF then comment_loop t bytes (ln + 1) 0
        else comment_loop t bytes ln cl
    end.

  Definition consume_comment (st : lstate) (chars : list cp) : res :=
    let chars := tl chars in   (* the '#' *)
    match chars with
    | c :: _ =>
        if c =? MINUS then
          match comment_loop chars 1 (line (sp_end st)) (col (sp_end st) + 1) with
          | None => err st
          | Some (found, bytes, ln, cl) =>
              let st' := advance_to_position st bytes (mkpos ln cl) in
              (if found then TK tok_CommentMulti else TK tok_Error, st')
          end
        else
          let '(b, w, _) := consume_and_count_utf8 (fun c => negb ((c =? CR) || (c =? LF))) chars in
          (TK tok_CommentSingle, advance_line_utf8 st (b + 1) (w + 1))
    | [] =>
        (TK tok_CommentSingle, advance_line_utf8 st 1 1)
    end.

  (* ---- consume_string_literal ----------------------------------------- *)
  (* Some (bytes, line, col) = StringLiteral after advance_to_position; None = Error *)
  Fixpoint strlit_loop (q : quote) (chars : list cp) (bytes ln cl : N) : option (N * N * N) :=
    match chars with
    | [] => None
    | c :: t =>
        if is_quote q c then Some (bytes, ln, cl)
        else if c =? LBRACE then Some (bytes, ln, cl)
        else if c =? BACKSLASH then
          match t with
          | d :: t' =>
              if d =? 117 (* 'u' *) then
                match t' with
                | e :: t'' => if e =? LBRACE then strlit_loop q t'' (bytes + 3) ln (cl + 3)
                              else strlit_loop q t' (bytes + 2) ln (cl + 2)
                | [] => strlit_loop q t' (bytes + 2) ln (cl + 2)
                end
              else if (d =? LBRACE) || (d =? BACKSLASH) || is_quote q d
              then strlit_loop q t' (bytes + 2) ln (cl + 2)
              else strlit_loop q t (bytes + 1) ln (cl + 1)
          | [] => strlit_loop q t (bytes + 1) ln (cl + 1)
          end
        else if c =? CR then
          match t with
          | d :: t' => if d =? LF then strlit_loop q t' (bytes + 2) (ln + 1) 0 else None
          | [] => None
          end
        else if c =? LF then strlit_loop q t (bytes + 1) (ln + 1) 0
        else strlit_loop q t (bytes + len_utf8 c) ln (cl + width c)
    end.

  Definition consume_string_literal (st : lstate) (chars : list cp) : res :=
    match modes st with
    | MLiteral q :: _ =>
        match strlit_loop q chars 0 (line (sp_end st)) (col (sp_end st)) with
        | Some (bytes, ln, cl) =>
            (TK tok_StringLiteral, advance_to_position st bytes (mkpos ln cl))
        | None => err st
        end
    | _ => err st
    end.

  (* ---- parse_raw_string_start ----------------------------------------- *)
  Fixpoint raw_start_loop (chars : list cp) (hash_count : N) : option (quote * N) :=
    match chars with
    | c :: t =>
        if c =? HASH then
          let h := hash_count + 1 in
          if h =? 256 then None else raw_start_loop t h
        else match quote_of c with
             | Some q => Some (q, hash_count)
             | None => None
             end
    | [] => None
    end.

  Definition parse_raw_string_start (st : lstate) (chars : list cp) : option res :=
    match raw_start_loop chars 0 with
    | Some (q, h) =>
        let st1 := advance_line st (2 + h) in
        let h8 := h mod 256 in   (* hash_count as u8 *)
        Some (TStrRaw q h8, push_mode st1 (MRawStart q h8))
    | None => None
    end.

  (* ---- consume_raw_string_contents ------------------------------------ *)
  (* for i in 0..hash_count { if peek == '#' next else ... }: returns the number
     of hashes consumed and the remaining chars *)
  Fixpoint take_hashes (h : nat) (chars : list cp) : N * list cp :=
    match h with
    | O => (0, chars)
    | S h' =>
        match chars with
        | c :: t => if c =? HASH then let '(i, r) := take_hashes h' t in (1 + i, r) else (0, chars)
        | [] => (0, chars)
        end
    end.

  Inductive rawres := RawEnd (bytes ln cl : N) | RawError | RawOutOfFuel.

  Fixpoint raw_loop (fuel : nat) (q : quote) (h : N) (chars : list cp) (bytes ln cl : N) : rawres :=
    match fuel with
    | O => RawOutOfFuel
    | S fuel' =>
        match chars with
        | [] => RawError
        | c :: t =>
            if is_quote q c then
              let '(i, r) := take_hashes (N.to_nat h) t in
              if i =? h then RawEnd bytes ln cl
              else raw_loop fuel' q h r (bytes + (1 + i)) ln (cl + (1 + i))
            else if c =? CR then
              match t with
              | d :: t' => if d =? LF then raw_loop fuel' q h t' (bytes + 2) (ln + 1) 0 else RawError
              | [] => RawError
              end
            else if c =? LF then raw_loop fuel' q h t (bytes + 1) (ln + 1) 0
            else raw_loop fuel' q h t (bytes + len_utf8 c) ln (cl + width c)
        end
    end.

  Inductive lexfault := FaultNone | FaultOutOfFuel.

  Definition consume_raw_string_contents (st : lstate) (chars : list cp) (q : quote) (h : N) : res :=
    match raw_loop (S (length chars)) q h chars 0 (line (sp_end st)) (col (sp_end st)) with
    | RawEnd bytes ln cl =>
        let st1 := advance_to_position st bytes (mkpos ln cl) in
        (TK tok_StringLiteral, push_mode (pop_mode st1) (MRawEnd q h))
    | _ => err st
    end.

  Definition consume_raw_string_end (st : lstate) (h : N) : res :=
    (TK tok_StringEnd, pop_mode (advance_line st (1 + h))).

  (* ---- consume_format_options ----------------------------------------- *)
  (* str::find('}') : byte offset of the first '}' *)
  Fixpoint find_rbrace (chars : list cp) (off : N) : option N :=
    match chars with
    | [] => None
    | c :: t => if c =? RBRACE then Some off else find_rbrace t (off + len_utf8 c)
    end.

  Definition format_skip (input : list cp) : nat * N :=
    (* (graphemes.next(), graphemes.next()) = (Some(fill), Some("<" | "^" | ">")) *)
    match input with
    | [] => (O, 0)
    | _ =>
        let g1 := grapheme_len input in
        let rest := skipn g1 input in
        match rest with
        | c :: _ =>
            if (Nat.eqb (grapheme_len rest) 1) && ((c =? LT) || (c =? CARET) || (c =? GT))
            then (S g1, utf8len (firstn g1 input) + 1)
            else (O, 0)
        | [] => (O, 0)
        end
    end.

  (* the position loop over input[..options_bytes].chars(): a line break resets
     the column, every other character adds its BYTE length to the column *)
  Fixpoint fmt_pos (chars : list cp) (bytes : N) (ln cl : N) : N * N :=
    match chars with
    | [] => (ln, cl)
    | c :: t =>
        if bytes =? 0 then (ln, cl)
        else if c =? LF then fmt_pos t (bytes - len_utf8 c) (ln + 1) 0
        else fmt_pos t (bytes - len_utf8 c) ln (cl + len_utf8 c)
    end.

  Definition consume_format_options (st : lstate) (input : list cp) : res :=
    let '(skip_cps, skip_b) := format_skip input in
    match find_rbrace (skipn skip_cps input) 0 with
    | None => err st
    | Some end_pos =>
        let options_bytes := end_pos + skip_b in
        let '(ln, cl) := fmt_pos input options_bytes (line (sp_end st)) (col (sp_end st)) in
        (TK tok_StringLiteral, pop_mode (advance_to_position st options_bytes (mkpos ln cl)))
    end.

  (* ---- consume_number -------------------------------------------------- *)
  Definition peek_is (chars : list cp) (c : cp) : bool :=
    match chars with d :: _ => d =? c | [] => false end.

  Definition consume_number (st : lstate) (chars : list cp) : res :=
    let has_leading_zero := peek_is chars 48 in
    let '(char_bytes, chars) :=
      match chars with
      | c :: t => if is_ascii_digit c
                  then let '(n, r) := consume_and_count is_decimal_digit t in (1 + n, r)
                  else (0, chars)
      | [] => (0, chars)
      end in
    let radix (p : cp -> bool) (t : list cp) : res :=
      let '(n, _) := consume_and_count p t in
      (TK tok_Number, advance_line st (char_bytes + (1 + n))) in
    let exponent (char_bytes : N) (chars : list cp) : res :=
      match chars with
      | c :: t =>
          if c =? 101 (* 'e' *) then
            let char_bytes := char_bytes + 1 in
            let '(char_bytes, t) :=
              match t with
              | s :: t' => if (s =? PLUS) || (s =? MINUS) then (char_bytes + 1, t') else (char_bytes, t)
              | [] => (char_bytes, t)
              end in
            let '(n, _) := consume_and_count is_decimal_digit t in
            (TK tok_Number, advance_line st (char_bytes + n))
          else (TK tok_Number, advance_line st char_bytes)
      | [] => (TK tok_Number, advance_line st char_bytes)
      end in
    match chars with
    | c :: t =>
        if (c =? 98 (* b *)) && has_leading_zero && (char_bytes =? 1) then radix is_binary_digit t
        else if (c =? 111 (* o *)) && has_leading_zero && (char_bytes =? 1) then radix is_octal_digit t
        else if (c =? 120 (* x *)) && has_leading_zero && (char_bytes =? 1) then radix is_hex_digit t
        else if c =? DOT then
          let continue_fraction :=
            let '(n, r) := consume_and_count is_decimal_digit t in
            exponent (char_bytes + (1 + n)) r in
          match t with
          | d :: t' =>
              if is_ascii_digit d then continue_fraction
              else if d =? 101 then
                match t' with
                | e :: _ =>
                    if is_decimal_digit e || (e =? PLUS) || (e =? MINUS) then continue_fraction
                    else (TK tok_Number, advance_line st char_bytes)
                | [] => (TK tok_Number, advance_line st char_bytes)
                end
              else (TK tok_Number, advance_line st char_bytes)
          | [] => (TK tok_Number, advance_line st char_bytes)
          end
        else exponent char_bytes chars
    | [] => exponent char_bytes chars
    end.

  (* ---- consume_id_or_keyword / consume_ignored ------------------------ *)
  Fixpoint lookup_kw (id : list cp) (tbl : list (list cp * N)) : option (list cp * N) :=
    match tbl with
    | [] => None
    | (k, t) :: r => if list_eqb id k then Some (k, t) else lookup_kw id r
    end.

  Definition kw_else : list cp := [101; 108; 115; 101].
  Definition kw_space_if : list cp := [32; 105; 102].

  Definition consume_id_or_keyword (st : lstate) (chars : list cp) : res :=
    match chars with
    | [] => err st (* unreachable: the dispatcher peeked a char *)
    | c :: t =>
        let '(b, w, r) := consume_and_count_utf8 xid_continue t in
        let char_bytes := len_utf8 c + b in
        let char_count := 1 + w in
        let nid := (length chars - length r)%nat in
        let id := firstn nid chars in
        if list_eqb id kw_else then
          if is_prefix kw_space_if r
          then (TK tok_ElseIf, advance_line st 7)
          else (TK tok_Else, advance_line st 4)
        else
          let raw :=
            if list_eqb id [114] (* "r" *) then parse_raw_string_start st r else None in
          match raw with
          | Some result => result
          | None =>
              let after_dot := match prev_tok st with Some k => is_kind k tok_Dot | None => false end in
              let kw := if after_dot then None else lookup_kw id keywords in
              match kw with
              | Some (k, t) => (TK t, advance_line st (utf8len k))
              | None => (TK tok_Id, advance_line_utf8 st char_bytes char_count)
              end
          end
    end.

  Definition consume_ignored (st : lstate) (chars : list cp) : res :=
    match chars with
    | [] => err st
    | c :: t =>
        let '(b, w, _) := consume_and_count_utf8 xid_continue t in
        (TK tok_Underscore, advance_line_utf8 st (len_utf8 c + b) (1 + w))
    end.

  (* ---- consume_symbol -------------------------------------------------- *)
  Fixpoint lookup_symbol (remaining : list cp) (tbl : list (list cp * N)) : option (list cp * N) :=
    match tbl with
    | [] => None
    | (s, t) :: r => if is_prefix s remaining then Some (s, t) else lookup_symbol remaining r
    end.

  (* ---- get_next_token -------------------------------------------------- *)
  Definition top_mode (st : lstate) : option smode :=
    match modes st with m :: _ => Some m | [] => None end.

  Definition is_newline_or_none (t : option tkind) : bool :=
    match t with None => true | Some k => is_kind k tok_NewLine end.

  Definition default_dispatch (st : lstate) (remaining : list cp) (next_char : cp) : res :=
    if is_whitespace next_char then
      let '(count, _) := consume_and_count is_whitespace remaining in
      let st1 := advance_line st count in
      let st2 := if is_newline_or_none (prev_tok st) then set_indent st1 count else st1 in
      (TK tok_Whitespace, st2)
    else if (next_char =? CR) || (next_char =? LF) then consume_newline st remaining
    else if next_char =? HASH then consume_comment st remaining
    else if next_char =? DQUOTE then
      (TStrNormal QDouble, push_mode (advance_line st 1) (MLiteral QDouble))
    else if next_char =? SQUOTE then
      (TStrNormal QSingle, push_mode (advance_line st 1) (MLiteral QSingle))
    else if is_ascii_digit next_char then consume_number st remaining
    else if xid_start next_char then consume_id_or_keyword st remaining
    else if next_char =? UNDERSCORE then consume_ignored st remaining
    else
      let '(result, st1) :=
        match lookup_symbol remaining symbols with
        | Some (s, t) => (TK t, advance_line st (utf8len s))
        | None => (TK tok_Error, advance_line st 1)
        end in
      let st2 :=
        match top_mode st with
        | Some MTemplateExpr =>
            if is_kind result tok_CurlyOpen then push_mode st1 MTemplateExprInlineMap
            else if is_kind result tok_Colon then push_mode st1 MTemplateExprFormat
            else if is_kind result tok_CurlyClose then pop_mode st1
            else st1
        | Some MTemplateExprInlineMap =>
            if is_kind result tok_CurlyClose then pop_mode st1 else st1
        | _ => st1
        end in
      (result, st2).

  Definition get_next_token (st : lstate) : option res :=
    match skip_bytes (cur st) (src st) with
    | Some ((next_char :: _) as remaining) =>
        let st :=
          match prev_tok st with
          | Some k => if is_kind k tok_NewLine then set_indent st 0 else st
          | None => st
          end in
        let '(k, st') :=
          match top_mode st with
          | Some (MLiteral q) =>
              if is_quote q next_char then (TK tok_StringEnd, pop_mode (advance_line st 1))
              else if next_char =? LBRACE then (TK tok_CurlyOpen, push_mode (advance_line st 1) MTemplateExpr)
              else consume_string_literal st remaining
          | Some (MRawStart q h) => consume_raw_string_contents st remaining q h
          | Some (MRawEnd q h) => consume_raw_string_end st h
          | Some MTemplateExprFormat => consume_format_options st remaining
          | _ => default_dispatch st remaining next_char
          end in
        Some (k, set_prev_tok st' (Some k))
    | _ => None
    end.

  (* A lexed token as KotoLexer::next_token reports it *)
  Record ltoken := mktok {
    t_kind : tkind;
    t_sb : N; t_eb : N;            (* source_bytes *)
    t_start : pos; t_end : pos;    (* span *)
    t_indent : N
  }.

  Definition token_of (k : tkind) (st : lstate) : ltoken :=
    mktok k (prev st) (cur st) (sp_start st) (sp_end st) (indent st).

  Definition is_error (k : tkind) : bool := is_kind k tok_Error.

  (* The stream up to and including the first Error token. *)
  Fixpoint lex_from (fuel : nat) (st : lstate) : list ltoken * lexfault :=
    match fuel with
    | O => ([], FaultOutOfFuel)
    | S fuel' =>
        match get_next_token st with
        | None => ([], FaultNone)
        | Some (k, st') =>
            if is_error k then ([token_of k st'], FaultNone)
            else let '(ts, f) := lex_from fuel' st' in (token_of k st' :: ts, f)
        end
    end.

  (* 2 * |s| + 2 pulls always suffice (a zero-width token is always followed
     by a non-zero-width one); proved in LexProofs. *)
  Definition lex (s : list cp) : list ltoken * lexfault :=
    lex_from (2 * length s + 2) (init s).

End Lexer.
