(* C09: the six theorems about the lexer model. *)
From KV.lex Require Import LexBase GenLexTables LexModel LexSpec
     LexLemmas LexLoops LexRoutines LexDispatch LexStep.
Open Scope N_scope.

Arguments N.add : simpl never.
Arguments N.sub : simpl never.
Arguments N.mul : simpl never.
Arguments N.eqb : simpl never.
Arguments N.ltb : simpl never.
Arguments N.leb : simpl never.

(* The indent clause: directly after a NewLine token (or at the start) the
   cursor is at a line start, the dispatcher in charge is the default one and
   the indent is stale; otherwise, when the ghost flag [fl] (the clean flag of
   the next token) is set, the indent is the leading whitespace of the
   current line. *)
Definition IndOK (st : lstate) (pre post : list cp) (fl : bool) : Prop :=
  if is_newline_or_none (prev_tok st)
  then after_last_nl pre [] = [] /\ default_top (modes st) = true /\
       (prev_tok st = None -> indent st = 0)
  else fl = true -> indent st = leading_ws (after_last_nl pre [] ++ post).

Record Inv (s : list cp) (st : lstate) (pre post : list cp) (fl : bool) : Prop := {
  inv_src : src st = s;
  inv_s : s = pre ++ post;
  inv_cur : cur st = utf8len pre;
  inv_pos : PosOK pre (sp_end st);
  inv_modes : ModesOK (modes st) post;
  inv_ind : IndOK st pre post fl
}.

Definition measure (st : lstate) (post : list cp) : nat :=
  (2 * length post + (if zero_top (modes st) then 1 else 0))%nat.

Lemma init_inv s : Inv s (init s) [] s true.
Proof.
  constructor; try reflexivity.
  - split; [reflexivity|apply colok_zero].
  - split; [constructor|exact I].
  - unfold IndOK. cbn. auto.
Qed.

Section Proofs.
  Variable width : cp -> N.
  Variable xid_start xid_continue : cp -> bool.
  Variable grapheme_len : list cp -> nat.
  Hypothesis xid_continue_lf : xid_continue LF = false.

  Notation gnt := (get_next_token width xid_start xid_continue grapheme_len).
  Notation lexf := (lex_from width xid_start xid_continue grapheme_len).

  Lemma step s st pre post fl k st' :
    Inv s st pre post fl ->
    gnt st = Some (k, st') -> is_error k = false ->
    exists a b, post = a ++ b /\
      let t := token_of k st' in
      t_sb t = utf8len pre /\ t_eb t = utf8len (pre ++ a) /\
      PosOK pre (t_start t) /\ PosOK (pre ++ a) (t_end t) /\
      (fl = true -> t_indent t = leading_ws (after_last_nl pre [] ++ post)) /\
      Inv s st' (pre ++ a) b (if spans_lines t then is_kind k tok_NewLine else fl) /\
      (measure st' b < measure st post)%nat.
  Proof.
    intros [Hsrc Hs Hcur Hpos Hm Hind] H Herr.
    rewrite gnt_unfold in H. rewrite Hcur, Hsrc, Hs, skip_bytes_app in H.
    destruct post as [|c t]; [discriminate|].
    destruct (dispatch width xid_start xid_continue grapheme_len (reset_indent st) (c :: t) c)
      as [k1 st1] eqn:Ed.
    inversion H; subst k1 st'. clear H.
    destruct (reset_indent_facts st) as (R1 & R2 & R3 & R4 & R5 & R6).
    eapply dispatch_spec in Ed; eauto.
    2:{ split; [|split]; [rewrite R2; exact Hcur|rewrite R3; exact Hpos|rewrite R4; exact Hm]. }
    specialize (Ed Herr).
    destruct Ed as (a & b & Hab & S1 & S2 & S3 & S4 & S5 & S6 & S7 & S8 & S9).
    rewrite R1 in S1. rewrite R2 in S3. rewrite R3 in S4. rewrite R4, R5 in S6. rewrite R4 in S8, S9.
    exists a, b. split; [exact Hab|].
    cbn [token_of t_sb t_eb t_start t_end t_indent t_kind
         prev cur sp_start sp_end indent set_prev_tok].
    (* the indent of the token *)
    assert (Hindent : fl = true -> indent st1 = leading_ws (after_last_nl pre [] ++ c :: t)).
    { intros Hfl. rewrite S6. unfold IndOK in Hind.
      destruct (is_newline_or_none (prev_tok st)) eqn:Enn.
      - destruct Hind as (I1 & I2 & I3). rewrite I1, I2. cbn [andb app].
        rewrite andb_true_r.
        assert (R0 : indent (reset_indent st) = 0).
        { rewrite R6. destruct (prev_tok st) as [k0|]; [|auto].
          cbn [is_newline_or_none] in Enn. rewrite Enn. reflexivity. }
        destruct (is_whitespace c) eqn:Ews; [reflexivity|].
        rewrite R0. cbn [leading_ws]. rewrite Ews. reflexivity.
      - rewrite !andb_false_r. rewrite R6.
        destruct (prev_tok st) as [k0|]; [|discriminate].
        cbn [is_newline_or_none] in Enn. rewrite Enn. apply Hind. exact Hfl. }
    destruct S5 as [L5 C5]. destruct Hpos as [L0 C0].
    split; [rewrite S3; exact Hcur|].
    split; [exact S2|].
    split; [rewrite S4; split; assumption|].
    split; [split; assumption|].
    split; [exact Hindent|].
    split.
    - (* invariant *)
      constructor; cbn [src cur sp_end modes prev_tok set_prev_tok].
      + rewrite S1. exact Hsrc.
      + rewrite Hs, Hab, app_assoc. reflexivity.
      + exact S2.
      + split; assumption.
      + exact S7.
      + unfold IndOK. cbn [prev_tok set_prev_tok is_newline_or_none modes indent].
        destruct (is_kind k tok_NewLine) eqn:Ek.
        * destruct (S9 eq_refl) as (N1 & N2 & p & N3).
          split; [rewrite N3; apply after_last_nl_lf|].
          split; [rewrite N1; exact N2|]. intros HH. discriminate.
        * unfold spans_lines. cbn [token_of t_start t_end sp_start sp_end set_prev_tok]. rewrite S4, L0, L5.
          destruct (count_nl pre =? count_nl (pre ++ a)) eqn:El; cbn [negb]; [|discriminate].
          intros Hfl. apply N.eqb_eq in El. rewrite count_nl_app in El.
          assert (Hna : count_nl a = 0) by lia.
          rewrite after_last_nl_app by assumption. rewrite <- app_assoc, <- Hab.
          apply Hindent. exact Hfl.
    - (* measure *)
      unfold measure. cbn [modes set_prev_tok]. rewrite Hab, app_length.
      destruct S8 as [Hne|[Z1 Z2]].
      + destruct a; [contradiction|]. cbn [length].
        destruct (zero_top (modes st1)), (zero_top (modes st)); lia.
      + rewrite Z1, Z2. lia.
  Qed.

  (* ---- the token stream ---- *)
  Fixpoint Good (s pre : list cp) (fl : bool) (ts : list ltoken) : Prop :=
    match ts with
    | [] => True
    | t :: r =>
        exists a b, s = (pre ++ a) ++ b /\
          t_sb t = utf8len pre /\ t_eb t = utf8len (pre ++ a) /\
          PosOK pre (t_start t) /\ PosOK (pre ++ a) (t_end t) /\
          (fl = true -> t_indent t = leading_ws (after_last_nl pre [] ++ a ++ b)) /\
          Good s (pre ++ a) (if spans_lines t then is_kind (t_kind t) tok_NewLine else fl) r
    end.

  Lemma lex_from_good s : forall fuel st pre post fl,
      Inv s st pre post fl ->
      Good s pre fl (before_first_error (fst (lexf fuel st))).
  Proof.
    induction fuel as [|fuel IH]; intros st pre post fl HI; cbn [lex_from].
    - exact I.
    - destruct (gnt st) as [[k st']|] eqn:Eg; [|exact I].
      destruct (is_error k) eqn:Ee.
      + cbn [fst before_first_error token_of t_kind]. rewrite Ee. exact I.
      + destruct (step _ _ _ _ _ _ _ HI Eg Ee) as (a & b & Hab & T1 & T2 & T3 & T4 & T5 & T6 & _).
        specialize (IH st' _ _ _ T6).
        destruct (lexf fuel st') as [ts f]. cbn [fst] in *.
        cbn [before_first_error]. change (t_kind (token_of k st')) with k. rewrite Ee.
        cbn [Good]. exists a, b. change (t_kind (token_of k st')) with k.
        split; [rewrite <- app_assoc, <- Hab; apply (inv_s _ _ _ _ _ HI)|].
        rewrite <- Hab. repeat (split; [assumption|]). exact IH.
  Qed.

  Lemma lex_from_total s : forall fuel st pre post fl,
      Inv s st pre post fl -> (measure st post < fuel)%nat ->
      snd (lexf fuel st) = FaultNone.
  Proof.
    induction fuel as [|fuel IH]; intros st pre post fl HI Hlt; [lia|].
    cbn [lex_from].
    destruct (gnt st) as [[k st']|] eqn:Eg; [|reflexivity].
    destruct (is_error k) eqn:Ee; [reflexivity|].
    destruct (step _ _ _ _ _ _ _ HI Eg Ee) as (a & b & Hab & _ & _ & _ & _ & _ & T6 & T7).
    specialize (IH st' _ _ _ T6).
    destruct (lexf fuel st') as [ts f]. cbn [snd] in *. apply IH. lia.
  Qed.

  (* ---- consequences of Good ---- *)
  Lemma good_contiguous s : forall ts pre fl, Good s pre fl ts -> contiguous (utf8len pre) ts.
  Proof.
    induction ts as [|t r IH]; intros pre fl H; cbn [contiguous]; [exact I|].
    destruct H as (a & b & Hs & H1 & H2 & _ & _ & _ & Hr).
    split; [exact H1|]. split.
    - rewrite H1, H2, utf8len_app. lia.
    - rewrite H2. eapply IH; eauto.
  Qed.

  Lemma good_in s : forall ts pre fl t, Good s pre fl ts -> In t ts ->
      exists pre1 a b, s = (pre1 ++ a) ++ b /\
        t_sb t = utf8len pre1 /\ t_eb t = utf8len (pre1 ++ a) /\
        PosOK pre1 (t_start t) /\ PosOK (pre1 ++ a) (t_end t).
  Proof.
    induction ts as [|t0 r IH]; intros pre fl t H Hin; [contradiction|].
    destruct H as (a & b & Hs & H1 & H2 & H3 & H4 & _ & Hr).
    destruct Hin as [<-|Hin].
    - exists pre, a, b. auto.
    - eapply IH; eauto.
  Qed.

  Lemma good_indent s : forall ts pre fl i t, Good s pre fl ts ->
      nth_error ts i = Some t -> nth_error (clean_flags ts fl) i = Some true ->
      indent_exact s t.
  Proof.
    induction ts as [|t0 r IH]; intros pre fl i t H Hn Hf; [destruct i; discriminate|].
    destruct H as (a & b & Hs & H1 & H2 & _ & _ & H5 & Hr).
    destruct i as [|i]; cbn [nth_error clean_flags] in Hn, Hf.
    - inversion Hn; subst t0. inversion Hf; subst fl.
      intros pre' post' Hs' Hu. rewrite H1 in Hu.
      rewrite <- app_assoc in Hs. rewrite Hs in Hs'.
      destruct (prefix_unique _ _ _ _ Hs' (eq_sym Hu)) as [-> <-].
      apply H5. reflexivity.
    - eapply IH; eauto.
  Qed.
End Proofs.

(* ---- the pinned theorems ---- *)
Section Main.
  Variable width : cp -> N.
  Variable xid_start xid_continue : cp -> bool.
  Variable grapheme_len : list cp -> nat.

  Notation lexs s := (fst (lex width xid_start xid_continue grapheme_len s)).
  Notation toks s := (before_first_error (lexs s)).

  Lemma toks_good : xid_continue LF = false -> forall s, Good s [] true (toks s).
  Proof.
    intros Hx s. unfold lex. eapply lex_from_good; [exact Hx|]. apply init_inv.
  Qed.
End Main.

Lemma lex_tiles : forall width xid_start xid_continue grapheme_len,
    xid_continue LF = false ->
    forall s, contiguous 0 (before_first_error (fst (lex width xid_start xid_continue grapheme_len s))).
Proof.
  intros w xs xc g Hx s. change 0 with (utf8len []).
  eapply good_contiguous. apply toks_good. exact Hx.
Qed.

Lemma lex_boundaries : forall width xid_start xid_continue grapheme_len,
    xid_continue LF = false ->
    forall s t, In t (before_first_error (fst (lex width xid_start xid_continue grapheme_len s))) ->
                on_boundaries s t.
Proof.
  intros w xs xc g Hx s t Hin.
  destruct (good_in _ _ _ _ _ (toks_good w xs xc g Hx s) Hin)
    as (pre & a & b & Hs & H1 & H2 & _ & _).
  split.
  - exists pre, (a ++ b). split; [rewrite Hs, app_assoc; reflexivity|auto].
  - exists (pre ++ a), b. split; auto.
Qed.

Lemma lex_lines : forall width xid_start xid_continue grapheme_len,
    xid_continue LF = false ->
    forall s t, In t (before_first_error (fst (lex width xid_start xid_continue grapheme_len s))) ->
                lines_exact s t.
Proof.
  intros w xs xc g Hx s t Hin.
  destruct (good_in _ _ _ _ _ (toks_good w xs xc g Hx s) Hin)
    as (pre & a & b & Hs & H1 & H2 & [L3 _] & [L4 _]).
  split; intros pre' (post' & Hs' & Hu).
  - rewrite <- app_assoc in Hs. rewrite Hs in Hs'. rewrite H1 in Hu.
    destruct (prefix_unique _ _ _ _ Hs' (eq_sym Hu)) as [-> _]. exact L3.
  - rewrite Hs in Hs'. rewrite H2 in Hu.
    destruct (prefix_unique _ _ _ _ Hs' (eq_sym Hu)) as [E _]. rewrite <- E. exact L4.
Qed.

Lemma lex_col_reset : forall width xid_start xid_continue grapheme_len,
    xid_continue LF = false ->
    forall s t, In t (before_first_error (fst (lex width xid_start xid_continue grapheme_len s))) ->
                col_reset s t.
Proof.
  intros w xs xc g Hx s t Hin.
  destruct (good_in _ _ _ _ _ (toks_good w xs xc g Hx s) Hin)
    as (pre & a & b & Hs & H1 & H2 & [_ C3] & [_ C4]).
  split; intros pre' (post' & Hs' & Hu).
  - rewrite <- app_assoc in Hs. rewrite Hs in Hs'. rewrite H1 in Hu.
    destruct (prefix_unique _ _ _ _ Hs' (eq_sym Hu)) as [E _]. eapply C3. exact E.
  - rewrite Hs in Hs'. rewrite H2 in Hu.
    destruct (prefix_unique _ _ _ _ Hs' (eq_sym Hu)) as [E _]. eapply C4. exact E.
Qed.

Lemma lex_indent : forall width xid_start xid_continue grapheme_len,
    xid_continue LF = false ->
    forall s i t,
      nth_error (before_first_error (fst (lex width xid_start xid_continue grapheme_len s))) i = Some t ->
      nth_error (clean_flags (before_first_error (fst (lex width xid_start xid_continue grapheme_len s))) true) i
        = Some true ->
      indent_exact s t.
Proof.
  intros w xs xc g Hx s i t Hn Hf.
  eapply good_indent; [apply (toks_good w xs xc g Hx s)|exact Hn|exact Hf].
Qed.

Lemma lex_total : forall width xid_start xid_continue grapheme_len,
    xid_continue LF = false ->
    forall s, snd (lex width xid_start xid_continue grapheme_len s) = FaultNone.
Proof.
  intros w xs xc g Hx s. unfold lex.
  eapply lex_from_total; [exact Hx|apply init_inv|].
  unfold measure. cbn [modes init zero_top]. lia.
Qed.
