(* What C09 says, as definitions over an input string and a token list.
   No reference to how the lexer works. *)
From KV.lex Require Import LexBase GenLexTables LexModel.
Open Scope N_scope.

(* the tokens up to (excluding) the first Error token *)
Fixpoint before_first_error (ts : list ltoken) : list ltoken :=
  match ts with
  | [] => []
  | t :: r => if is_error (t_kind t) then [] else t :: before_first_error r
  end.

Section Spec.
  Variable s : list cp.

  (* [pre] is the text of s in front of byte offset p; p is then a character boundary *)
  Definition prefix_at (p : N) (pre : list cp) : Prop :=
    exists post, s = pre ++ post /\ utf8len pre = p.

  Definition boundary (p : N) : Prop := exists pre, prefix_at p pre.

  (* T1: tokens cover the input contiguously from its start *)
  Fixpoint contiguous (from : N) (ts : list ltoken) : Prop :=
    match ts with
    | [] => True
    | t :: r => t_sb t = from /\ t_sb t <= t_eb t /\ contiguous (t_eb t) r
    end.

  (* T2 *)
  Definition on_boundaries (t : ltoken) : Prop := boundary (t_sb t) /\ boundary (t_eb t).

  (* T3: reported lines = number of line breaks before the point *)
  Definition lines_exact (t : ltoken) : Prop :=
    (forall pre, prefix_at (t_sb t) pre -> line (t_start t) = count_nl pre) /\
    (forall pre, prefix_at (t_eb t) pre -> line (t_end t) = count_nl pre).

  (* T4: columns restart at zero after each line break *)
  Definition col_reset (t : ltoken) : Prop :=
    (forall pre, prefix_at (t_sb t) (pre ++ [LF]) -> col (t_start t) = 0) /\
    (forall pre, prefix_at (t_eb t) (pre ++ [LF]) -> col (t_end t) = 0).

  (* T5: the text of the line containing a point: what follows the last line
     break of the prefix, then the rest of the input *)
  Fixpoint after_last_nl (pre acc : list cp) : list cp :=
    match pre with
    | [] => acc
    | c :: t => if c =? LF then after_last_nl t [] else after_last_nl t (acc ++ [c])
    end.

  Fixpoint leading_ws (l : list cp) : N :=
    match l with
    | c :: t => if is_whitespace c then 1 + leading_ws t else 0
    | [] => 0
    end.

  Definition indent_exact (t : ltoken) : Prop :=
    forall pre post, s = pre ++ post -> utf8len pre = t_sb t ->
      t_indent t = leading_ws (after_last_nl pre [] ++ post).

  (* known finding C09b: the token's line begins inside a multi-line token that
     is not a NewLine token.  clean_flags ts true gives, per token, whether the
     most recent token spanning a line break before it is a NewLine token (or
     there is none). *)
  Definition spans_lines (t : ltoken) : bool := negb (line (t_start t) =? line (t_end t)).

  Fixpoint clean_flags (ts : list ltoken) (flag : bool) : list bool :=
    match ts with
    | [] => []
    | t :: r => flag :: clean_flags r (if spans_lines t then is_kind (t_kind t) tok_NewLine else flag)
    end.
End Spec.
