(* C09 property theorems: statements pinned here, proofs in LexProofs.v *)
From KV.lex Require Import LexBase GenLexTables LexModel.
Open Scope N_scope.

Definition no_linebreak (s : list cp) : bool := forallb (fun c => negb ((c =? LF) || (c =? CR))) s.

Theorem symbols_no_linebreak : forallb (fun e => no_linebreak (fst e)) symbols = true.
Proof. vm_compute. reflexivity. Qed.
Print Assumptions symbols_no_linebreak.

Theorem keywords_no_linebreak : forallb (fun e => no_linebreak (fst e)) keywords = true.
Proof. vm_compute. reflexivity. Qed.
Print Assumptions keywords_no_linebreak.
