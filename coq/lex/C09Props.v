(* C09 — Lexing is lossless and positions are exact.
   ONLY the pinned statements live here; every proof is `exact <lemma of LexProofs>`.
   The statements quantify over ALL input strings and ALL Unicode oracles
   satisfying the one stated hypothesis. *)
From KV.lex Require Import LexBase GenLexTables LexModel LexSpec LexProofs.
Open Scope N_scope.

Definition no_linebreak (s : list cp) : bool := forallb (fun c => negb ((c =? LF) || (c =? CR))) s.

(* --- table theorems: re-proved against the tables regenerated from lexer.rs on every run --- *)
Theorem symbols_no_linebreak : forallb (fun e => no_linebreak (fst e)) symbols = true.
Proof. vm_compute. reflexivity. Qed.
Print Assumptions symbols_no_linebreak.

Theorem keywords_no_linebreak : forallb (fun e => no_linebreak (fst e)) keywords = true.
Proof. vm_compute. reflexivity. Qed.
Print Assumptions keywords_no_linebreak.

Theorem whitespace_no_linebreak : no_linebreak whitespace_chars = true.
Proof. vm_compute. reflexivity. Qed.
Print Assumptions whitespace_no_linebreak.

Section C09.
  (* Unicode oracles: arbitrary, except that a line feed is not an identifier character *)
  Variable width : cp -> N.
  Variable xid_start xid_continue : cp -> bool.
  Variable grapheme_len : list cp -> nat.
  Hypothesis xid_continue_lf : xid_continue LF = false.

  Let lexs (s : list cp) := fst (lex width xid_start xid_continue grapheme_len s).
  Let toks (s : list cp) := before_first_error (lexs s).

  (* T1 the tokens up to the first error cover the input contiguously from its start *)
  Theorem lex_tiles : forall s, contiguous 0 (toks s).
  Proof. exact (LexProofs.lex_tiles width xid_start xid_continue grapheme_len xid_continue_lf). Qed.

  (* T2 every such token starts and ends on a character boundary of the input *)
  Theorem lex_boundaries : forall s t, In t (toks s) -> on_boundaries s t.
  Proof. exact (LexProofs.lex_boundaries width xid_start xid_continue grapheme_len xid_continue_lf). Qed.

  (* T3 reported start / end lines = number of line breaks before those points *)
  Theorem lex_lines : forall s t, In t (toks s) -> lines_exact s t.
  Proof. exact (LexProofs.lex_lines width xid_start xid_continue grapheme_len xid_continue_lf). Qed.

  (* T4 columns restart at zero after each line break *)
  Theorem lex_col_reset : forall s t, In t (toks s) -> col_reset s t.
  Proof. exact (LexProofs.lex_col_reset width xid_start xid_continue grapheme_len xid_continue_lf). Qed.

  (* T5 indentation = leading whitespace of the token's line, outside known finding C09b *)
  Theorem lex_indent : forall s i t,
      nth_error (toks s) i = Some t ->
      nth_error (clean_flags (toks s) true) i = Some true ->
      indent_exact s t.
  Proof. exact (LexProofs.lex_indent width xid_start xid_continue grapheme_len xid_continue_lf). Qed.

  (* T6 producing the token stream terminates: the fuel of `lex` always suffices
     (the model has no panic outcome: it is total by construction) *)
  Theorem lex_total : forall s, snd (lex width xid_start xid_continue grapheme_len s) = FaultNone.
  Proof. exact (LexProofs.lex_total width xid_start xid_continue grapheme_len xid_continue_lf). Qed.
End C09.

Print Assumptions lex_tiles.
Print Assumptions lex_boundaries.
Print Assumptions lex_lines.
Print Assumptions lex_col_reset.
Print Assumptions lex_indent.
Print Assumptions lex_total.

(* --- non-vacuity and the known finding, on the executable instance --- *)
From KV.lex Require Import LexRun.

(* "  #- a\n-# x": the token `x` (index 3) is in class C09b and violates indent_exact *)
Definition w_c09b : list cp := [32; 32; 35; 45; 32; 97; 10; 45; 35; 32; 120].

Example c09b_in_class :
  nth_error (clean_flags (before_first_error (fst (run_lex [] w_c09b))) true) 3 = Some false.
Proof. vm_compute. reflexivity. Qed.

Example c09b_refuted :
  exists t, nth_error (before_first_error (fst (run_lex [] w_c09b))) 3 = Some t /\
            t_indent t = 2 /\
            leading_ws (after_last_nl [32; 32; 35; 45; 32; 97; 10; 45; 35; 32] [] ++ [120]) = 0.
Proof. eexists. split; [vm_compute; reflexivity|]. split; vm_compute; reflexivity. Qed.

(* a string exercising every lexer mode satisfies the hypotheses of lex_indent at every token *)
Definition w_modes : list cp :=
  (* x = "a{y:*<3}b" r#'c'# # d\n  #- e -# 1.5e3 else if _z\n *)
  [120; 32; 61; 32; 34; 97; 123; 121; 58; 42; 60; 51; 125; 98; 34; 32; 114; 35; 39; 99; 39; 35; 32; 35; 32; 100; 10;
   32; 32; 35; 45; 32; 101; 32; 45; 35; 32; 49; 46; 53; 101; 51; 32; 101; 108; 115; 101; 32; 105; 102; 32; 95; 122; 10].

Example modes_all_clean :
  forallb (fun b => b) (clean_flags (before_first_error (fst (run_lex [] w_modes))) true) = true
  /\ length (before_first_error (fst (run_lex [] w_modes))) = 29%nat.
Proof. vm_compute. split; reflexivity. Qed.
