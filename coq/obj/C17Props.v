(* C17 -- Objects: operators and protocols dispatch to metamap entries as documented.
   ONLY the pinned statements live here; every proof is `exact <lemma of ObjProofs>`.

   dispatch : oracle -> op -> kind -> kind -> list event * outcome   is the model of vm.rs (ObjModel.v);
   spec     : the same signature, the language guide's rules (ObjSpec.v).
   An `oracle` says how each user function behaves when called; `oracle_of (sites p) fs` lets the
   functions an operation p can reach (its `sites`, at most 4) behave as listed in fs. *)
From Coq Require Import List Bool String NArith.
From KV.obj Require Import GenMeta ObjModel ObjSpec ObjProofs.
Import ListNotations.

(* 1. On the WHOLE finite domain -- all 29 operations x every left operand kind (9 value kinds, maps
   with every subset of the <= 3 metakeys the operation inspects, host objects overriding every
   subset of the corresponding methods) x every right operand kind (likewise over the operation's
   keys for arithmetic, over its own key otherwise) x every behaviour (8 each: Bool true/false, value, null, list, unimplemented, thrown error, runtime error) of the reachable
   functions -- the VM's arm order does what the guide says, outside the known class C17a. *)
Theorem dispatch_refines_spec :
  forall p l r fs,
    In l (lkinds p) -> In r (rkinds p) -> List.length fs = List.length (sites p) ->
    let o := oracle_of (sites p) fs in
    known_c17a o p l = false ->
    dispatch o p l r = spec o p l r.
Proof. exact ObjProofs.dispatch_refines_spec. Qed.
Print Assumptions dispatch_refines_spec.

(* C17a: `for v in x` when x's @iterator returns an iterable that is not an iterator *)
Theorem c17a_refuted :
  let o := oracle_of (sites (OpUnary UFor)) [FVal; FSeq] in
  let x := VMap [k_iterator] in
  known_c17a o (OpUnary UFor) x = true /\
  dispatch o (OpUnary UFor) x VNumber = ([Ev L k_iterator WL []], OErr EType) /\
  spec o (OpUnary UFor) x VNumber = ([Ev L k_iterator WL []], OIter 2 (Some (L, k_iterator))) /\
  dispatch o (OpUnary UToTuple) x VNumber = spec o (OpUnary UFor) x VNumber.
Proof. exact ObjProofs.c17a_refuted. Qed.
Print Assumptions c17a_refuted.

(* 2. the @r.. entry runs iff the rhs has it, the pair is not core arithmetic, and the lhs lacks
   the operator or its function reported `unimplemented`; it receives (self := rhs, arg := lhs);
   nothing else of the rhs ever runs; its value is the result *)
Theorem rhs_fallback_iff :
  forall a l r fs,
    In l (lkinds (OpArith a)) -> In r (rkinds (OpArith a)) -> List.length fs = 2 ->
    let o := oracle_of (sites (OpArith a)) fs in
    let act := dispatch o (OpArith a) l r in
    (In (Ev R (k_rhs a) WR [WL]) (fst act) <->
       (implements (k_rhs a) r = true /\ core_arith a l r = None /\
        (implements (k_op a) l = false \/ o L (k_op a) = FUnimpl)))
    /\ (forall e, In e (fst act) -> e = Ev L (k_op a) WL [WR] \/ e = Ev R (k_rhs a) WR [WL])
    /\ (In (Ev R (k_rhs a) WR [WL]) (fst act) -> is_value (o R (k_rhs a)) = true -> snd act = OFn R (k_rhs a)).
Proof. exact ObjProofs.rhs_fallback_iff. Qed.
Print Assumptions rhs_fallback_iff.

Theorem only_arithmetic_asks_rhs :
  forall p l r fs,
    In l (lkinds p) -> In r (rkinds p) -> List.length fs = List.length (sites p) ->
    (forall a, p <> OpArith a) ->
    forall e, In e (fst (dispatch (oracle_of (sites p) fs) p l r)) -> ev_owner e = L.
Proof. exact ObjProofs.only_arithmetic_asks_rhs. Qed.
Print Assumptions only_arithmetic_asks_rhs.

(* 2b. when a user function fails (a `throw`, or a runtime error raised inside it at any depth),
   on every call path of the dispatch: nothing runs after it, the operation's outcome is THAT
   error (kind preserved; re-raised as a string error only by a for loop's @next and by nested
   display), and it is delivered to the caller of the operation -- no run-now call leaves its
   barrier frame on the call stack (for EVERY oracle and operand) *)
Theorem errors_propagate_unchanged :
  forall p l r fs,
    In l (lkinds p) -> In r (rkinds p) -> List.length fs = List.length (sites p) ->
    let o := oracle_of (sites p) fs in
    errors_delivered o p l (fst (dispatch o p l r)) (snd (dispatch o p l r)) = true.
Proof. exact ObjProofs.errors_propagate_unchanged. Qed.
Print Assumptions errors_propagate_unchanged.

Theorem no_frame_left_behind : forall o p l r, leftover_frames o p l r = 0.
Proof. exact ObjProofs.no_frame_left_behind. Qed.
Print Assumptions no_frame_left_behind.

Example runtime_error_in_lhs_function :
  dispatch (oracle_of (sites (OpArith Add)) [FErr Runtime; FVal]) (OpArith Add) (VMap [k_op Add]) (VMap [k_rhs Add])
  = ([Ev L (k_op Add) WL [WR]], OErr (EUser Runtime)).
Proof. vm_compute. reflexivity. Qed.

(* 3. with @< and @== (and not the operator's own key): for EVERY key set, oracle and rhs --
   <= is (a<b) || (a==b), > its negation, >= is not (a<b), != is not (a==b); @== is only called
   when @< said false; every call is (self := lhs, arg := rhs) *)
Theorem derived_comparisons :
  forall (o : oracle) (ks : keyset) (r : kind) (lt eq : bool),
    has k_less ks = true -> has k_equal ks = true ->
    o L k_less = FBool lt -> o L k_equal = FBool eq ->
    (has (k_cmp Le) ks = false ->
       dispatch o (OpCmp Le) (VMap ks) r
       = (Ev L k_less WL [WR] :: (if lt then [] else [Ev L k_equal WL [WR]]), OBool (lt || eq)))
    /\ (has (k_cmp Gt) ks = false ->
       dispatch o (OpCmp Gt) (VMap ks) r
       = (Ev L k_less WL [WR] :: (if lt then [] else [Ev L k_equal WL [WR]]), OBool (negb (lt || eq))))
    /\ (has (k_cmp Ge) ks = false ->
       dispatch o (OpCmp Ge) (VMap ks) r = ([Ev L k_less WL [WR]], OBool (negb lt)))
    /\ (has (k_cmp Ne) ks = false -> is_null r = false ->
       dispatch o (OpCmp Ne) (VMap ks) r = ([Ev L k_equal WL [WR]], OBool (negb eq))).
Proof. exact ObjProofs.derived_comparisons. Qed.
Print Assumptions derived_comparisons.

(* 4. `.` lookups: data, then `@meta` entries, then the same in @base, depth first; the first hit
   wins -- for @base chains of ANY length (induction over the chain) *)
Theorem access_chain_order : forall key m, chain_lookup key m 0 = spec_chain key m.
Proof. exact ObjProofs.access_chain_order. Qed.
Print Assumptions access_chain_order.

Theorem access_first_hit_is_first : forall key ls d0 d w,
    first_hit key ls d0 = Some (d, w) ->
    d0 <= d /\
    exists data named, nth_error ls (d - d0) = Some (data, named) /\
      (forall i data' named', i < d - d0 -> nth_error ls i = Some (data', named') ->
                              smem key data' = false /\ smem key named' = false) /\
      match w with InData => smem key data = true
                 | InNamed => smem key data = false /\ smem key named = true end.
Proof. exact ObjProofs.first_hit_sound. Qed.
Print Assumptions access_first_hit_is_first.

Theorem access_found_wins : forall eif im ii key m d w,
    top_has_access m = false -> spec_chain key m = CFound d w ->
    run_access eif im ii key m = AFound d w.
Proof. exact ObjProofs.access_found_wins. Qed.
Print Assumptions access_found_wins.

(* 4b. an @access override receives every `.` access -- core-library method names included -- before
   the iterator-module fallback, @next and @iterator are considered *)
Theorem access_override_precedes_iterator_fallback :
  forall (o : oracle) (ks : keyset) (u : uop) (r : kind),
    u = UToTuple \/ u = UReversed ->
    has k_access ks = true ->
    fst (dispatch o (OpUnary u) (VMap ks) r) = [Ev L k_access WL [WKey]]
    /\ forall k, dispatch o (OpUnary u) (VMap ks) r <> ([Ev L k WL []], OIter 2 (Some (L, k))).
Proof. exact ObjProofs.access_override_precedes_iterator_fallback. Qed.
Print Assumptions access_override_precedes_iterator_fallback.

(* 5. a metamap shared through map.with_meta behaves like an own copy, and sees later insertions *)
Theorem shared_meta_equiv :
  forall (h : heap) (d m : kmap),
    (forall o p x, dispatch o p (kind_of h (with_meta d m)) x
                   = dispatch o p (kind_of (fst (own_copy h d m)) (snd (own_copy h d m))) x)
    /\ (forall o p x, dispatch o p x (kind_of h (with_meta d m))
                      = dispatch o p x (kind_of (fst (own_copy h d m)) (snd (own_copy h d m))))
    /\ (forall ptr k, km_meta m = Some ptr -> ptr < List.length h ->
          kind_of (heap_insert h ptr k) (with_meta d m) = VMap (k :: meta_entries h m)
          /\ kind_of (heap_insert h ptr k) (with_meta d m) = kind_of (heap_insert h ptr k) m).
Proof. exact ObjProofs.shared_meta_equiv. Qed.
Print Assumptions shared_meta_equiv.

(* 6. host objects: for EVERY method set and oracle, an operation none of whose methods is
   overridden is an error -- never a built-in rule -- unless the rhs can take over *)
Theorem object_unimplemented_is_error :
  forall (o : oracle) (p : op) (hs : keyset) (r : kind),
    strict p = true ->
    (forall k, In k (inspected p) -> has k hs = false) ->
    rhs_cannot_help p r = true ->
    exists e, dispatch o p (VObject hs) r = ([], OErr e).
Proof. exact ObjProofs.object_unimplemented_is_error. Qed.
Print Assumptions object_unimplemented_is_error.

(* 7. against the tables regenerated from meta_map.rs / node.rs / parser.rs on every run *)
Theorem dispatch_keys_complete : keys_complete = true.
Proof. exact ObjProofs.dispatch_keys_complete. Qed.
Print Assumptions dispatch_keys_complete.

(* ------------------------------------------------------------------ non-vacuity *)

Definition o_unimpl_then_val (a : arith) := oracle_of (sites (OpArith a)) [FUnimpl; FVal].

(* lhs @* reports unimplemented, rhs @r* takes over with the operands swapped *)
Example fallback_happens :
  dispatch (o_unimpl_then_val Mul) (OpArith Mul) (VMap [k_op Mul]) (VMap [k_rhs Mul])
  = ([Ev L (k_op Mul) WL [WR]; Ev R (k_rhs Mul) WR [WL]], OFn R (k_rhs Mul)).
Proof. vm_compute. reflexivity. Qed.

(* ... also for a host object on the right and a number on the left *)
Example fallback_host :
  dispatch (fun _ _ => FVal) (OpArith Sub) VNumber (VObject [k_rhs Sub])
  = ([Ev R (k_rhs Sub) WR [WL]], OFn R (k_rhs Sub)).
Proof. vm_compute. reflexivity. Qed.

(* the domain of theorem 1 is not empty and its hypotheses are satisfiable *)
Example domain_nonempty :
  In (VMap [k_op Add; k_rhs Add]) (lkinds (OpArith Add)) /\ In (VObject [k_rhs Add]) (rkinds (OpArith Add))
  /\ List.length (lkinds (OpCmp Le)) = 25 /\ List.length (lists_of 3 all_fres) = 512.
Proof. vm_compute. intuition. Qed.

(* derived >: @< false, @== false  =>  two calls, result true *)
Example derived_gt :
  dispatch (oracle_of [(L, k_less); (L, k_equal)] [FBool false; FBool false]) (OpCmp Gt)
           (VMap [k_less; k_equal]) VNumber
  = ([Ev L k_less WL [WR]; Ev L k_equal WL [WR]], OBool true).
Proof. vm_compute. reflexivity. Qed.

(* a three-level @base chain: the key sits in the data of level 2 and in the @meta entries of
   level 1; level 1 wins *)
Example chain_depth :
  chain_lookup "k"%string
    (MBase ["a"%string] false [] false (MBase ["b"%string] false ["k"%string] false (MEnd ["k"%string] false [] false))) 0
  = CFound 1 InNamed.
Proof. vm_compute. reflexivity. Qed.

(* a bare host object: + is InvalidBinaryOp, < is Unimplemented *)
Example bare_object :
  dispatch (fun _ _ => FVal) (OpArith Add) (VObject []) VNumber = ([], OErr EBinaryOp)
  /\ dispatch (fun _ _ => FVal) (OpCmp Lt) (VObject []) VNumber = ([], OErr EUnimplObj).
Proof. vm_compute. split; reflexivity. Qed.
