(* C17 -- operator / protocol dispatch of koto's VM, transcribed arm by arm from
   crates/runtime/src/vm.rs (run_add .. run_not_equal, the macros at the end of the file,
   run_negate, run_size, run_index, run_index_assign, run_access_inner, run_access_assign,
   call_callable, run_make_iterator / run_iterator_next / make_iterator, run_display / run_debug_op,
   KMap::display) and crates/runtime/src/types/object.rs (KotoObject's default methods).

   Executable definitions only; no proofs here.

   A dispatch takes the KINDS of the operands and an ORACLE telling how each user function
   behaves when it is called, and returns the ordered list of user functions that run (with the
   operand roles bound to `self` and to the arguments) plus the outcome of the operation. *)
From Coq Require Import List Bool String NArith.
From KV.obj Require Import GenMeta.
Import ListNotations.

(* ---------------------------------------------------------------- keys *)

Definition metakey_eqb (a b : metakey) : bool :=
  match a, b with
  | MBinaryOp x, MBinaryOp y => binop_eqb x y
  | MUnaryOp x, MUnaryOp y => unop_eqb x y
  | MReadOp x, MReadOp y => readop_eqb x y
  | MWriteOp x, MWriteOp y => writeop_eqb x y
  | MCall, MCall => true
  | MNamed x, MNamed y => String.eqb x y
  | MTest x, MTest y => String.eqb x y
  | MPreTest, MPreTest => true
  | MPostTest, MPostTest => true
  | MMain, MMain => true
  | MType, MType => true
  | MBase, MBase => true
  | _, _ => false
  end.

Definition keyset := list metakey.
Definition has (k : metakey) (ks : keyset) : bool := existsb (metakey_eqb k) ks.

Inductive arith := Add | Sub | Mul | Div | Rem | Pow.
Inductive cmp := Lt | Le | Gt | Ge | Eq | Ne.

Definition k_op (a : arith) : metakey :=
  MBinaryOp match a with Add => BAdd | Sub => BSubtract | Mul => BMultiply | Div => BDivide
                       | Rem => BRemainder | Pow => BPower end.
Definition k_rhs (a : arith) : metakey :=
  MBinaryOp match a with Add => BAddRhs | Sub => BSubtractRhs | Mul => BMultiplyRhs | Div => BDivideRhs
                       | Rem => BRemainderRhs | Pow => BPowerRhs end.
Definition k_assign (a : arith) : metakey :=
  MBinaryOp match a with Add => BAddAssign | Sub => BSubtractAssign | Mul => BMultiplyAssign
                       | Div => BDivideAssign | Rem => BRemainderAssign | Pow => BPowerAssign end.
Definition k_cmp (c : cmp) : metakey :=
  MBinaryOp match c with Lt => BLess | Le => BLessOrEqual | Gt => BGreater | Ge => BGreaterOrEqual
                       | Eq => BEqual | Ne => BNotEqual end.
Definition k_less := MBinaryOp BLess.
Definition k_equal := MBinaryOp BEqual.
Definition k_negate := MUnaryOp UNegate.
Definition k_size := MUnaryOp USize.
Definition k_display := MUnaryOp UDisplay.
Definition k_debug := MUnaryOp UDebug.
Definition k_iterator := MUnaryOp UIterator.
Definition k_next := MUnaryOp UNext.
Definition k_next_back := MUnaryOp UNextBack.
Definition k_index := MReadOp RIndex.
Definition k_access := MReadOp RAccess.
Definition k_index_assign := MWriteOp WIndexAssign.
Definition k_access_assign := MWriteOp WAccessAssign.

(* ---------------------------------------------------------------- operands *)

(* KValue variants; a map carries the set of operator keys present in its metamap ([] = no such
   key), a host object the set of KotoObject methods it overrides (named by the metakey the
   method stands for: add = @+, add_rhs = @r+, add_assign = @+=, less = @<, ..., negate, index,
   index_assign, access_assign, call, size, display, make_iterator = @iterator,
   iterator_next = @next, iterator_next_back = @next_back) *)
Inductive kind :=
| VNull | VBool | VNumber | VStr | VList | VTuple | VRange | VFunction | VIterator
| VMap (ks : keyset)
| VObject (hs : keyset).

Inductive side := L | R.   (* which operand's metamap / object a function belongs to *)

(* how a user function fails: `throw value` (ErrorKind::KotoError) or a runtime error raised
   inside it, at any call depth below it (failed access, type error, failed assert: any other
   ErrorKind) *)
Inductive errkind := Thrown | Runtime.

(* what a user function does when it is called *)
Inductive fres :=
| FBool (b : bool)   (* returns a Bool *)
| FVal               (* returns its own tagged (non-Bool, non-Null) value; for @iterator: an iterator
                        over two values; for @next / @next_back: two values, then null *)
| FNull              (* returns null *)
| FSeq               (* @iterator only: returns a List of two values (iterable, not an iterator) *)
| FUnimpl            (* throws koto.unimplemented / host method returns the Unimplemented error *)
| FErr (ek : errkind).   (* fails with some other error *)

Definition oracle := side -> metakey -> fres.

(* operand roles: left operand / container / callee, right operand / index / call argument,
   the key of a `.` access, the assigned value *)
Inductive who := WL | WR | WKey | WVal.

(* a user function ran: the function stored under key `ev_key` of operand `ev_owner`, with
   `self` bound to ev_self and called with the arguments ev_args *)
Record event := Ev { ev_owner : side; ev_key : metakey; ev_self : who; ev_args : list who }.

Inductive rule :=
| RNum            (* Number op Number *)
| RStr            (* Str + Str, Str < Str ... *)
| RListConcat | RTupleConcat
| RMapUnion
| REqPrim         (* same-kind primitive equality (Number, Bool, Str, Range) *)
| REqSeq          (* element-wise List / Tuple equality *)
| REqMap          (* entry-wise Map equality *)
| REqFn           (* Function identity / capture equality *)
| RNegNum
| RSizeBuiltin | RIndexBuiltin | RIndexAssignBuiltin | RMapInsert | RCallFunction
| RIterBuiltin    (* built-in iteration over the value's elements *)
| RIterOnce       (* a non-iterable value in a for loop is iterated once *)
| RDisplayBuiltin.

Inductive errc :=
| EBinaryOp        (* ErrorKind::InvalidBinaryOp *)
| EUnimplObj       (* ErrorKind::Unimplemented escaping from a host object's default method *)
| EThrownUnimpl    (* koto.unimplemented thrown by a script function and not caught by the VM *)
| EUser (ek : errkind)   (* the user function's own error, propagated UNCHANGED *)
| EType            (* ErrorKind::UnexpectedType *)
| EString          (* a runtime_error! string ("Unable to index ..", ".. not found ..") *)
.

Inductive outcome :=
| OFn (s : side) (k : metakey)   (* the value returned by that function is the result *)
| OBool (b : bool)               (* a Bool computed by the VM from the functions' results *)
| OLhs                           (* compound assignment: the lhs keeps its (mutated) instance *)
| OIter (n : N) (src : option (side * metakey))   (* iteration produced n values coming from src *)
| OBuiltin (r : rule)
| OConst (b : bool)              (* a Bool decided without looking at any function (x == null ..) *)
| OErr (e : errc).

Definition action := (list event * outcome)%type.

(* ---------------------------------------------------------------- calling *)

(* a function in a koto metamap is called and its result is used as the operation's value *)
Definition map_call_value (o : oracle) (s : side) (k : metakey) (self : who) (args : list who) : action :=
  ([Ev s k self args],
   match o s k with
   | FUnimpl => OErr EThrownUnimpl
   | FErr ek => OErr (EUser ek)
   | _ => OFn s k
   end).

(* KotoObject method: overridden methods are user code; every default returns Unimplemented *)
Definition obj_call (o : oracle) (s : side) (hs : keyset) (k : metakey) (self : who) (args : list who)
  : list event * fres :=
  if has k hs then ([Ev s k self args], o s k) else ([], FUnimpl).

Definition obj_call_value (o : oracle) (s : side) (hs : keyset) (k : metakey) (self : who) (args : list who) : action :=
  let (evs, r) := obj_call o s hs k self args in
  (evs, match r with FUnimpl => OErr EUnimplObj | FErr ek => OErr (EUser ek) | _ => OFn s k end).

(* ordered arm lists: the first arm whose guard holds is taken, like a Rust `match` *)
Definition arm := ((kind -> kind -> bool) * (kind -> kind -> action))%type.

Fixpoint first_arm (arms : list arm) (dflt : action) (l r : kind) : action :=
  match arms with
  | [] => dflt
  | (g, f) :: rest => if g l r then f l r else first_arm rest dflt l r
  end.

Definition is_num k := match k with VNumber => true | _ => false end.
Definition is_str k := match k with VStr => true | _ => false end.
Definition is_list k := match k with VList => true | _ => false end.
Definition is_tuple k := match k with VTuple => true | _ => false end.
Definition is_null k := match k with VNull => true | _ => false end.
Definition is_bool k := match k with VBool => true | _ => false end.
Definition is_range k := match k with VRange => true | _ => false end.
Definition is_fn k := match k with VFunction => true | _ => false end.
Definition is_map k := match k with VMap _ => true | _ => false end.
Definition is_obj k := match k with VObject _ => true | _ => false end.
Definition map_has (key : metakey) k := match k with VMap ks => has key ks | _ => false end.
Definition keys_of k := match k with VMap ks => ks | VObject hs => hs | _ => [] end.

Definition both (p : kind -> bool) : kind -> kind -> bool := fun l r => p l && p r.
Definition lhs (p : kind -> bool) : kind -> kind -> bool := fun l _ => p l.
Definition rhs (p : kind -> bool) : kind -> kind -> bool := fun _ r => p r.
Definition const (a : action) : kind -> kind -> action := fun _ _ => a.

(* ---------------------------------------------------------------- arithmetic *)

(* call_metamap_binary_op_rhs!: the rhs map's @r.. function with the operands swapped *)
Definition rhs_map_call (o : oracle) (a : arith) : action :=
  map_call_value o R (k_rhs a) WR [WL].

(* call_object_binary_op!: o_rhs.<op>_rhs(lhs); Unimplemented becomes InvalidBinaryOp *)
Definition rhs_obj_call (o : oracle) (a : arith) (hs : keyset) : action :=
  let (evs, r) := obj_call o R hs (k_rhs a) WR [WL] in
  (evs, match r with FUnimpl => OErr EBinaryOp | FErr ek => OErr (EUser ek) | _ => OFn R (k_rhs a) end).

(* what both call_metamap_arithmetic_op! and call_object_arithmetic_op! do once the lhs has
   reported `unimplemented` *)
Definition rhs_fallback (o : oracle) (a : arith) (r : kind) : action :=
  match r with
  | VObject hs => rhs_obj_call o a hs
  | VMap ks => if has (k_rhs a) ks then rhs_map_call o a else ([], OErr EBinaryOp)
  | _ => ([], OErr EBinaryOp)
  end.

(* call_metamap_arithmetic_op!: run the lhs function NOW; on koto.unimplemented fall back.
   The Err arm: pop the barrier frame; not a KotoError => return Err(error); a KotoError whose
   thrown value is not koto.unimplemented => return Err(error); else look at the rhs *)
Definition lhs_map_arith (o : oracle) (a : arith) (r : kind) : action :=
  let e := Ev L (k_op a) WL [WR] in
  match o L (k_op a) with
  | FErr Runtime => ([e], OErr (EUser Runtime))     (* `let ErrorKind::KotoError {..} = .. else { return Err(error) }` *)
  | FErr Thrown => ([e], OErr (EUser Thrown))       (* thrown, but not the Unimplemented object *)
  | FUnimpl => let (evs, out) := rhs_fallback o a r in (e :: evs, out)
  | _ => ([e], OFn L (k_op a))
  end.

(* call_object_arithmetic_op! *)
Definition lhs_obj_arith (o : oracle) (a : arith) (hs : keyset) (r : kind) : action :=
  let (evs, res) := obj_call o L hs (k_op a) WL [WR] in
  match res with
  | FUnimpl => let (evs2, out) := rhs_fallback o a r in (evs ++ evs2, out)
  | FErr ek => (evs, OErr (EUser ek))
  | _ => (evs, OFn L (k_op a))
  end.

Definition is_add a := match a with Add => true | _ => false end.

(* run_add / run_arithmetic_op! / run_remainder *)
Definition arith_arms (o : oracle) (a : arith) : list arm :=
  [ (both is_num, const ([], OBuiltin RNum)) ]
  ++ (if is_add a then
        [ (both is_str, const ([], OBuiltin RStr));
          (both is_list, const ([], OBuiltin RListConcat));
          (both is_tuple, const ([], OBuiltin RTupleConcat)) ]
      else [])
  ++ [ (lhs (map_has (k_op a)), fun _ r => lhs_map_arith o a r);
       (lhs is_obj, fun l r => lhs_obj_arith o a (keys_of l) r);
       (rhs (map_has (k_rhs a)), const (rhs_map_call o a));
       (rhs is_obj, fun _ r => rhs_obj_call o a (keys_of r)) ]
  ++ (if is_add a then [ (both is_map, const ([], OBuiltin RMapUnion)) ] else []).

Definition run_arith (o : oracle) (a : arith) (l r : kind) : action :=
  first_arm (arith_arms o a) ([], OErr EBinaryOp) l r.

(* run_compound_assign_op! *)
Definition assign_arms (o : oracle) (a : arith) : list arm :=
  [ (both is_num, const ([], OBuiltin RNum));
    (lhs (map_has (k_assign a)),
     const ([Ev L (k_assign a) WL [WR]],
            match o L (k_assign a) with
            | FUnimpl => OErr EThrownUnimpl | FErr ek => OErr (EUser ek) | _ => OLhs end));
    (* (Object(o), Object(o2)) if o2.is_same_instance(o2) and (Object(o), _) behave alike *)
    (lhs is_obj, fun l _ =>
       let (evs, res) := obj_call o L (keys_of l) (k_assign a) WL [WR] in
       (evs, match res with FUnimpl => OErr EUnimplObj | FErr ek => OErr (EUser ek) | _ => OLhs end)) ].

Definition run_assign (o : oracle) (a : arith) (l r : kind) : action :=
  first_arm (assign_arms o a) ([], OErr EBinaryOp) l r.

(* ---------------------------------------------------------------- comparisons *)

(* run_overridden_comparison_op: call now, the result must be a Bool *)
Inductive bres := BOk (b : bool) | BFail (e : errc).

Definition map_call_bool (o : oracle) (k : metakey) : list event * bres :=
  ([Ev L k WL [WR]],
   match o L k with
   | FBool b => BOk b
   | FUnimpl => BFail EThrownUnimpl
   | FErr ek => BFail (EUser ek)
   | _ => BFail EType
   end).

(* a bool-returning KotoObject method (a host method cannot return a non-Bool: the harness
   objects answer `true` for the oracle values FVal / FNull / FSeq) *)
Definition obj_call_bool (o : oracle) (hs : keyset) (k : metakey) : list event * bres :=
  let (evs, r) := obj_call o L hs k WL [WR] in
  (evs, match r with
        | FBool b => BOk b
        | FUnimpl => BFail EUnimplObj
        | FErr ek => BFail (EUser ek)
        | _ => BOk true
        end).

Definition bres_out (x : list event * bres) : action :=
  (fst x, match snd x with BOk b => OBool b | BFail e => OErr e end).

(* less || equal with Rust's short-circuit: @== is only called when @< said false *)
Definition less_or_equal_calls (lt eq : list event * bres) : list event * bres :=
  match snd lt with
  | BFail e => (fst lt, BFail e)
  | BOk true => (fst lt, BOk true)
  | BOk false => (fst lt ++ fst eq, snd eq)
  end.

Definition bres_not (x : list event * bres) : list event * bres :=
  (fst x, match snd x with BOk b => BOk (negb b) | f => f end).

(* KotoObject::{less_or_equal, greater, greater_or_equal, not_equal} defaults: derived from
   less / equal; Unimplemented is re-raised as Unimplemented *)
Definition obj_cmp (o : oracle) (hs : keyset) (c : cmp) : list event * bres :=
  if has (k_cmp c) hs then obj_call_bool o hs (k_cmp c)
  else match c with
       | Lt | Eq => ([], BFail EUnimplObj)
       | Le => less_or_equal_calls (obj_call_bool o hs k_less) (obj_call_bool o hs k_equal)
       | Gt => bres_not (less_or_equal_calls (obj_call_bool o hs k_less) (obj_call_bool o hs k_equal))
       | Ge => bres_not (obj_call_bool o hs k_less)
       | Ne => bres_not (obj_call_bool o hs k_equal)
       end.

Definition own_cmp_arm (o : oracle) (c : cmp) : arm :=
  (lhs (map_has (k_cmp c)), const (map_call_value o L (k_cmp c) WL [WR])).
Definition obj_cmp_arm (o : oracle) (c : cmp) : arm :=
  (lhs is_obj, fun l _ => bres_out (obj_cmp o (keys_of l) c)).

Definition lt_eq_present l := map_has k_less l && map_has k_equal l.

Definition ordering_arms (o : oracle) (c : cmp) : list arm :=
  [ (both is_num, const ([], OBuiltin RNum));
    (both is_str, const ([], OBuiltin RStr));
    own_cmp_arm o c ]
  ++ match c with
     | Le => [ (lhs lt_eq_present,
                const (bres_out (less_or_equal_calls (map_call_bool o k_less) (map_call_bool o k_equal)))) ]
     | Gt => [ (lhs lt_eq_present,
                const (bres_out (bres_not (less_or_equal_calls (map_call_bool o k_less) (map_call_bool o k_equal))))) ]
     | Ge => [ (lhs (map_has k_less), const (bres_out (bres_not (map_call_bool o k_less)))) ]
     | _ => []
     end
  ++ [ obj_cmp_arm o c ].

Definition same_prim l r :=
  both is_num l r || both is_bool l r || both is_str l r || both is_range l r.

(* run_equal / run_not_equal: the null arms come first *)
Definition equality_arms (o : oracle) (c : cmp) : list arm :=
  let neg := match c with Ne => true | _ => false end in
  [ (both is_null, const ([], OConst (negb neg)));
    (fun l r => is_null l || is_null r, const ([], OConst neg));
    (same_prim, const ([], OBuiltin REqPrim));
    (both is_list, const ([], OBuiltin REqSeq));
    (both is_tuple, const ([], OBuiltin REqSeq));
    own_cmp_arm o c ]
  ++ (if neg then [ (lhs (map_has k_equal), const (bres_out (bres_not (map_call_bool o k_equal)))) ] else [])
  ++ [ (lhs is_map, fun _ r => if is_map r then ([], OBuiltin REqMap) else ([], OConst neg));
       obj_cmp_arm o c;
       (both is_fn, const ([], OBuiltin REqFn)) ].

Definition run_cmp (o : oracle) (c : cmp) (l r : kind) : action :=
  match c with
  | Eq => first_arm (equality_arms o c) ([], OConst false) l r
  | Ne => first_arm (equality_arms o c) ([], OConst true) l r
  | _ => first_arm (ordering_arms o c) ([], OErr EBinaryOp) l r
  end.

(* ---------------------------------------------------------------- unary operators and protocols *)

Inductive uop :=
| UNeg         (* -x *)
| USizeOf      (* size x  (koto.size -> run_size, throwing) *)
| UDisp        (* "{x}"   *)
| UDbg         (* "{x:?}" *)
| UCallOp      (* x(arg)  : R is the argument *)
| UFor         (* for v in x : run_make_iterator + run_iterator_next *)
| UToTuple     (* x.to_tuple() : `.` access + KotoVm::make_iterator *)
| UReversed.   (* x.reversed().to_tuple() : @next_back *)

(* run_negate *)
Definition run_negate (o : oracle) (x : kind) : action :=
  match x with
  | VNumber => ([], OBuiltin RNegNum)
  | VMap ks => if has k_negate ks then map_call_value o L k_negate WL [] else ([], OErr EType)
  | VObject hs => obj_call_value o L hs k_negate WL []
  | _ => ([], OErr EType)
  end.

(* run_size with throw_if_value_has_no_size *)
Definition run_size (o : oracle) (x : kind) : action :=
  match x with
  | VList | VTuple | VStr | VRange => ([], OBuiltin RSizeBuiltin)
  | VMap ks => if has k_size ks then map_call_value o L k_size WL [] else ([], OBuiltin RSizeBuiltin)
  | VObject hs =>
      (* KotoObject::size() -> Option<usize>: None is "no size" (UnexpectedType), never Unimplemented *)
      if has k_size hs then ([Ev L k_size WL []], OFn L k_size) else ([], OErr EType)
  | _ => ([], OErr EType)
  end.

(* run_display (string interpolation -> run_unary_op(Display)); the result has to be a String:
   every tagged value is one; null is not *)
Definition str_result (a : action) : action :=
  (fst a, match snd a with OFn s k => OFn s k | OErr e => OErr e | other => other end).

Definition display_value (o : oracle) (k : metakey) : action :=
  ([Ev L k WL []],
   match o L k with
   | FUnimpl => OErr EThrownUnimpl
   | FErr ek => OErr (EUser ek)
   | FVal => OFn L k
   | _ => OErr EType      (* Bool / Null / List results: "expected String" *)
   end).

(* a failure inside `value.display(ctx)` (an object's display(), or KMap::display calling
   @display through a nested VM) is reported as runtime_error!("failed to get display value") *)
Definition display_nested (o : oracle) (k : metakey) : action :=
  ([Ev L k WL []], match o L k with FVal => OFn L k | _ => OErr EString end).

Definition run_display (o : oracle) (x : kind) : action :=
  match x with
  | VMap ks => if has k_display ks then display_value o k_display else ([], OBuiltin RDisplayBuiltin)
  | VObject hs => if has k_display hs then display_nested o k_display else ([], OBuiltin RDisplayBuiltin)
  | _ => ([], OBuiltin RDisplayBuiltin)
  end.

(* run_debug_op; without @debug the value's display() runs in debug mode, and KMap::display
   calls @display when present *)
Definition run_debug (o : oracle) (x : kind) : action :=
  match x with
  | VMap ks => if has k_debug ks then display_value o k_debug
               else if has k_display ks then display_nested o k_display
               else ([], OBuiltin RDisplayBuiltin)
  | VObject hs => if has k_display hs then display_nested o k_display else ([], OBuiltin RDisplayBuiltin)
  | _ => ([], OBuiltin RDisplayBuiltin)
  end.

(* call_callable *)
Definition run_call (o : oracle) (x : kind) : action :=
  match x with
  | VFunction => ([], OBuiltin RCallFunction)
  | VObject hs => obj_call_value o L hs MCall WL [WR]
  | VMap ks => if has MCall ks then map_call_value o L MCall WL [WR] else ([], OErr EType)
  | _ => ([], OErr EType)
  end.

(* iteration with a @next-like function: FVal = two values then null.
   in_for: run_iterator_next turns an error coming out of the MetaIterator into
   runtime_error!(error.to_string()); the core library's consumers propagate it unchanged *)
Definition next_calls (in_for : bool) (o : oracle) (k : metakey) : action :=
  let e := Ev L k WL [] in
  match o L k with
  | FNull => ([e], OIter 0 (Some (L, k)))
  | FUnimpl => ([e], OErr (if in_for then EString else EThrownUnimpl))
  | FErr ek => ([e], OErr (if in_for then EString else (EUser ek)))
  | _ => ([e; e; e], OIter 2 (Some (L, k)))
  end.

Definition obj_next_calls (o : oracle) (k : metakey) : action :=
  let e := Ev L k WL [] in
  match o L k with
  | FNull | FUnimpl | FErr _ => ([e], OIter 0 (Some (L, k)))   (* iterator_next returns Option: None ends *)
  | _ => ([e; e; e], OIter 2 (Some (L, k)))
  end.

(* `for v in x`: run_make_iterator(temp = false), then run_iterator_next until exhausted *)
Definition run_for (o : oracle) (x : kind) : action :=
  match x with
  | VMap ks =>
      if has k_next ks then next_calls true o k_next       (* @next before @iterator *)
      else if has k_iterator ks then
        let e := Ev L k_iterator WL [] in
        match o L k_iterator with
        | FVal => ([e], OIter 2 (Some (L, k_iterator)))    (* an iterator: iterated *)
        | FUnimpl => ([e], OErr EThrownUnimpl)
        | FErr ek => ([e], OErr (EUser ek))
        | _ => ([e], OErr EType)   (* the result is put in the register as is: "expected Iterator" *)
        end
      else ([], OBuiltin RIterBuiltin)
  | VObject hs =>
      if has k_next hs then obj_next_calls o k_next
      else if has k_iterator hs then
        let e := Ev L k_iterator WL [] in
        match o L k_iterator with
        | FUnimpl => ([e], OErr EUnimplObj)
        | FErr ek => ([e], OErr (EUser ek))
        | _ => ([e], OIter 2 (Some (L, k_iterator)))
        end
      else ([], OBuiltin RIterOnce)
  | VRange | VList | VTuple | VStr | VIterator => ([], OBuiltin RIterBuiltin)
  | _ => ([], OBuiltin RIterOnce)
  end.

(* run_access_inner's first map arm: `Map(map) if map.contains_meta_key(&ReadOp::Access.into())`:
   an @access override receives EVERY `.` access with (self, key), core-library method names
   included, before the data / @meta / @base / iterator-module lookups.  `x.to_tuple()` then calls
   whatever @access returned: the functions' tagged values (String, Bool, Null, List) are not
   callable, so the call is an UnexpectedType error *)
Definition access_override_call (o : oracle) : action :=
  ([Ev L k_access WL [WKey]],
   match o L k_access with
   | FUnimpl => OErr EThrownUnimpl
   | FErr ek => OErr (EUser ek)
   | _ => OErr EType
   end).

(* `x.to_tuple()`: run_access_inner finds iterator.to_tuple through the iterator fallback (only
   for maps with @iterator / @next and iterable objects), which calls KotoVm::make_iterator *)
Definition run_to_tuple (o : oracle) (x : kind) : action :=
  match x with
  | VMap [] => ([], OBuiltin RIterBuiltin)   (* no metamap: core map module, then the iterator module *)
  | VMap ks =>
      if has k_access ks then access_override_call o
      else if has k_next ks then next_calls false o k_next
      else if has k_iterator ks then
        let e := Ev L k_iterator WL [] in
        match o L k_iterator with
        | FVal | FSeq => ([e], OIter 2 (Some (L, k_iterator)))  (* make_iterator of the result *)
        | FUnimpl => ([e], OErr EThrownUnimpl)
        | FErr ek => ([e], OErr (EUser ek))
        | _ => ([e], OErr EType)
        end
      else ([], OErr EString)
  | VObject hs =>
      if has k_next hs then obj_next_calls o k_next
      else if has k_iterator hs then
        let e := Ev L k_iterator WL [] in
        match o L k_iterator with
        | FUnimpl => ([e], OErr EUnimplObj)
        | FErr ek => ([e], OErr (EUser ek))
        | _ => ([e], OIter 2 (Some (L, k_iterator)))
        end
      else ([], OErr EString)
  | VRange | VList | VTuple | VStr | VIterator => ([], OBuiltin RIterBuiltin)
  | VNumber => ([], OErr EString)      (* not found in the number module *)
  | VNull | VBool | VFunction => ([], OErr EType)   (* no `.` access at all *)
  end.

(* `x.reversed().to_tuple()`: @next_back is only looked at when @next exists (MetaIterator::new) *)
Definition run_reversed (o : oracle) (x : kind) : action :=
  match x with
  | VMap [] => ([], OBuiltin RIterBuiltin)
  | VMap ks =>
      if has k_access ks then access_override_call o
      else if has k_next ks then
        if has k_next_back ks then next_calls false o k_next_back
        else ([], OErr EString)        (* "not bidirectional" *)
      else if has k_iterator ks then
        let e := Ev L k_iterator WL [] in
        match o L k_iterator with
        | FVal | FSeq => ([e], OIter 2 (Some (L, k_iterator)))  (* tuple iterators and lists are bidirectional *)
        | FUnimpl => ([e], OErr EThrownUnimpl)
        | FErr ek => ([e], OErr (EUser ek))
        | _ => ([e], OErr EType)
        end
      else ([], OErr EString)
  | VObject hs =>
      if has k_next hs then
        if has k_next_back hs then obj_next_calls o k_next_back else ([], OErr EString)
      else if has k_iterator hs then
        let e := Ev L k_iterator WL [] in
        match o L k_iterator with
        | FUnimpl => ([e], OErr EUnimplObj)
        | FErr ek => ([e], OErr (EUser ek))
        | _ => ([e], OIter 2 (Some (L, k_iterator)))
        end
      else ([], OErr EString)
  | VRange | VList | VTuple | VStr | VIterator => ([], OBuiltin RIterBuiltin)
  | VNumber => ([], OErr EString)
  | VNull | VBool | VFunction => ([], OErr EType)
  end.

Definition run_unary (o : oracle) (u : uop) (x arg : kind) : action :=
  match u with
  | UNeg => run_negate o x
  | USizeOf => run_size o x
  | UDisp => run_display o x
  | UDbg => run_debug o x
  | UCallOp => run_call o x
  | UFor => run_for o x
  | UToTuple => run_to_tuple o x
  | UReversed => run_reversed o x
  end.

(* ---------------------------------------------------------------- index / index-assign / access-assign *)

(* run_index: L is the indexed value, R the index *)
Definition run_index (o : oracle) (l r : kind) : action :=
  first_arm
    [ (fun l r => (is_list l || is_tuple l || is_str l) && (is_num r || is_range r), const ([], OBuiltin RIndexBuiltin));
      (lhs (map_has k_index), const (map_call_value o L k_index WL [WR]));
      (fun l r => is_map l && is_num r, const ([], OBuiltin RIndexBuiltin));
      (fun l r => is_range l && is_num r, const ([], OBuiltin RIndexBuiltin));
      (lhs is_obj, fun l _ => obj_call_value o L (keys_of l) k_index WL [WR]) ]
    ([], OErr EString) l r.

(* run_index_assign: x[i] = v with v a Number *)
Definition run_index_assign (o : oracle) (l r : kind) : action :=
  match l with
  | VList => if is_num r || is_range r then ([], OBuiltin RIndexAssignBuiltin) else ([], OErr EType)
  | VMap ks =>
      if has k_index_assign ks then
        ([Ev L k_index_assign WL [WR; WVal]],
         match o L k_index_assign with
         | FUnimpl => OErr EThrownUnimpl | FErr ek => OErr (EUser ek) | _ => OLhs end)
      else ([], OErr EType)   (* Number index: the value must be a 2-tuple; else: "expected Number" *)
  | VObject hs =>
      let (evs, res) := obj_call o L hs k_index_assign WL [WR; WVal] in
      (evs, match res with FUnimpl => OErr EUnimplObj | FErr ek => OErr (EUser ek) | _ => OLhs end)
  | _ => ([], OErr EType)
  end.

(* run_access_assign: x.key = v *)
Definition run_access_assign (o : oracle) (l : kind) : action :=
  match l with
  | VMap ks =>
      if has k_access_assign ks then
        ([Ev L k_access_assign WL [WKey; WVal]],
         match o L k_access_assign with
         | FUnimpl => OErr EThrownUnimpl | FErr ek => OErr (EUser ek) | _ => OLhs end)
      else ([], OBuiltin RMapInsert)
  | VObject hs =>
      let (evs, res) := obj_call o L hs k_access_assign WL [WKey; WVal] in
      (evs, match res with FUnimpl => OErr EUnimplObj | FErr ek => OErr (EUser ek) | _ => OLhs end)
  | _ => ([], OErr EType)
  end.

(* ---------------------------------------------------------------- frames under an execution barrier *)

(* Three places run a metamap function NOW (call_overridden_op_N, then
   `frame_mut().execution_barrier = true; execute_instructions()`): call_metamap_arithmetic_op!
   (the lhs function), run_overridden_comparison_op (derived comparisons) and run_iterator_next
   (@next in a for loop).  The function's frame leaves the call stack either by returning or,
   when it fails, through the `pop_frame` that each Err arm does FIRST, whatever the error is.
   A frame left behind would sit between the error and the handlers of the enclosing frames:
   the error would then not reach the innermost enclosing `catch`. *)
Inductive cleanup := ByReturn | ByErrArm | LeftBehind.

Definition barrier_cleanup (r : fres) : cleanup :=
  match r with
  | FUnimpl | FErr _ => ByErrArm
  | _ => ByReturn
  end.

(* ---------------------------------------------------------------- one entry point *)

Inductive op :=
| OpArith (a : arith)
| OpAssign (a : arith)
| OpCmp (c : cmp)
| OpUnary (u : uop)
| OpIndex
| OpIndexAssign
| OpAccessAssign.

Definition dispatch (o : oracle) (p : op) (l r : kind) : action :=
  match p with
  | OpArith a => run_arith o a l r
  | OpAssign a => run_assign o a l r
  | OpCmp c => run_cmp o c l r
  | OpUnary u => run_unary o u l r
  | OpIndex => run_index o l r
  | OpIndexAssign => run_index_assign o l r
  | OpAccessAssign => run_access_assign o l
  end.

(* the keys an operation inspects on either operand (used for the finite sweeps and for
   dispatch_keys_complete) *)
Definition inspected (p : op) : list metakey :=
  match p with
  | OpArith a => [k_op a; k_rhs a]
  | OpAssign a => [k_assign a]
  | OpCmp c => match c with
               | Lt | Eq => [k_cmp c]
               | Ne => [k_cmp c; k_equal]
               | Ge => [k_cmp c; k_less]
               | _ => [k_cmp c; k_less; k_equal]
               end
  | OpUnary UNeg => [k_negate]
  | OpUnary USizeOf => [k_size]
  | OpUnary UDisp => [k_display]
  | OpUnary UDbg => [k_debug; k_display]
  | OpUnary UCallOp => [MCall]
  | OpUnary UFor => [k_next; k_iterator]
  | OpUnary UToTuple => [k_next; k_iterator; k_access]
  | OpUnary UReversed => [k_next; k_next_back; k_iterator; k_access]
  | OpIndex => [k_index]
  | OpIndexAssign => [k_index_assign]
  | OpAccessAssign => [k_access_assign]
  end.

(* is this event one of the run-NOW calls? *)
Definition at_barrier (p : op) (l : kind) (e : event) : bool :=
  match p, l, ev_owner e with
  | OpArith a, VMap _, L => metakey_eqb (ev_key e) (k_op a)
  | OpCmp c, VMap ks, L => negb (has (k_cmp c) ks) && negb (metakey_eqb (ev_key e) (k_cmp c))
  | OpUnary UFor, VMap _, L => metakey_eqb (ev_key e) k_next
  | _, _, _ => false
  end.

(* frames the dispatch leaves on the call stack; an error outcome is delivered to the handler
   `leftover_frames` levels outside the innermost one enclosing the operator (0 = innermost) *)
Definition leftover_frames (o : oracle) (p : op) (l r : kind) : nat :=
  List.length (filter (fun e => at_barrier p l e &&
                                match barrier_cleanup (o (ev_owner e) (ev_key e)) with LeftBehind => true | _ => false end)
                      (fst (dispatch o p l r))).

(* ---------------------------------------------------------------- `.` access (run_access_inner) *)

(* a map as the access loop sees it: its data keys and, when it has a metamap, the @access flag
   (acc), the `@meta name` entries (named), whether @iterator / @next exist (iter), and @base *)
Inductive mobj :=
| MPlain (data : list string)                                              (* no metamap *)
| MEnd (data : list string) (acc : bool) (named : list string) (iter : bool)       (* no @base *)
| MBadBase (data : list string) (acc : bool) (named : list string) (iter : bool)   (* @base is not a map *)
| MBase (data : list string) (acc : bool) (named : list string) (iter : bool) (base : mobj).

Inductive place := InData | InNamed.

Inductive chain_res :=
| CFound (depth : nat) (w : place)   (* found in the map `depth` @base steps up *)
| CCoreMap                           (* a map without metamap was reached: core `map` module *)
| CBaseType                          (* @base is not a map: UnexpectedType *)
| CBreak.                            (* end of the chain *)

Definition smem (k : string) (l : list string) : bool := existsb (String.eqb k) l.

(* the `while access_result.is_none()` loop of run_access_inner *)
Fixpoint chain_lookup (key : string) (m : mobj) (depth : nat) : chain_res :=
  match m with
  | MPlain data => if smem key data then CFound depth InData else CCoreMap
  | MEnd data _ named _ =>
      if smem key data then CFound depth InData
      else if smem key named then CFound depth InNamed else CBreak
  | MBadBase data _ named _ =>
      if smem key data then CFound depth InData
      else if smem key named then CFound depth InNamed else CBaseType
  | MBase data _ named _ base =>
      if smem key data then CFound depth InData
      else if smem key named then CFound depth InNamed else chain_lookup key base (S depth)
  end.

Inductive access_res :=
| AAccessFn                          (* @access is called with (self, key) *)
| AFound (depth : nat) (w : place)
| ACoreMap | ACoreIter               (* the function of that name in core map / iterator module *)
| ANotFound                          (* error: not found *)
| ABaseType.

Definition top_has_access (m : mobj) : bool :=
  match m with MPlain _ => false | MEnd _ a _ _ | MBadBase _ a _ _ | MBase _ a _ _ _ => a end.
Definition top_iterable (m : mobj) : bool :=
  match m with MPlain _ => false | MEnd _ _ _ i | MBadBase _ _ _ i | MBase _ _ _ i _ => i end.

(* in_map / in_iter: is `key` the name of a function of the core map / iterator module;
   eif = error_if_not_found (true for `.`, false for `?.`): run_access_inner passes it to
   core_op! in the position of the iterator_fallback flag *)
Definition run_access (eif : bool) (in_map in_iter : string -> bool) (key : string) (m : mobj) : access_res :=
  if top_has_access m then AAccessFn
  else match chain_lookup key m 0 with
       | CFound d w => AFound d w
       | CCoreMap => if in_map key then ACoreMap
                     else if eif && in_iter key then ACoreIter else ANotFound
       | CBaseType => ABaseType
       | CBreak => if top_iterable m then (if in_iter key then ACoreIter else ANotFound) else ANotFound
       end.

(* ---------------------------------------------------------------- shared metamaps (map.with_meta) *)

(* KMap = { data : PtrMut<ValueMap>, meta : Option<PtrMut<MetaMap>> }: the metamaps live in a
   heap, a map value points at one (or none) *)
Definition heap := list keyset.
Record kmap := KM { km_data : N; km_meta : option nat }.

Definition meta_entries (h : heap) (m : kmap) : keyset :=
  match km_meta m with Some p => nth p h [] | None => [] end.
Definition kind_of (h : heap) (m : kmap) : kind := VMap (meta_entries h m).

(* core_lib/map.rs with_meta: data.set_meta_map(meta.meta_map().cloned()) -- the POINTER is cloned *)
Definition with_meta (d m : kmap) : kmap := KM (km_data d) (km_meta m).

(* a map owning a fresh metamap holding a copy of m's entries *)
Definition own_copy (h : heap) (d m : kmap) : heap * kmap :=
  (h ++ [meta_entries h m], KM (km_data d) (Some (List.length h))).

(* KMap::insert_meta on a map that has a metamap: MetaMap::insert through the pointer *)
Fixpoint heap_insert (h : heap) (p : nat) (k : metakey) : heap :=
  match h, p with
  | [], _ => []
  | ks :: rest, O => (k :: ks) :: rest
  | ks :: rest, S p' => ks :: heap_insert rest p' k
  end.
