(* C17 -- what the language guide (docs/language_guide.md, "Objects and Metamaps") says about
   operator / protocol dispatch, written as a decision function that does not look at how vm.rs
   orders its match arms.

   Vocabulary: an operand IMPLEMENTS a key when it is a map whose metamap has that entry or a
   host object overriding the corresponding KotoObject method.  ASKING an operand that does not
   implement the key is the same as being told `unimplemented` without any user code running. *)
From Coq Require Import List Bool String NArith.
From KV.obj Require Import GenMeta ObjModel.
Import ListNotations.

Definition implements (k : metakey) (x : kind) : bool :=
  match x with VMap ks => has k ks | VObject hs => has k hs | _ => false end.

Definition is_host (x : kind) : bool := match x with VObject _ => true | _ => false end.
Definition is_koto_map (x : kind) : bool := match x with VMap _ => true | _ => false end.

(* the user function (if any) and what it said *)
Definition ask (o : oracle) (s : side) (k : metakey) (x : kind) (self : who) (args : list who)
  : list event * fres :=
  if implements k x then ([Ev s k self args], o s k) else ([], FUnimpl).

(* how an uncaught `unimplemented` / user error of an operand's function surfaces *)
Definition unimpl_error (x : kind) : errc := if is_host x then EUnimplObj else EThrownUnimpl.

(* the function's result IS the operation's result *)
Definition as_value (s : side) (k : metakey) (x : kind) (a : list event * fres) : action :=
  (fst a, match snd a with
          | FUnimpl => OErr (unimpl_error x)
          | FErr ek => OErr (EUser ek)
          | _ => OFn s k
          end).

(* the function's result is discarded; the receiver stays the value (x op= y, x[i] = v, x.k = v) *)
Definition as_effect (x : kind) (a : list event * fres) : action :=
  (fst a, match snd a with
          | FUnimpl => OErr (unimpl_error x)
          | FErr ek => OErr (EUser ek)
          | _ => OLhs
          end).

(* ------------------------------------------------------------------ arithmetic *)

(* the core types' own arithmetic *)
Definition core_arith (a : arith) (l r : kind) : option rule :=
  match l, r with
  | VNumber, VNumber => Some RNum
  | VStr, VStr => match a with Add => Some RStr | _ => None end
  | VList, VList => match a with Add => Some RListConcat | _ => None end
  | VTuple, VTuple => match a with Add => Some RTupleConcat | _ => None end
  | _, _ => None
  end.

(* "If the value on the LHS of the expression doesn't support the operation and the object is on
    the RHS, then the metakeys are @r+ ...": the rhs function gets (self := rhs, arg := lhs).
   A host object is always asked (its default answer is `unimplemented`); declining is an error. *)
Definition spec_rhs (o : oracle) (a : arith) (r : kind) : action :=
  if implements (k_rhs a) r then
    let res := ask o R (k_rhs a) r WR [WL] in
    (fst res, match snd res with
              | FUnimpl => OErr (if is_host r then EBinaryOp else EThrownUnimpl)
              | FErr ek => OErr (EUser ek)
              | _ => OFn R (k_rhs a)
              end)
  else ([], OErr EBinaryOp).

Definition spec_arith (o : oracle) (a : arith) (l r : kind) : action :=
  match core_arith a l r with
  | Some rl => ([], OBuiltin rl)
  | None =>
      if implements (k_op a) l || is_host l then
        (* the lhs is asked first, with (self := lhs, arg := rhs) *)
        let res := ask o L (k_op a) l WL [WR] in
        match snd res with
        | FUnimpl => let fb := spec_rhs o a r in (fst res ++ fst fb, snd fb)
        | FErr ek => (fst res, OErr (EUser ek))
        | _ => (fst res, OFn L (k_op a))
        end
      else if implements (k_rhs a) r || is_host r then spec_rhs o a r
      else match a with
           | Add => if is_koto_map l && is_koto_map r then ([], OBuiltin RMapUnion) else ([], OErr EBinaryOp)
           | _ => ([], OErr EBinaryOp)
           end
  end.

(* compound assignment: only the @op= entry of the lhs counts; nothing is derived from @op and
   the rhs is never asked *)
Definition spec_assign (o : oracle) (a : arith) (l r : kind) : action :=
  match l, r with
  | VNumber, VNumber => ([], OBuiltin RNum)
  | _, _ =>
      if implements (k_assign a) l then as_effect l (ask o L (k_assign a) l WL [WR])
      else if is_host l then ([], OErr EUnimplObj)
      else ([], OErr EBinaryOp)
  end.

(* ------------------------------------------------------------------ comparisons *)

(* a comparison function consulted by the runtime has to answer with a Bool *)
Definition ask_bool (o : oracle) (k : metakey) (l : kind) : list event * bres :=
  let res := ask o L k l WL [WR] in
  (fst res,
   match snd res with
   | FBool b => BOk b
   | FUnimpl => BFail (unimpl_error l)
   | FErr ek => BFail (EUser ek)
   | _ => if is_host l then BOk true else BFail EType
   end).

(* guide: "@!= will invert the result of calling @=="; "only need to implement @< and @==, and
   the runtime will automatically derive results for @<=, @>, and @>=" *)
Inductive derivation := DLtOrEq | DNotLtOrEq | DNotLt | DNotEq.

Definition derivation_of (c : cmp) : option derivation :=
  match c with Le => Some DLtOrEq | Gt => Some DNotLtOrEq | Ge => Some DNotLt | Ne => Some DNotEq | _ => None end.

Definition needs (d : derivation) : list metakey :=
  match d with DLtOrEq | DNotLtOrEq => [k_less; k_equal] | DNotLt => [k_less] | DNotEq => [k_equal] end.

Definition neg_bres (x : list event * bres) : list event * bres :=
  (fst x, match snd x with BOk b => BOk (negb b) | f => f end).

(* a < b || a == b, evaluated left to right, the second only when needed *)
Definition lt_or_eq (o : oracle) (l : kind) : list event * bres :=
  let lt := ask_bool o k_less l in
  match snd lt with
  | BOk false => let eq := ask_bool o k_equal l in (fst lt ++ fst eq, snd eq)
  | other => (fst lt, other)
  end.

Definition derive (o : oracle) (d : derivation) (l : kind) : list event * bres :=
  match d with
  | DLtOrEq => lt_or_eq o l
  | DNotLtOrEq => neg_bres (lt_or_eq o l)
  | DNotLt => neg_bres (ask_bool o k_less l)
  | DNotEq => neg_bres (ask_bool o k_equal l)
  end.

Definition out_bres (x : list event * bres) : action :=
  (fst x, match snd x with BOk b => OBool b | BFail e => OErr e end).

Definition core_ordering (l r : kind) : option rule :=
  match l, r with VNumber, VNumber => Some RNum | VStr, VStr => Some RStr | _, _ => None end.

Definition core_equality (l r : kind) : option rule :=
  match l, r with
  | VNumber, VNumber | VBool, VBool | VStr, VStr | VRange, VRange => Some REqPrim
  | VList, VList | VTuple, VTuple => Some REqSeq
  | _, _ => None
  end.

Definition is_equality (c : cmp) := match c with Eq | Ne => true | _ => false end.

(* the answer when nobody implements anything: values of different kinds are unequal, maps and
   functions are compared structurally; there is no default ordering *)
Definition default_cmp (c : cmp) (l r : kind) : action :=
  match c with
  | Eq | Ne =>
      let ne := match c with Ne => true | _ => false end in
      match l, r with
      | VMap _, VMap _ => ([], OBuiltin REqMap)
      | VFunction, VFunction => ([], OBuiltin REqFn)
      | _, _ => ([], OConst ne)
      end
  | _ => ([], OErr EBinaryOp)
  end.

Definition spec_cmp (o : oracle) (c : cmp) (l r : kind) : action :=
  (* comparing with null never involves user code *)
  if is_equality c && (is_null l || is_null r) then
    (* null equals null and nothing else *)
    ([], OConst (match c with Eq => is_null l && is_null r | _ => negb (is_null l && is_null r) end))
  else
    match (if is_equality c then core_equality l r else core_ordering l r) with
    | Some rl => ([], OBuiltin rl)
    | None =>
        (* only the lhs is ever asked *)
        if implements (k_cmp c) l then
          if is_host l then out_bres (ask_bool o (k_cmp c) l)
          else as_value L (k_cmp c) l (ask o L (k_cmp c) l WL [WR])
        else
          match derivation_of c with
          | Some d =>
              if is_host l then out_bres (derive o d l)
              else if forallb (fun k => implements k l) (needs d) then out_bres (derive o d l)
              else default_cmp c l r
          | None => if is_host l then ([], OErr EUnimplObj) else default_cmp c l r
          end
    end.

(* ------------------------------------------------------------------ unary operators, protocols *)

Definition core_unary (u : uop) (x : kind) : option outcome :=
  match u, x with
  | UNeg, VNumber => Some (OBuiltin RNegNum)
  | USizeOf, (VList | VTuple | VStr | VRange) => Some (OBuiltin RSizeBuiltin)
  | UCallOp, VFunction => Some (OBuiltin RCallFunction)
  | (UDisp | UDbg), (VNull | VBool | VNumber | VStr | VList | VTuple | VRange | VFunction | VIterator) =>
      Some (OBuiltin RDisplayBuiltin)
  | (UFor | UToTuple | UReversed), (VRange | VList | VTuple | VStr | VIterator) => Some (OBuiltin RIterBuiltin)
  | UFor, (VNull | VBool | VNumber | VFunction) => Some (OBuiltin RIterOnce)
  | (UToTuple | UReversed), VNumber => Some (OErr EString)
  | (UToTuple | UReversed), (VNull | VBool | VFunction) => Some (OErr EType)
  | _, _ => None
  end.

(* a string has to come back from @display / @debug *)
Definition as_string (nested : bool) (x : kind) (k : metakey) (a : list event * fres) : action :=
  (fst a, match snd a with
          | FVal => OFn L k
          | FUnimpl => OErr (if nested then EString else unimpl_error x)
          | FErr ek => OErr (if nested then EString else (EUser ek))
          | _ => OErr (if nested then EString else EType)
          end).

(* results of a @next-style function: values until null *)
Definition as_stream (wrap_errors : bool) (x : kind) (k : metakey) (a : list event * fres) : action :=
  let e := Ev L k WL [] in
  match snd a with
  | FNull => ([e], OIter 0 (Some (L, k)))
  | FUnimpl => if is_host x then ([e], OIter 0 (Some (L, k)))
               else ([e], OErr (if wrap_errors then EString else EThrownUnimpl))
  | FErr ek => if is_host x then ([e], OIter 0 (Some (L, k)))
            else ([e], OErr (if wrap_errors then EString else EUser ek))
  | _ => ([e; e; e], OIter 2 (Some (L, k)))
  end.

(* guide: "@iterator should return an iterable value that will then be used for iterator
   operations": iterators AND plain iterables (FSeq) are iterated *)
Definition as_iterable (x : kind) (a : list event * fres) : action :=
  (fst a, match snd a with
          | FVal | FSeq => OIter 2 (Some (L, k_iterator))
          | FUnimpl => OErr (unimpl_error x)
          | FErr ek => OErr (EUser ek)
          | _ => if is_host x then OIter 2 (Some (L, k_iterator)) else OErr EType
          end).

Definition spec_unary (o : oracle) (u : uop) (x arg : kind) : action :=
  match core_unary u x with
  | Some out => ([], out)
  | None =>
      match u with
      | UNeg =>
          if implements k_negate x then as_value L k_negate x (ask o L k_negate x WL [])
          else ([], OErr (if is_host x then EUnimplObj else EType))
      | USizeOf =>
          if implements k_size x then
            (if is_host x then ([Ev L k_size WL []], OFn L k_size)
             else as_value L k_size x (ask o L k_size x WL []))
          else if is_koto_map x then ([], OBuiltin RSizeBuiltin) else ([], OErr EType)
      | UCallOp =>
          if implements MCall x then as_value L MCall x (ask o L MCall x WL [WR])
          else ([], OErr (if is_host x then EUnimplObj else EType))
      | UDisp =>
          if implements k_display x then as_string (is_host x) x k_display (ask o L k_display x WL [])
          else ([], OBuiltin RDisplayBuiltin)
      | UDbg =>
          (* "If @debug isn't defined, then @display will be used as a fallback" *)
          if is_koto_map x && implements k_debug x then as_string false x k_debug (ask o L k_debug x WL [])
          else if implements k_display x then as_string true x k_display (ask o L k_display x WL [])
          else ([], OBuiltin RDisplayBuiltin)
      | UFor | UToTuple | UReversed =>
          let lib := match u with UFor => false | _ => true end in
          let plain := match x with VMap [] => true | _ => false end in
          (* guide, "@access and @access_assign": the @access override decides how `.` access
             behaves -- x.to_tuple / x.reversed are `.` accesses like any other; what it returns is
             then called, and none of the functions' values is callable *)
          if lib && is_koto_map x && implements k_access x then
            (fst (ask o L k_access x WL [WKey]),
             match snd (ask o L k_access x WL [WKey]) with
             | FUnimpl => OErr EThrownUnimpl
             | FErr ek => OErr (EUser ek)
             | _ => OErr EType
             end)
          else if implements k_next x then
            (* "it will first check the metamap for an implementation of @next, before looking
               for @iterator"; "will only look for @next_back if @next is implemented" *)
            match u with
            | UReversed =>
                if implements k_next_back x then as_stream false x k_next_back (ask o L k_next_back x WL [])
                else ([], OErr EString)
            | _ => as_stream (negb lib) x k_next (ask o L k_next x WL [])
            end
          else if implements k_iterator x then as_iterable x (ask o L k_iterator x WL [])
          else if is_host x then ([], if lib then OErr EString else OBuiltin RIterOnce)
          else if plain || negb lib then ([], OBuiltin RIterBuiltin)   (* a map iterates over its entries *)
          else ([], OErr EString)          (* an object has no iterator functions unless it is iterable *)
      end
  end.

(* ------------------------------------------------------------------ indexing, `.` assignment *)

Definition core_index (l r : kind) : bool :=
  match l, r with
  | (VList | VTuple | VStr), (VNumber | VRange) => true
  | VRange, VNumber => true
  | _, _ => false
  end.

Definition spec_index (o : oracle) (l r : kind) : action :=
  if core_index l r then ([], OBuiltin RIndexBuiltin)
  else if implements k_index l then as_value L k_index l (ask o L k_index l WL [WR])
  else if is_host l then ([], OErr EUnimplObj)
  else match l, r with
       | VMap _, VNumber => ([], OBuiltin RIndexBuiltin)    (* the n-th entry of a map *)
       | _, _ => ([], OErr EString)
       end.

Definition spec_index_assign (o : oracle) (l r : kind) : action :=
  match l with
  | VList => match r with VNumber | VRange => ([], OBuiltin RIndexAssignBuiltin) | _ => ([], OErr EType) end
  | _ =>
      if implements k_index_assign l then as_effect l (ask o L k_index_assign l WL [WR; WVal])
      else ([], OErr (if is_host l then EUnimplObj else EType))
  end.

Definition spec_access_assign (o : oracle) (l : kind) : action :=
  if implements k_access_assign l then as_effect l (ask o L k_access_assign l WL [WKey; WVal])
  else if is_koto_map l then ([], OBuiltin RMapInsert)
  else ([], OErr (if is_host l then EUnimplObj else EType)).

Definition spec (o : oracle) (p : op) (l r : kind) : action :=
  match p with
  | OpArith a => spec_arith o a l r
  | OpAssign a => spec_assign o a l r
  | OpCmp c => spec_cmp o c l r
  | OpUnary u => spec_unary o u l r
  | OpIndex => spec_index o l r
  | OpIndexAssign => spec_index_assign o l r
  | OpAccessAssign => spec_access_assign o l
  end.

(* The one place where the code (and the faithful model) does not do what the guide says:
   `for v in x` when x's @iterator returns an iterable that is not already an iterator. *)
Definition known_c17a (o : oracle) (p : op) (l : kind) : bool :=
  match p, l with
  | OpUnary UFor, VMap ks =>
      negb (has k_next ks) && has k_iterator ks &&
      match o L k_iterator with FSeq => true | _ => false end
  | _, _ => false
  end.

(* ------------------------------------------------------------------ `.` access *)

(* the guide: data entries, then `@meta` entries, then the same in the @base value, and so on;
   the first hit wins.  levels = the chain flattened top first. *)
Fixpoint levels (m : mobj) : list (list string * list string) :=
  match m with
  | MPlain data => [(data, [])]
  | MEnd data _ named _ | MBadBase data _ named _ => [(data, named)]
  | MBase data _ named _ base => (data, named) :: levels base
  end.

Fixpoint first_hit (key : string) (ls : list (list string * list string)) (d : nat) : option (nat * place) :=
  match ls with
  | [] => None
  | (data, named) :: rest =>
      if smem key data then Some (d, InData)
      else if smem key named then Some (d, InNamed)
      else first_hit key rest (S d)
  end.

(* how the chain ends when the key is nowhere: in a map without metamap, at a non-map @base, or
   at a map whose metamap has no @base *)
Fixpoint chain_end (m : mobj) : chain_res :=
  match m with
  | MPlain _ => CCoreMap
  | MEnd _ _ _ _ => CBreak
  | MBadBase _ _ _ _ => CBaseType
  | MBase _ _ _ _ base => chain_end base
  end.

Definition spec_chain (key : string) (m : mobj) : chain_res :=
  match first_hit key (levels m) 0 with
  | Some (d, w) => CFound d w
  | None => chain_end m
  end.

(* ------------------------------------------------------------------ errors of user functions *)

(* "uses its result": when a user function fails, the operation fails with THAT error, nothing
   else runs afterwards, and the error goes to the caller of the operation (the innermost
   enclosing catch).  Host methods returning Option (size, iterator_next[_back]) cannot fail.
   Two places re-raise the failure as a plain runtime error string: a for loop's @next, and
   display() running inside another display (objects; @display standing in for @debug). *)
Definition err_of (o : oracle) (e : event) : option errkind :=
  match o (ev_owner e) (ev_key e) with FErr ek => Some ek | _ => None end.

Definition infallible_host_site (l : kind) (e : event) : bool :=
  is_host l && (metakey_eqb (ev_key e) k_next || metakey_eqb (ev_key e) k_next_back || metakey_eqb (ev_key e) k_size).

Definition rewrap_site (p : op) (l : kind) (e : event) : bool :=
  match p with
  | OpUnary UFor => metakey_eqb (ev_key e) k_next
  | OpUnary UDbg => metakey_eqb (ev_key e) k_display
  | OpUnary UDisp => is_host l && metakey_eqb (ev_key e) k_display
  | _ => false
  end.

Definition errc_is (x : outcome) (ek : errkind) : bool :=
  match x, ek with OErr (EUser Thrown), Thrown | OErr (EUser Runtime), Runtime => true | _, _ => false end.
Definition is_estring (x : outcome) : bool := match x with OErr EString => true | _ => false end.

Fixpoint errors_delivered (o : oracle) (p : op) (l : kind) (evs : list event) (out : outcome) : bool :=
  match evs with
  | [] => true
  | e :: rest =>
      match err_of o e with
      | Some ek =>
          infallible_host_site l e
          || (match rest with [] => true | _ => false end
              && (errc_is out ek || (rewrap_site p l e && is_estring out)))
      | None => true
      end && errors_delivered o p l rest out
  end.
