(* encoders for the correspondence check: everything becomes nested lists of N *)
From Coq Require Import List Bool String NArith.
From KV.obj Require Import GenMeta ObjModel.
Import ListNotations.
Open Scope N_scope.

Fixpoint index_of (k : metakey) (l : list metakey) (i : N) : N :=
  match l with
  | [] => 999
  | x :: rest => if metakey_eqb k x then i else index_of k rest (i + 1)
  end.
Definition key_index (k : metakey) : N := index_of k op_metakeys 0.

Definition side_n (s : side) : N := match s with L => 0 | R => 1 end.
Definition who_n (w : who) : N := match w with WL => 0 | WR => 1 | WKey => 2 | WVal => 3 end.

Definition enc_event (e : event) : list N :=
  side_n (ev_owner e) :: key_index (ev_key e) :: who_n (ev_self e) :: map who_n (ev_args e).

Definition rule_n (r : rule) : N :=
  match r with
  | RNum => 0 | RStr => 1 | RListConcat => 2 | RTupleConcat => 3 | RMapUnion => 4
  | REqPrim => 5 | REqSeq => 6 | REqMap => 7 | REqFn => 8 | RNegNum => 9
  | RSizeBuiltin => 10 | RIndexBuiltin => 11 | RIndexAssignBuiltin => 12 | RMapInsert => 13
  | RCallFunction => 14 | RIterBuiltin => 15 | RIterOnce => 16 | RDisplayBuiltin => 17
  end.

Definition errc_n (e : errc) : N :=
  match e with
  | EBinaryOp => 0 | EUnimplObj => 1 | EThrownUnimpl => 2 | EUser Thrown => 3 | EType => 4 | EString => 5 | EUser Runtime => 6
  end.

Definition enc_outcome (x : outcome) : list N :=
  match x with
  | OFn s k => [0; side_n s; key_index k]
  | OBool b => [1; if b then 1 else 0]
  | OLhs => [2]
  | OIter n None => [3; n]
  | OIter n (Some (s, k)) => [3; n; side_n s; key_index k]
  | OBuiltin r => [4; rule_n r]
  | OConst b => [5; if b then 1 else 0]
  | OErr e => [6; errc_n e]
  end.

Definition enc_action (a : action) : list (list N) * list N :=
  (map enc_event (fst a), enc_outcome (snd a)).

(* an oracle given as an association list; functions not listed return their tagged value *)
Definition side_eqb (a b : side) : bool :=
  match a, b with L, L | R, R => true | _, _ => false end.

Fixpoint mk_oracle (l : list (side * metakey * fres)) : oracle :=
  fun s k =>
    match l with
    | [] => FVal
    | (s', k', r) :: rest => if side_eqb s s' && metakey_eqb k k' then r else mk_oracle rest s k
    end.

(* (events, outcome, frames left behind) *)
Definition run_case (p : op) (l r : kind) (o : list (side * metakey * fres)) :=
  (enc_action (dispatch (mk_oracle o) p l r), N.of_nat (leftover_frames (mk_oracle o) p l r)).

(* `.` access *)
Definition enc_access (a : access_res) : list N :=
  match a with
  | AAccessFn => [0]
  | AFound d InData => [1; N.of_nat d; 0]
  | AFound d InNamed => [1; N.of_nat d; 1]
  | ACoreMap => [2]
  | ACoreIter => [3]
  | ANotFound => [4]
  | ABaseType => [5]
  end.

Definition run_access_case (in_map in_iter : bool) (key : string) (m : mobj) : list N :=
  enc_access (run_access true (fun _ => in_map) (fun _ => in_iter) key m).
