(* C17 -- proofs *)
From Coq Require Import List Bool String Ascii NArith Arith Lia.
From KV.obj Require Import GenMeta ObjModel ObjSpec.
Import ListNotations.

(* ------------------------------------------------------------------ decidable equalities *)

Definition binop_eq_dec (a b : binop) : {a = b} + {a <> b}. Proof. decide equality. Defined.
Definition unop_eq_dec (a b : unop) : {a = b} + {a <> b}. Proof. decide equality. Defined.
Definition readop_eq_dec (a b : readop) : {a = b} + {a <> b}. Proof. decide equality. Defined.
Definition writeop_eq_dec (a b : writeop) : {a = b} + {a <> b}. Proof. decide equality. Defined.
Definition metakey_eq_dec (a b : metakey) : {a = b} + {a <> b}.
Proof. decide equality; auto using binop_eq_dec, unop_eq_dec, readop_eq_dec, writeop_eq_dec, string_dec. Defined.
Definition side_eq_dec (a b : side) : {a = b} + {a <> b}. Proof. decide equality. Defined.
Definition who_eq_dec (a b : who) : {a = b} + {a <> b}. Proof. decide equality. Defined.
Definition event_eq_dec (a b : event) : {a = b} + {a <> b}.
Proof. decide equality; auto using metakey_eq_dec, side_eq_dec, (list_eq_dec who_eq_dec), who_eq_dec. Defined.
Definition rule_eq_dec (a b : rule) : {a = b} + {a <> b}. Proof. decide equality. Defined.
Definition errkind_eq_dec (a b : errkind) : {a = b} + {a <> b}. Proof. decide equality. Defined.
Definition errc_eq_dec (a b : errc) : {a = b} + {a <> b}. Proof. decide equality; apply errkind_eq_dec. Defined.
Definition outcome_eq_dec (a b : outcome) : {a = b} + {a <> b}.
Proof.
  decide equality; auto using metakey_eq_dec, side_eq_dec, rule_eq_dec, errc_eq_dec, bool_dec, N.eq_dec.
  decide equality. decide equality; auto using metakey_eq_dec, side_eq_dec.
Defined.
Definition action_eq_dec (a b : action) : {a = b} + {a <> b}.
Proof. decide equality; auto using outcome_eq_dec, (list_eq_dec event_eq_dec). Defined.

Definition action_eqb (a b : action) : bool := if action_eq_dec a b then true else false.
Lemma action_eqb_eq : forall a b, action_eqb a b = true -> a = b.
Proof. intros a b. unfold action_eqb. destruct (action_eq_dec a b); [auto | discriminate]. Qed.

Definition event_eqb (a b : event) : bool := if event_eq_dec a b then true else false.
Definition outcome_eqb (a b : outcome) : bool := if outcome_eq_dec a b then true else false.
Lemma outcome_eqb_eq : forall a b, outcome_eqb a b = true -> a = b.
Proof. intros a b. unfold outcome_eqb. destruct (outcome_eq_dec a b); [auto | discriminate]. Qed.

(* ------------------------------------------------------------------ finite enumerations *)

Fixpoint sublists {A} (l : list A) : list (list A) :=
  match l with
  | [] => [[]]
  | x :: rest => let s := sublists rest in s ++ map (cons x) s
  end.

(* all lists of length n over xs *)
Fixpoint lists_of {A} (n : nat) (xs : list A) : list (list A) :=
  match n with
  | O => [[]]
  | S n' => flat_map (fun x => map (cons x) (lists_of n' xs)) xs
  end.

Lemma In_lists_of : forall {A} (xs : list A) n (l : list A),
    List.length l = n -> (forall x, In x l -> In x xs) -> In l (lists_of n xs).
Proof.
  intros A xs n. induction n as [|n IH]; intros l Hl Hin.
  - destruct l; [left; reflexivity | discriminate].
  - destruct l as [|a l]; [discriminate|]. simpl. apply in_flat_map. exists a. split.
    + apply Hin. left. reflexivity.
    + apply in_map. apply IH; [simpl in Hl; lia | intros x Hx; apply Hin; right; exact Hx].
Qed.

Definition all_fres : list fres := [FBool true; FBool false; FVal; FNull; FSeq; FUnimpl; FErr Thrown; FErr Runtime].
Lemma In_all_fres : forall f, In f all_fres.
Proof. intros [[|]| | | | |[|]]; simpl; tauto. Qed.

Definition plain_kinds : list kind :=
  [VNull; VBool; VNumber; VStr; VList; VTuple; VRange; VFunction; VIterator].

(* every operand kind whose key set / method set is drawn from `keys` *)
Definition kinds_over (keys : list metakey) : list kind :=
  plain_kinds ++ map VMap (sublists keys) ++ map VObject (sublists keys).

Definition all_arith := [Add; Sub; Mul; Div; Rem; Pow].
Definition all_cmp := [Lt; Le; Gt; Ge; Eq; Ne].
Definition all_uop := [UNeg; USizeOf; UDisp; UDbg; UCallOp; UFor; UToTuple; UReversed].
Definition all_ops : list op :=
  map OpArith all_arith ++ map OpAssign all_arith ++ map OpCmp all_cmp ++ map OpUnary all_uop
  ++ [OpIndex; OpIndexAssign; OpAccessAssign].

Lemma In_all_ops : forall p, In p all_ops.
Proof.
  intros [a|a|c|u| | |]; try destruct a; try destruct c; try destruct u; vm_compute; tauto.
Qed.

(* the operand kinds swept for an operation: left operand over all subsets of the keys the
   operation inspects; right operand likewise for arithmetic, and for the other operations
   (which never look at the right operand's keys) over the subsets of the operation's own key *)
Definition lkinds (p : op) : list kind := kinds_over (inspected p).
Definition rkinds (p : op) : list kind :=
  match p with
  | OpArith _ => kinds_over (inspected p)
  | _ => kinds_over (firstn 1 (inspected p))
  end.

(* the user functions whose behaviour can matter: the lhs's functions under the inspected keys,
   and for arithmetic the rhs's @r.. function *)
Definition sites (p : op) : list (side * metakey) :=
  match p with
  | OpArith a => [(L, k_op a); (R, k_rhs a)]
  | _ => map (fun k => (L, k)) (inspected p)
  end.

Definition side_eqb (a b : side) : bool := match a, b with L, L | R, R => true | _, _ => false end.

(* the oracle giving the i-th site the i-th behaviour (every other function returns its value) *)
Fixpoint oracle_of (ss : list (side * metakey)) (fs : list fres) : oracle :=
  fun s k =>
    match ss, fs with
    | (s', k') :: ss', f :: fs' => if side_eqb s s' && metakey_eqb k k' then f else oracle_of ss' fs' s k
    | _, _ => FVal
    end.

Definition check_case (p : op) (l r : kind) (fs : list fres) : bool :=
  let o := oracle_of (sites p) fs in
  known_c17a o p l || action_eqb (dispatch o p l r) (spec o p l r).

Definition sweep (chk : op -> kind -> kind -> list fres -> bool) (p : op) : bool :=
  forallb (fun l => forallb (fun r =>
    forallb (fun fs => chk p l r fs) (lists_of (List.length (sites p)) all_fres)) (rkinds p)) (lkinds p).

Lemma sweep_lift : forall chk,
    forallb (sweep chk) all_ops = true ->
    forall p l r fs, In l (lkinds p) -> In r (rkinds p) -> List.length fs = List.length (sites p) ->
                     chk p l r fs = true.
Proof.
  intros chk H p l r fs Hl Hr Hfs.
  rewrite forallb_forall in H. specialize (H p (In_all_ops p)). unfold sweep in H.
  rewrite forallb_forall in H. specialize (H l Hl).
  rewrite forallb_forall in H. specialize (H r Hr).
  rewrite forallb_forall in H. apply H.
  apply In_lists_of; [exact Hfs | intros; apply In_all_fres].
Qed.

(* ------------------------------------------------------------------ 1. dispatch refines the spec *)

Lemma sweep_refines : forallb (sweep check_case) all_ops = true.
Proof. vm_compute. reflexivity. Qed.

Theorem dispatch_refines_spec :
  forall p l r fs,
    In l (lkinds p) -> In r (rkinds p) -> List.length fs = List.length (sites p) ->
    let o := oracle_of (sites p) fs in
    known_c17a o p l = false ->
    dispatch o p l r = spec o p l r.
Proof.
  intros p l r fs Hl Hr Hfs o Hk.
  pose proof (sweep_lift check_case sweep_refines p l r fs Hl Hr Hfs) as H.
  unfold check_case in H. fold o in H. rewrite Hk in H. simpl in H.
  apply action_eqb_eq. exact H.
Qed.

(* the faithful model really does deviate from the guide inside the class *)
Lemma c17a_refuted :
  let o := oracle_of (sites (OpUnary UFor)) [FVal; FSeq] in
  let x := VMap [k_iterator] in
  known_c17a o (OpUnary UFor) x = true /\
  dispatch o (OpUnary UFor) x VNumber = ([Ev L k_iterator WL []], OErr EType) /\
  spec o (OpUnary UFor) x VNumber = ([Ev L k_iterator WL []], OIter 2 (Some (L, k_iterator))) /\
  dispatch o (OpUnary UToTuple) x VNumber = spec o (OpUnary UFor) x VNumber.
Proof. vm_compute. repeat split. Qed.

(* ------------------------------------------------------------------ 2. rhs fallback *)

Definition rhs_event (a : arith) : event := Ev R (k_rhs a) WR [WL].
Definition lhs_event (a : arith) : event := Ev L (k_op a) WL [WR].
Definition is_unimpl (f : fres) : bool := match f with FUnimpl => true | _ => false end.
Definition is_value (f : fres) : bool := match f with FUnimpl | FErr _ => false | _ => true end.
Definition no_core (a : arith) (l r : kind) : bool := match core_arith a l r with None => true | Some _ => false end.

Definition rhs_runs (o : oracle) (a : arith) (l r : kind) : bool :=
  implements (k_rhs a) r && no_core a l r && (negb (implements (k_op a) l) || is_unimpl (o L (k_op a))).

Definition check_rhs (p : op) (l r : kind) (fs : list fres) : bool :=
  match p with
  | OpArith a =>
      let o := oracle_of (sites p) fs in
      let act := dispatch o p l r in
      Bool.eqb (existsb (event_eqb (rhs_event a)) (fst act)) (rhs_runs o a l r)
      && forallb (fun e => event_eqb e (lhs_event a) || event_eqb e (rhs_event a)) (fst act)
      && (negb (rhs_runs o a l r && is_value (o R (k_rhs a))) || outcome_eqb (snd act) (OFn R (k_rhs a)))
  | _ => true
  end.

Lemma sweep_rhs : forallb (sweep check_rhs) all_ops = true.
Proof. vm_compute. reflexivity. Qed.

Lemma event_eqb_true : forall a b, event_eqb a b = true <-> a = b.
Proof. intros a b. unfold event_eqb. destruct (event_eq_dec a b); split; intros; congruence. Qed.

Lemma existsb_event : forall e l, existsb (event_eqb e) l = true <-> In e l.
Proof.
  intros e l. rewrite existsb_exists. split.
  - intros [x [Hin Heq]]. apply event_eqb_true in Heq. subst. exact Hin.
  - intros Hin. exists e. split; [exact Hin | apply event_eqb_true; reflexivity].
Qed.

Lemma is_unimpl_true : forall f, is_unimpl f = true <-> f = FUnimpl.
Proof. intros f. destruct f; simpl; split; intros; congruence. Qed.

Lemma rhs_runs_iff : forall o a l r,
    rhs_runs o a l r = true <->
    (implements (k_rhs a) r = true /\ core_arith a l r = None /\
     (implements (k_op a) l = false \/ o L (k_op a) = FUnimpl)).
Proof.
  intros o a l r. unfold rhs_runs, no_core. rewrite !andb_true_iff, orb_true_iff, negb_true_iff, is_unimpl_true.
  destruct (core_arith a l r); intuition congruence.
Qed.

Theorem rhs_fallback_iff :
  forall a l r fs,
    In l (lkinds (OpArith a)) -> In r (rkinds (OpArith a)) -> List.length fs = 2 ->
    let o := oracle_of (sites (OpArith a)) fs in
    let act := dispatch o (OpArith a) l r in
    (* the @r.. function runs, with (self := rhs, arg := lhs), exactly when ... *)
    (In (rhs_event a) (fst act) <->
       (implements (k_rhs a) r = true /\ core_arith a l r = None /\
        (implements (k_op a) l = false \/ o L (k_op a) = FUnimpl)))
    (* no other function of either operand runs than the lhs's (self := lhs, arg := rhs) *)
    /\ (forall e, In e (fst act) -> e = lhs_event a \/ e = rhs_event a)
    (* and when it returns a value that value is the result *)
    /\ (In (rhs_event a) (fst act) -> is_value (o R (k_rhs a)) = true -> snd act = OFn R (k_rhs a)).
Proof.
  intros a l r fs Hl Hr Hfs o act.
  pose proof (sweep_lift check_rhs sweep_rhs (OpArith a) l r fs Hl Hr Hfs) as H.
  unfold check_rhs in H. fold o in H. fold act in H.
  rewrite !andb_true_iff in H. destruct H as [[H1 H2] H3].
  apply eqb_prop in H1.
  assert (Hiff : In (rhs_event a) (fst act) <-> rhs_runs o a l r = true).
  { rewrite <- existsb_event. rewrite H1. tauto. }
  split; [| split].
  - rewrite Hiff. apply rhs_runs_iff.
  - intros e He. rewrite forallb_forall in H2. specialize (H2 e He).
    apply orb_true_iff in H2. destruct H2 as [H2|H2]; apply event_eqb_true in H2; auto.
  - intros Hin Hv. apply Hiff in Hin. rewrite Hin, Hv in H3. simpl in H3. apply outcome_eqb_eq. exact H3.
Qed.

(* comparisons, compound assignments and the protocols never run a function of the rhs *)
Definition check_lhs_only (p : op) (l r : kind) (fs : list fres) : bool :=
  match p with
  | OpArith _ => true
  | _ => forallb (fun e => side_eqb (ev_owner e) L) (fst (dispatch (oracle_of (sites p) fs) p l r))
  end.

Lemma sweep_lhs_only : forallb (sweep check_lhs_only) all_ops = true.
Proof. vm_compute. reflexivity. Qed.

Theorem only_arithmetic_asks_rhs :
  forall p l r fs,
    In l (lkinds p) -> In r (rkinds p) -> List.length fs = List.length (sites p) ->
    (forall a, p <> OpArith a) ->
    forall e, In e (fst (dispatch (oracle_of (sites p) fs) p l r)) -> ev_owner e = L.
Proof.
  intros p l r fs Hl Hr Hfs Hp e He.
  pose proof (sweep_lift check_lhs_only sweep_lhs_only p l r fs Hl Hr Hfs) as H.
  destruct p; try (exfalso; eapply Hp; reflexivity);
    simpl in H; rewrite forallb_forall in H; specialize (H e He); destruct (ev_owner e); simpl in H; congruence.
Qed.

(* ------------------------------------------------------------------ 2b. errors propagate unchanged *)

Definition check_err (p : op) (l r : kind) (fs : list fres) : bool :=
  let o := oracle_of (sites p) fs in
  let act := dispatch o p l r in
  errors_delivered o p l (fst act) (snd act) && Nat.eqb (leftover_frames o p l r) 0.

Lemma sweep_err : forallb (sweep check_err) all_ops = true.
Proof. vm_compute. reflexivity. Qed.

Theorem errors_propagate_unchanged :
  forall p l r fs,
    In l (lkinds p) -> In r (rkinds p) -> List.length fs = List.length (sites p) ->
    let o := oracle_of (sites p) fs in
    errors_delivered o p l (fst (dispatch o p l r)) (snd (dispatch o p l r)) = true.
Proof.
  intros p l r fs Hl Hr Hfs o.
  pose proof (sweep_lift check_err sweep_err p l r fs Hl Hr Hfs) as H.
  unfold check_err in H. fold o in H. apply andb_true_iff in H. tauto.
Qed.

(* for EVERY oracle and operand: no run-now call leaves its frame behind, whatever the error *)
Lemma barrier_never_left : forall r, barrier_cleanup r <> LeftBehind.
Proof. intros [b| | | | |ek]; simpl; discriminate. Qed.

Theorem no_frame_left_behind : forall o p l r, leftover_frames o p l r = 0.
Proof.
  intros o p l r. unfold leftover_frames.
  induction (fst (dispatch o p l r)) as [|e rest IH]; [reflexivity|].
  simpl. destruct (o (ev_owner e) (ev_key e)) as [b| | | | |ek]; simpl; rewrite ?andb_false_r; exact IH.
Qed.

(* ------------------------------------------------------------------ 3. derived comparisons *)

Definition cmp_event (k : metakey) : event := Ev L k WL [WR].

Ltac cmp_crush :=
  unfold dispatch, run_cmp, ordering_arms, equality_arms, own_cmp_arm, obj_cmp_arm, lt_eq_present,
         same_prim, both, lhs, rhs, const, bres_out, bres_not, less_or_equal_calls, map_call_bool;
  cbn [first_arm app is_num is_str is_null is_bool is_range is_list is_tuple is_map is_obj is_fn map_has
       andb orb negb fst snd].

Theorem derived_comparisons :
  forall (o : oracle) (ks : keyset) (r : kind) (lt eq : bool),
    has k_less ks = true -> has k_equal ks = true ->
    o L k_less = FBool lt -> o L k_equal = FBool eq ->
    (has (k_cmp Le) ks = false ->
       dispatch o (OpCmp Le) (VMap ks) r
       = (cmp_event k_less :: (if lt then [] else [cmp_event k_equal]), OBool (lt || eq)))
    /\ (has (k_cmp Gt) ks = false ->
       dispatch o (OpCmp Gt) (VMap ks) r
       = (cmp_event k_less :: (if lt then [] else [cmp_event k_equal]), OBool (negb (lt || eq))))
    /\ (has (k_cmp Ge) ks = false ->
       dispatch o (OpCmp Ge) (VMap ks) r = ([cmp_event k_less], OBool (negb lt)))
    /\ (has (k_cmp Ne) ks = false -> is_null r = false ->
       dispatch o (OpCmp Ne) (VMap ks) r = ([cmp_event k_equal], OBool (negb eq))).
Proof.
  intros o ks r lt eq Hlt Heq Holt Hoeq.
  repeat split; intros Hown; try intros Hnull; cmp_crush.
  - rewrite Hown, Hlt, Heq, Holt, Hoeq. destruct lt, eq; reflexivity.
  - rewrite Hown, Hlt, Heq, Holt, Hoeq. destruct lt, eq; reflexivity.
  - rewrite Hown, Hlt, Holt. destruct lt; reflexivity.
  - rewrite Hnull, Hown, Heq, Hoeq. destruct eq; reflexivity.
Qed.

(* ------------------------------------------------------------------ 4. `.` access chain *)

Definition shift (n : nat) (c : chain_res) : chain_res :=
  match c with CFound d w => CFound (n + d) w | other => other end.

Lemma first_hit_shift : forall key ls d,
    first_hit key ls (S d) = option_map (fun x => (S (fst x), snd x)) (first_hit key ls d).
Proof.
  intros key ls. induction ls as [|[data named] rest IH]; intros d; simpl; [reflexivity|].
  destruct (smem key data); [reflexivity|]. destruct (smem key named); [reflexivity|]. apply IH.
Qed.

Lemma chain_lookup_spec : forall key m d,
    chain_lookup key m d =
    match first_hit key (levels m) d with Some (d', w) => CFound d' w | None => chain_end m end.
Proof.
  intros key m. induction m as [data|data acc named it|data acc named it|data acc named it base IH]; intros d; simpl.
  - destruct (smem key data); reflexivity.
  - destruct (smem key data); [reflexivity|]. destruct (smem key named); reflexivity.
  - destruct (smem key data); [reflexivity|]. destruct (smem key named); reflexivity.
  - destruct (smem key data); [reflexivity|]. destruct (smem key named); [reflexivity|]. apply IH.
Qed.

(* data -> @meta entries -> the same in @base, depth first, first hit wins: for chains of ANY length *)
Theorem access_chain_order : forall key m, chain_lookup key m 0 = spec_chain key m.
Proof. intros. unfold spec_chain. apply chain_lookup_spec. Qed.

(* the first hit really is the first: nothing above it holds the key, and data beats @meta *)
Lemma first_hit_sound : forall key ls d0 d w,
    first_hit key ls d0 = Some (d, w) ->
    d0 <= d /\
    exists data named, nth_error ls (d - d0) = Some (data, named) /\
      (forall i data' named', i < d - d0 -> nth_error ls i = Some (data', named') ->
                              smem key data' = false /\ smem key named' = false) /\
      match w with InData => smem key data = true
                 | InNamed => smem key data = false /\ smem key named = true end.
Proof.
  intros key ls. induction ls as [|[data named] rest IH]; intros d0 d w H; simpl in H; [discriminate|].
  destruct (smem key data) eqn:Ed.
  - inversion H; subst. split; [lia|]. rewrite Nat.sub_diag. exists data, named. simpl.
    split; [reflexivity|]. split; [intros; lia | exact Ed].
  - destruct (smem key named) eqn:En.
    + inversion H; subst. split; [lia|]. rewrite Nat.sub_diag. exists data, named. simpl.
      split; [reflexivity|]. split; [intros; lia | split; assumption].
    + apply IH in H. destruct H as [Hle [data1 [named1 [Hn [Hbefore Hw]]]]].
      split; [lia|]. exists data1, named1.
      replace (d - d0) with (S (d - S d0)) by lia. simpl.
      split; [exact Hn|]. split; [| exact Hw].
      intros i data' named' Hi Hnth. destruct i as [|i]; simpl in Hnth.
      * inversion Hnth; subst. split; assumption.
      * eapply Hbefore; [| exact Hnth]. lia.
Qed.

(* @access, when present on the accessed map itself, pre-empts the whole chain *)
Theorem access_override_first : forall eif im ii key m,
    top_has_access m = true -> run_access eif im ii key m = AAccessFn.
Proof. intros. unfold run_access. rewrite H. reflexivity. Qed.

Theorem access_found_wins : forall eif im ii key m d w,
    top_has_access m = false -> spec_chain key m = CFound d w ->
    run_access eif im ii key m = AFound d w.
Proof. intros. unfold run_access. rewrite H, access_chain_order, H0. reflexivity. Qed.

(* @access takes precedence over the iterator-module fallback (and over @next / @iterator), for
   EVERY key set and oracle: x.to_tuple() / x.reversed() run @access with (self, key) and nothing else *)
Theorem access_override_precedes_iterator_fallback :
  forall (o : oracle) (ks : keyset) (u : uop) (r : kind),
    u = UToTuple \/ u = UReversed ->
    has k_access ks = true ->
    fst (dispatch o (OpUnary u) (VMap ks) r) = [Ev L k_access WL [WKey]]
    /\ forall k, dispatch o (OpUnary u) (VMap ks) r <> ([Ev L k WL []], OIter 2 (Some (L, k))).
Proof.
  intros o ks u r Hu Hacc.
  assert (Hne : ks <> []) by (intro; subst; discriminate).
  destruct ks as [|k0 ks']; [congruence|].
  destruct Hu; subst; unfold dispatch, run_unary, run_to_tuple, run_reversed; rewrite Hacc;
    unfold access_override_call; split; try reflexivity; intros k; destruct (o L k_access); discriminate.
Qed.

(* ------------------------------------------------------------------ 5. shared metamaps *)

Lemma kind_of_with_meta : forall h d m, kind_of h (with_meta d m) = kind_of h m.
Proof. reflexivity. Qed.

Lemma kind_of_own_copy : forall h d m,
    kind_of (fst (own_copy h d m)) (snd (own_copy h d m)) = kind_of h m.
Proof.
  intros h d m. unfold own_copy, kind_of, meta_entries. simpl.
  rewrite app_nth2 by lia. rewrite Nat.sub_diag. reflexivity.
Qed.

Lemma heap_insert_nth : forall h p k, p < List.length h -> nth p (heap_insert h p k) [] = k :: nth p h [].
Proof.
  induction h as [|ks rest IH]; intros p k Hp; simpl in Hp; [lia|].
  destruct p; simpl; [reflexivity|]. apply IH. lia.
Qed.

(* a map built with `with_meta m` dispatches exactly like a map owning a copy of m's entries, for
   every operation, oracle and other operand, on either side -- and it sees later insertions *)
Theorem shared_meta_equiv :
  forall (h : heap) (d m : kmap),
    (forall o p x, dispatch o p (kind_of h (with_meta d m)) x
                   = dispatch o p (kind_of (fst (own_copy h d m)) (snd (own_copy h d m))) x)
    /\ (forall o p x, dispatch o p x (kind_of h (with_meta d m))
                      = dispatch o p x (kind_of (fst (own_copy h d m)) (snd (own_copy h d m))))
    /\ (forall ptr k, km_meta m = Some ptr -> ptr < List.length h ->
          kind_of (heap_insert h ptr k) (with_meta d m) = VMap (k :: meta_entries h m)
          /\ kind_of (heap_insert h ptr k) (with_meta d m) = kind_of (heap_insert h ptr k) m).
Proof.
  intros h d m. repeat split; intros.
  - rewrite kind_of_own_copy, kind_of_with_meta. reflexivity.
  - rewrite kind_of_own_copy, kind_of_with_meta. reflexivity.
  - unfold kind_of, meta_entries, with_meta. simpl. rewrite H. rewrite heap_insert_nth by assumption. reflexivity.
Qed.

(* ------------------------------------------------------------------ 6. host objects: unimplemented is an error *)

(* operations for which "not overridden" has to surface as an error (display falls back to the
   type name and a for loop iterates a non-iterable value once: those two are documented defaults) *)
Definition strict (p : op) : bool :=
  match p with
  | OpUnary UDisp | OpUnary UDbg | OpUnary UFor => false
  | _ => true
  end.

(* the right operand cannot take over: no @r.. for arithmetic; `== null` is decided built-in *)
Definition rhs_cannot_help (p : op) (r : kind) : bool :=
  match p with
  | OpArith a => negb (implements (k_rhs a) r)
  | OpCmp Eq | OpCmp Ne => negb (is_null r)
  | _ => true
  end.

Ltac obj_crush :=
  unfold dispatch, run_arith, run_assign, run_cmp, run_unary, run_index, run_index_assign, run_access_assign,
         arith_arms, assign_arms, ordering_arms, equality_arms, own_cmp_arm, obj_cmp_arm, lt_eq_present, same_prim,
         both, lhs, rhs, const, run_negate, run_size, run_call, run_to_tuple, run_reversed,
         bres_out, bres_not, less_or_equal_calls, obj_cmp, obj_call_bool, obj_call_value,
         lhs_obj_arith, rhs_fallback, rhs_obj_call, obj_call;
  cbn [first_arm app is_num is_str is_null is_bool is_range is_list is_tuple is_map is_obj is_fn is_add map_has
       keys_of andb orb negb fst snd k_cmp k_op k_rhs k_assign].

Theorem object_unimplemented_is_error :
  forall (o : oracle) (p : op) (hs : keyset) (r : kind),
    strict p = true ->
    (forall k, In k (inspected p) -> has k hs = false) ->
    rhs_cannot_help p r = true ->
    exists e, dispatch o p (VObject hs) r = ([], OErr e).
Proof.
  intros o p hs r Hs Hk Hr.
  destruct p as [a|a|c|u| | |].
  - (* arithmetic *)
    assert (H1 : has (k_op a) hs = false) by (apply Hk; simpl; tauto).
    simpl in Hr. apply negb_true_iff in Hr.
    destruct a; obj_crush; cbn in H1; rewrite H1;
      destruct r as [| | | | | | | | |ks|hs']; cbn in Hr |- *; try rewrite Hr; eauto.
  - (* compound assignment *)
    assert (H1 : has (k_assign a) hs = false) by (apply Hk; simpl; tauto).
    destruct a; obj_crush; cbn in H1; rewrite H1; eauto.
  - (* comparisons *)
    destruct c; simpl in Hr;
      try (assert (H1 : has k_less hs = false) by (apply Hk; simpl; tauto));
      try (assert (H2 : has k_equal hs = false) by (apply Hk; simpl; tauto));
      try (assert (H3 : has (MBinaryOp BLessOrEqual) hs = false) by (apply Hk; simpl; tauto));
      try (assert (H4 : has (MBinaryOp BGreater) hs = false) by (apply Hk; simpl; tauto));
      try (assert (H5 : has (MBinaryOp BGreaterOrEqual) hs = false) by (apply Hk; simpl; tauto));
      try (assert (H6 : has (MBinaryOp BNotEqual) hs = false) by (apply Hk; simpl; tauto));
      try apply negb_true_iff in Hr;
      obj_crush; unfold k_cmp, k_less, k_equal in *;
      repeat match goal with H : has _ hs = false |- _ => rewrite H end;
      try rewrite Hr; cbn; eauto.
  - (* protocols *)
    destruct u; try discriminate Hs;
      try (assert (H1 : has k_negate hs = false) by (apply Hk; simpl; tauto));
      try (assert (H1 : has k_size hs = false) by (apply Hk; simpl; tauto));
      try (assert (H1 : has MCall hs = false) by (apply Hk; simpl; tauto));
      try (assert (H1 : has k_next hs = false) by (apply Hk; simpl; tauto));
      try (assert (H2 : has k_iterator hs = false) by (apply Hk; simpl; tauto));
      obj_crush;
      repeat match goal with H : has _ hs = false |- _ => rewrite H end; cbn; eauto.
  - assert (H1 : has k_index hs = false) by (apply Hk; simpl; tauto).
    obj_crush. rewrite H1. eauto.
  - assert (H1 : has k_index_assign hs = false) by (apply Hk; simpl; tauto).
    obj_crush. rewrite H1. eauto.
  - assert (H1 : has k_access_assign hs = false) by (apply Hk; simpl; tauto).
    obj_crush. rewrite H1. eauto.
Qed.

(* ------------------------------------------------------------------ 7. the generated key tables *)

Definition inspected_anywhere : list metakey := flat_map inspected all_ops ++ [k_access].

Definition count_spelling (k : metakey) : nat :=
  List.length (filter (fun row => metakey_eqb k (snd row)) spelling).

Fixpoint nodup_str (l : list string) : bool :=
  match l with
  | [] => true
  | x :: rest => negb (existsb (String.eqb x) rest) && nodup_str rest
  end.

(* every operator metakey of meta_map.rs is looked at by some operation of the model (and, by
   typing, the model looks at no key that does not exist); every one has exactly one source
   spelling in the parser's table, no spelling is used twice, and all start with '@' *)
Definition keys_complete : bool :=
  forallb (fun k => has k inspected_anywhere) op_metakeys
  && forallb (fun k => has k op_metakeys) inspected_anywhere
  && forallb (fun k => Nat.eqb (count_spelling k) 1) op_metakeys
  && nodup_str (map (fun row => snd (fst row)) spelling)
  && forallb (fun row => match snd (fst row) with String "@"%char _ => true | _ => false end) spelling
  && Nat.eqb (List.length spelling) (List.length op_metakeys).

Theorem dispatch_keys_complete : keys_complete = true.
Proof. vm_compute. reflexivity. Qed.
