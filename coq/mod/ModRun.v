(* Encoders for the correspondence check: a history of host steps on one runtime is turned
   into one flat list of numbers per step:
     [class; #stdout events; events...; host exports map]
   class: 0 Ok, 1 ECycle, 2 ENoModule, 3 EThrow, 4 ENotFound, 5 EType, 6 EOutside, 8 ECompile
   event: 0 m (marker) | 1 <value> (shown value)
   value: 0 n | 1 #entries (k <value>)* | 2 n (string naming n) | 3 n (prelude entry) | 9 (depth cut) *)
From KV.mod Require Import ModModel.
Open Scope N_scope.

Definition enc_err (e : err) : N :=
  match e with ECycle => 1 | ENoModule => 2 | EThrow => 3 | ENotFound => 4 | EType => 5 | EOutside => 6 | ECompile => 8 end.

Fixpoint enc_value (fuel : nat) (h : list (N * mobj)) (v : value) : list N :=
  match v with
  | VInt n => [0; n]
  | VName n => [2; n]
  | VPre n => [3; n]
  | VMod id =>
      match fuel with
      | O => [9]
      | S f =>
          let es := m_data (heap_get id h) in
          1 :: N.of_nat (length es) :: flat_map (fun kv => fst kv :: enc_value f h (snd kv)) es
      end
  end.

Definition is_stdout (e : event) : bool := match e with EvMark _ | EvShow _ => true | _ => false end.

Definition enc_event (h : list (N * mobj)) (e : event) : list N :=
  match e with
  | EvMark m => [0; m]
  | EvShow v => 1 :: enc_value 10 h v
  | _ => []
  end.

Definition enc_step (before : st) (r : res unit) (after : st) : list N :=
  let em := skipn (length (trace before)) (trace after) in
  let out := filter is_stdout em in
  (match r with Ok _ => 0 | Err e => enc_err e end)
    :: N.of_nat (length out)
    :: flat_map (enc_event (heap after)) out
    ++ enc_value 10 (heap after) (VMod (exports after)).

Fixpoint run_history (C : cfg) (fuel : nat) (hs : list hstep) (s : st) : list (list N) :=
  match hs with
  | [] => []
  | h :: r =>
      match host_step C fuel h s with
      | None => [[99]]
      | Some (x, s1) => enc_step s x s1 :: run_history C fuel r s1
      end
  end.

Definition run_case (C : cfg) (hs : list hstep) : list (list N) :=
  run_history C (S (S (length (files C)))) hs init_st.
