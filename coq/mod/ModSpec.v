(* What C18 says, independent of how run_import works: properties of traces, caches and exports. *)
From KV.mod Require Import ModModel.
Open Scope N_scope.

(* run-once: after a module has loaded successfully its chunk is never run again *)
Definition never_reruns (tr : list event) : Prop :=
  forall p t1 t2, tr = t1 ++ EvLoaded p :: t2 -> ~ In (EvRun p) t2.

(* a module loads successfully at most once *)
Fixpoint count_loaded (p : path) (tr : list event) : nat :=
  match tr with
  | [] => O
  | EvLoaded q :: r => if path_eqb q p then S (count_loaded p r) else count_loaded p r
  | _ :: r => count_loaded p r
  end.

(* no import-in-progress placeholder is left in the module cache *)
Definition no_placeholder (s : st) : Prop := forall p, mc_get p (mcache s) <> Some None.

(* the documented resolution rule *)
Inductive resolves (C : cfg) (d : dir) (n : name) : path -> Prop :=
| res_file : file_exists C (d, n) = true -> resolves C d n (d, n)
| res_dir : file_exists C (d, n) = false -> file_exists C (d ++ [n], MAIN) = true -> resolves C d n (d ++ [n], MAIN).

(* the file at p does not compile *)
Definition file_broken (C : cfg) (p : path) : bool :=
  broken (match file_get p (files C) with Some b => b | None => [] end).

(* the exported value of k in the active exports map *)
Definition exported (s : st) (k : name) : option value := al_get k (m_data (cur_obj s)).

(* scripts for which `top_level_export_final` is claimed: no import binds a name different from
   the id it exports (finding C18a), no wildcard import (finding C18b) *)
Definition plain_item (it : item) : bool :=
  match it with
  | Import (ImpMod m (Some a)) => a =? m
  | Import (ImpFrom _ its) => forallb (fun ka => match snd ka with Some a => a =? fst ka | None => true end) its
  | Import (ImpAll _) => false
  | TryImport _ _ _ => false
  | _ => true
  end.
Definition plain_script (its : list item) : bool := forallb plain_item its.

(* no `export k = ...` among the items *)
Definition no_export_item (k : name) (it : item) : bool :=
  match it with Export j _ => negb (j =? k) | _ => true end.
Definition no_export (k : name) (its : list item) : bool := forallb (no_export_item k) its.

(* every assigned top-level name is exported with the value the local holds *)
Definition locals_exported (f : frame) (s : st) : Prop :=
  forall k v, al_get k (locals f) = Some v -> exported s k = Some v.

(* the first binding found, in the documented order *)
Fixpoint first_some {A} (l : list (option A)) : option A :=
  match l with
  | [] => None
  | Some a :: _ => Some a
  | None :: r => first_some r
  end.
