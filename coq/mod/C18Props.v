(* C18 — Modules: exports, imports and caching behave as documented.
   ONLY the pinned statements live here; every proof is `exact <lemma of ModProofs>`.
   They quantify over ALL configurations C (finite module graph on disk, prelude names,
   run_import_tests), all fuel values (all claims are about runs that return), all frames and
   all histories of host scripts without clear_module_cache. *)
From KV.mod Require Import ModModel ModSpec ModProofs ModRun.
Open Scope N_scope.

(* 1. run-once: in the trace of any history on a fresh runtime, once a module has loaded
      (EvLoaded p: its top level, then its tests, then @main succeeded and its exports were cached)
      its chunk never runs again *)
Theorem run_once : forall C fuel hs rs s',
    no_clear hs = true -> host_history C fuel hs init_st = Some (rs, s') -> never_reruns (trace s').
Proof. exact T_run_once. Qed.
Print Assumptions run_once.

(* ... and, from any well-formed state: a cached module stays cached with the same exports map and
   never runs, whatever the later history is *)
Theorem loaded_never_runs_again : forall C fuel hs s rs s' p id,
    no_clear hs = true -> WF s -> mc_get p (mcache s) = Some (Some id) ->
    host_history C fuel hs s = Some (rs, s') ->
    mc_get p (mcache s') = Some (Some id) /\ exists em, trace s' = trace s ++ em /\ ~ In (EvRun p) em.
Proof. exact T_loaded_never_runs_again. Qed.
Print Assumptions loaded_never_runs_again.

(* 2. import cycles: reaching a module whose import is in progress is the error "recursive import",
      with nothing changed but the loader's chunk cache; while the placeholder is there the module's
      chunk is never entered; no placeholder survives the outermost import *)
Theorem cycle_is_error : forall C rec f nm all s p,
    file_broken C p = false ->
    non_local C s f nm = None -> find_module C nm (fdir f) = Some p -> mc_get p (mcache s) = Some None ->
    exists s', run_import C rec f nm all s = Some (Err ECycle, s') /\
               mcache s' = mcache s /\ trace s' = trace s /\ heap s' = heap s /\ exports s' = exports s.
Proof. exact T_cycle_is_error. Qed.
Print Assumptions cycle_is_error.

Theorem in_progress_never_reenters : forall C fuel f nm all s r s' p,
    WF s -> mc_get p (mcache s) = Some None -> imp C fuel f nm all s = Some (r, s') ->
    mc_get p (mcache s') = Some None /\ exists em, trace s' = trace s ++ em /\ ~ In (EvRun p) em.
Proof. exact T_in_progress_never_reenters. Qed.
Print Assumptions in_progress_never_reenters.

Theorem no_placeholder_leak : forall C fuel hs s rs s',
    no_clear hs = true -> WF s -> no_placeholder s ->
    host_history C fuel hs s = Some (rs, s') -> no_placeholder s'.
Proof. exact T_no_placeholder_leak. Qed.
Print Assumptions no_placeholder_leak.

(* 3. a failed import leaves nothing behind: the importer's exports map (pointer and contents) is
      the one it had, the set of placeholders is unchanged, and the module cache is the old one plus
      the modules that completed during the import *)
Theorem failed_import_rolls_back : forall C fuel f nm all s e s',
    WF s -> imp C fuel f nm all s = Some (Err e, s') ->
    exports s' = exports s /\ cur_obj s' = cur_obj s /\
    (forall p, mc_get p (mcache s') = Some None <-> mc_get p (mcache s) = Some None) /\
    exists em, trace s' = trace s ++ em /\
      forall q, mc_get q (mcache s') = mc_get q (mcache s) \/
                (mc_get q (mcache s) = None /\ exists id, mc_get q (mcache s') = Some (Some id) /\ In (EvLoaded q) em).
Proof. exact T_failed_import_rolls_back. Qed.
Print Assumptions failed_import_rolls_back.

(* ... and a module whose chunk ran but which did not load is not cached, so that the next import
   resolving to it runs its chunk again (first thing) *)
Theorem reimport_after_failure_runs_again : forall C fuel f nm all s r s1 em p,
    WF s -> imp C fuel f nm all s = Some (r, s1) -> trace s1 = trace s ++ em ->
    In (EvRun p) em -> ~ In (EvLoaded p) em -> file_broken C p = false ->
    mc_get p (mcache s1) = None /\
    forall fuel2 f2 nm2 all2 r2 s2,
      non_local C s1 f2 nm2 = None -> find_module C nm2 (fdir f2) = Some p ->
      imp C (S fuel2) f2 nm2 all2 s1 = Some (r2, s2) -> exists em2, trace s2 = trace s1 ++ EvRun p :: em2.
Proof. exact T_reimport_after_failure_runs_again. Qed.
Print Assumptions reimport_after_failure_runs_again.

(* a failing import removes only its OWN placeholder (the statement of run_import's error branch is read
   from vm.rs into GenModPins.failure_cleanup, on which the model dispatches): modules still being
   imported keep theirs, and an import leading back to one of them is still the recursive-import error *)
Theorem failed_import_keeps_other_placeholders : forall C fuel f nm all s e s' q,
    WF s -> imp C fuel f nm all s = Some (Err e, s') ->
    mc_get q (mcache s) = Some None -> mc_get q (mcache s') = Some None.
Proof. exact T_failed_import_keeps_other_placeholders. Qed.
Print Assumptions failed_import_keeps_other_placeholders.

Theorem cycle_detected_after_failed_import : forall C fuel f nm all s e s1 q rec f2 nm2 all2,
    WF s -> imp C fuel f nm all s = Some (Err e, s1) ->
    mc_get q (mcache s) = Some None -> file_broken C q = false ->
    non_local C s1 f2 nm2 = None -> find_module C nm2 (fdir f2) = Some q ->
    exists s2, run_import C rec f2 nm2 all2 s1 = Some (Err ECycle, s2) /\ trace s2 = trace s1.
Proof. exact T_cycle_detected_after_failed_import. Qed.
Print Assumptions cycle_detected_after_failed_import.

Theorem pinned_cleanup_removes_own_placeholder : failure_cleanup = CleanupRemoveOwn.
Proof. reflexivity. Qed.
Print Assumptions pinned_cleanup_removes_own_placeholder.

(* a module file that does not compile: the import is an error, nothing runs, nothing is cached *)
Theorem compile_error_leaves_nothing : forall C rec f nm all s p,
    non_local C s f nm = None -> find_module C nm (fdir f) = Some p ->
    existsb (path_eqb p) (chunks s) = false -> file_broken C p = true ->
    run_import C rec f nm all s = Some (Err ECompile, s).
Proof. exact T_compile_error_leaves_nothing. Qed.
Print Assumptions compile_error_leaves_nothing.

(* 4. `export k = e`: k is readable by the following code and is in the exports map (which is what
      importers receive and what Koto::exports() shows for a host script) *)
Theorem export_visibility : forall C rec force k e f s f' s' v,
    eval C s f e = Ok v -> run_item C rec force f s (Export k e) = Some (Ok f', s') ->
    eval C s' f' (EVar k) = Ok v /\ exported s' k = Some v.
Proof. exact T_export_visibility. Qed.
Print Assumptions export_visibility.

(* the value of the last `export k = ...` is what the map holds when the item list has run: nested
   imports, plain assignments, tests and @main definitions after it do not touch it *)
Theorem last_export_wins : forall C fuel pre k e post f s f1 s1 v f' s',
    WF s ->
    run_items C (imp C fuel) false f s pre = Some (Ok f1, s1) -> eval C s1 f1 e = Ok v ->
    no_export k post = true ->
    run_items C (imp C fuel) false f s (pre ++ Export k e :: post) = Some (Ok f', s') ->
    exported s' k = Some v.
Proof. exact T_last_export_wins. Qed.
Print Assumptions last_export_wins.

Theorem reassign_not_export : forall C rec k e f s f' s',
    run_item C rec false f s (Assign k e) = Some (Ok f', s') -> s' = s.
Proof. exact T_reassign_not_export. Qed.
Print Assumptions reassign_not_export.

(* 5. resolution: <dir>/<name>.koto before <dir>/<name>/main.koto, relative to the importing file;
      identifiers: assigned local, wildcard imports (newest first), module exports, prelude *)
Theorem resolution_order : forall C n d p, find_module C n d = Some p <-> resolves C d n p.
Proof. exact T_resolution_order. Qed.
Print Assumptions resolution_order.

Theorem non_local_order : forall C s f k,
    eval C s f (EVar k) =
    match first_some [al_get k (locals f);
                      wild_find s k (rev (wild f));
                      al_get k (m_data (heap_get (fexports f) (heap s)));
                      (if in_prelude C k then Some (VPre k) else None)] with
    | Some v => Ok v
    | None => Err ENotFound
    end.
Proof. exact T_non_local_order. Qed.
Print Assumptions non_local_order.

Theorem newest_wildcard_wins : forall s k older w newer v,
    wild_get s k w = Some v -> (forall w', In w' newer -> wild_get s k w' = None) ->
    wild_find s k (rev (older ++ w :: newer)) = Some v.
Proof. exact wild_find_newest. Qed.
Print Assumptions newest_wildcard_wins.

(* 6. export_top_level_ids: after a successful host script every top-level name is in the exports map
      with the value the name has at the end — for scripts outside the classes C18a (import ... as
      another name), C18b (wildcard import), and without try-import *)
Theorem top_level_export_final : forall C fuel d its s f' s',
    WF s -> plain_script its = true ->
    run_items C (imp C fuel) true (new_frame (exports s) d) s its = Some (Ok f', s') ->
    locals_exported f' s'.
Proof. exact T_top_level_export_final. Qed.
Print Assumptions top_level_export_final.

(* the same statement under the name used for the scenario class "every assignment form in export mode":
   after a chunk compiled with export_top_level_ids has run, exports(x) = the value the top-level local x
   holds, for every x assigned by `=`, `+=`, `export` or an un-aliased import *)
Theorem exports_track_final_values : forall C fuel d its s f' s',
    WF s -> plain_script its = true ->
    run_items C (imp C fuel) true (new_frame (exports s) d) s its = Some (Ok f', s') ->
    forall x v, al_get x (locals f') = Some v -> exported s' x = Some v.
Proof. exact T_top_level_export_final. Qed.
Print Assumptions exports_track_final_values.

(* a compound assignment exports its result whether the id is a local of the chunk or comes from an
   earlier chunk, and updates the local when there is one *)
Theorem compound_assign_exports : forall C rec k e f s f' s' a b,
    load_id C s f k = Ok (VInt a) -> eval C s f e = Ok (VInt b) ->
    run_item C rec true f s (AssignOp k e) = Some (Ok f', s') ->
    exported s' k = Some (VInt (a + b)) /\
    (al_get k (locals f) <> None -> al_get k (locals f') = Some (VInt (a + b))).
Proof. exact T_compound_assign_exports. Qed.
Print Assumptions compound_assign_exports.

(* x = 1; x += 1 in one chunk, then x += 5 in the next: exports hold 2, then 7 *)
Example compound_same_and_later_chunk : exists s',
    host_history {| files := []; prelude := []; run_import_tests := true |} 3 [HRun true [] [Assign 10 (ELit 1); AssignOp 10 (ELit 1)]; HRun true [] [AssignOp 10 (ELit 5)]] init_st
      = Some ([Ok tt; Ok tt], s') /\ exported s' 10 = Some (VInt 7).
Proof. eexists. split; vm_compute; reflexivity. Qed.

(* ---------- non-vacuity and the excluded classes, on executable instances ---------- *)
(* module 1 (a.koto): marker, export k10 = 7; module 2 (b.koto) imports 1 and 3; 3 imports 2 (cycle) *)
Definition Cx : cfg :=
  {| files := [(([], 1), [Marker 100; Export 10 (ELit 7); Assign 10 (ELit 8); Marker 200]);
               (([], 2), [Marker 101; Import (ImpMod 1 None); Import (ImpMod 3 None); Marker 201]);
               (([], 3), [Marker 102; Import (ImpMod 2 None); Marker 202]);
               (([], 4), [Marker 103; Export 10 (ELit 2)])];
     prelude := []; run_import_tests := true |}.

Definition imp1 (n : name) := HRun false [] [Import (ImpMod n None)].

(* importing module 1 twice runs it once; the cycle 2 <-> 3 is an error both times and 2 runs again *)
Example history_runs : exists s',
    host_history Cx 6 [imp1 1; imp1 1; imp1 2; imp1 2] init_st = Some ([Ok tt; Ok tt; Err ECycle; Err ECycle], s') /\
    filter is_stdout (trace s') = [EvMark 100; EvMark 200; EvMark 101; EvMark 102; EvMark 101; EvMark 102] /\
    In (EvLoaded ([], 1)) (trace s') /\ no_placeholder s'.
Proof. eexists. split; [vm_compute; reflexivity|]. split; [vm_compute; reflexivity|]. split; [vm_compute; tauto|].
  intros p H. vm_compute in H. destruct p as [[|? ?] [|[ | | ]]]; try discriminate; repeat (destruct p; try discriminate). Qed.

(* C18a: with export_top_level_ids, `import 1 as 11` binds the local 11 but exports the id 1 *)
Example top_level_export_final_refuted_alias : exists f' s',
    run_items Cx (imp Cx 6) true (new_frame 0 []) init_st [Import (ImpMod 1 (Some 11))] = Some (Ok f', s') /\
    al_get 11 (locals f') <> None /\ exported s' 11 = None.
Proof. eexists. eexists. split; [vm_compute; reflexivity|]. split; [vm_compute; discriminate | vm_compute; reflexivity]. Qed.

(* C18b: `k10 = 5; from 4 import *`: the local 10 stays 5, the export 10 becomes module 4's value 2 *)
Example top_level_export_final_refuted_wildcard : exists f' s',
    run_items Cx (imp Cx 6) true (new_frame 0 []) init_st [Assign 10 (ELit 5); Import (ImpAll 4)] = Some (Ok f', s') /\
    al_get 10 (locals f') = Some (VInt 5) /\ exported s' 10 = Some (VInt 2).
Proof. eexists. eexists. split; [vm_compute; reflexivity|]. split; vm_compute; reflexivity. Qed.

(* clear_module_cache is outside `no_clear`: the loader recompiles, and the module runs again *)
Example clear_reruns : exists s',
    host_history Cx 6 [imp1 1; HClear; imp1 1] init_st = Some ([Ok tt; Ok tt; Ok tt], s') /\
    filter is_stdout (trace s') = [EvMark 100; EvMark 200; EvMark 100; EvMark 200].
Proof. eexists. split; vm_compute; reflexivity. Qed.

(* a caught failing import inside a module that is still loading, then a cycle back to that module:
   1 = [try import 2 (fails); import 3], 3 = [import 1]: the cycle is still reported, 1 runs once *)
Definition Cy : cfg :=
  {| files := [(([], 1), [Marker 100; TryImport 2 None 400; Import (ImpMod 3 None); Marker 200]);
               (([], 2), [Marker 101; Fail]);
               (([], 3), [Marker 102; Import (ImpMod 1 None); Marker 202])];
     prelude := []; run_import_tests := true |}.
Example caught_failure_then_cycle : exists s',
    host_history Cy 6 [imp1 1] init_st = Some ([Err ECycle], s') /\
    filter is_stdout (trace s') = [EvMark 100; EvMark 101; EvMark 400; EvMark 102].
Proof. eexists. split; vm_compute; reflexivity. Qed.
