(* Proofs about the module-system model: basic map lemmas, the two-state relation `Rel`
   preserved by every execution, and the invariants of histories. *)
From Coq Require Import Lia.
From KV.mod Require Import ModModel ModSpec.
Open Scope N_scope.

(* ---------- equality on paths ---------- *)
Lemma dir_eqb_eq : forall a b, dir_eqb a b = true <-> a = b.
Proof.
  induction a as [|x a IH]; destruct b as [|y b]; simpl; split; intro H; try congruence; auto.
  - apply andb_true_iff in H as [H1 H2]. apply N.eqb_eq in H1. apply IH in H2. congruence.
  - inversion H; subst. rewrite N.eqb_refl. simpl. apply IH. reflexivity.
Qed.

Lemma path_eqb_eq : forall p q, path_eqb p q = true <-> p = q.
Proof.
  intros [d n] [e m]. unfold path_eqb. simpl. rewrite andb_true_iff, dir_eqb_eq, N.eqb_eq.
  split; [intros [-> ->]; reflexivity | intro H; inversion H; auto].
Qed.

Lemma path_eqb_refl : forall p, path_eqb p p = true.
Proof. intro p. apply path_eqb_eq. reflexivity. Qed.

Lemma path_eqb_neq : forall p q, p <> q -> path_eqb p q = false.
Proof. intros p q H. destruct (path_eqb p q) eqn:E; auto. apply path_eqb_eq in E. contradiction. Qed.

Lemma path_eq_dec : forall p q : path, {p = q} + {p <> q}.
Proof. intros p q. destruct (path_eqb p q) eqn:E; [left; apply path_eqb_eq; auto | right; intro H; apply path_eqb_eq in H; congruence]. Qed.

(* ---------- module cache ---------- *)
Lemma mc_get_remove_same : forall p c, mc_get p (mc_remove p c) = None.
Proof.
  induction c as [|[q v] c IH]; simpl; auto.
  destruct (path_eqb q p) eqn:E; auto. simpl. rewrite E. auto.
Qed.

Lemma mc_get_remove_other : forall p q c, q <> p -> mc_get q (mc_remove p c) = mc_get q c.
Proof.
  induction c as [|[r v] c IH]; simpl; intros H; auto.
  destruct (path_eqb r p) eqn:E.
  - apply path_eqb_eq in E. subst r. rewrite (path_eqb_neq p q) by congruence. auto.
  - simpl. destruct (path_eqb r q); auto.
Qed.

Lemma mc_get_set_same : forall p v c, mc_get p (mc_set p v c) = Some v.
Proof. intros. unfold mc_set. simpl. rewrite path_eqb_refl. reflexivity. Qed.

Lemma mc_get_set_other : forall p q v c, q <> p -> mc_get q (mc_set p v c) = mc_get q c.
Proof.
  intros. unfold mc_set. simpl. rewrite (path_eqb_neq p q) by congruence. apply mc_get_remove_other. auto.
Qed.

(* the error branch of run_import removes the failed module's own entry -- this is where the statement
   read from vm.rs (GenModPins.failure_cleanup) enters the proofs *)
Lemma cleanup_cache_eq : forall p c, cleanup_cache p c = mc_remove p c.
Proof. reflexivity. Qed.

(* ---------- heap ---------- *)
Lemma heap_get_put_same : forall id o h, heap_get id ((id, o) :: h) = o.
Proof. intros. simpl. rewrite N.eqb_refl. reflexivity. Qed.

Lemma heap_get_put_other : forall id i o h, id <> i -> heap_get id ((i, o) :: h) = heap_get id h.
Proof. intros. simpl. destruct (i =? id) eqn:E; auto. apply N.eqb_eq in E. congruence. Qed.

(* ---------- association lists ---------- *)
Lemma al_get_insert_same : forall {V} k (v : V) m, al_get k (al_insert k v m) = Some v.
Proof.
  induction m as [|[k' v'] m IH]; simpl.
  - rewrite N.eqb_refl. reflexivity.
  - destruct (k' =? k) eqn:E; simpl; [rewrite N.eqb_refl | rewrite E]; auto.
Qed.

Lemma al_get_insert_other : forall {V} k j (v : V) m, j <> k -> al_get j (al_insert k v m) = al_get j m.
Proof.
  induction m as [|[k' v'] m IH]; simpl; intro H.
  - destruct (k =? j) eqn:E; auto. apply N.eqb_eq in E. congruence.
  - destruct (k' =? k) eqn:E; simpl.
    + apply N.eqb_eq in E. subst k'. destruct (k =? j) eqn:E2; auto. apply N.eqb_eq in E2. congruence.
    + destruct (k' =? j); auto.
Qed.

(* ---------- events ---------- *)
Definition quiet (em : list event) : Prop :=
  forall e, In e em -> match e with EvRun _ | EvLoaded _ => False | _ => True end.

Lemma quiet_nil : quiet [].
Proof. intros e []. Qed.

Lemma quiet_app : forall a b, quiet a -> quiet b -> quiet (a ++ b).
Proof. intros a b Ha Hb e H. apply in_app_or in H as [H|H]; [apply Ha | apply Hb]; exact H. Qed.

Lemma quiet_norun : forall em p, quiet em -> ~ In (EvRun p) em.
Proof. intros em p H Hin. apply H in Hin. exact Hin. Qed.

Lemma quiet_noloaded : forall em p, quiet em -> ~ In (EvLoaded p) em.
Proof. intros em p H Hin. apply H in Hin. exact Hin. Qed.

(* within em, nothing runs after it has loaded *)
Definition once (em : list event) : Prop :=
  forall p e1 e2, em = e1 ++ EvLoaded p :: e2 -> ~ In (EvRun p) e2.

Lemma app_eq_app_split : forall {A} (a b c d : list A),
    a ++ b = c ++ d -> (exists x, c = a ++ x /\ b = x ++ d) \/ (exists x, a = c ++ x /\ d = x ++ b).
Proof.
  induction a as [|x a IH]; intros b c d H.
  - left. exists c. simpl in *. auto.
  - destruct c as [|y c].
    + right. exists (x :: a). simpl in *. auto.
    + simpl in H. inversion H; subst. apply IH in H2 as [[z [-> ->]]|[z [-> ->]]].
      * left. exists z. auto.
      * right. exists z. auto.
Qed.

Lemma once_app : forall a b,
    once a -> once b -> (forall p, In (EvLoaded p) a -> ~ In (EvRun p) b) -> once (a ++ b).
Proof.
  intros a b Ha Hb Hab p e1 e2 H.
  apply app_eq_app_split in H as [[x [-> H]]|[x [-> H]]].
  - (* the EvLoaded lies in b, or at the boundary *)
    destruct x as [|y x]; simpl in H.
    + subst b. intro Hin. eapply (Hb p [] e2); eauto.
    + eapply (Hb p (y :: x) e2); eauto.
  - destruct x as [|y x]; simpl in H.
    + subst b. rewrite app_nil_r in *. intro Hin. eapply (Hb p [] e2); eauto.
    + inversion H; subst. intro Hin. apply in_app_or in Hin as [Hin|Hin].
      * eapply (Ha p e1 x); eauto.
      * eapply Hab; eauto. apply in_or_app. right. left. reflexivity.
Qed.

Lemma quiet_once : forall em, quiet em -> once em.
Proof.
  intros em H p e1 e2 ->. exfalso. eapply quiet_noloaded; eauto. apply in_or_app. right. left. reflexivity.
Qed.

(* ---------- well-formed states ---------- *)
Definition in_chunks (p : path) (s : st) : Prop := existsb (path_eqb p) (chunks s) = true.

Record WF (s : st) : Prop := {
  wf_exports : exports s < next_id s;
  (* a cached exports map belongs to a module whose chunk is in the loader's cache *)
  wf_cco : forall p id, mc_get p (mcache s) = Some (Some id) -> in_chunks p s
}.

(* ---------- the relation between the states before and after any execution ---------- *)
Record Rel (s s' : st) (em : list event) : Prop := {
  r_trace : trace s' = trace s ++ em;
  r_nones : forall p, mc_get p (mcache s') = Some None <-> mc_get p (mcache s) = Some None;
  r_exports : exports s' = exports s;
  r_next : next_id s <= next_id s';
  r_heap : forall id, id < next_id s -> id <> exports s -> heap_get id (heap s') = heap_get id (heap s);
  r_chunks : forall p, in_chunks p s -> in_chunks p s';
  r_stable : forall p id, mc_get p (mcache s) = Some (Some id) -> mc_get p (mcache s') = Some (Some id);
  r_delta : forall q, mc_get q (mcache s') = mc_get q (mcache s) \/
                      (mc_get q (mcache s) = None /\ exists id, mc_get q (mcache s') = Some (Some id) /\ In (EvLoaded q) em);
  r_norun : forall p, mc_get p (mcache s) <> None -> ~ In (EvRun p) em;
  r_loaded : forall p, In (EvLoaded p) em -> exists id, mc_get p (mcache s') = Some (Some id);
  r_once : once em
}.

Lemma Rel_refl : forall s, Rel s s [].
Proof.
  intro s. constructor; auto; try tauto.
  - rewrite app_nil_r. reflexivity.
  - lia.
  - intros p [].
  - apply quiet_once, quiet_nil.
Qed.

Lemma Rel_trans : forall s1 s2 s3 a b, Rel s1 s2 a -> Rel s2 s3 b -> Rel s1 s3 (a ++ b).
Proof.
  intros s1 s2 s3 a b H1 H2. destruct H1, H2. constructor.
  - rewrite r_trace1, r_trace0, app_assoc. reflexivity.
  - intro p. rewrite r_nones1. apply r_nones0.
  - congruence.
  - lia.
  - intros id Hlt Hne. rewrite r_heap1; [apply r_heap0; auto | lia | congruence].
  - auto.
  - auto.
  - intro q. destruct (r_delta0 q) as [E1|[E1 [id [E2 E3]]]]; destruct (r_delta1 q) as [F1|[F1 [id' [F2 F3]]]].
    + left. congruence.
    + right. split; [congruence|]. exists id'. split; auto. apply in_or_app. auto.
    + right. split; auto. exists id. split; [rewrite F1; auto | apply in_or_app; auto].
    + congruence.
  - intros p Hp Hin. apply in_app_or in Hin as [Hin|Hin].
    + eapply r_norun0; eauto.
    + eapply r_norun1; eauto.
      destruct (mc_get p (mcache s1)) as [[id|]|] eqn:E; try congruence.
      * erewrite r_stable0 by eauto. congruence.
      * apply r_nones0 in E. congruence.
  - intros p Hin. apply in_app_or in Hin as [Hin|Hin]; auto.
    destruct (r_loaded0 p Hin) as [id E]. exists id. eauto.
  - apply once_app; auto. intros p Hin. destruct (r_loaded0 p Hin) as [id E].
    apply r_norun1. congruence.
Qed.

(* "simple" steps: only the trace (quietly) and the active exports map change *)
Record Simple (s s' : st) (em : list event) : Prop := {
  sp_chunks : chunks s' = chunks s;
  sp_mcache : mcache s' = mcache s;
  sp_next : next_id s' = next_id s;
  sp_exports : exports s' = exports s;
  sp_trace : trace s' = trace s ++ em;
  sp_quiet : quiet em;
  sp_heap : forall id, id <> exports s -> heap_get id (heap s') = heap_get id (heap s)
}.

Lemma Simple_refl : forall s, Simple s s [].
Proof. intro s. constructor; auto. rewrite app_nil_r; auto. apply quiet_nil. Qed.

Lemma Simple_trans : forall s1 s2 s3 a b, Simple s1 s2 a -> Simple s2 s3 b -> Simple s1 s3 (a ++ b).
Proof.
  intros s1 s2 s3 a b [] []. constructor; try congruence.
  - rewrite sp_trace1, sp_trace0, app_assoc. reflexivity.
  - apply quiet_app; auto.
  - intros id H. rewrite sp_heap1, sp_heap0; auto. congruence.
Qed.

Lemma Simple_emit : forall s e, match e with EvRun _ | EvLoaded _ => False | _ => True end -> Simple s (emit e s) [e].
Proof.
  intros s e H. constructor; simpl; auto. intros e' [<-|[]]. exact H.
Qed.

Lemma Simple_put : forall s o, Simple s (heap_put (exports s) o s) [].
Proof.
  intros s o. constructor; simpl; auto.
  - rewrite app_nil_r. reflexivity.
  - apply quiet_nil.
  - intros id H. destruct (exports s =? id) eqn:E; auto. apply N.eqb_eq in E. congruence.
Qed.

Lemma Simple_Rel : forall s s' em, Simple s s' em -> Rel s s' em.
Proof.
  intros s s' em []. constructor; auto.
  - rewrite sp_mcache0. tauto.
  - lia.
  - unfold in_chunks. rewrite sp_chunks0. auto.
  - rewrite sp_mcache0. auto.
  - rewrite sp_mcache0. auto.
  - intros p _. apply quiet_norun. auto.
  - intros p Hin. exfalso. eapply quiet_noloaded; eauto.
  - apply quiet_once. auto.
Qed.

Lemma Simple_WF : forall s s' em, Simple s s' em -> WF s -> WF s'.
Proof.
  intros s s' em [] [Hw Hc]. constructor.
  - lia.
  - intros p id. rewrite sp_mcache0. unfold in_chunks. rewrite sp_chunks0. apply Hc.
Qed.

Lemma Simple_export_value : forall s k v, Simple s (export_value k v s) [].
Proof. intros. apply Simple_put. Qed.

Lemma Simple_maybe_export : forall s force k v, Simple s (maybe_export force k v s) [].
Proof. intros. unfold maybe_export. destruct force; [apply Simple_put | apply Simple_refl]. Qed.

Lemma export_value_exports : forall s k v, exports (export_value k v s) = exports s.
Proof. reflexivity. Qed.

Lemma Simple_export_entries : forall es s, Simple s (export_entries es s) [].
Proof.
  induction es as [|[k v] es IH]; intro s; simpl.
  - apply Simple_refl.
  - change (@nil event) with (@nil event ++ []). eapply Simple_trans; [apply Simple_export_value | apply IH].
Qed.

Lemma Simple_import_from_items : forall force v its f s r s',
    import_from_items force v its f s = (r, s') -> Simple s s' [].
Proof.
  induction its as [|[k a] its IH]; intros f s r s' H; simpl in H.
  - inversion H; subst. apply Simple_refl.
  - destruct (access s v k).
    + apply IH in H. change (@nil event) with (@nil event ++ []).
      eapply Simple_trans; [apply Simple_maybe_export | exact H].
    + inversion H; subst. apply Simple_refl.
Qed.

Lemma Simple_run_test_list : forall ts s r s',
    run_test_list ts s = (r, s') -> exists em, Simple s s' em /\ heap s' = heap s.
Proof.
  induction ts as [|[t b] ts IH]; intros s r s' H; simpl in H.
  - inversion H; subst. exists []. split; [apply Simple_refl | reflexivity].
  - destruct (fb_fail b).
    + inversion H; subst. eexists. split; [apply Simple_emit; exact I | reflexivity].
    + apply IH in H as [em [H1 H2]]. eexists. split.
      * eapply Simple_trans; [ | exact H1]. apply Simple_emit. exact I.
      * rewrite H2. reflexivity.
Qed.

Lemma Simple_call_main : forall ev s r s',
    match ev with Some (EvRun _) | Some (EvLoaded _) => False | _ => True end ->
    call_main ev s = (r, s') -> exists em, Simple s s' em /\ heap s' = heap s.
Proof.
  intros ev s r s' Hev H. unfold call_main in H.
  destruct (m_main (cur_obj s)) as [[b|]|].
  - assert (exists em0, Simple s (match ev with Some e => emit e s | None => s end) em0 /\
                        heap (match ev with Some e => emit e s | None => s end) = heap s) as [em0 [S0 Hh]].
    { destruct ev as [e|]; [exists [e]; split; [apply Simple_emit; destruct e; auto | reflexivity]
                           | exists []; split; [apply Simple_refl | reflexivity]]. }
    destruct (fb_fail b); inversion H; subst; eexists; (split; [eapply Simple_trans; [exact S0 | apply Simple_emit; exact I] | simpl; exact Hh]).
  - inversion H; subst. exists []. split; [apply Simple_refl | reflexivity].
  - inversion H; subst. exists []. split; [apply Simple_refl | reflexivity].
Qed.

(* ---------- the main preservation lemma ---------- *)
Section Preserve.
  Variable C : cfg.

  (* what an Import instruction guarantees (also: the importer's own exports map is untouched) *)
  Definition good (rec : frame -> name -> bool -> st -> M (value * frame)) : Prop :=
    forall f nm all s r s', WF s -> rec f nm all s = Some (r, s') ->
      WF s' /\ exists em, Rel s s' em /\ heap_get (exports s) (heap s') = heap_get (exports s) (heap s).

  Definition good_items (run : frame -> st -> M frame) : Prop :=
    forall f s r s', WF s -> run f s = Some (r, s') -> WF s' /\ exists em, Rel s s' em.

  Lemma good_simple_then : forall s s1 s' em1 em2,
      WF s -> Rel s s1 em1 -> WF s1 -> Simple s1 s' em2 -> WF s' /\ exists em, Rel s s' em.
  Proof.
    intros. split; [eapply Simple_WF; eauto|]. eexists. eapply Rel_trans; eauto. apply Simple_Rel; eauto.
  Qed.

  Section WithRec.
    Variable rec : frame -> name -> bool -> st -> M (value * frame).
    Hypothesis Hrec : good rec.

    Lemma import_item_good : forall f s m all r s',
        WF s -> import_item rec f s m all = Some (r, s') -> WF s' /\ exists em, Rel s s' em.
    Proof.
      intros f s m all r s' Hwf H. unfold import_item in H.
      destruct (al_get m (locals f)) as [v|].
      - destruct all.
        + destruct v; try (inversion H; subst; split; auto; exists []; apply Rel_refl).
          apply Hrec in H as [H1 [em [H2 _]]]; eauto.
        + inversion H; subst. split; auto. exists []. apply Rel_refl.
      - apply Hrec in H as [H1 [em [H2 _]]]; eauto.
    Qed.

    Lemma run_item_good : forall force it, good_items (fun f s => run_item C rec force f s it).
    Proof.
      intros force it f s r s' Hwf H. destruct it as [m|sp|m alias caught|k e|k e|k e|e| |t b|b| ]; simpl in H.
      - (* Marker *) inversion H; subst. eapply good_simple_then; eauto using Rel_refl. apply Simple_emit. exact I.
      - (* Import *)
        destruct sp as [m alias|m its|m].
        + destruct (import_item rec f s m false) as [[[[v f1]|e] s1]|] eqn:E; try discriminate.
          * inversion H; subst. apply import_item_good in E as [W1 [em R1]]; auto.
            eapply good_simple_then; eauto. apply Simple_maybe_export.
          * inversion H; subst. eapply import_item_good; eauto.
        + destruct (import_item rec f s m false) as [[[[v f1]|e] s1]|] eqn:E; try discriminate.
          * inversion H as [H']. apply import_item_good in E as [W1 [em R1]]; auto.
            destruct (import_from_items force v its f1 s1) as [r2 s2] eqn:E2. inversion H'; subst.
            eapply good_simple_then; eauto. eapply Simple_import_from_items; eauto.
          * inversion H; subst. eapply import_item_good; eauto.
        + destruct (import_item rec f s m true) as [[[[v f1]|e] s1]|] eqn:E; try discriminate.
          * apply import_item_good in E as [W1 [em R1]]; auto.
            destruct force.
            -- destruct v; inversion H; subst; try (split; eauto; fail).
               eapply good_simple_then; eauto. apply Simple_export_entries.
            -- inversion H; subst. eauto.
          * inversion H; subst. eapply import_item_good; eauto.
      - (* TryImport *)
        destruct (al_get m (locals f)) as [v|].
        + inversion H; subst. eapply good_simple_then; eauto using Rel_refl. apply Simple_maybe_export.
        + destruct (rec f m false s) as [[[[v f1]|e] s1]|] eqn:E; try discriminate.
          * inversion H; subst. apply Hrec in E as [W1 [em [R1 _]]]; auto.
            eapply good_simple_then; eauto. apply Simple_maybe_export.
          * inversion H; subst. apply Hrec in E as [W1 [em [R1 _]]]; auto.
            eapply good_simple_then; eauto. apply Simple_emit. exact I.
      - (* Export *)
        destruct (eval C s f e); inversion H; subst.
        + eapply good_simple_then; eauto using Rel_refl. apply Simple_export_value.
        + split; auto. exists []. apply Rel_refl.
      - (* Assign *)
        destruct (eval C s f e); inversion H; subst.
        + eapply good_simple_then; eauto using Rel_refl. apply Simple_maybe_export.
        + split; auto. exists []. apply Rel_refl.
      - (* AssignOp *)
        destruct (load_id C s f k) as [lhs|]; [|inversion H; subst; split; auto; exists []; apply Rel_refl].
        destruct (eval C s f e) as [rhs|]; [|inversion H; subst; split; auto; exists []; apply Rel_refl].
        destruct lhs, rhs; inversion H; subst; try (split; auto; exists []; apply Rel_refl; fail).
        eapply good_simple_then; eauto using Rel_refl. apply Simple_maybe_export.
      - (* Show *)
        destruct (eval C s f e); inversion H; subst.
        + eapply good_simple_then; eauto using Rel_refl. apply Simple_emit. exact I.
        + split; auto. exists []. apply Rel_refl.
      - (* Fail *) inversion H; subst. split; auto. exists []. apply Rel_refl.
      - (* DefineTest *) inversion H; subst. eapply good_simple_then; eauto using Rel_refl. apply Simple_put.
      - (* DefineMain *) inversion H; subst. eapply good_simple_then; eauto using Rel_refl. apply Simple_put.
      - (* SyntaxError *) inversion H; subst. split; auto. exists []. apply Rel_refl.
    Qed.

    Lemma run_items_good : forall force its, good_items (fun f s => run_items C rec force f s its).
    Proof.
      intros force its. induction its as [|it its IH]; intros f s r s' Hwf H; simpl in H.
      - inversion H; subst. split; auto. exists []. apply Rel_refl.
      - destruct (run_item C rec force f s it) as [[[f1|e] s1]|] eqn:E; try discriminate.
        + apply run_item_good in E as [W1 [em1 R1]]; auto.
          apply IH in H as [W2 [em2 R2]]; auto. split; auto. eexists. eapply Rel_trans; eauto.
        + inversion H; subst. eapply run_item_good; eauto.
    Qed.
  End WithRec.
End Preserve.

(* ---------- run_import preserves WF and Rel ---------- *)
Arguments mc_set : simpl never.
Arguments mc_remove : simpl never.
Section ImportGood.
  Variable C : cfg.
  Variable rec : frame -> name -> bool -> st -> M (value * frame).
  Hypothesis Hrec : good rec.

  Lemma WF_set_chunks : forall s p, WF s -> WF (set_chunks (p :: chunks s) s).
  Proof.
    intros s p [Hw Hc]. constructor; simpl; auto.
    intros q id H. apply Hc in H. unfold in_chunks in *. simpl. rewrite H. apply orb_true_r.
  Qed.

  Lemma Rel_set_chunks : forall s p, Rel s (set_chunks (p :: chunks s) s) [].
  Proof.
    intros s p. constructor; simpl; auto; try tauto.
    - rewrite app_nil_r. reflexivity.
    - lia.
    - intros q H. unfold in_chunks in *. simpl. rewrite H. apply orb_true_r.
    - apply quiet_once, quiet_nil.
  Qed.

  Lemma run_import_good : good (run_import C rec).
  Proof.
    intros f nm all s r s' Hwf H. unfold run_import in H.
    destruct (non_local C s f nm) as [v|].
    { inversion H; subst. split; auto. exists []. split; [apply Rel_refl | reflexivity]. }
    destruct (find_module C nm (fdir f)) as [p|].
    2:{ inversion H; subst. split; auto. exists []. split; [apply Rel_refl | reflexivity]. }
    match type of H with (if ?b then _ else _) = _ => destruct b end.
    { inversion H; subst. split; auto. exists []. split; [apply Rel_refl | reflexivity]. }
    set (lfc := existsb (path_eqb p) (chunks s)) in *.
    set (s1 := if lfc then s else set_chunks (p :: chunks s) s) in *.
    assert (W1 : WF s1). { unfold s1. destruct lfc; auto. apply WF_set_chunks; auto. }
    assert (R1 : Rel s s1 []). { unfold s1. destruct lfc; [apply Rel_refl | apply Rel_set_chunks]. }
    assert (Hmc : mcache s1 = mcache s). { unfold s1. destruct lfc; reflexivity. }
    assert (Hhp : heap s1 = heap s). { unfold s1. destruct lfc; reflexivity. }
    assert (Hex : exports s1 = exports s). { unfold s1. destruct lfc; reflexivity. }
    assert (Hnx : next_id s1 = next_id s). { unfold s1. destruct lfc; reflexivity. }
    assert (Htr : trace s1 = trace s). { unfold s1. destruct lfc; reflexivity. }
    assert (Hin1 : in_chunks p s1).
    { unfold in_chunks, s1. destruct lfc eqn:E; auto. simpl. rewrite path_eqb_refl. reflexivity. }
    destruct (mc_get p (mcache s1)) as [[id|]|] eqn:Ecache.
    - (* Some (Some id) *)
      destruct lfc eqn:Elfc.
      + inversion H; subst. split; auto. exists []. split; [exact R1 | rewrite Hhp; reflexivity].
      + exfalso. rewrite Hmc in Ecache. apply (wf_cco _ Hwf) in Ecache. unfold in_chunks in Ecache.
        unfold lfc in Elfc. congruence.
    - (* Some None: recursive import *)
      inversion H; subst. split; auto. exists []. split; [exact R1 | rewrite Hhp; reflexivity].
    - (* not cached: load *)
      set (body := match file_get p (files C) with Some b => b | None => [] end) in *.
      unfold load_body in H.
      set (s0 := emit (EvRun p) (fresh_exports (set_mcache (mc_set p None (mcache s1)) s1))) in *.
      assert (F1 : mcache s0 = mc_set p None (mcache s)) by (rewrite <- Hmc; reflexivity).
      assert (F2 : exports s0 = next_id s) by (rewrite <- Hnx; reflexivity).
      assert (F3 : next_id s0 = next_id s + 1) by (rewrite <- Hnx; reflexivity).
      assert (F4 : heap s0 = (next_id s, empty_obj) :: heap s) by (rewrite <- Hnx, <- Hhp; reflexivity).
      assert (F5 : chunks s0 = chunks s1) by reflexivity.
      assert (F6 : trace s0 = trace s ++ [EvRun p]) by (rewrite <- Htr; reflexivity).
      assert (F7 : exports (set_mcache (mc_set p None (mcache s1)) s1) = exports s) by (simpl; exact Hex).
      assert (W0 : WF s0).
      { constructor; [rewrite F2, F3; lia|]. intros q id Hq. rewrite F1 in Hq.
        destruct (path_eq_dec q p) as [->|Hne]; [rewrite mc_get_set_same in Hq; discriminate|].
        rewrite mc_get_set_other in Hq by auto. apply (wf_cco _ Hwf) in Hq.
        unfold in_chunks. rewrite F5. apply (r_chunks _ _ _ R1). exact Hq. }
      assert (Hs0 : forall q, q <> p -> mc_get q (mcache s0) = mc_get q (mcache s)).
      { intros q Hne. rewrite F1. rewrite mc_get_set_other by auto. reflexivity. }
      assert (Hs0p : mc_get p (mcache s0) = Some None). { rewrite F1. apply mc_get_set_same. }
      assert (Hcs : mc_get p (mcache s) = None) by (rewrite <- Hmc; exact Ecache).
      (* the part common to both outcomes: from s0 to the state s4 in which the closure returned *)
      assert (Hcommon : forall r4 s4,
                 (match run_items C rec false (new_frame (exports s0) (fst p)) s0 body with
                  | None => None
                  | Some (Err e, s1') => Some (Err e, s1')
                  | Some (Ok _, s1') =>
                      let '(r2, s2') := if run_import_tests C then run_test_list (m_tests (cur_obj s1')) (emit (EvTests p) s1')
                                        else (Ok tt, s1') in
                      match r2 with
                      | Err e => Some (Err e, s2')
                      | Ok _ => let '(r3, s3') := call_main (Some (EvMain p)) s2' in Some (r3, s3')
                      end
                  end) = Some (r4, s4) -> WF s4 /\ exists em, Rel s0 s4 em).
      { intros r4 s4 H4.
        destruct (run_items C rec false (new_frame (exports s0) (fst p)) s0 body) as [[[fb|e] sb]|] eqn:Eb; try discriminate.
        2:{ inversion H4; subst. eapply (run_items_good C rec Hrec); eauto. }
        apply (run_items_good C rec Hrec) in Eb as [Wb [emb Rb]]; auto.
        assert (exists r2 s2' em2, (if run_import_tests C then run_test_list (m_tests (cur_obj sb)) (emit (EvTests p) sb)
                                    else (Ok tt, sb)) = (r2, s2') /\ Simple sb s2' em2) as [r2 [s2' [em2 [E2 S2]]]].
        { destruct (run_import_tests C).
          - destruct (run_test_list (m_tests (cur_obj sb)) (emit (EvTests p) sb)) as [r2 s2'] eqn:E2.
            apply Simple_run_test_list in E2 as [em2 [S2 _]]. exists r2, s2'. eexists. split; auto.
            eapply Simple_trans; [ | exact S2]. apply Simple_emit. exact I.
          - exists (Ok tt), sb, []. split; auto. apply Simple_refl. }
        rewrite E2 in H4. destruct r2 as [[]|e].
        - destruct (call_main (Some (EvMain p)) s2') as [r3 s3'] eqn:E3. inversion H4; subst.
          apply Simple_call_main in E3 as [em3 [S3 _]]; [|exact I].
          eapply good_simple_then; [exact W0 | exact Rb | exact Wb | eapply Simple_trans; eauto].
        - inversion H4; subst. eapply good_simple_then; eauto. }
      match type of H with
      | match ?X with _ => _ end = _ => destruct X as [[[[]|e4] s4]|] eqn:E4; try discriminate
      end.
      + (* the load succeeded *)
        apply Hcommon in E4 as [W4 [em R4]]. inversion H; subst. clear H.
        assert (Hp4 : mc_get p (mcache s4) = Some None) by (apply (r_nones _ _ _ R4); exact Hs0p).
        split.
        * constructor; cbn [exports next_id mcache chunks heap trace set_exports set_mcache emit].
          -- pose proof (r_next _ _ _ R4). rewrite F3 in *. rewrite ?F7, ?Hex. pose proof (wf_exports _ Hwf). lia.
          -- intros q id Hq. destruct (path_eq_dec q p) as [->|Hne].
             ++ apply (r_chunks _ _ _ R4). exact Hin1.
             ++ rewrite mc_get_set_other in Hq by auto. apply (wf_cco _ W4) in Hq. exact Hq.
        * exists (EvRun p :: em ++ [EvLoaded p]). split.
          -- constructor; cbn [exports next_id mcache chunks heap trace set_exports set_mcache emit].
             ++ rewrite (r_trace _ _ _ R4). rewrite F6. rewrite <- !app_assoc. reflexivity.
             ++ intro q. destruct (path_eq_dec q p) as [->|Hne].
                ** rewrite mc_get_set_same, Hcs. split; discriminate.
                ** rewrite mc_get_set_other by auto. rewrite (r_nones _ _ _ R4). rewrite Hs0 by auto. tauto.
             ++ first [exact F7 | exact Hex].
             ++ pose proof (r_next _ _ _ R4). rewrite F3 in *. lia.
             ++ intros id Hlt Hne. rewrite (r_heap _ _ _ R4); rewrite ?F2, ?F3; try lia.
                rewrite F4. rewrite heap_get_put_other by lia. reflexivity.
             ++ intros q Hq. apply (r_chunks _ _ _ R4). apply (r_chunks _ _ _ R1). exact Hq.
             ++ intros q id Hq. assert (q <> p) by (intros ->; congruence).
                rewrite mc_get_set_other by auto. apply (r_stable _ _ _ R4). rewrite Hs0; auto.
             ++ intro q. destruct (path_eq_dec q p) as [->|Hne].
                ** right. split; auto. rewrite mc_get_set_same. eexists. split; eauto.
                   right. apply in_or_app. right. left. reflexivity.
                ** rewrite mc_get_set_other by auto. destruct (r_delta _ _ _ R4 q) as [E|[E [id [E' Hin]]]].
                   --- left. rewrite E. apply Hs0. auto.
                   --- right. rewrite Hs0 in E by auto. split; auto. exists id. split; auto.
                       right. apply in_or_app. left. exact Hin.
             ++ intros q Hq [Hin|Hin]; [inversion Hin; subst; congruence|].
                assert (q <> p) by (intros ->; congruence).
                apply in_app_or in Hin as [Hin|[Hin|[]]]; [|discriminate].
                eapply (r_norun _ _ _ R4); eauto. rewrite Hs0; auto.
             ++ intros q [Hin|Hin]; [discriminate|]. apply in_app_or in Hin as [Hin|[Hin|[]]].
                ** destruct (r_loaded _ _ _ R4 q Hin) as [id E]. assert (q <> p) by (intros ->; congruence).
                   exists id. rewrite mc_get_set_other; auto.
                ** inversion Hin; subst. rewrite mc_get_set_same. eauto.
             ++ change (EvRun p :: em ++ [EvLoaded p]) with ([EvRun p] ++ (em ++ [EvLoaded p])).
                apply once_app.
                ** intros q e1 e2 E. destruct e1 as [|x e1]; [discriminate|]. destruct e1; discriminate.
                ** apply once_app; [apply (r_once _ _ _ R4) | | intros q _ [Hin|[]]; discriminate].
                   intros q e1 e2 E. destruct e1 as [|x e1]; [inversion E; subst; intros []|].
                   destruct e1; discriminate.
                ** intros q [Hin|[]]. discriminate.
          -- cbn [exports next_id mcache chunks heap trace set_exports set_mcache emit]. pose proof (wf_exports _ Hwf). rewrite (r_heap _ _ _ R4); rewrite ?F2, ?F3; try lia.
             rewrite F4. rewrite heap_get_put_other by lia. reflexivity.
      + (* the load failed *)
        apply Hcommon in E4 as [W4 [em R4]]. inversion H; subst. clear H. rewrite cleanup_cache_eq.
        assert (Hp4 : mc_get p (mcache s4) = Some None) by (apply (r_nones _ _ _ R4); exact Hs0p).
        split.
        * constructor; cbn [exports next_id mcache chunks heap trace set_exports set_mcache emit].
          -- pose proof (r_next _ _ _ R4). rewrite F3 in *. rewrite ?F7, ?Hex. pose proof (wf_exports _ Hwf). lia.
          -- intros q id Hq. destruct (path_eq_dec q p) as [->|Hne].
             ++ rewrite mc_get_remove_same in Hq. discriminate.
             ++ rewrite mc_get_remove_other in Hq by auto. apply (wf_cco _ W4) in Hq. exact Hq.
        * exists (EvRun p :: em ++ [EvFailed p]). split.
          -- constructor; cbn [exports next_id mcache chunks heap trace set_exports set_mcache emit].
             ++ rewrite (r_trace _ _ _ R4). rewrite F6. rewrite <- !app_assoc. reflexivity.
             ++ intro q. destruct (path_eq_dec q p) as [->|Hne].
                ** rewrite mc_get_remove_same, Hcs. split; discriminate.
                ** rewrite mc_get_remove_other by auto. rewrite (r_nones _ _ _ R4). rewrite Hs0 by auto. tauto.
             ++ first [exact F7 | exact Hex].
             ++ pose proof (r_next _ _ _ R4). rewrite F3 in *. lia.
             ++ intros id Hlt Hne. rewrite (r_heap _ _ _ R4); rewrite ?F2, ?F3; try lia.
                rewrite F4. rewrite heap_get_put_other by lia. reflexivity.
             ++ intros q Hq. apply (r_chunks _ _ _ R4). apply (r_chunks _ _ _ R1). exact Hq.
             ++ intros q id Hq. assert (q <> p) by (intros ->; congruence).
                rewrite mc_get_remove_other by auto. apply (r_stable _ _ _ R4). rewrite Hs0; auto.
             ++ intro q. destruct (path_eq_dec q p) as [->|Hne].
                ** left. rewrite mc_get_remove_same. auto.
                ** rewrite mc_get_remove_other by auto. destruct (r_delta _ _ _ R4 q) as [E|[E [id [E' Hin]]]].
                   --- left. rewrite E. apply Hs0. auto.
                   --- right. rewrite Hs0 in E by auto. split; auto. exists id. split; auto.
                       right. apply in_or_app. left. exact Hin.
             ++ intros q Hq [Hin|Hin]; [inversion Hin; subst; congruence|].
                assert (q <> p) by (intros ->; congruence).
                apply in_app_or in Hin as [Hin|[Hin|[]]]; [|discriminate].
                eapply (r_norun _ _ _ R4); eauto. rewrite Hs0; auto.
             ++ intros q [Hin|Hin]; [discriminate|]. apply in_app_or in Hin as [Hin|[Hin|[]]]; [|discriminate].
                destruct (r_loaded _ _ _ R4 q Hin) as [id E]. assert (q <> p) by (intros ->; congruence).
                exists id. rewrite mc_get_remove_other; auto.
             ++ change (EvRun p :: em ++ [EvFailed p]) with ([EvRun p] ++ (em ++ [EvFailed p])).
                apply once_app.
                ** intros q e1 e2 E. destruct e1 as [|x e1]; [discriminate|]. destruct e1; discriminate.
                ** apply once_app; [apply (r_once _ _ _ R4) | | intros q _ [Hin|[]]; discriminate].
                   intros q e1 e2 E. destruct e1 as [|x e1]; [discriminate|]. destruct e1; discriminate.
                ** intros q [Hin|[]]. discriminate.
          -- cbn [exports next_id mcache chunks heap trace set_exports set_mcache emit]. pose proof (wf_exports _ Hwf). rewrite (r_heap _ _ _ R4); rewrite ?F2, ?F3; try lia.
             rewrite F4. rewrite heap_get_put_other by lia. reflexivity.
  Qed.
End ImportGood.

Lemma imp_good : forall C fuel, good (imp C fuel).
Proof.
  intros C fuel. induction fuel as [|n IH]; simpl.
  - intros f nm all s r s' _ H. discriminate.
  - apply run_import_good. exact IH.
Qed.

(* ---------- host steps and histories ---------- *)
Definition is_run (h : hstep) : bool := match h with HRun _ _ _ => true | HClear => false end.
Definition no_clear (hs : list hstep) : bool := forallb is_run hs.

Lemma host_run_good : forall C fuel force d body s r s',
    WF s -> host_run C fuel force d body s = Some (r, s') -> WF s' /\ exists em, Rel s s' em.
Proof.
  intros C fuel force d body s r s' Hwf H. unfold host_run in H.
  destruct (broken body). { inversion H; subst. split; auto. exists []. apply Rel_refl. }
  destruct (run_items C (imp C fuel) force (new_frame (exports s) d) s body) as [[[fb|e] sb]|] eqn:E; try discriminate.
  - apply (run_items_good C _ (imp_good C fuel)) in E as [Wb [em Rb]]; auto.
    inversion H as [H']. destruct (call_main None sb) as [r2 s2] eqn:E2. inversion H'; subst.
    apply Simple_call_main in E2 as [em2 [S2 _]]; [|exact I].
    eapply good_simple_then; eauto.
  - inversion H; subst. eapply (run_items_good C _ (imp_good C fuel)); eauto.
Qed.

Lemma host_history_good : forall C fuel hs s rs s',
    no_clear hs = true -> WF s -> host_history C fuel hs s = Some (rs, s') -> WF s' /\ exists em, Rel s s' em.
Proof.
  intros C fuel hs. induction hs as [|h hs IH]; intros s rs s' Hnc Hwf H; simpl in H.
  - inversion H; subst. split; auto. exists []. apply Rel_refl.
  - simpl in Hnc. apply andb_true_iff in Hnc as [Hh Hnc].
    destruct (host_step C fuel h s) as [[x s1]|] eqn:E; try discriminate.
    destruct (host_history C fuel hs s1) as [[xs s2]|] eqn:E2; try discriminate.
    inversion H; subst. destruct h; try discriminate. simpl in E.
    apply host_run_good in E as [W1 [em1 R1]]; auto.
    apply IH in E2 as [W2 [em2 R2]]; auto. split; auto. eexists. eapply Rel_trans; eauto.
Qed.

Lemma WF_init : WF init_st.
Proof. constructor; simpl; [lia | intros p id H; discriminate]. Qed.

(* ---------- the load of an uncached module starts by running its chunk ---------- *)
Lemma uncached_import_runs_chunk : forall C rec f nm all s p r s',
    good rec -> WF s -> file_broken C p = false ->
    non_local C s f nm = None -> find_module C nm (fdir f) = Some p -> mc_get p (mcache s) = None ->
    run_import C rec f nm all s = Some (r, s') ->
    exists em, trace s' = trace s ++ EvRun p :: em.
Proof.
  intros C rec f nm all s p r s' Hrec Hwf Hbr Hnl Hfm Hmc H.
  unfold run_import in H. rewrite Hnl, Hfm in H. unfold file_broken in Hbr. rewrite Hbr, andb_false_r in H.
  set (lfc := existsb (path_eqb p) (chunks s)) in *.
  set (s1 := if lfc then s else set_chunks (p :: chunks s) s) in *.
  assert (W1 : WF s1). { unfold s1. destruct lfc; auto. apply WF_set_chunks; auto. }
  assert (Hmc1 : mcache s1 = mcache s). { unfold s1. destruct lfc; reflexivity. }
  assert (Htr : trace s1 = trace s). { unfold s1. destruct lfc; reflexivity. }
  assert (Hex : exports s1 = exports s). { unfold s1. destruct lfc; reflexivity. }
  assert (Hnx : next_id s1 = next_id s). { unfold s1. destruct lfc; reflexivity. }
  rewrite Hmc1, Hmc in H. unfold load_body in H.
  set (s0 := emit (EvRun p) (fresh_exports (set_mcache (mc_set p None (mcache s)) s1))) in *.
  assert (F6 : trace s0 = trace s ++ [EvRun p]) by (rewrite <- Htr; reflexivity).
  assert (W0 : WF s0).
  { constructor; [cbn [exports next_id s0 emit fresh_exports]; lia|].
    intros q id Hq. cbn [mcache s0 emit fresh_exports set_mcache] in Hq.
    destruct (path_eq_dec q p) as [->|Hne]; [rewrite mc_get_set_same in Hq; discriminate|].
    rewrite mc_get_set_other in Hq by auto. rewrite <- Hmc1 in Hq. apply (wf_cco _ W1) in Hq. exact Hq. }
  set (body := match file_get p (files C) with Some b => b | None => [] end) in *.
  destruct (run_items C rec false (new_frame (exports s0) (fst p)) s0 body) as [[[fb|e] sb]|] eqn:Eb; try discriminate.
  2:{ inversion H; subst. apply (run_items_good C rec Hrec) in Eb as [_ [em R]]; auto.
      exists (em ++ [EvFailed p]). cbn [trace set_exports set_mcache emit]. rewrite (r_trace _ _ _ R), F6.
      rewrite <- !app_assoc. reflexivity. }
  apply (run_items_good C rec Hrec) in Eb as [Wb [emb Rb]]; auto.
  assert (exists r2 s2' em2, (if run_import_tests C then run_test_list (m_tests (cur_obj sb)) (emit (EvTests p) sb)
                              else (Ok tt, sb)) = (r2, s2') /\ trace s2' = trace sb ++ em2) as [r2 [s2' [em2 [E2 T2]]]].
  { destruct (run_import_tests C).
    - destruct (run_test_list (m_tests (cur_obj sb)) (emit (EvTests p) sb)) as [r2 s2'] eqn:E2.
      apply Simple_run_test_list in E2 as [em2 [S2 _]]. exists r2, s2', (EvTests p :: em2). split; auto.
      rewrite (sp_trace _ _ _ S2). simpl. rewrite <- app_assoc. reflexivity.
    - exists (Ok tt), sb, []. split; auto. rewrite app_nil_r. reflexivity. }
  rewrite E2 in H. destruct r2 as [[]|e].
  - destruct (call_main (Some (EvMain p)) s2') as [r3 s3'] eqn:E3.
    apply Simple_call_main in E3 as [em3 [S3 _]]; [|exact I].
    destruct r3 as [[]|e3]; inversion H; subst; eexists; cbn [trace set_exports set_mcache emit];
      rewrite (sp_trace _ _ _ S3), T2, (r_trace _ _ _ Rb), F6; rewrite <- !app_assoc; simpl; reflexivity.
  - inversion H; subst. eexists. cbn [trace set_exports set_mcache emit].
    rewrite T2, (r_trace _ _ _ Rb), F6. rewrite <- !app_assoc. simpl. reflexivity.
Qed.

(* ---------- exports ---------- *)
Lemma exported_export_value_same : forall s k v, exported (export_value k v s) k = Some v.
Proof.
  intros. unfold exported, cur_obj, export_value. cbn [exports heap heap_put].
  rewrite heap_get_put_same. cbn [m_data]. apply al_get_insert_same.
Qed.

Lemma exported_export_value_other : forall s k j v, j <> k -> exported (export_value k v s) j = exported s j.
Proof.
  intros. unfold exported, cur_obj, export_value. cbn [exports heap heap_put].
  rewrite heap_get_put_same. cbn [m_data]. apply al_get_insert_other. auto.
Qed.

Lemma exported_export_test : forall s t b j, exported (export_test t b s) j = exported s j.
Proof. intros. unfold exported, cur_obj, export_test. cbn [exports heap heap_put]. rewrite heap_get_put_same. reflexivity. Qed.

Lemma exported_export_main : forall s b j, exported (export_main b s) j = exported s j.
Proof. intros. unfold exported, cur_obj, export_main. cbn [exports heap heap_put]. rewrite heap_get_put_same. reflexivity. Qed.

Lemma exported_emit : forall s e j, exported (emit e s) j = exported s j.
Proof. reflexivity. Qed.

Lemma import_from_items_false : forall v its f s r s', import_from_items false v its f s = (r, s') -> s' = s.
Proof.
  induction its as [|[k a] its IH]; intros f s r s' H; simpl in H.
  - inversion H; auto.
  - destruct (access s v k); [apply IH in H; exact H | inversion H; auto].
Qed.

(* the frame an Import instruction hands back differs at most in its wildcard imports *)
Definition frame_ok (rec : frame -> name -> bool -> st -> M (value * frame)) : Prop :=
  forall f nm all s v f' s', rec f nm all s = Some (Ok (v, f'), s') ->
    locals f' = locals f /\ fexports f' = fexports f /\ fdir f' = fdir f.

Lemma successful_import_frame : forall f v all,
    locals (successful_import f v all) = locals f /\ fexports (successful_import f v all) = fexports f /\
    fdir (successful_import f v all) = fdir f.
Proof. intros. unfold successful_import. destruct all; [destruct (existsb _ _)|]; simpl; auto. Qed.

Lemma run_import_frame_ok : forall C rec, frame_ok (run_import C rec).
Proof.
  intros C rec f nm all s v f' s' H. unfold run_import in H.
  destruct (non_local C s f nm). { inversion H; subst. apply successful_import_frame. }
  destruct (find_module C nm (fdir f)) as [p|]; try discriminate.
  match type of H with (if ?b then _ else _) = _ => destruct b end; try discriminate.
  match type of H with context [mc_get p ?c] => destruct (mc_get p c) as [[id|]|] end.
  - destruct (existsb (path_eqb p) (chunks s)).
    + inversion H; subst. apply successful_import_frame.
    + destruct (load_body _ _ _ _ _) as [[[[]|e] s4]|]; inversion H; subst. apply successful_import_frame.
  - discriminate.
  - destruct (load_body _ _ _ _ _) as [[[[]|e] s4]|]; inversion H; subst. apply successful_import_frame.
Qed.

Lemma imp_frame_ok : forall C fuel, frame_ok (imp C fuel).
Proof. intros C [|n]; simpl; [intros f nm all s v f' s' H; discriminate | apply run_import_frame_ok]. Qed.

Section Exports.
  Variable C : cfg.
  Variable rec : frame -> name -> bool -> st -> M (value * frame).
  Hypothesis Hrec : good rec.
  Hypothesis Hfr : frame_ok rec.

  Lemma import_item_cur : forall f s m all r s',
      WF s -> import_item rec f s m all = Some (r, s') ->
      exports s' = exports s /\ cur_obj s' = cur_obj s.
  Proof.
    intros f s m all r s' Hwf H. unfold import_item in H.
    assert (Hr : forall n b, rec f n b s = Some (r, s') -> exports s' = exports s /\ cur_obj s' = cur_obj s).
    { intros n b E. apply Hrec in E as [_ [em [R Hh]]]; auto. split; [apply (r_exports _ _ _ R)|].
      unfold cur_obj. rewrite (r_exports _ _ _ R). exact Hh. }
    destruct (al_get m (locals f)) as [v|]; [|eapply Hr; eauto].
    destruct all; [|inversion H; auto].
    destruct v; try (inversion H; auto; fail). eapply Hr; eauto.
  Qed.

  Lemma import_item_frame : forall f s m all v f' s',
      import_item rec f s m all = Some (Ok (v, f'), s') ->
      locals f' = locals f /\ fexports f' = fexports f /\ fdir f' = fdir f.
  Proof.
    intros f s m all v f' s' H. unfold import_item in H.
    destruct (al_get m (locals f)) as [w|]; [|eapply Hfr; eauto].
    destruct all; [|inversion H; subst; auto].
    destruct w as [n|id|n|n].
    - discriminate.
    - inversion H; subst. apply (successful_import_frame f (VMod id) true).
    - apply Hfr in H. exact H.
    - inversion H; subst. apply (successful_import_frame f (VPre n) true).
  Qed.

  (* without export_top_level_ids only `export k = ...` changes what k is exported as *)
  Lemma run_item_keeps_export : forall k it f s r s',
      WF s -> no_export_item k it = true -> run_item C rec false f s it = Some (r, s') ->
      exports s' = exports s /\ exported s' k = exported s k.
  Proof.
    intros k it f s r s' Hwf Hne H.
    assert (Hcur : forall s1, exports s1 = exports s /\ cur_obj s1 = cur_obj s ->
                              exports s1 = exports s /\ exported s1 k = exported s k).
    { intros s1 [E1 E2]. split; auto. unfold exported. rewrite E2. reflexivity. }
    destruct it as [m|sp|m alias caught|j e|j e|j e|e| |t b|b| ]; simpl in H.
    - inversion H; subst. auto.
    - destruct sp as [m alias|m its|m].
      + destruct (import_item rec f s m false) as [[[[v f1]|e] s1]|] eqn:E; try discriminate;
          inversion H; subst; apply Hcur; eapply import_item_cur; eauto.
      + destruct (import_item rec f s m false) as [[[[v f1]|e] s1]|] eqn:E; try discriminate.
        * inversion H as [H']. destruct (import_from_items false v its f1 s1) as [r2 s2] eqn:E2.
          apply import_from_items_false in E2. inversion H'; subst. apply Hcur; eapply import_item_cur; eauto.
        * inversion H; subst. apply Hcur; eapply import_item_cur; eauto.
      + destruct (import_item rec f s m true) as [[[[v f1]|e] s1]|] eqn:E; try discriminate;
          inversion H; subst; apply Hcur; eapply import_item_cur; eauto.
    - destruct (al_get m (locals f)); [inversion H; subst; auto|].
      destruct (rec f m false s) as [[[[v f1]|e] s1]|] eqn:E; try discriminate; inversion H; subst.
      + apply Hrec in E as [_ [em [R Hh]]]; auto. apply Hcur. split; [apply (r_exports _ _ _ R)|].
        unfold cur_obj. rewrite (r_exports _ _ _ R). exact Hh.
      + apply Hrec in E as [_ [em [R Hh]]]; auto.
        assert (exports s1 = exports s /\ exported s1 k = exported s k) as [X1 X2].
        { apply Hcur. split; [apply (r_exports _ _ _ R)|]. unfold cur_obj. rewrite (r_exports _ _ _ R). exact Hh. }
        split; auto.
    - simpl in Hne. apply negb_true_iff, N.eqb_neq in Hne.
      destruct (eval C s f e); inversion H; subst; auto. split; auto.
      apply exported_export_value_other. congruence.
    - destruct (eval C s f e); inversion H; subst; auto.
    - destruct (load_id C s f j) as [lhs|]; [|inversion H; subst; auto].
      destruct (eval C s f e) as [rhs|]; [|inversion H; subst; auto].
      destruct lhs, rhs; inversion H; subst; auto.
    - destruct (eval C s f e); inversion H; subst; auto.
    - inversion H; subst; auto.
    - inversion H; subst. split; auto. apply exported_export_test.
    - inversion H; subst. split; auto. apply exported_export_main.
    - inversion H; subst. auto.
  Qed.

  Lemma run_items_keeps_export : forall k its f s r s',
      WF s -> no_export k its = true -> run_items C rec false f s its = Some (r, s') ->
      exports s' = exports s /\ exported s' k = exported s k.
  Proof.
    intros k its. induction its as [|it its IH]; intros f s r s' Hwf Hne H; simpl in H.
    - inversion H; subst. auto.
    - simpl in Hne. apply andb_true_iff in Hne as [Hn1 Hn2].
      destruct (run_item C rec false f s it) as [[[f1|e] s1]|] eqn:E; try discriminate.
      + pose proof (run_item_good C rec Hrec false it f s _ _ Hwf E) as [W1 _].
        apply run_item_keeps_export with (k := k) in E as [E1 E2]; auto.
        apply IH in H as [E3 E4]; auto. split; congruence.
      + inversion H; subst. eapply run_item_keeps_export; eauto.
  Qed.

  Lemma run_items_app : forall force a b f s,
      run_items C rec force f s (a ++ b) =
      match run_items C rec force f s a with
      | Some (Ok f1, s1) => run_items C rec force f1 s1 b
      | other => other
      end.
  Proof.
    intros force a. induction a as [|it a IH]; intros b f s; simpl; auto.
    destruct (run_item C rec force f s it) as [[[f1|e] s1]|]; auto.
  Qed.

  (* `export k = e` makes k readable by later code of the module and puts it into the exports map *)
  Lemma export_item_visible : forall force k e f s f' s' v,
      eval C s f e = Ok v -> run_item C rec force f s (Export k e) = Some (Ok f', s') ->
      eval C s' f' (EVar k) = Ok v /\ exported s' k = Some v.
  Proof.
    intros force k e f s f' s' v Hv H. simpl in H. rewrite Hv in H. inversion H; subst. split.
    - simpl. rewrite al_get_insert_same. reflexivity.
    - apply exported_export_value_same.
  Qed.

  (* the last `export k = ...` of a successfully run item list determines what k is exported as *)
  Lemma last_export_wins_items : forall pre k e post f s f1 s1 v f' s',
      WF s ->
      run_items C rec false f s pre = Some (Ok f1, s1) -> eval C s1 f1 e = Ok v ->
      no_export k post = true ->
      run_items C rec false f s (pre ++ Export k e :: post) = Some (Ok f', s') ->
      exported s' k = Some v.
  Proof.
    intros pre k e post f s f1 s1 v f' s' Hwf Hpre Hv Hne H.
    rewrite run_items_app, Hpre in H. simpl in H. rewrite Hv in H.
    pose proof (run_items_good C rec Hrec false pre f s _ _ Hwf Hpre) as [W1 _].
    assert (W2 : WF (export_value k v s1)) by (eapply Simple_WF; [apply Simple_export_value | exact W1]).
    apply run_items_keeps_export with (k := k) in H as [_ H]; auto.
    rewrite H. apply exported_export_value_same.
  Qed.

  (* ---- export_top_level_ids ---- *)
  Lemma locals_exported_set : forall f s k v,
      locals_exported f s -> locals_exported (set_local k v f) (export_value k v s).
  Proof.
    intros f s k v H j w Hj. unfold set_local in Hj. cbn [locals] in Hj.
    destruct (N.eq_dec j k) as [->|Hne].
    - rewrite al_get_insert_same in Hj. inversion Hj; subst. apply exported_export_value_same.
    - rewrite al_get_insert_other in Hj by auto. rewrite exported_export_value_other by auto. apply H. exact Hj.
  Qed.

  Lemma locals_exported_same : forall f f' s s',
      locals f' = locals f -> (forall k, exported s' k = exported s k) -> locals_exported f s -> locals_exported f' s'.
  Proof. intros f f' s s' Hl He H k v Hk. rewrite Hl in Hk. rewrite He. apply H. exact Hk. Qed.

  Lemma import_from_items_plain : forall v its f s f' s',
      forallb (fun ka => match snd ka with Some a => a =? fst ka | None => true end) its = true ->
      locals_exported f s -> import_from_items true v its f s = (Ok f', s') -> locals_exported f' s'.
  Proof.
    induction its as [|[k a] its IH]; intros f s f' s' Hp Hl H; simpl in H.
    - inversion H; subst. auto.
    - simpl in Hp. apply andb_true_iff in Hp as [Hp1 Hp2].
      destruct (access s v k) as [x|]; [|discriminate].
      apply IH in H; auto. unfold maybe_export.
      assert (bind_name k a = k) as ->.
      { destruct a as [a|]; simpl in *; auto. apply N.eqb_eq in Hp1. auto. }
      apply locals_exported_set. auto.
  Qed.

  Lemma run_item_locals_exported : forall it f s f' s',
      WF s -> plain_item it = true -> locals_exported f s ->
      run_item C rec true f s it = Some (Ok f', s') -> locals_exported f' s'.
  Proof.
    intros it f s f' s' Hwf Hp Hl H.
    assert (Hcur : forall f1 s1, locals f1 = locals f -> exports s1 = exports s /\ cur_obj s1 = cur_obj s ->
                                 locals_exported f1 s1).
    { intros f1 s1 E0 [E1 E2]. apply (locals_exported_same f f1 s s1); auto. intro k. unfold exported. rewrite E2. reflexivity. }
    destruct it as [m|sp|m alias caught|j e|j e|j e|e| |t b|b| ]; simpl in H; simpl in Hp; try discriminate.
    - inversion H; subst. exact Hl.
    - destruct sp as [m alias|m its|m]; try discriminate.
      + destruct (import_item rec f s m false) as [[[[v f1]|e] s1]|] eqn:E; try discriminate.
        inversion H; subst. unfold maybe_export.
        assert (bind_name m alias = m) as ->.
        { destruct alias as [a|]; simpl in *; auto. apply N.eqb_eq in Hp. auto. }
        apply locals_exported_set. apply Hcur; [eapply import_item_frame; eauto | eapply import_item_cur; eauto].
      + destruct (import_item rec f s m false) as [[[[v f1]|e] s1]|] eqn:E; try discriminate.
        inversion H as [H']. apply (import_from_items_plain v its f1 s1 f' s' Hp); auto.
        apply Hcur; [eapply import_item_frame; eauto | eapply import_item_cur; eauto].
    - destruct (eval C s f e); inversion H; subst. apply locals_exported_set. auto.
    - destruct (eval C s f e); inversion H; subst. unfold maybe_export. apply locals_exported_set. auto.
    - destruct (load_id C s f j) as [lhs|]; [|discriminate]. destruct (eval C s f e) as [rhs|]; [|discriminate].
      destruct lhs, rhs; try discriminate. inversion H; subst. unfold maybe_export.
      destruct (al_get j (locals f)) eqn:El.
      + apply locals_exported_set. auto.
      + intros k v Hk. rewrite exported_export_value_other; [apply Hl; auto|]. intros ->. congruence.
    - destruct (eval C s f e); inversion H; subst. auto.
    - inversion H; subst. apply (locals_exported_same f' f' s _); auto. intro k. apply exported_export_test.
    - inversion H; subst. apply (locals_exported_same f' f' s _); auto. intro k. apply exported_export_main.
  Qed.

  Lemma run_items_locals_exported : forall its f s f' s',
      WF s -> plain_script its = true -> locals_exported f s ->
      run_items C rec true f s its = Some (Ok f', s') -> locals_exported f' s'.
  Proof.
    induction its as [|it its IH]; intros f s f' s' Hwf Hp Hl H; simpl in H.
    - inversion H; subst. auto.
    - simpl in Hp. apply andb_true_iff in Hp as [Hp1 Hp2].
      destruct (run_item C rec true f s it) as [[[f1|e] s1]|] eqn:E; try discriminate.
      pose proof (run_item_good C rec Hrec true it f s _ _ Hwf E) as [W1 _].
      apply (IH f1 s1 f' s' W1 Hp2); auto. apply (run_item_locals_exported it f s f1 s1 Hwf Hp1 Hl E).
  Qed.
End Exports.

(* ---------- the theorems pinned in C18Props.v ---------- *)
Theorem T_run_once : forall C fuel hs rs s',
    no_clear hs = true -> host_history C fuel hs init_st = Some (rs, s') -> never_reruns (trace s').
Proof.
  intros C fuel hs rs s' Hnc H. apply host_history_good in H as [_ [em R]]; auto using WF_init.
  rewrite (r_trace _ _ _ R). simpl. exact (r_once _ _ _ R).
Qed.

Theorem T_loaded_never_runs_again : forall C fuel hs s rs s' p id,
    no_clear hs = true -> WF s -> mc_get p (mcache s) = Some (Some id) ->
    host_history C fuel hs s = Some (rs, s') ->
    mc_get p (mcache s') = Some (Some id) /\ exists em, trace s' = trace s ++ em /\ ~ In (EvRun p) em.
Proof.
  intros C fuel hs s rs s' p id Hnc Hwf Hc H. apply host_history_good in H as [_ [em R]]; auto.
  split; [apply (r_stable _ _ _ R); auto|]. exists em. split; [apply (r_trace _ _ _ R)|].
  apply (r_norun _ _ _ R). congruence.
Qed.

Theorem T_no_placeholder_leak : forall C fuel hs s rs s',
    no_clear hs = true -> WF s -> no_placeholder s ->
    host_history C fuel hs s = Some (rs, s') -> no_placeholder s'.
Proof.
  intros C fuel hs s rs s' Hnc Hwf Hnp H. apply host_history_good in H as [_ [em R]]; auto.
  intros p Hp. apply (r_nones _ _ _ R) in Hp. exact (Hnp p Hp).
Qed.

Lemma no_placeholder_init : no_placeholder init_st.
Proof. intros p H. discriminate. Qed.

Theorem T_cycle_is_error : forall C rec f nm all s p,
    file_broken C p = false ->
    non_local C s f nm = None -> find_module C nm (fdir f) = Some p -> mc_get p (mcache s) = Some None ->
    exists s', run_import C rec f nm all s = Some (Err ECycle, s') /\
               mcache s' = mcache s /\ trace s' = trace s /\ heap s' = heap s /\ exports s' = exports s.
Proof.
  intros C rec f nm all s p Hbr Hnl Hfm Hc. unfold run_import. rewrite Hnl, Hfm.
  unfold file_broken in Hbr. rewrite Hbr, andb_false_r.
  destruct (existsb (path_eqb p) (chunks s)); cbn [mcache set_chunks]; rewrite Hc; eexists; split; try reflexivity; auto.
Qed.

Theorem T_in_progress_never_reenters : forall C fuel f nm all s r s' p,
    WF s -> mc_get p (mcache s) = Some None -> imp C fuel f nm all s = Some (r, s') ->
    mc_get p (mcache s') = Some None /\ exists em, trace s' = trace s ++ em /\ ~ In (EvRun p) em.
Proof.
  intros C fuel f nm all s r s' p Hwf Hc H. apply imp_good in H as [_ [em [R _]]]; auto.
  split; [apply (r_nones _ _ _ R); auto|]. exists em. split; [apply (r_trace _ _ _ R)|].
  apply (r_norun _ _ _ R). congruence.
Qed.

Theorem T_failed_import_rolls_back : forall C fuel f nm all s e s',
    WF s -> imp C fuel f nm all s = Some (Err e, s') ->
    exports s' = exports s /\ cur_obj s' = cur_obj s /\
    (forall p, mc_get p (mcache s') = Some None <-> mc_get p (mcache s) = Some None) /\
    exists em, trace s' = trace s ++ em /\
      forall q, mc_get q (mcache s') = mc_get q (mcache s) \/
                (mc_get q (mcache s) = None /\ exists id, mc_get q (mcache s') = Some (Some id) /\ In (EvLoaded q) em).
Proof.
  intros C fuel f nm all s e s' Hwf H. apply imp_good in H as [_ [em [R Hh]]]; auto.
  split; [apply (r_exports _ _ _ R)|]. split; [unfold cur_obj; rewrite (r_exports _ _ _ R); exact Hh|].
  split; [apply (r_nones _ _ _ R)|]. exists em. split; [apply (r_trace _ _ _ R) | apply (r_delta _ _ _ R)].
Qed.

Theorem T_reimport_after_failure_runs_again : forall C fuel f nm all s r s1 em p,
    WF s -> imp C fuel f nm all s = Some (r, s1) -> trace s1 = trace s ++ em ->
    In (EvRun p) em -> ~ In (EvLoaded p) em -> file_broken C p = false ->
    mc_get p (mcache s1) = None /\
    forall fuel2 f2 nm2 all2 r2 s2,
      non_local C s1 f2 nm2 = None -> find_module C nm2 (fdir f2) = Some p ->
      imp C (S fuel2) f2 nm2 all2 s1 = Some (r2, s2) -> exists em2, trace s2 = trace s1 ++ EvRun p :: em2.
Proof.
  intros C fuel f nm all s r s1 em p Hwf H Htr Hrun Hnl Hbr.
  apply imp_good in H as [W1 [em' [R _]]]; auto.
  assert (em' = em) as ->. { pose proof (r_trace _ _ _ R) as E. rewrite Htr in E. apply app_inv_head in E. auto. }
  assert (Hs : mc_get p (mcache s) = None).
  { destruct (mc_get p (mcache s)) eqn:E; auto. exfalso. apply (r_norun _ _ _ R p); auto. congruence. }
  assert (H1 : mc_get p (mcache s1) = None).
  { destruct (r_delta _ _ _ R p) as [E|[_ [id [_ Hin]]]]; [congruence | contradiction]. }
  split; auto. intros fuel2 f2 nm2 all2 r2 s2 Hn Hf H2. simpl in H2.
  eapply uncached_import_runs_chunk; eauto. apply imp_good.
Qed.

Theorem T_export_visibility : forall C rec force k e f s f' s' v,
    eval C s f e = Ok v -> run_item C rec force f s (Export k e) = Some (Ok f', s') ->
    eval C s' f' (EVar k) = Ok v /\ exported s' k = Some v.
Proof. intros. eapply export_item_visible; eauto. Qed.

Theorem T_last_export_wins : forall C fuel pre k e post f s f1 s1 v f' s',
    WF s ->
    run_items C (imp C fuel) false f s pre = Some (Ok f1, s1) -> eval C s1 f1 e = Ok v ->
    no_export k post = true ->
    run_items C (imp C fuel) false f s (pre ++ Export k e :: post) = Some (Ok f', s') ->
    exported s' k = Some v.
Proof. intros C fuel. apply last_export_wins_items. apply imp_good. Qed.

Theorem T_reassign_not_export : forall C rec k e f s f' s',
    run_item C rec false f s (Assign k e) = Some (Ok f', s') -> s' = s.
Proof. intros C rec k e f s f' s' H. simpl in H. destruct (eval C s f e); inversion H; subst. reflexivity. Qed.

Theorem T_resolution_order : forall C n d p, find_module C n d = Some p <-> resolves C d n p.
Proof.
  intros C n d p. unfold find_module. split.
  - destruct (file_exists C (d, n)) eqn:E1.
    + intro H. inversion H; subst. apply res_file. auto.
    + destruct (file_exists C (d ++ [n], MAIN)) eqn:E2; intro H; inversion H; subst. apply res_dir; auto.
  - intros [H|H1 H2]; [rewrite H | rewrite H1, H2]; reflexivity.
Qed.

Theorem T_non_local_order : forall C s f k,
    eval C s f (EVar k) =
    match first_some [al_get k (locals f);
                      wild_find s k (rev (wild f));
                      al_get k (m_data (heap_get (fexports f) (heap s)));
                      (if in_prelude C k then Some (VPre k) else None)] with
    | Some v => Ok v
    | None => Err ENotFound
    end.
Proof.
  intros C s f k. simpl. destruct (al_get k (locals f)); auto. unfold non_local, frame_non_local.
  destruct (wild_find s k (rev (wild f))); auto.
  destruct (al_get k (m_data (heap_get (fexports f) (heap s)))); auto.
  destruct (in_prelude C k); auto.
Qed.

(* the newest wildcard import that has the key wins *)
Lemma wild_find_newest : forall s k older w newer v,
    wild_get s k w = Some v -> (forall w', In w' newer -> wild_get s k w' = None) ->
    wild_find s k (rev (older ++ w :: newer)) = Some v.
Proof.
  intros s k older w newer v Hw Hn. rewrite rev_app_distr. simpl. rewrite <- app_assoc. simpl.
  assert (forall l rest, (forall w', In w' l -> wild_get s k w' = None) -> wild_find s k (l ++ rest) = wild_find s k rest) as Hskip.
  { induction l as [|x l IH]; intros rest Hl; simpl; auto. rewrite (Hl x) by (left; auto). apply IH. intros; apply Hl; right; auto. }
  rewrite Hskip by (intros w' Hin; apply Hn; apply in_rev; auto). simpl. rewrite Hw. reflexivity.
Qed.

Theorem T_top_level_export_final : forall C fuel d its s f' s',
    WF s -> plain_script its = true ->
    run_items C (imp C fuel) true (new_frame (exports s) d) s its = Some (Ok f', s') ->
    locals_exported f' s'.
Proof.
  intros C fuel d its s f' s' Hwf Hp H.
  eapply (run_items_locals_exported C (imp C fuel) (imp_good C fuel) (imp_frame_ok C fuel)); eauto.
  intros k v Hk. simpl in Hk. discriminate.
Qed.

(* a failing import removes only its own placeholder: every module that was in the middle of being
   imported still is, whether the failure is caught or not ... *)
Theorem T_failed_import_keeps_other_placeholders : forall C fuel f nm all s e s' q,
    WF s -> imp C fuel f nm all s = Some (Err e, s') ->
    mc_get q (mcache s) = Some None -> mc_get q (mcache s') = Some None.
Proof.
  intros C fuel f nm all s e s' q Hwf H Hq. apply imp_good in H as [_ [em [R _]]]; auto.
  apply (r_nones _ _ _ R). exact Hq.
Qed.

(* ... so that cycle detection still fires afterwards: an import that leads back to a module still
   being imported is the recursive-import error, also after any number of failed (caught) imports *)
Theorem T_cycle_detected_after_failed_import : forall C fuel f nm all s e s1 q rec f2 nm2 all2,
    WF s -> imp C fuel f nm all s = Some (Err e, s1) ->
    mc_get q (mcache s) = Some None -> file_broken C q = false ->
    non_local C s1 f2 nm2 = None -> find_module C nm2 (fdir f2) = Some q ->
    exists s2, run_import C rec f2 nm2 all2 s1 = Some (Err ECycle, s2) /\ trace s2 = trace s1.
Proof.
  intros C fuel f nm all s e s1 q rec f2 nm2 all2 Hwf H Hq Hbr Hnl Hfm.
  pose proof (T_failed_import_keeps_other_placeholders _ _ _ _ _ _ _ _ q Hwf H Hq) as Hq1.
  destruct (T_cycle_is_error C rec f2 nm2 all2 s1 q Hbr Hnl Hfm Hq1) as [s2 [E [_ [T _]]]].
  exists s2. split; auto.
Qed.

(* a module that does not compile: nothing runs, nothing is cached *)
Theorem T_compile_error_leaves_nothing : forall C rec f nm all s p,
    non_local C s f nm = None -> find_module C nm (fdir f) = Some p ->
    existsb (path_eqb p) (chunks s) = false -> file_broken C p = true ->
    run_import C rec f nm all s = Some (Err ECompile, s).
Proof.
  intros C rec f nm all s p Hnl Hfm Hch Hbr. unfold run_import. rewrite Hnl, Hfm, Hch.
  unfold file_broken in Hbr. rewrite Hbr. reflexivity.
Qed.

(* export_top_level_ids: every form of top-level assignment of the model -- plain, compound (+=), export,
   un-aliased imports -- keeps "each top-level local is exported with the value it holds"; compound
   assignment to an id of an earlier chunk (not a local) exports the new value *)
Theorem T_compound_assign_exports : forall C rec k e f s f' s' a b,
    load_id C s f k = Ok (VInt a) -> eval C s f e = Ok (VInt b) ->
    run_item C rec true f s (AssignOp k e) = Some (Ok f', s') ->
    exported s' k = Some (VInt (a + b)) /\
    (al_get k (locals f) <> None -> al_get k (locals f') = Some (VInt (a + b))).
Proof.
  intros C rec k e f s f' s' a b Hl He H. simpl in H. rewrite Hl, He in H. inversion H; subst. split.
  - apply exported_export_value_same.
  - intro Hk. destruct (al_get k (locals f)); [|congruence]. simpl. apply al_get_insert_same.
Qed.
