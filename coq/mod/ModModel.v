(* Impl-shaped model of koto's module system.

   crates/bytecode/src/module_loader.rs   find_module, ModuleLoader::compile_module (chunk cache)
   crates/runtime/src/vm.rs               run_import (step by step), successful_import,
                                          run_export_value, run_load_non_local, NonLocals::get,
                                          NonLocals::add_wildcard_import, run_tests, KotoVm::run
   crates/bytecode/src/compiler.rs        compile_import / compile_import_item (local check, `as`,
                                          wildcard, what is exported under export_top_level_ids),
                                          compile_assign (force_export_assignment), compile_load_id
   crates/koto/src/koto.rs                Koto::run (script, then @main), clear_module_cache

   Same state as the Rust: loader chunk cache, module_cache (path -> Some exports | None
   placeholder), the VM's active exports map (a pointer into a heap of maps, because KMap is a
   shared reference), per-frame locals / wildcard imports / module_exports pointer.

   Outside the model: the real file system (canonicalize, symlinks, with_extension on dotted
   names, read errors), compile errors in module files (every file compiles), files changing
   while the runtime lives.  No proofs in this file. *)
From Coq Require Export List NArith Bool.
From KV.mod Require Export GenModPins.
Export ListNotations.
Open Scope N_scope.

(* ---------- names, paths, the file system ---------- *)
Definition name := N.                      (* identifiers: module names and map keys *)
Definition dir := list name.               (* directory = path components below the root *)
Definition path := (dir * name)%type.      (* (d, n) is the file d/n.koto *)
Definition MAIN : name := 0.               (* the identifier `main` *)

Fixpoint dir_eqb (a b : dir) : bool :=
  match a, b with
  | [], [] => true
  | x :: a', y :: b' => (x =? y) && dir_eqb a' b'
  | _, _ => false
  end.

Definition path_eqb (p q : path) : bool := dir_eqb (fst p) (fst q) && (snd p =? snd q).

(* ---------- values, module bodies ---------- *)
Inductive value :=
| VInt (n : N)
| VMod (id : N)          (* a KMap: pointer into the heap *)
| VName (n : name)       (* a string holding an identifier (what a failed `import n` leaves in its register) *)
| VPre (n : name).       (* the prelude's entry of that name (core library module) *)

Record fbody := { fb_mark : N; fb_fail : bool }.      (* || print "<mark>" [; throw] *)
Inductive mainv := MFun (b : fbody) | MNotCallable.   (* @main = || ...   /   @main = 1 *)

Inductive expr := ELit (n : N) | EVar (k : name).

Inductive ispec :=
| ImpMod (m : name) (alias : option name)                       (* import m [as alias] *)
| ImpFrom (m : name) (items : list (name * option name))        (* from m import k [as a], ... *)
| ImpAll (m : name).                                            (* from m import * *)

Inductive item :=
| Marker (m : N)                                   (* print "<m>" *)
| Import (s : ispec)
| TryImport (m : name) (alias : option name) (caught : N)   (* try import m [as alias] catch _: print "<caught>" *)
| Export (k : name) (e : expr)                     (* export k = e *)
| Assign (k : name) (e : expr)                     (* k = e *)
| AssignOp (k : name) (e : expr)                   (* k += e   (numbers; `+` on strings is outside the model) *)
| Show (e : expr)                                  (* print the value of e *)
| Fail                                             (* throw *)
| DefineTest (t : name) (b : fbody)                (* @test t = || ... *)
| DefineMain (b : mainv)                           (* @main = ... *)
| SyntaxError.                                     (* text that does not compile: the whole file is rejected *)

(* ---------- maps with insertion order (IndexMap) ---------- *)
Section Alist.
  Context {V : Type}.
  Fixpoint al_get (k : name) (m : list (name * V)) : option V :=
    match m with
    | [] => None
    | (k', v) :: r => if k' =? k then Some v else al_get k r
    end.
  (* IndexMap::insert: an existing key keeps its position *)
  Fixpoint al_insert (k : name) (v : V) (m : list (name * V)) : list (name * V) :=
    match m with
    | [] => [(k, v)]
    | (k', v') :: r => if k' =? k then (k, v) :: r else (k', v') :: al_insert k v r
    end.
End Alist.

(* a KMap with its meta map (only @test entries, in insertion order, and @main) *)
Record mobj := { m_data : list (name * value); m_tests : list (name * fbody); m_main : option mainv }.
Definition empty_obj : mobj := {| m_data := []; m_tests := []; m_main := None |}.

(* ---------- runtime state ---------- *)
Inductive event :=
| EvMark (m : N)          (* stdout: a marker line *)
| EvShow (v : value)      (* stdout: a shown value *)
| EvRun (p : path)        (* ghost: self.run(chunk of p) begins inside run_import *)
| EvTests (p : path)      (* ghost: run_tests begins for p *)
| EvMain (p : path)       (* ghost: @main of p is called *)
| EvLoaded (p : path)     (* ghost: import_result was Ok: exports cached *)
| EvFailed (p : path).    (* ghost: import_result was Err: placeholder removed *)

Record st := {
  chunks : list path;                    (* ModuleLoader::chunks (key set; files never change) *)
  mcache : list (path * option N);       (* VmContext::module_cache *)
  heap : list (N * mobj);                (* all KMaps that were created; first binding wins *)
  next_id : N;
  exports : N;                           (* KotoVm::exports *)
  trace : list event
}.

Fixpoint mc_get (p : path) (c : list (path * option N)) : option (option N) :=
  match c with
  | [] => None
  | (q, v) :: r => if path_eqb q p then Some v else mc_get p r
  end.
Fixpoint mc_remove (p : path) (c : list (path * option N)) : list (path * option N) :=
  match c with
  | [] => []
  | (q, v) :: r => if path_eqb q p then mc_remove p r else (q, v) :: mc_remove p r
  end.
Definition mc_set (p : path) (v : option N) (c : list (path * option N)) := (p, v) :: mc_remove p c.
(* the cleanup of run_import's error branch, as read from vm.rs by tools/k2v_mod.py (GenModPins.v) *)
Definition cleanup_cache (p : path) (c : list (path * option N)) : list (path * option N) :=
  match failure_cleanup with
  | CleanupRemoveOwn => mc_remove p c
  | CleanupDropAllPlaceholders => filter (fun e => match snd e with Some _ => true | None => false end) c
  end.

Fixpoint heap_get (id : N) (h : list (N * mobj)) : mobj :=
  match h with
  | [] => empty_obj
  | (i, o) :: r => if i =? id then o else heap_get id r
  end.

Definition set_chunks c s := {| chunks := c; mcache := mcache s; heap := heap s; next_id := next_id s; exports := exports s; trace := trace s |}.
Definition set_mcache c s := {| chunks := chunks s; mcache := c; heap := heap s; next_id := next_id s; exports := exports s; trace := trace s |}.
Definition set_exports e s := {| chunks := chunks s; mcache := mcache s; heap := heap s; next_id := next_id s; exports := e; trace := trace s |}.
Definition emit (e : event) s := {| chunks := chunks s; mcache := mcache s; heap := heap s; next_id := next_id s; exports := exports s; trace := trace s ++ [e] |}.
Definition heap_put (id : N) (o : mobj) s := {| chunks := chunks s; mcache := mcache s; heap := (id, o) :: heap s; next_id := next_id s; exports := exports s; trace := trace s |}.
(* self.exports = KMap::default() *)
Definition fresh_exports s := {| chunks := chunks s; mcache := mcache s; heap := (next_id s, empty_obj) :: heap s; next_id := next_id s + 1; exports := next_id s; trace := trace s |}.

(* the active exports map, and updates through self.exports *)
Definition cur_obj s := heap_get (exports s) (heap s).
Definition export_value (k : name) (v : value) s :=
  let o := cur_obj s in
  heap_put (exports s) {| m_data := al_insert k v (m_data o); m_tests := m_tests o; m_main := m_main o |} s.
Definition export_test (t : name) (b : fbody) s :=
  let o := cur_obj s in
  heap_put (exports s) {| m_data := m_data o; m_tests := al_insert t b (m_tests o); m_main := m_main o |} s.
Definition export_main (b : mainv) s :=
  let o := cur_obj s in
  heap_put (exports s) {| m_data := m_data o; m_tests := m_tests o; m_main := Some b |} s.

(* a call frame of a module / script top level *)
Record frame := {
  locals : list (name * value);     (* assigned local registers *)
  wild : list value;                (* NonLocals::wildcard_imports, oldest first *)
  fexports : N;                     (* NonLocals::module_exports (captured when the frame was pushed) *)
  fdir : dir                        (* directory of reader.chunk.path *)
}.
Definition set_local (k : name) (v : value) (f : frame) :=
  {| locals := al_insert k v (locals f); wild := wild f; fexports := fexports f; fdir := fdir f |}.
Definition new_frame (e : N) (d : dir) := {| locals := []; wild := []; fexports := e; fdir := d |}.

(* ---------- configuration ---------- *)
Record cfg := {
  files : list (path * list item);     (* the module files on disk *)
  prelude : list name;                 (* names bound in the prelude *)
  run_import_tests : bool              (* KotoVmSettings::run_import_tests *)
}.

Fixpoint file_get (p : path) (fs : list (path * list item)) : option (list item) :=
  match fs with
  | [] => None
  | (q, b) :: r => if path_eqb q p then Some b else file_get p r
  end.
Definition file_exists (C : cfg) (p : path) : bool := match file_get p (files C) with Some _ => true | None => false end.

(* module_loader.rs find_module: <dir>/<name>.koto first, then <dir>/<name>/main.koto *)
Definition find_module (C : cfg) (n : name) (d : dir) : option path :=
  if file_exists C (d, n) then Some (d, n)
  else if file_exists C (d ++ [n], MAIN) then Some (d ++ [n], MAIN)
  else None.

Definition in_prelude (C : cfg) (n : name) : bool := existsb (N.eqb n) (prelude C).

(* ---------- errors / results ---------- *)
Inductive err := ECycle | ENoModule | EThrow | ENotFound | EType | EOutside | ECompile.

(* a file / script that does not compile *)
Definition is_syntax_error (it : item) : bool := match it with SyntaxError => true | _ => false end.
Definition broken (body : list item) : bool := existsb is_syntax_error body.
Inductive res (A : Type) := Ok (a : A) | Err (e : err).
Arguments Ok {A} a.
Arguments Err {A} e.
Definition M (A : Type) := option (res A * st).     (* None: out of fuel *)

(* ---------- non-local lookup: NonLocals::get, then the prelude ---------- *)
Definition wild_get (s : st) (k : name) (w : value) : option value :=
  match w with
  | VMod id => al_get k (m_data (heap_get id (heap s)))
  | _ => None
  end.
(* wildcard imports in reverse order: most recent import takes precedence *)
Fixpoint wild_find (s : st) (k : name) (ws : list value) : option value :=
  match ws with
  | [] => None
  | w :: r => match wild_get s k w with Some v => Some v | None => wild_find s k r end
  end.
Definition frame_non_local (s : st) (f : frame) (k : name) : option value :=
  match wild_find s k (rev (wild f)) with
  | Some v => Some v
  | None => al_get k (m_data (heap_get (fexports f) (heap s)))
  end.
Definition non_local (C : cfg) (s : st) (f : frame) (k : name) : option value :=
  match frame_non_local s f k with
  | Some v => Some v
  | None => if in_prelude C k then Some (VPre k) else None
  end.

(* compile_load_id: an assigned local wins, otherwise LoadNonLocal *)
Definition eval (C : cfg) (s : st) (f : frame) (e : expr) : res value :=
  match e with
  | ELit n => Ok (VInt n)
  | EVar k =>
      match al_get k (locals f) with
      | Some v => Ok v
      | None => match non_local C s f k with Some v => Ok v | None => Err ENotFound end
      end
  end.

(* the value of an id used as an operand (compile_load_id) *)
Definition load_id (C : cfg) (s : st) (f : frame) (k : name) : res value := eval C s f (EVar k).

(* NonLocals::add_wildcard_import: skipped when the same instance is already there *)
Definition same_instance (a b : value) : bool :=
  match a, b with
  | VMod x, VMod y => x =? y
  | VPre x, VPre y => x =? y
  | _, _ => false
  end.
Definition successful_import (f : frame) (v : value) (all : bool) : frame :=
  if all then
    if existsb (same_instance v) (wild f) then f
    else {| locals := locals f; wild := wild f ++ [v]; fexports := fexports f; fdir := fdir f |}
  else f.

(* run_tests: the @test entries in insertion order; the first failure is returned *)
Fixpoint run_test_list (ts : list (name * fbody)) (s : st) : res unit * st :=
  match ts with
  | [] => (Ok tt, s)
  | (_, b) :: r =>
      let s1 := emit (EvMark (fb_mark b)) s in
      if fb_fail b then (Err EThrow, s1) else run_test_list r s1
  end.

Definition call_main (ev : option event) (s : st) : res unit * st :=
  match m_main (cur_obj s) with
  | Some (MFun b) =>
      let s0 := match ev with Some e => emit e s | None => s end in
      let s1 := emit (EvMark (fb_mark b)) s0 in
      if fb_fail b then (Err EThrow, s1) else (Ok tt, s1)
  | Some MNotCallable => (Err EType, s)
  | None => (Ok tt, s)
  end.

Section Exec.
  Variable C : cfg.
  (* the nested Import instruction (run_import with less fuel) *)
  Variable rec : frame -> name -> bool -> st -> M (value * frame).

  (* compile_import_item + the Import / ImportAll instruction *)
  Definition import_item (f : frame) (s : st) (m : name) (all : bool) : M (value * frame) :=
    match al_get m (locals f) with
    | Some v =>
        (* "the item to be imported is already locally assigned" *)
        if all then
          (* ImportAll on the local's register: run_import dispatches on the register's value *)
          match v with
          | VName n => rec f n true s
          | VMod _ | VPre _ => Some (Ok (v, successful_import f v true), s)
          | VInt _ => Some (Err EType, s)
          end
        else Some (Ok (v, f), s)                       (* Copy *)
    | None => rec f m all s                            (* LoadString; Import / ImportAll *)
    end.

  (* the Access instruction on the value a `from` path evaluated to *)
  Definition access (s : st) (v : value) (k : name) : res value :=
    match v with
    | VMod id => match al_get k (m_data (heap_get id (heap s))) with Some x => Ok x | None => Err ENotFound end
    | _ => Err ENotFound
    end.

  Definition maybe_export (force : bool) (k : name) (v : value) (s : st) : st :=
    if force then export_value k v s else s.

  Definition bind_name (m : name) (alias : option name) : name :=
    match alias with Some a => a | None => m end.

  (* from m import k1 [as a1], k2 ...: Access; assign the local; export under the ITEM's id *)
  Fixpoint import_from_items (force : bool) (v : value) (its : list (name * option name)) (f : frame) (s : st)
    : res frame * st :=
    match its with
    | [] => (Ok f, s)
    | (k, alias) :: r =>
        match access s v k with
        | Err e => (Err e, s)
        | Ok x => import_from_items force v r (set_local (bind_name k alias) x f) (maybe_export force k x s)
        end
    end.

  (* compile_export_iterable over a map: ExportEntry for every entry in stored order *)
  Fixpoint export_entries (es : list (name * value)) (s : st) : st :=
    match es with
    | [] => s
    | (k, v) :: r => export_entries r (export_value k v s)
    end.

  Definition run_item (force : bool) (f : frame) (s : st) (it : item) : M frame :=
    match it with
    | Marker m => Some (Ok f, emit (EvMark m) s)
    | Fail => Some (Err EThrow, s)
    | Show e =>
        match eval C s f e with
        | Ok v => Some (Ok f, emit (EvShow v) s)
        | Err e => Some (Err e, s)
        end
    | Assign k e =>
        match eval C s f e with
        | Ok v => Some (Ok (set_local k v f), maybe_export force k v s)
        | Err e => Some (Err e, s)
        end
    | AssignOp k e =>
        (* compile_compound_assignment_op: the lhs is the local's register, or a temporary loaded with
           LoadNonLocal; the result is written to that register; under export_top_level_ids the result is
           exported under k in both cases *)
        match load_id C s f k with
        | Err x => Some (Err x, s)
        | Ok lhs =>
            match eval C s f e with
            | Err x => Some (Err x, s)
            | Ok rhs =>
                match lhs, rhs with
                | VInt a, VInt b =>
                    let v := VInt (a + b) in
                    let f1 := match al_get k (locals f) with Some _ => set_local k v f | None => f end in
                    Some (Ok f1, maybe_export force k v s)
                | _, _ => Some (Err EType, s)
                end
            end
        end
    | Export k e =>
        match eval C s f e with
        | Ok v => Some (Ok (set_local k v f), export_value k v s)
        | Err e => Some (Err e, s)
        end
    | DefineTest t b => Some (Ok f, export_test t b s)
    | DefineMain b => Some (Ok f, export_main b s)
    | SyntaxError => Some (Err ECompile, s)           (* unreachable: broken bodies are rejected before they run *)
    | Import (ImpMod m alias) =>
        match import_item f s m false with
        | None => None
        | Some (Err e, s1) => Some (Err e, s1)
        | Some (Ok (v, f1), s1) =>
            (* the local is `alias` (or m); the export (if forced) is under the import id m *)
            Some (Ok (set_local (bind_name m alias) v f1), maybe_export force m v s1)
        end
    | Import (ImpFrom m its) =>
        match import_item f s m false with
        | None => None
        | Some (Err e, s1) => Some (Err e, s1)
        | Some (Ok (v, f1), s1) => Some (import_from_items force v its f1 s1)
        end
    | Import (ImpAll m) =>
        match import_item f s m true with
        | None => None
        | Some (Err e, s1) => Some (Err e, s1)
        | Some (Ok (v, f1), s1) =>
            if force then
              match v with
              | VMod id => Some (Ok f1, export_entries (m_data (heap_get id (heap s1))) s1)
              | _ => Some (Err EOutside, s1)       (* iterating a core library module: not modelled *)
              end
            else Some (Ok f1, s1)
        end
    | TryImport m alias caught =>
        match al_get m (locals f) with
        | Some v => Some (Ok (set_local (bind_name m alias) v f), maybe_export force m v s)
        | None =>
            match rec f m false s with
            | None => None
            | Some (Ok (v, f1), s1) => Some (Ok (set_local (bind_name m alias) v f1), maybe_export force m v s1)
            | Some (Err _, s1) =>
                (* the register of the local still holds the string loaded for the Import instruction *)
                Some (Ok (set_local (bind_name m alias) (VName m) f), emit (EvMark caught) s1)
            end
        end
    end.

  Fixpoint run_items (force : bool) (f : frame) (s : st) (its : list item) : M frame :=
    match its with
    | [] => Some (Ok f, s)
    | it :: r =>
        match run_item force f s it with
        | None => None
        | Some (Ok f1, s1) => run_items force f1 s1 r
        | Some (Err e, s1) => Some (Err e, s1)
        end
    end.

  (* the closure inside run_import: run the chunk, then the tests, then @main *)
  Definition load_body (p : path) (body : list item) (s : st) : M unit :=
    let s0 := emit (EvRun p) s in
    match run_items false (new_frame (exports s0) (fst p)) s0 body with
    | None => None
    | Some (Err e, s1) => Some (Err e, s1)
    | Some (Ok _, s1) =>
        let '(r2, s2) :=
          if run_import_tests C then run_test_list (m_tests (cur_obj s1)) (emit (EvTests p) s1)
          else (Ok tt, s1) in
        match r2 with
        | Err e => Some (Err e, s2)
        | Ok _ => let '(r3, s3) := call_main (Some (EvMain p)) s2 in Some (r3, s3)
        end
    end.

  (* vm.rs run_import, for a register holding the string `nm` *)
  Definition run_import (f : frame) (nm : name) (all : bool) (s : st) : M (value * frame) :=
    (* Is the import available as a non-local? (frame non-locals, then the prelude) *)
    match non_local C s f nm with
    | Some v => Some (Ok (v, successful_import f v all), s)
    | None =>
        (* loader.compile_module(name, current source path) *)
        match find_module C nm (fdir f) with
        | None => Some (Err ENoModule, s)
        | Some p =>
            let loaded_from_cache := existsb (path_eqb p) (chunks s) in
            let body := match file_get p (files C) with Some b => b | None => [] end in
            (* a chunk that is not in the loader's cache is compiled now; a compile error returns
               before the chunk cache and the module cache are touched *)
            if negb loaded_from_cache && broken body then Some (Err ECompile, s) else
            let s1 := if loaded_from_cache then s else set_chunks (p :: chunks s) s in
            (* Has the module been loaded previously? *)
            let in_cache := mc_get p (mcache s1) in
            let reuse :=
              match in_cache with
              | Some (Some id) => if loaded_from_cache then Some id else None
              | _ => None
              end in
            match in_cache, reuse with
            | Some None, _ => Some (Err ECycle, s1)
            | _, Some id => Some (Ok (VMod id, successful_import f (VMod id) all), s1)
            | _, None =>
                (* placeholder; swap the exports map *)
                let s2 := set_mcache (mc_set p None (mcache s1)) s1 in
                let importer_exports := exports s2 in
                let s3 := fresh_exports s2 in
                match load_body p body s3 with
                | None => None
                | Some (Ok _, s4) =>
                    let module_exports := exports s4 in
                    let s5 := set_mcache (mc_set p (Some module_exports) (mcache (emit (EvLoaded p) s4))) (emit (EvLoaded p) s4) in
                    Some (Ok (VMod module_exports, successful_import f (VMod module_exports) all),
                          set_exports importer_exports s5)
                | Some (Err e, s4) =>
                    let s5 := set_mcache (cleanup_cache p (mcache (emit (EvFailed p) s4))) (emit (EvFailed p) s4) in
                    Some (Err e, set_exports importer_exports s5)
                end
            end
        end
    end.
End Exec.

(* the Import instruction, with fuel for the nesting depth of imports *)
Fixpoint imp (C : cfg) (fuel : nat) : frame -> name -> bool -> st -> M (value * frame) :=
  match fuel with
  | O => fun _ _ _ _ => None
  | S n => run_import C (imp C n)
  end.

(* ---------- the host ---------- *)
Inductive hstep :=
| HRun (force : bool) (d : dir) (body : list item)    (* compile (export_top_level_ids = force, script_path in d) and Koto::run *)
| HClear.                                             (* Koto::clear_module_cache *)

Definition init_st : st :=
  {| chunks := []; mcache := []; heap := [(0, empty_obj)]; next_id := 1; exports := 0; trace := [] |}.

(* Koto::run with run_tests = false: the script, then @main of the (persistent) exports *)
Definition host_run (C : cfg) (fuel : nat) (force : bool) (d : dir) (body : list item) (s : st) : M unit :=
  if broken body then Some (Err ECompile, s) else
  match run_items C (imp C fuel) force (new_frame (exports s) d) s body with
  | None => None
  | Some (Err e, s1) => Some (Err e, s1)
  | Some (Ok _, s1) => Some (call_main None s1)
  end.

Definition host_step (C : cfg) (fuel : nat) (h : hstep) (s : st) : M unit :=
  match h with
  | HRun force d body => host_run C fuel force d body s
  | HClear => Some (Ok tt, set_chunks [] s)
  end.

(* a history of host steps on one runtime: the per-step results (errors do not stop the history) *)
Fixpoint host_history (C : cfg) (fuel : nat) (hs : list hstep) (s : st) : option (list (res unit) * st) :=
  match hs with
  | [] => Some ([], s)
  | h :: r =>
      match host_step C fuel h s with
      | None => None
      | Some (x, s1) =>
          match host_history C fuel r s1 with
          | None => None
          | Some (xs, s2) => Some (x :: xs, s2)
          end
      end
  end.
