(* C04 — pinned laws of the reference semantics for errors, handlers and finally. *)
From KV.core Require Import Ast Sem SemProofs.

Theorem finally_provides_value : forall f cenv yt e s body fb v e1 s1 w e2 s2,
  eval f cenv yt e s body = (RVal v, e1, s1) ->
  eval f cenv yt e1 s1 fb = (RVal w, e2, s2) ->
  eval (S f) cenv yt e s (ETry body [] (Some fb)) = (RVal w, e2, s2).
Proof. exact SemProofs.finally_provides_value. Qed.
Theorem finally_runs_on_uncaught_throw : forall f cenv yt e s body fb v e1 s1 w e2 s2,
  eval f cenv yt e s body = (RThrow v, e1, s1) ->
  eval f cenv yt e1 s1 fb = (RVal w, e2, s2) ->
  eval (S f) cenv yt e s (ETry body [] (Some fb)) = (RThrow v, e2, s2).
Proof. exact SemProofs.finally_runs_on_uncaught_throw. Qed.
Theorem finally_runs_on_return : forall f cenv yt e s body cs fb v e1 s1 w e2 s2,
  eval f cenv yt e s body = (RRet v, e1, s1) ->
  eval f cenv yt e1 s1 fb = (RVal w, e2, s2) ->
  eval (S f) cenv yt e s (ETry body cs (Some fb)) = (RRet v, e2, s2).
Proof. exact SemProofs.finally_runs_on_return. Qed.
Theorem catch_receives_thrown_value : forall f cenv yt e s body y cb v e1 s1,
  eval f cenv yt e s body = (RThrow v, e1, s1) ->
  eval (S f) cenv yt e s (ETry body [(Some y, None, cb)] None) = eval f cenv yt (update y v e1) s1 cb.
Proof. exact SemProofs.catch_receives_thrown_value. Qed.
Theorem typed_catch_falls_through : forall f cenv yt e s body h cb1 cb2 v e1 s1,
  eval f cenv yt e s body = (RThrow v, e1, s1) -> hint_ok h v = false ->
  eval (S f) cenv yt e s (ETry body [(None, Some h, cb1); (None, None, cb2)] None) = eval f cenv yt e1 s1 cb2.
Proof. exact SemProofs.typed_catch_falls_through. Qed.
Theorem error_in_catch_still_runs_finally : forall f cenv yt e s body cb fb v e1 s1 v2 e2 s2 w e3 s3,
  eval f cenv yt e s body = (RThrow v, e1, s1) ->
  eval f cenv yt e1 s1 cb = (RThrow v2, e2, s2) ->
  eval f cenv yt e2 s2 fb = (RVal w, e3, s3) ->
  eval (S f) cenv yt e s (ETry body [(None, None, cb)] (Some fb)) = (RThrow v2, e3, s3).
Proof. exact SemProofs.error_in_catch_still_runs_finally. Qed.

Print Assumptions finally_provides_value.
Print Assumptions finally_runs_on_uncaught_throw.
Print Assumptions finally_runs_on_return.
Print Assumptions catch_receives_thrown_value.
Print Assumptions typed_catch_falls_through.
Print Assumptions error_in_catch_still_runs_finally.

Example innermost_handler_from_call_depth :
  (* f = || throw 'x'; g = || f(); try g() catch e e *)
  fst (run 100 (EBlock [EAssign 0%N None (EFn [] None None (EThrow (EStr [120%N])));
                        EAssign 1%N None (EFn [] None None (ECall (EId 0%N) []));
                        ETry (ECall (EId 1%N) []) [(Some 2%N, None, EId 2%N)] None])) = RVal (VStr [120%N]).
Proof. vm_compute. reflexivity. Qed.
Example state_at_throw_is_kept :
  (* l = []; try (l.push 1; throw 'x'; l.push 2) catch _ 0; size l *)
  fst (run 100 (EBlock [EAssign 0%N None (EList []);
                        ETry (EBlock [EPush (EId 0%N) (EInt 1); EThrow (EStr [120%N]); EPush (EId 0%N) (EInt 2)]) [(None, None, EInt 0)] None;
                        ESize (EId 0%N)])) = RVal (VInt 1).
Proof. vm_compute. reflexivity. Qed.
