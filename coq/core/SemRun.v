(* Encoders for the correspondence check: the canonical rendering of results,
   byte-for-byte the format of harness/src/script.rs `canon` / `error_class`. *)
From KV.core Require Import Ast Sem.
Open Scope Z_scope.

Definition hexdigit (n : Z) : N := Z.to_N (if n <? 10 then 48 + n else 87 + n).

Fixpoint hex_fixed (digits : nat) (z : Z) (acc : bytes) : bytes :=
  match digits with
  | O => acc
  | S d => hex_fixed d (z / 16) (hexdigit (z mod 16) :: acc)
  end.

Definition canon_str (x : bytes) : bytes :=
  [115; 34]%N ++
  flat_map (fun c => if (N.leb 32 c && N.ltb c 127 && negb (N.eqb c 34) && negb (N.eqb c 92))%bool
                     then [c]
                     else [92; 120]%N ++ hex_fixed 2 (Z.of_N c) []) x
  ++ [34%N].

Definition commas (l : list bytes) : bytes :=
  (fix go l := match l with [] => [] | [x] => x | x :: r => x ++ [44%N] ++ go r end) l.

Fixpoint canon (fuel : nat) (s : store) (v : value) : bytes :=
  match fuel with
  | O => [46; 46; 46]%N
  | S f =>
      match v with
      | VNull => [110%N]
      | VBool true => [116%N]
      | VBool false => [102%N]
      | VInt z => 105%N :: dec z
      | VFlt bits => if f_is_nan bits then [100; 78; 97; 78]%N else 100%N :: hex_fixed 16 bits []
      | VStr x => canon_str x
      | VList l => [76; 91]%N ++ commas (map (canon f s) (get_list s l)) ++ [93%N]
      | VTuple vs => [84; 40]%N ++ commas (map (canon f s) vs) ++ [41%N]
      | VMap m => [77; 123]%N ++ commas (map (fun kv => canon f s (fst kv) ++ [61%N] ++ canon f s (snd kv)) (get_map s m)) ++ [125%N]
      | VRange lo hi incl => [82%N] ++ dec lo ++ [46; 46]%N ++ (if incl then [61%N] else []) ++ dec hi
      | VFn _ => [70%N]
      | VIter _ => [73%N]
      end
  end.

(* result kinds: 0 value, 1 thrown, 2 error class, 3 out of fuel, 4 unsupported, 5 stray break/continue *)
Definition ecls_code (c : ecls) : Z :=
  match c with EBinaryOp => 1 | EType => 2 | EArgs => 3 | ERuntime => 4 | EUnimpl => 5 end.

Definition run_out (fuel : nat) (p : expr) : Z * bytes * list bytes :=
  let '(r, s) := run fuel p in
  let o := rev (out s) in
  match r with
  | RVal v => (0, canon 64 s v, o)
  | RThrow v => (1, canon 64 s v, o)
  | RErr c => (2, [Z.to_N (ecls_code c)], o)
  | RFuel => (3, [], o)
  | RUnsup => (4, [], o)
  | _ => (5, [], o)
  end.
