(* Core abstract syntax of Koto programs used by the reference semantics.
   Identifiers are numbers (printed as v0, v1, …); strings are byte lists. *)
From Coq Require Export List ZArith NArith Bool.
Export ListNotations.

Definition id := N.
Definition bytes := list N.

Inductive binop := OAdd | OSub | OMul | ODiv | ORem | OPow.
Inductive cmpop := CLt | CLe | CGt | CGe | CEq | CNe.

(* type hints (C16): a name plus `?` *)
Record hint := mkhint { h_name : bytes; h_opt : bool }.

Inductive pattern :=
| PWild (h : option hint)            (* _  /  _: Type *)
| PNull | PBool (b : bool) | PInt (z : Z) | PStr (s : bytes)
| PId (x : id) (h : option hint)      (* x  /  x: Type *)
| PTuple (ps : list pattern)          (* (a, b) *)
| PTupleRest (before : list pattern) (rest : option id) (after : list pattern)
                                      (* (a, rest...) / (..., z) / (a, ..., z): one ellipsis *)
| PMap (keys : list (bytes * option id))   (* {foo, bar as b} *)
| POr (ps : list pattern).

(* targets of multi-assignment / for args / function args *)
Inductive target :=
| TId (x : id) (h : option hint)
| TWild
| TTuple (ts : list target).          (* nested unpacking (a, (b, c)) *)

Inductive expr :=
| ENull | EBool (b : bool) | EInt (z : Z) | EFlt (bits : Z) | EStr (s : bytes)
| EInterp (parts : list (bytes + expr))            (* "a{x}b" *)
| EId (x : id)
| ENeg (e : expr) | ENot (e : expr)
| EBin (op : binop) (a b : expr)
| ECmp (first : expr) (rest : list (cmpop * expr)) (* a < b <= c *)
| EAnd (a b : expr) | EOr (a b : expr)
| EAssign (x : id) (h : option hint) (e : expr)    (* x = e   /  let x: T = e *)
| EOpAssign (op : binop) (x : id) (e : expr)       (* x += e *)
| EMulti (ts : list target) (e : expr)             (* a, b = e *)
| EList (es : list expr) | ETuple (es : list expr)
| EMap (kvs : list (bytes * expr))
| ERange (a b : expr) (incl : bool)
| EIndex (e i : expr)
| EIndexAssign (e i v : expr)                      (* e[i] = v *)
| EAccess (e : expr) (k : bytes)                   (* e.k on maps *)
| EAccessAssign (e : expr) (k : bytes) (v : expr)
| EIf (arms : list (expr * expr)) (els : option expr)
| ESwitch (arms : list (expr * expr)) (els : option expr)
| EWhile (c b : expr) | EUntil (c b : expr) | ELoop (b : expr)
| EFor (ts : list target) (it : expr) (b : expr)
| EBreak (v : option expr) | EContinue
| EFn (params : list (target * option expr)) (variadic : option id) (ret : option hint) (body : expr)
| EGenFn (params : list (target * option expr)) (variadic : option id) (body : expr)
        (* a function whose body contains `yield`: calling it makes a generator *)
| EYield (e : expr)
| ENext (e : expr)                                 (* e.next() *)
| EToTuple (e : expr) | EToList (e : expr)         (* e.to_tuple() / e.to_list() *)
| ECall (f : expr) (args : list expr)
| ECallP (f : expr) (args : list (bool * expr))     (* f a..., b : arguments flagged true are packed (`a...`) *)
| EPipe (a : expr) (f : expr) (args : list expr)   (* a -> f args *)
| EReturn (v : option expr)
| EMatch (subjects : list expr) (arms : list (list (list pattern) * option expr * expr)) (els : option expr)
        (* each arm: alternatives (each a pattern list, one per subject), guard, body *)
| EThrow (e : expr)
| ETry (body : expr) (catches : list (option id * option hint * expr)) (fin : option expr)
| EPrint (e : expr)
| ESize (e : expr)                                 (* size e *)
| EPush (l v : expr)                               (* l.push v *)
| EInsert (m k v : expr)                           (* m.insert k, v *)
| ERemoveKey (m k : expr)                          (* m.remove k *)
| ECopy (e : expr) | EDeepCopy (e : expr)
| EBlock (es : list expr).
