(* Laws of the reference semantics that the language guide states outright.
   They pin the reference: a silent change of Sem.v breaks them. *)
From KV.core Require Import Ast Sem.
From Coq Require Import Lia.
Open Scope Z_scope.

Lemma wrap64_range : forall z, - two63 <= wrap64 z < two63.
Proof.
  intro z. unfold wrap64, two63, two64.
  pose proof (Z.mod_pos_bound (z + 9223372036854775808) 18446744073709551616 ltac:(lia)). lia.
Qed.

Lemma wrap64_id : forall z, - two63 <= z < two63 -> wrap64 z = z.
Proof.
  intros z H. unfold wrap64, two63, two64 in *.
  rewrite Z.mod_small by lia. lia.
Qed.

Lemma wrap64_congr : forall z, (wrap64 z - z) mod two64 = 0.
Proof.
  intro z. unfold wrap64, two63, two64.
  pose proof (Z.div_mod (z + 9223372036854775808) 18446744073709551616 ltac:(lia)) as H.
  replace ((z + 9223372036854775808) mod 18446744073709551616 - 9223372036854775808 - z)
    with ((- ((z + 9223372036854775808) / 18446744073709551616)) * 18446744073709551616) by lia.
  apply Z.mod_mul. lia.
Qed.

Lemma int_add_wraps : forall x y, arith OAdd (VInt x) (VInt y) = RVal (VInt (wrap64 (x + y))).
Proof. reflexivity. Qed.
Lemma int_sub_wraps : forall x y, arith OSub (VInt x) (VInt y) = RVal (VInt (wrap64 (x - y))).
Proof. reflexivity. Qed.
Lemma int_mul_wraps : forall x y, arith OMul (VInt x) (VInt y) = RVal (VInt (wrap64 (x * y))).
Proof. reflexivity. Qed.

Lemma int_div_is_float : forall x y, exists bits, arith ODiv (VInt x) (VInt y) = RVal (VFlt bits).
Proof. intros. eexists. reflexivity. Qed.

Lemma div_always_float : forall a b r, is_num a = true -> is_num b = true ->
  arith ODiv a b = RVal r -> exists bits, r = VFlt bits.
Proof.
  intros a b r Ha Hb H. unfold arith in H. rewrite Ha, Hb in H. cbn [andb] in H.
  destruct a; try discriminate; destruct b; try discriminate; inversion H; eexists; reflexivity.
Qed.

Lemma falsy_only_null_false : forall v, truthy v = false <-> (v = VNull \/ v = VBool false).
Proof.
  intro v; split.
  - destruct v as [|[]| | | | | | | |]; cbn; intro H; try discriminate; auto.
  - intros [->| ->]; reflexivity.
Qed.

Lemma and_short_circuits : forall f cenv e s a b v e1 s1,
  eval f cenv e s a = (RVal v, e1, s1) -> truthy v = false ->
  eval (S f) cenv e s (EAnd a b) = (RVal v, e1, s1).
Proof. intros. cbn [eval]. rewrite H, H0. reflexivity. Qed.

Lemma and_evaluates_rhs : forall f cenv e s a b v e1 s1,
  eval f cenv e s a = (RVal v, e1, s1) -> truthy v = true ->
  eval (S f) cenv e s (EAnd a b) = eval f cenv e1 s1 b.
Proof. intros. cbn [eval]. rewrite H, H0. reflexivity. Qed.

Lemma or_short_circuits : forall f cenv e s a b v e1 s1,
  eval f cenv e s a = (RVal v, e1, s1) -> truthy v = true ->
  eval (S f) cenv e s (EOr a b) = (RVal v, e1, s1).
Proof. intros. cbn [eval]. rewrite H, H0. reflexivity. Qed.

Lemma or_evaluates_rhs : forall f cenv e s a b v e1 s1,
  eval f cenv e s a = (RVal v, e1, s1) -> truthy v = false ->
  eval (S f) cenv e s (EOr a b) = eval f cenv e1 s1 b.
Proof. intros. cbn [eval]. rewrite H, H0. reflexivity. Qed.

(* a comparison chain stops at the first false link: later operands are not evaluated *)
Lemma chain_stops_at_false : forall f cenv e s a op b rest va e1 s1 vb e2 s2,
  eval f cenv e s a = (RVal va, e1, s1) ->
  eval f cenv e1 s1 b = (RVal vb, e2, s2) ->
  compare_op op DEPTH s2 va vb = RVal (VBool false) ->
  eval (S f) cenv e s (ECmp a ((op, b) :: rest)) = (RVal (VBool false), e2, s2).
Proof. intros. cbn [eval]. rewrite H. rewrite H0. rewrite H1. reflexivity. Qed.

(* the missing else branch yields null *)
Lemma if_without_else_is_null : forall f cenv e s c b v e1 s1,
  eval f cenv e s c = (RVal v, e1, s1) -> truthy v = false ->
  eval (S f) cenv e s (EIf [(c, b)] None) = (RVal VNull, e1, s1).
Proof. intros. cbn [eval]. rewrite H, H0. reflexivity. Qed.
