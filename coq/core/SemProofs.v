(* Laws of the reference semantics that the language guide states outright.
   They pin the reference: a silent change of Sem.v breaks them. *)
From KV.core Require Import Ast Sem.
From Coq Require Import Lia.
Open Scope Z_scope.

Lemma wrap64_range : forall z, - two63 <= wrap64 z < two63.
Proof.
  intro z. unfold wrap64, two63, two64.
  pose proof (Z.mod_pos_bound (z + 9223372036854775808) 18446744073709551616 ltac:(lia)). lia.
Qed.

Lemma wrap64_id : forall z, - two63 <= z < two63 -> wrap64 z = z.
Proof.
  intros z H. unfold wrap64, two63, two64 in *.
  rewrite Z.mod_small by lia. lia.
Qed.

Lemma wrap64_congr : forall z, (wrap64 z - z) mod two64 = 0.
Proof.
  intro z. unfold wrap64, two63, two64.
  pose proof (Z.div_mod (z + 9223372036854775808) 18446744073709551616 ltac:(lia)) as H.
  replace ((z + 9223372036854775808) mod 18446744073709551616 - 9223372036854775808 - z)
    with ((- ((z + 9223372036854775808) / 18446744073709551616)) * 18446744073709551616) by lia.
  apply Z.mod_mul. lia.
Qed.

Lemma int_add_wraps : forall x y, arith OAdd (VInt x) (VInt y) = RVal (VInt (wrap64 (x + y))).
Proof. reflexivity. Qed.
Lemma int_sub_wraps : forall x y, arith OSub (VInt x) (VInt y) = RVal (VInt (wrap64 (x - y))).
Proof. reflexivity. Qed.
Lemma int_mul_wraps : forall x y, arith OMul (VInt x) (VInt y) = RVal (VInt (wrap64 (x * y))).
Proof. reflexivity. Qed.

Lemma int_div_is_float : forall x y, exists bits, arith ODiv (VInt x) (VInt y) = RVal (VFlt bits).
Proof. intros. eexists. reflexivity. Qed.

Lemma div_always_float : forall a b r, is_num a = true -> is_num b = true ->
  arith ODiv a b = RVal r -> exists bits, r = VFlt bits.
Proof.
  intros a b r Ha Hb H. unfold arith in H. rewrite Ha, Hb in H. cbn [andb] in H.
  destruct a; try discriminate; destruct b; try discriminate; inversion H; eexists; reflexivity.
Qed.

Lemma falsy_only_null_false : forall v, truthy v = false <-> (v = VNull \/ v = VBool false).
Proof.
  intro v; split.
  - destruct v as [|[]| | | | | | | | |]; cbn; intro H; try discriminate; auto.
  - intros [->| ->]; reflexivity.
Qed.

Lemma and_short_circuits : forall f cenv yt e s a b v e1 s1,
  eval f cenv yt e s a = (RVal v, e1, s1) -> truthy v = false ->
  eval (S f) cenv yt e s (EAnd a b) = (RVal v, e1, s1).
Proof. intros. cbn [eval]. rewrite H, H0. reflexivity. Qed.

Lemma and_evaluates_rhs : forall f cenv yt e s a b v e1 s1,
  eval f cenv yt e s a = (RVal v, e1, s1) -> truthy v = true ->
  eval (S f) cenv yt e s (EAnd a b) = eval f cenv yt e1 s1 b.
Proof. intros. cbn [eval]. rewrite H, H0. reflexivity. Qed.

Lemma or_short_circuits : forall f cenv yt e s a b v e1 s1,
  eval f cenv yt e s a = (RVal v, e1, s1) -> truthy v = true ->
  eval (S f) cenv yt e s (EOr a b) = (RVal v, e1, s1).
Proof. intros. cbn [eval]. rewrite H, H0. reflexivity. Qed.

Lemma or_evaluates_rhs : forall f cenv yt e s a b v e1 s1,
  eval f cenv yt e s a = (RVal v, e1, s1) -> truthy v = false ->
  eval (S f) cenv yt e s (EOr a b) = eval f cenv yt e1 s1 b.
Proof. intros. cbn [eval]. rewrite H, H0. reflexivity. Qed.

(* a comparison chain stops at the first false link: later operands are not evaluated *)
Lemma chain_stops_at_false : forall f cenv yt e s a op b rest va e1 s1 vb e2 s2,
  eval f cenv yt e s a = (RVal va, e1, s1) ->
  eval f cenv yt e1 s1 b = (RVal vb, e2, s2) ->
  compare_op op DEPTH s2 va vb = RVal (VBool false) ->
  eval (S f) cenv yt e s (ECmp a ((op, b) :: rest)) = (RVal (VBool false), e2, s2).
Proof. intros. cbn [eval]. rewrite H. rewrite H0. rewrite H1. reflexivity. Qed.

(* the missing else branch yields null *)
Lemma if_without_else_is_null : forall f cenv yt e s c b v e1 s1,
  eval f cenv yt e s c = (RVal v, e1, s1) -> truthy v = false ->
  eval (S f) cenv yt e s (EIf [(c, b)] None) = (RVal VNull, e1, s1).
Proof. intros. cbn [eval]. rewrite H, H0. reflexivity. Qed.

(* ------------------------------------------------------------------ C03 *)
Lemma wildcard_always_matches : forall f s v e, match_pat (S f) s (PWild None) v e = MYes e.
Proof. reflexivity. Qed.

Lemma typed_wildcard_matches_iff_hint : forall f s h v e,
  match_pat (S f) s (PWild (Some h)) v e = if hint_ok h v then MYes e else MNo.
Proof. reflexivity. Qed.

Lemma id_always_matches_and_binds : forall f s x v e, match_pat (S f) s (PId x None) v e = MYes (update x v e).
Proof. reflexivity. Qed.

Lemma typed_id_matches_iff_hint : forall f s x h v e,
  match_pat (S f) s (PId x (Some h)) v e = if hint_ok h v then MYes (update x v e) else MNo.
Proof. reflexivity. Qed.

Lemma literal_matches_by_equality : forall f s z v e,
  match_pat (S f) s (PInt z) v e =
  match veq DEPTH s v (VInt z) with Some true => MYes e | Some false => MNo | None => MStuck RFuel end.
Proof. reflexivity. Qed.

Lemma tuple_pattern_needs_equal_size : forall f s ps vs e,
  length ps <> length vs -> match_pat (S f) s (PTuple ps) (VTuple vs) e = MNo.
Proof.
  intros f s ps vs e H. cbn [match_pat].
  destruct (Nat.eqb (length ps) (length vs)) eqn:E; [apply Nat.eqb_eq in E; contradiction | reflexivity].
Qed.

Lemma rest_pattern_needs_enough : forall f s before rest after vs e,
  (length vs < length before + length after)%nat ->
  match_pat (S f) s (PTupleRest before rest after) (VTuple vs) e = MNo.
Proof.
  intros. cbn [match_pat].
  destruct (Nat.leb (length before + length after) (length vs)) eqn:E; [apply Nat.leb_le in E; lia | reflexivity].
Qed.

Lemma unsized_subject_never_matches_sequence_pattern : forall f s ps v e,
  (match v with VList _ | VTuple _ | VStr _ | VRange _ _ _ | VMap _ => False | _ => True end) ->
  match_pat (S f) s (PTuple ps) v e = MNo.
Proof. intros f s ps v e H. destruct v; cbn in H |- *; try reflexivity; contradiction. Qed.

Lemma map_pattern_on_non_map_is_no_match : forall f s keys v e,
  (match v with VMap _ => False | _ => True end) -> match_pat (S f) s (PMap keys) v e = MNo.
Proof. intros f s keys v e H. destruct v; cbn in H |- *; try reflexivity; contradiction. Qed.

Lemma match_without_arms_is_null : forall f cenv yt e s subj v e1 s1,
  eval f cenv yt e s subj = (RVal v, e1, s1) ->
  eval (S f) cenv yt e s (EMatch [subj] [] None) = (RVal VNull, e1, s1).
Proof. intros. cbn [eval]. rewrite H. reflexivity. Qed.

(* ------------------------------------------------------------------ C04 *)
Lemma finally_provides_value : forall f cenv yt e s body fb v e1 s1 w e2 s2,
  eval f cenv yt e s body = (RVal v, e1, s1) ->
  eval f cenv yt e1 s1 fb = (RVal w, e2, s2) ->
  eval (S f) cenv yt e s (ETry body [] (Some fb)) = (RVal w, e2, s2).
Proof. intros. cbn [eval]. rewrite H. rewrite H0. reflexivity. Qed.

Lemma finally_runs_on_uncaught_throw : forall f cenv yt e s body fb v e1 s1 w e2 s2,
  eval f cenv yt e s body = (RThrow v, e1, s1) ->
  eval f cenv yt e1 s1 fb = (RVal w, e2, s2) ->
  eval (S f) cenv yt e s (ETry body [] (Some fb)) = (RThrow v, e2, s2).
Proof. intros. cbn [eval]. rewrite H. rewrite H0. reflexivity. Qed.

Lemma finally_runs_on_return : forall f cenv yt e s body cs fb v e1 s1 w e2 s2,
  eval f cenv yt e s body = (RRet v, e1, s1) ->
  eval f cenv yt e1 s1 fb = (RVal w, e2, s2) ->
  eval (S f) cenv yt e s (ETry body cs (Some fb)) = (RRet v, e2, s2).
Proof. intros. cbn [eval]. rewrite H. rewrite H0. reflexivity. Qed.

Lemma catch_receives_thrown_value : forall f cenv yt e s body y cb v e1 s1,
  eval f cenv yt e s body = (RThrow v, e1, s1) ->
  eval (S f) cenv yt e s (ETry body [(Some y, None, cb)] None) = eval f cenv yt (update y v e1) s1 cb.
Proof. intros. cbn [eval]. rewrite H. reflexivity. Qed.

Lemma typed_catch_falls_through : forall f cenv yt e s body h cb1 cb2 v e1 s1,
  eval f cenv yt e s body = (RThrow v, e1, s1) -> hint_ok h v = false ->
  eval (S f) cenv yt e s (ETry body [(None, Some h, cb1); (None, None, cb2)] None) = eval f cenv yt e1 s1 cb2.
Proof. intros. cbn [eval]. rewrite H. rewrite H0. reflexivity. Qed.

Lemma error_in_catch_still_runs_finally : forall f cenv yt e s body cb fb v e1 s1 v2 e2 s2 w e3 s3,
  eval f cenv yt e s body = (RThrow v, e1, s1) ->
  eval f cenv yt e1 s1 cb = (RThrow v2, e2, s2) ->
  eval f cenv yt e2 s2 fb = (RVal w, e3, s3) ->
  eval (S f) cenv yt e s (ETry body [(None, None, cb)] (Some fb)) = (RThrow v2, e3, s3).
Proof. intros. cbn [eval]. rewrite H. rewrite H0. rewrite H1. reflexivity. Qed.


(* ------------------------------------------------------------------ C02 *)
Lemma arg_binds_positionally : forall f s x v e, bind_arg (S f) s (TId x None) v e = BOk (update x v e).
Proof. reflexivity. Qed.

Lemma arg_hint_checked : forall f s x h v e,
  bind_arg (S f) s (TId x (Some h)) v e = if hint_ok h v then BOk (update x v e) else BErr EType.
Proof. reflexivity. Qed.

Lemma ignored_arg_binds_nothing : forall f s v e, bind_arg (S f) s TWild v e = BOk e.
Proof. reflexivity. Qed.

Lemma nested_arg_needs_matching_size : forall f s ts vs e,
  length ts <> length vs -> bind_arg (S f) s (TTuple ts) (VTuple vs) e = BErr ERuntime.
Proof.
  intros f s ts vs e H. cbn [bind_arg iter_elems].
  destruct (Nat.eqb (length ts) (length vs)) eqn:E; [apply Nat.eqb_eq in E; contradiction | reflexivity].
Qed.

Lemma nested_arg_needs_container : forall f s ts v e,
  (match v with VNull | VBool _ | VInt _ | VFlt _ | VFn _ => True | _ => False end) ->
  bind_arg (S f) s (TTuple ts) v e = BErr EType.
Proof. intros f s ts v e H. destruct v; cbn in H |- *; try reflexivity; contradiction. Qed.

(* multi-assignment / for arguments: missing elements bind null, extras are ignored *)
Lemma unpack_missing_is_null : forall f s x y v e,
  bind_target (S (S f)) s (TTuple [TId x None; TId y None]) (VTuple [v]) e
  = BOk (update y VNull (update x v e)).
Proof. reflexivity. Qed.

Lemma unpack_extras_ignored : forall f s x v w e,
  bind_target (S (S f)) s (TTuple [TId x None]) (VTuple [v; w]) e = BOk (update x v e).
Proof. reflexivity. Qed.
