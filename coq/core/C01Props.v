(* C01 — pinned laws of the reference semantics (the formal reading of what the
   language guide prescribes for core evaluation).  The implementation is tied to
   this reference by the correspondence check (checks/c01.py); the compiler
   simulation theorem lives in coq/comp, operator precedence in coq/syn. *)
From KV.core Require Import Ast Sem SemProofs.
Open Scope Z_scope.

Theorem int_add_wraps : forall x y, arith OAdd (VInt x) (VInt y) = RVal (VInt (wrap64 (x + y))).
Proof. exact SemProofs.int_add_wraps. Qed.
Theorem int_sub_wraps : forall x y, arith OSub (VInt x) (VInt y) = RVal (VInt (wrap64 (x - y))).
Proof. exact SemProofs.int_sub_wraps. Qed.
Theorem int_mul_wraps : forall x y, arith OMul (VInt x) (VInt y) = RVal (VInt (wrap64 (x * y))).
Proof. exact SemProofs.int_mul_wraps. Qed.
Theorem wrap64_range : forall z, - two63 <= wrap64 z < two63.
Proof. exact SemProofs.wrap64_range. Qed.
Theorem wrap64_id : forall z, - two63 <= z < two63 -> wrap64 z = z.
Proof. exact SemProofs.wrap64_id. Qed.
Theorem wrap64_congr : forall z, (wrap64 z - z) mod two64 = 0.
Proof. exact SemProofs.wrap64_congr. Qed.
Theorem div_always_float : forall a b r, is_num a = true -> is_num b = true ->
  arith ODiv a b = RVal r -> exists bits, r = VFlt bits.
Proof. exact SemProofs.div_always_float. Qed.
Theorem falsy_only_null_false : forall v, truthy v = false <-> (v = VNull \/ v = VBool false).
Proof. exact SemProofs.falsy_only_null_false. Qed.
Theorem and_short_circuits : forall f cenv yt e s a b v e1 s1,
  eval f cenv yt e s a = (RVal v, e1, s1) -> truthy v = false ->
  eval (S f) cenv yt e s (EAnd a b) = (RVal v, e1, s1).
Proof. exact SemProofs.and_short_circuits. Qed.
Theorem or_short_circuits : forall f cenv yt e s a b v e1 s1,
  eval f cenv yt e s a = (RVal v, e1, s1) -> truthy v = true ->
  eval (S f) cenv yt e s (EOr a b) = (RVal v, e1, s1).
Proof. exact SemProofs.or_short_circuits. Qed.
Theorem chain_stops_at_false : forall f cenv yt e s a op b rest va e1 s1 vb e2 s2,
  eval f cenv yt e s a = (RVal va, e1, s1) ->
  eval f cenv yt e1 s1 b = (RVal vb, e2, s2) ->
  compare_op op DEPTH s2 va vb = RVal (VBool false) ->
  eval (S f) cenv yt e s (ECmp a ((op, b) :: rest)) = (RVal (VBool false), e2, s2).
Proof. exact SemProofs.chain_stops_at_false. Qed.
Theorem if_without_else_is_null : forall f cenv yt e s c b v e1 s1,
  eval f cenv yt e s c = (RVal v, e1, s1) -> truthy v = false ->
  eval (S f) cenv yt e s (EIf [(c, b)] None) = (RVal VNull, e1, s1).
Proof. exact SemProofs.if_without_else_is_null. Qed.

Print Assumptions int_add_wraps.
Print Assumptions int_sub_wraps.
Print Assumptions int_mul_wraps.
Print Assumptions wrap64_range.
Print Assumptions wrap64_id.
Print Assumptions wrap64_congr.
Print Assumptions div_always_float.
Print Assumptions falsy_only_null_false.
Print Assumptions and_short_circuits.
Print Assumptions or_short_circuits.
Print Assumptions chain_stops_at_false.
Print Assumptions if_without_else_is_null.

(* non-vacuity *)
Example max_plus_one_wraps : arith OAdd (VInt 9223372036854775807) (VInt 1) = RVal (VInt (-9223372036854775808)).
Proof. vm_compute. reflexivity. Qed.
Example one_half : arith ODiv (VInt 1) (VInt 2) = RVal (VFlt 0x3fe0000000000000).
Proof. vm_compute. reflexivity. Qed.
Example chain_example :
  fst (run 100 (ECmp (EInt 1) [(CLt, EInt 5); (CLt, EInt 3)])) = RVal (VBool false).
Proof. vm_compute. reflexivity. Qed.
