(* C02 — pinned laws of the reference semantics for argument binding. *)
From KV.core Require Import Ast Sem SemProofs.

Theorem arg_binds_positionally : forall f s x v e, bind_arg (S f) s (TId x None) v e = BOk (update x v e).
Proof. exact SemProofs.arg_binds_positionally. Qed.
Theorem arg_hint_checked : forall f s x h v e,
  bind_arg (S f) s (TId x (Some h)) v e = if hint_ok h v then BOk (update x v e) else BErr EType.
Proof. exact SemProofs.arg_hint_checked. Qed.
Theorem ignored_arg_binds_nothing : forall f s v e, bind_arg (S f) s TWild v e = BOk e.
Proof. exact SemProofs.ignored_arg_binds_nothing. Qed.
Theorem nested_arg_needs_matching_size : forall f s ts vs e,
  length ts <> length vs -> bind_arg (S f) s (TTuple ts) (VTuple vs) e = BErr ERuntime.
Proof. exact SemProofs.nested_arg_needs_matching_size. Qed.
Theorem nested_arg_needs_container : forall f s ts v e,
  (match v with VNull | VBool _ | VInt _ | VFlt _ | VFn _ => True | _ => False end) ->
  bind_arg (S f) s (TTuple ts) v e = BErr EType.
Proof. exact SemProofs.nested_arg_needs_container. Qed.

Print Assumptions arg_binds_positionally.
Print Assumptions arg_hint_checked.
Print Assumptions ignored_arg_binds_nothing.
Print Assumptions nested_arg_needs_matching_size.
Print Assumptions nested_arg_needs_container.

(* non-vacuity: capture by copy, shared list through a capture, defaults, variadics, recursion *)
Example capture_by_copy :
  (* x = 3; f = || x * 2; x = 100; f() *)
  fst (run 100 (EBlock [EAssign 0%N None (EInt 3); EAssign 1%N None (EFn [] None None (EBin OMul (EId 0%N) (EInt 2)));
                        EAssign 0%N None (EInt 100); ECall (EId 1%N) []])) = RVal (VInt 6).
Proof. vm_compute. reflexivity. Qed.
Example too_few_arguments :
  fst (run 100 (EBlock [EAssign 1%N None (EFn [(TId 2%N None, None)] None None (EId 2%N)); ECall (EId 1%N) []])) = RErr EArgs.
Proof. vm_compute. reflexivity. Qed.
Example too_many_arguments :
  fst (run 100 (EBlock [EAssign 1%N None (EFn [(TId 2%N None, None)] None None (EId 2%N));
                        ECall (EId 1%N) [EInt 1; EInt 2]])) = RErr EArgs.
Proof. vm_compute. reflexivity. Qed.
Example default_and_variadic :
  fst (run 100 (EBlock [EAssign 1%N None (EFn [(TId 2%N None, None); (TId 3%N None, Some (EInt 7))] (Some 4%N) None
                                                (ETuple [EId 2%N; EId 3%N; EId 4%N]));
                        ETuple [ECall (EId 1%N) [EInt 1]; ECall (EId 1%N) [EInt 1; EInt 2; EInt 3; EInt 4]]]))
  = RVal (VTuple [VTuple [VInt 1; VInt 7; VTuple []]; VTuple [VInt 1; VInt 2; VTuple [VInt 3; VInt 4]]]).
Proof. vm_compute. reflexivity. Qed.
Example pipe_is_call :
  fst (run 100 (EBlock [EAssign 1%N None (EFn [(TId 2%N None, None); (TId 3%N None, None)] None None (EBin OSub (EId 2%N) (EId 3%N)));
                        ETuple [EPipe (EInt 10) (EId 1%N) [EInt 3]; ECall (EId 1%N) [EInt 10; EInt 3]]]))
  = RVal (VTuple [VInt 7; VInt 7]).
Proof. vm_compute. reflexivity. Qed.

(* generators: values in order, resuming where it paused (local state kept across yields),
   ending when the body returns; a `for` with `break` leaves the rest in the generator *)
Example generator_yields_in_order :
  (* g = |n| acc = 1; while acc < n + 3: yield acc; acc *= 2      g(4).to_tuple() *)
  fst (run 200 (EBlock [EAssign 0%N None
                          (EGenFn [(TId 1%N None, None)] None
                             (EBlock [EAssign 2%N None (EInt 1);
                                      EWhile (ECmp (EId 2%N) [(CLt, EBin OAdd (EId 1%N) (EInt 3))])
                                             (EBlock [EYield (EId 2%N); EOpAssign OMul 2%N (EInt 2)])]));
                        EToTuple (ECall (EId 0%N) [EInt 4])]))
  = RVal (VTuple [VInt 1; VInt 2; VInt 4]).
Proof. vm_compute. reflexivity. Qed.

Example generator_break_leaves_the_rest :
  fst (run 200 (EBlock [EAssign 0%N None (EGenFn [] None (EBlock [EYield (EInt 1); EYield (EInt 2); EYield (EInt 3)]));
                        EAssign 1%N None (ECall (EId 0%N) []);
                        EFor [TId 2%N None] (EId 1%N) (EBreak None);
                        EToTuple (EId 1%N)]))
  = RVal (VTuple [VInt 2; VInt 3]).
Proof. vm_compute. reflexivity. Qed.
