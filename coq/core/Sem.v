(* Reference ("language guide") semantics of core Koto: a fuelled big-step
   interpreter.  It is NOT shaped like the implementation: no registers, no
   jumps, no bytecode.  Left-to-right evaluation, short-circuit and/or, chained
   comparisons evaluate each operand once, wrap-around integers, `/` always
   yields a float, null/false are the only falsy values, lists and maps are
   shared by reference, closures capture by copy, first matching arm wins,
   errors unwind to the innermost handler and `finally` runs on every path.

   No proofs in this file. *)
From KV.core Require Export Ast.
From Flocq Require Import IEEE754.BinarySingleNaN IEEE754.Binary IEEE754.Bits.
Open Scope Z_scope.

(* ------------------------------------------------------------------ numbers *)
Definition two63 : Z := 9223372036854775808.
Definition two64 : Z := 18446744073709551616.
Definition wrap64 (z : Z) : Z := ((z + two63) mod two64) - two63.

Definition NAN_BITS : Z := 0x7ff8000000000000.
Definition f_is_nan (b : Z) : bool :=
  let e := Z.land (Z.shiftr b 52) 0x7ff in
  let m := Z.land b 0xfffffffffffff in
  (e =? 0x7ff) && negb (m =? 0).
Definition f_canon (b : Z) : Z := if f_is_nan b then NAN_BITS else b.

Definition f_of_int (z : Z) : Z :=
  bits_of_b64 (binary_normalize 53 1024 (eq_refl _) (eq_refl _) mode_NE z 0 false).
Definition f_bin (op : mode -> binary64 -> binary64 -> binary64) (a b : Z) : Z :=
  f_canon (bits_of_b64 (op mode_NE (b64_of_bits a) (b64_of_bits b))).
Definition f_add := f_bin b64_plus.
Definition f_sub := f_bin b64_minus.
Definition f_mul := f_bin b64_mult.
Definition f_div := f_bin b64_div.
Definition f_neg (a : Z) : Z := f_canon (Z.lxor a 0x8000000000000000).
Definition f_cmp (a b : Z) : option comparison := b64_compare (b64_of_bits a) (b64_of_bits b).

(* ------------------------------------------------------------------- values *)
Inductive value :=
| VNull | VBool (b : bool) | VInt (z : Z) | VFlt (bits : Z) | VStr (s : bytes)
| VTuple (vs : list value)
| VList (loc : nat) | VMap (loc : nat)
| VRange (lo hi : Z) (incl : bool)
| VFn (clo : nat)
| VIter (loc : nat).   (* a generator: its remaining values live in the list heap at loc *)

Definition env := list (id * value).

Record closure := mkclo {
  c_params : list (target * option value);  (* defaults are evaluated at creation *)
  c_variadic : option id;
  c_ret : option hint;
  c_gen : bool;                              (* the body contains `yield` *)
  c_body : expr;
  c_env : env                                (* captured by copy at creation *)
}.

Record store := mkstore {
  lists : list (list value);
  maps : list (list (value * value));       (* insertion ordered *)
  clos : list closure;
  out : list bytes;                          (* printed lines, newest first *)
  exports : env
}.

Definition empty_store : store := mkstore [] [] [] [] [].

Inductive ecls := EBinaryOp | EType | EArgs | ERuntime | EUnimpl.

Inductive res :=
| RVal (v : value)
| RBreak (v : value)
| RCont
| RRet (v : value)
| RThrow (v : value)     (* thrown by `throw` *)
| RErr (e : ecls)        (* runtime error raised by the language itself *)
| RFuel                  (* out of fuel: no verdict *)
| RUnsup.                (* outside the modelled subset: no verdict *)

(* ---------------------------------------------------------------- utilities *)
Fixpoint lookup (x : id) (e : env) : option value :=
  match e with
  | [] => None
  | (y, v) :: r => if N.eqb x y then Some v else lookup x r
  end.

Fixpoint update (x : id) (v : value) (e : env) : env :=
  match e with
  | [] => [(x, v)]
  | (y, w) :: r => if N.eqb x y then (y, v) :: r else (y, w) :: update x v r
  end.

Fixpoint set_nth {A} (n : nat) (x : A) (l : list A) : list A :=
  match n, l with
  | O, _ :: t => x :: t
  | S n', h :: t => h :: set_nth n' x t
  | _, [] => []
  end.

Definition alloc_list (s : store) (vs : list value) : store * value :=
  (mkstore (lists s ++ [vs]) (maps s) (clos s) (out s) (exports s), VList (length (lists s))).
Definition alloc_map (s : store) (kvs : list (value * value)) : store * value :=
  (mkstore (lists s) (maps s ++ [kvs]) (clos s) (out s) (exports s), VMap (length (maps s))).
Definition alloc_clo (s : store) (c : closure) : store * nat :=
  (mkstore (lists s) (maps s) (clos s ++ [c]) (out s) (exports s), length (clos s)).
Definition set_list (s : store) (l : nat) (vs : list value) : store :=
  mkstore (set_nth l vs (lists s)) (maps s) (clos s) (out s) (exports s).
Definition set_map (s : store) (l : nat) (kvs : list (value * value)) : store :=
  mkstore (lists s) (set_nth l kvs (maps s)) (clos s) (out s) (exports s).
Definition set_clo (s : store) (l : nat) (c : closure) : store :=
  mkstore (lists s) (maps s) (set_nth l c (clos s)) (out s) (exports s).
Definition emit (s : store) (line : bytes) : store :=
  mkstore (lists s) (maps s) (clos s) (line :: out s) (exports s).
Definition get_list (s : store) (l : nat) : list value := nth l (lists s) [].
Definition get_map (s : store) (l : nat) : list (value * value) := nth l (maps s) [].

Definition truthy (v : value) : bool :=
  match v with VNull => false | VBool false => false | _ => true end.

Definition bytes_eqb (a b : bytes) : bool :=
  (fix go a b := match a, b with
                 | [], [] => true
                 | x :: a', y :: b' => N.eqb x y && go a' b'
                 | _, _ => false
                 end) a b.

(* byte-wise lexicographic order (Rust's str Ord) *)
Fixpoint bytes_cmp (a b : bytes) : comparison :=
  match a, b with
  | [], [] => Eq
  | [], _ => Lt
  | _, [] => Gt
  | x :: a', y :: b' => match N.compare x y with Eq => bytes_cmp a' b' | c => c end
  end.

(* KNumber's Ord: NaN sorts above everything, NaN = NaN *)
Definition num_cmp (a b : value) : option comparison :=
  let fl x y :=
    match f_cmp x y with
    | Some c => c
    | None => match f_is_nan x, f_is_nan y with
              | false, true => Lt
              | true, false => Gt
              | _, _ => Eq
              end
    end in
  match a, b with
  | VInt x, VInt y => Some (Z.compare x y)
  | VInt x, VFlt y => Some (fl (f_of_int x) y)
  | VFlt x, VInt y => Some (fl x (f_of_int y))
  | VFlt x, VFlt y => Some (fl x y)
  | _, _ => None
  end.

(* KNumber's PartialEq (IEEE: NaN <> NaN) *)
Definition num_eq (a b : value) : option bool :=
  let fl x y := match f_cmp x y with Some Eq => true | _ => false end in
  match a, b with
  | VInt x, VInt y => Some (Z.eqb x y)
  | VInt x, VFlt y => Some (fl (f_of_int x) y)
  | VFlt x, VInt y => Some (fl x (f_of_int y))
  | VFlt x, VFlt y => Some (fl x y)
  | _, _ => None
  end.

(* structural equality; fuel bounds the depth (None = out of fuel) *)
Fixpoint veq (fuel : nat) (s : store) (a b : value) : option bool :=
  match fuel with
  | O => None
  | S fuel' =>
      let all2 :=
        fix all2 (xs ys : list value) : option bool :=
          match xs, ys with
          | [], [] => Some true
          | x :: xs', y :: ys' =>
              match veq fuel' s x y with
              | Some true => all2 xs' ys'
              | r => r
              end
          | _, _ => Some false
          end in
      match a, b with
      | VNull, VNull => Some true
      | VNull, _ | _, VNull => Some false
      | (VInt _ | VFlt _), (VInt _ | VFlt _) => num_eq a b
      | VBool x, VBool y => Some (Bool.eqb x y)
      | VStr x, VStr y => Some (bytes_eqb x y)
      | VRange a1 a2 a3, VRange b1 b2 b3 => Some (Z.eqb a1 b1 && Z.eqb a2 b2 && Bool.eqb a3 b3)
      | VList x, VList y => all2 (get_list s x) (get_list s y)
      | VTuple x, VTuple y => all2 x y
      | VMap x, VMap y =>
          (* same size and every key of the left map looked up in the right one *)
          let mx := get_map s x in
          let my := get_map s y in
          if negb (Nat.eqb (length mx) (length my)) then Some false
          else
            (fix go (l : list (value * value)) : option bool :=
               match l with
               | [] => Some true
               | (k, v) :: r =>
                   let found :=
                     (fix find (m : list (value * value)) : option (option value) :=
                        match m with
                        | [] => Some None
                        | (k2, v2) :: m' =>
                            match veq fuel' s k k2 with
                            | Some true => Some (Some v2)
                            | Some false => find m'
                            | None => None
                            end
                        end) my in
                   match found with
                   | None => None
                   | Some None => Some false
                   | Some (Some v2) =>
                       match veq fuel' s v v2 with
                       | Some true => go r
                       | o => o
                       end
                   end
               end) mx
      | VFn x, VFn y => Some (Nat.eqb x y)
      | VIter x, VIter y => Some (Nat.eqb x y)
      | _, _ => Some false
      end
  end.

(* ---------------------------------------------------------- text rendering *)
Definition digit (n : Z) : N := Z.to_N (48 + n).

Fixpoint pos_digits (fuel : nat) (z : Z) (acc : bytes) : bytes :=
  match fuel with
  | O => acc
  | S f => if z <? 10 then digit z :: acc else pos_digits f (z / 10) (digit (z mod 10) :: acc)
  end.

Definition dec (z : Z) : bytes :=
  if z <? 0 then 45%N :: pos_digits 25 (- z) [] else pos_digits 25 z [].

Definition str_true : bytes := [116; 114; 117; 101]%N.
Definition str_false : bytes := [102; 97; 108; 115; 101]%N.
Definition str_null : bytes := [110; 117; 108; 108]%N.

Definition sep (l : list bytes) : bytes :=
  (fix go l := match l with
               | [] => []
               | [x] => x
               | x :: r => x ++ [44; 32]%N ++ go r
               end) l.

(* koto's display of a value; strings are quoted inside containers.
   None: the value's rendering is outside the model (floats, functions, …) *)
Fixpoint display (fuel : nat) (s : store) (top : bool) (v : value) : option bytes :=
  match fuel with
  | O => None
  | S f =>
      let all :=
        fix all (vs : list value) : option (list bytes) :=
          match vs with
          | [] => Some []
          | x :: r => match display f s false x, all r with
                      | Some a, Some b => Some (a :: b)
                      | _, _ => None
                      end
          end in
      match v with
      | VNull => Some str_null
      | VBool true => Some str_true
      | VBool false => Some str_false
      | VInt z => Some (dec z)
      | VStr x => Some (if top then x else [39%N] ++ x ++ [39%N])
      | VTuple vs =>
          match all vs with
          | Some [one] => Some ([40%N] ++ one ++ [44; 41]%N)       (* (1,) *)
          | Some l => Some ([40%N] ++ sep l ++ [41%N])
          | None => None
          end
      | VList l => match all (get_list s l) with
                   | Some l => Some ([91%N] ++ sep l ++ [93%N])
                   | None => None
                   end
      | VRange lo hi incl =>
          Some (dec lo ++ [46; 46]%N ++ (if incl then [61%N] else []) ++ dec hi)
      | _ => None
      end
  end.

(* ------------------------------------------------------------- arithmetic *)
Definition is_num (v : value) : bool := match v with VInt _ | VFlt _ => true | _ => false end.
Definition as_float (v : value) : Z := match v with VInt x => f_of_int x | VFlt x => x | _ => 0 end.

Definition arith (op : binop) (a b : value) : res :=
  if is_num a && is_num b then
    match a, b with
    | VInt x, VInt y =>
        match op with
        | OAdd => RVal (VInt (wrap64 (x + y)))
        | OSub => RVal (VInt (wrap64 (x - y)))
        | OMul => RVal (VInt (wrap64 (x * y)))
        | ODiv => RVal (VFlt (f_div (f_of_int x) (f_of_int y)))
        | ORem => if y =? 0 then RVal (VFlt NAN_BITS) else RVal (VInt (wrap64 (Z.rem x y)))
        | OPow => if (0 <=? y) && (y <? 64) then RVal (VInt (wrap64 (x ^ y))) else RUnsup
        end
    | _, _ =>
        let fa := as_float a in
        let fb := as_float b in
        match op with
        | OAdd => RVal (VFlt (f_add fa fb))
        | OSub => RVal (VFlt (f_sub fa fb))
        | OMul => RVal (VFlt (f_mul fa fb))
        | ODiv => RVal (VFlt (f_div fa fb))
        | ORem => match b with VInt 0 => RVal (VFlt NAN_BITS) | _ => RUnsup end  (* fmod: oracle *)
        | OPow => RUnsup                                                          (* powf: oracle *)
        end
    end
  else
    match op, a, b with
    | OAdd, VStr x, VStr y => RVal (VStr (x ++ y))
    | OAdd, VTuple x, VTuple y => RVal (VTuple (x ++ y))
    | _, _, _ => RErr EBinaryOp
    end.

Definition compare_op (op : cmpop) (fuel : nat) (s : store) (a b : value) : res :=
  match op with
  | CEq => match veq fuel s a b with Some r => RVal (VBool r) | None => RFuel end
  | CNe => match veq fuel s a b with Some r => RVal (VBool (negb r)) | None => RFuel end
  | _ =>
      let decide (c : comparison) : bool :=
        match op, c with
        | CLt, Lt => true
        | CLe, (Lt | Eq) => true
        | CGt, Gt => true
        | CGe, (Gt | Eq) => true
        | _, _ => false
        end in
      match a, b with
      | (VInt _ | VFlt _), (VInt _ | VFlt _) =>
          match num_cmp a b with Some c => RVal (VBool (decide c)) | None => RErr EBinaryOp end
      | VStr x, VStr y => RVal (VBool (decide (bytes_cmp x y)))
      | _, _ => RErr EBinaryOp
      end
  end.

(* ------------------------------------------------------------- type hints *)
Definition b (l : list N) : bytes := l.
Definition ty_Any := b [65; 110; 121]%N.
Definition ty_Null := b [78; 117; 108; 108]%N.
Definition ty_Bool := b [66; 111; 111; 108]%N.
Definition ty_Number := b [78; 117; 109; 98; 101; 114]%N.
Definition ty_String := b [83; 116; 114; 105; 110; 103]%N.
Definition ty_List := b [76; 105; 115; 116]%N.
Definition ty_Tuple := b [84; 117; 112; 108; 101]%N.
Definition ty_Map := b [77; 97; 112]%N.
Definition ty_Range := b [82; 97; 110; 103; 101]%N.
Definition ty_Function := b [70; 117; 110; 99; 116; 105; 111; 110]%N.
Definition ty_Iterator := b [73; 116; 101; 114; 97; 116; 111; 114]%N.
Definition ty_Callable := b [67; 97; 108; 108; 97; 98; 108; 101]%N.
Definition ty_Indexable := b [73; 110; 100; 101; 120; 97; 98; 108; 101]%N.
Definition ty_Iterable := b [73; 116; 101; 114; 97; 98; 108; 101]%N.

Definition type_name (v : value) : bytes :=
  match v with
  | VNull => ty_Null | VBool _ => ty_Bool | VInt _ | VFlt _ => ty_Number | VStr _ => ty_String
  | VTuple _ => ty_Tuple | VList _ => ty_List | VMap _ => ty_Map | VRange _ _ _ => ty_Range
  | VFn _ => ty_Function
  | VIter _ => ty_Iterator
  end.

Definition hint_ok (h : hint) (v : value) : bool :=
  let n := h_name h in
  match v with
  | VNull => h_opt h || bytes_eqb n ty_Null || bytes_eqb n ty_Any
  | _ =>
      bytes_eqb n ty_Any || bytes_eqb n (type_name v)
      || (bytes_eqb n ty_Callable && match v with VFn _ => true | _ => false end)
      || (bytes_eqb n ty_Indexable && match v with VList _ | VTuple _ | VStr _ | VMap _ | VRange _ _ _ => true | _ => false end)
      || (bytes_eqb n ty_Iterable && match v with VList _ | VTuple _ | VStr _ | VMap _ | VRange _ _ _ | VIter _ => true | _ => false end)
  end.

(* --------------------------------------------------------------- iteration *)
(* the finite sequence an iterable denotes (strings iterate by grapheme cluster:
   outside the model unless ASCII) *)
Definition range_elems (lo hi : Z) (incl : bool) : option (list value) :=
  (* ascending only: a range whose start is above its end is empty *)
  let hi' := if incl then hi + 1 else hi in
  let n := hi' - lo in
  if n <=? 0 then Some []
  else if n >? 4096 then None
  else Some (map (fun k => VInt (lo + Z.of_nat k)) (seq 0 (Z.to_nat n))).

Definition is_ascii (s : bytes) : bool := forallb (fun c => N.ltb c 128) s.

Definition iter_elems (s : store) (v : value) : option (list value) :=
  match v with
  | VList l => Some (get_list s l)
  | VTuple vs => Some vs
  | VRange lo hi incl => range_elems lo hi incl
  | VMap m => Some (map (fun kv => VTuple [fst kv; snd kv]) (get_map s m))
  | VStr x => if is_ascii x && negb (existsb (N.eqb 13) x) then Some (map (fun c => VStr [c]) x) else None
  | VIter l => Some (get_list s l)     (* the remaining values; the caller marks them consumed *)
  | _ => None
  end.

(* consuming a generator's remaining values *)
Definition consume_iter (s : store) (v : value) : store :=
  match v with VIter l => set_list s l [] | _ => s end.

Definition is_iterable (v : value) : bool :=
  match v with VList _ | VTuple _ | VRange _ _ _ | VMap _ | VStr _ | VIter _ => true | _ => false end.

(* hashable keys *)
Fixpoint hashable (v : value) : bool :=
  match v with
  | VNull | VBool _ | VInt _ | VFlt _ | VStr _ | VRange _ _ _ => true
  | VTuple vs => forallb hashable vs
  | _ => false
  end.

Definition map_get (fuel : nat) (s : store) (m : list (value * value)) (k : value) : option (option value) :=
  (fix go m := match m with
               | [] => Some None
               | (k2, v) :: r => match veq fuel s k k2 with
                                 | Some true => Some (Some v)
                                 | Some false => go r
                                 | None => None
                                 end
               end) m.

Fixpoint map_set (fuel : nat) (s : store) (m : list (value * value)) (k v : value) : list (value * value) :=
  match m with
  | [] => [(k, v)]
  | (k2, v2) :: r => match veq fuel s k k2 with
                     | Some true => (k2, v) :: r
                     | _ => (k2, v2) :: map_set fuel s r k v
                     end
  end.

Fixpoint map_del (fuel : nat) (s : store) (m : list (value * value)) (k : value) : list (value * value) :=
  match m with
  | [] => []
  | (k2, v2) :: r => match veq fuel s k k2 with
                     | Some true => r
                     | _ => (k2, v2) :: map_del fuel s r k
                     end
  end.

(* ------------------------------------------------------------- the machine *)
Definition DEPTH : nat := 64.   (* depth budget of equality / display *)

(* the result of unpacking: updated env or an error *)
Inductive bindres := BOk (e : env) | BErr (c : ecls) | BUnsup.

(* targets bind element-wise from the iterable's elements; missing -> null, extras ignored *)
Fixpoint bind_target (fuel : nat) (s : store) (t : target) (v : value) (e : env) : bindres :=
  match fuel with
  | O => BUnsup
  | S f =>
      match t with
      | TWild => BOk e
      | TId x h =>
          match h with
          | Some h => if hint_ok h v then BOk (update x v e) else BErr EType
          | None => BOk (update x v e)
          end
      | TTuple ts =>
          match iter_elems s v with
          | None => BUnsup   (* unpacking a non-iterable: not defined by the guide *)
          | Some vs =>
              (fix go (ts : list target) (vs : list value) (e : env) : bindres :=
                 match ts with
                 | [] => BOk e
                 | t :: ts' =>
                     let '(v, vs') := match vs with [] => (VNull, []) | v :: r => (v, r) end in
                     match bind_target f s t v e with
                     | BOk e' => go ts' vs' e'
                     | r => r
                     end
                 end) ts vs e
          end
      end
  end.

(* function arguments: nested unpacking needs an indexable container with a
   MATCHING number of elements (guide, "Unpacking Arguments") *)
Fixpoint bind_arg (fuel : nat) (s : store) (t : target) (v : value) (e : env) : bindres :=
  match fuel with
  | O => BUnsup
  | S f =>
      match t with
      | TWild => BOk e
      | TId x h =>
          match h with
          | Some h => if hint_ok h v then BOk (update x v e) else BErr EType
          | None => BOk (update x v e)
          end
      | TTuple ts =>
          match v with
          | VList _ | VTuple _ | VRange _ _ _ =>
              match iter_elems s v with
              | None => BUnsup
              | Some vs =>
                  if negb (Nat.eqb (length ts) (length vs)) then BErr ERuntime
                  else
                    (fix go (ts : list target) (vs : list value) (e : env) : bindres :=
                       match ts, vs with
                       | t :: ts', v :: vs' =>
                           match bind_arg f s t v e with
                           | BOk e' => go ts' vs' e'
                           | r => r
                           end
                       | _, _ => BOk e
                       end) ts vs e
              end
          | VStr _ | VMap _ => BUnsup
          | _ => BErr EType
          end
      end
  end.

(* pattern matching: Some (Some env) = matched with bindings, Some None = no match *)
Inductive matchres := MYes (e : env) | MNo | MStuck (r : res).

Fixpoint match_pat (fuel : nat) (s : store) (p : pattern) (v : value) (e : env) : matchres :=
  match fuel with
  | O => MStuck RFuel
  | S f =>
      let lit (w : value) :=
        match veq DEPTH s v w with
        | Some true => MYes e
        | Some false => MNo
        | None => MStuck RFuel
        end in
      let seq_elems :=
        match v with
        | VList l => Some (get_list s l)
        | VTuple vs => Some vs
        | _ => None
        end in
      (* strings, ranges and maps have a size too: the guide only speaks of lists and
         tuples for nested patterns, so those subjects are left without a verdict *)
      let other_sized := match v with VStr _ | VRange _ _ _ | VMap _ => true | _ => false end in
      let match_all :=
        fix match_all (ps : list pattern) (vs : list value) (e : env) : matchres :=
          match ps, vs with
          | [], _ => MYes e
          | p :: ps', v :: vs' =>
              match match_pat f s p v e with
              | MYes e' => match_all ps' vs' e'
              | r => r
              end
          | _ :: _, [] => MNo
          end in
      match p with
      | PWild None => MYes e
      | PWild (Some h) => if hint_ok h v then MYes e else MNo
      | PNull => lit VNull
      | PBool x => lit (VBool x)
      | PInt z => lit (VInt z)
      | PStr x => lit (VStr x)
      | PId x None => MYes (update x v e)
      | PId x (Some h) => if hint_ok h v then MYes (update x v e) else MNo
      | PTuple ps =>
          match seq_elems with
          | Some vs => if Nat.eqb (length ps) (length vs) then match_all ps vs e else MNo
          | None => if other_sized then MStuck RUnsup else MNo
          end
      | PTupleRest before rest after =>
          match seq_elems with
          | Some vs =>
              let nb := length before in
              let na := length after in
              if Nat.leb (nb + na) (length vs) then
                let mid := firstn (length vs - nb - na) (skipn nb vs) in
                match match_all before (firstn nb vs) e with
                | MYes e1 =>
                    let e2 :=
                      match rest with
                      | Some x =>
                          (* the rest keeps the container kind; a list slice is a copy:
                             allocation is not available here, so rest bindings of
                             lists are outside the model *)
                          match v with
                          | VTuple _ => Some (update x (VTuple mid) e1)
                          | _ => None
                          end
                      | None => Some e1
                      end in
                    match e2 with
                    | Some e2 => match_all after (skipn (length vs - na) vs) e2
                    | None => MStuck RUnsup
                    end
                | r => r
                end
              else MNo
          | None => if other_sized then MStuck RUnsup else MNo
          end
      | PMap keys =>
          match v with
          | VMap m =>
              (fix go (keys : list (bytes * option id)) (e : env) : matchres :=
                 match keys with
                 | [] => MYes e
                 | (k, rename) :: r =>
                     match map_get DEPTH s (get_map s m) (VStr k) with
                     | Some (Some w) =>
                         (* the key is also the bound name: keys are printed as ids kN;
                            binding happens under the id given by [rename] *)
                         match rename with
                         | Some x => go r (update x w e)
                         | None => go r e          (* `key as _`: presence only, nothing bound *)
                         end
                     | Some None => MNo
                     | None => MStuck RFuel
                     end
                 end) keys e
          | _ => MNo
          end
      | POr ps =>
          (fix go (ps : list pattern) : matchres :=
             match ps with
             | [] => MNo
             | p :: r => match match_pat f s p v e with
                         | MNo => go r
                         | x => x
                         end
             end) ps
      end
  end.

Definition ret_check (h : option hint) (v : value) : res :=
  match h with
  | Some h => if hint_ok h v then RVal v else RErr EType
  | None => RVal v
  end.

(* deep copy allocates: threaded through the store *)
Fixpoint deep_copy (fuel : nat) (s : store) (v : value) : option (store * value) :=
  match fuel with
  | O => None
  | S f =>
      let all :=
        fix all (s : store) (vs : list value) : option (store * list value) :=
          match vs with
          | [] => Some (s, [])
          | x :: r =>
              match deep_copy f s x with
              | Some (s1, x') => match all s1 r with
                                 | Some (s2, r') => Some (s2, x' :: r')
                                 | None => None
                                 end
              | None => None
              end
          end in
      match v with
      | VList l => match all s (get_list s l) with
                   | Some (s', vs) => Some (alloc_list s' vs)
                   | None => None
                   end
      | VTuple vs => match all s vs with
                     | Some (s', vs') => Some (s', VTuple vs')
                     | None => None
                     end
      | VMap m =>
          let kvs := get_map s m in
          match all s (map snd kvs) with
          | Some (s', vs) => Some (alloc_map s' (combine (map fst kvs) vs))
          | None => None
          end
      | _ => Some (s, v)
      end
  end.

Definition cfg := (env * store)%type.

(* eval: one fuel unit per node.  The environment is frame-wide (assignments in
   nested blocks persist), closures see their captured copy. *)
Fixpoint eval (fuel : nat) (cenv : env) (yt : option nat) (e : env) (s : store) (x : expr) {struct fuel}
  : res * env * store :=
  (* yt: inside a generator body, the location of the list that collects the yielded values *)
  match fuel with
  | O => (RFuel, e, s)
  | S f =>
      let ev := eval f cenv yt in
      (* evaluate a list left to right *)
      let evlist :=
        fix evlist (es : list expr) (e : env) (s : store) : (res + list value) * env * store :=
          match es with
          | [] => (inr [], e, s)
          | x :: r =>
              match ev e s x with
              | (RVal v, e1, s1) =>
                  match evlist r e1 s1 with
                  | (inr vs, e2, s2) => (inr (v :: vs), e2, s2)
                  | other => other
                  end
              | (r0, e1, s1) => (inl r0, e1, s1)
              end
          end in
      let var (y : id) : option value :=
        match lookup y e with
        | Some v => Some v
        | None => match lookup y cenv with
                  | Some v => Some v
                  | None => lookup y (exports s)
                  end
        end in
      (* calling a function value *)
      let call (fv : value) (args : list value) (e : env) (s : store) : res * env * store :=
        match fv with
        | VFn ci =>
            match nth_error (clos s) ci with
            | None => (RUnsup, e, s)
            | Some c =>
                let ps := c_params c in
                let np := length ps in
                let na := length args in
                let required := length (filter (fun p => match snd p with None => true | Some _ => false end) ps) in
                if Nat.ltb na required then (RErr EArgs, e, s)
                else if Nat.ltb np na && match c_variadic c with None => true | Some _ => false end
                then (RErr EArgs, e, s)
                else
                  (* positional, then defaults, in order *)
                  let bindargs :=
                    (fix go (ps : list (target * option value)) (args : list value) (fe : env) : bindres :=
                       match ps with
                       | [] => BOk fe
                       | (t, d) :: ps' =>
                           let '(v, args') :=
                             match args with
                             | a :: r => (Some a, r)
                             | [] => (d, [])
                             end in
                           match v with
                           | None => BErr EArgs
                           | Some v =>
                               match bind_arg DEPTH s t v fe with
                               | BOk fe' => go ps' args' fe'
                               | r => r
                               end
                           end
                       end) ps args [] in
                  match bindargs with
                  | BErr c0 => (RErr c0, e, s)
                  | BUnsup => (RUnsup, e, s)
                  | BOk fe =>
                      let fe :=
                        match c_variadic c with
                        | Some vx => update vx (VTuple (skipn np args)) fe
                        | None => fe
                        end in
                      if c_gen c then
                        (* a generator: in this reference the body is run to completion when the
                           generator is created and its yielded values are collected in order; this
                           equals lazy evaluation for bodies whose only effects are their yields
                           (the generated programs keep to that) *)
                        let '(s0, buf) := alloc_list s [] in
                        let l := match buf with VList l => l | _ => O end in
                        match eval f (c_env c) (Some l) fe s0 (c_body c) with
                        | (RVal _, _, s1) | (RRet _, _, s1) => (RVal (VIter l), e, s1)
                        | (RBreak _, _, s1) | (RCont, _, s1) => (RUnsup, e, s1)
                        | (r, _, s1) => (r, e, s1)
                        end
                      else
                      match eval f (c_env c) None fe s (c_body c) with
                      | (RVal v, _, s1) => (ret_check (c_ret c) v, e, s1)
                      | (RRet v, _, s1) => (ret_check (c_ret c) v, e, s1)
                      | (RBreak _, _, s1) | (RCont, _, s1) => (RUnsup, e, s1)
                      | (r, _, s1) => (r, e, s1)
                      end
                  end
            end
        | _ => (RErr EType, e, s)
        end in
      match x with
      | ENull => (RVal VNull, e, s)
      | EBool v => (RVal (VBool v), e, s)
      | EInt z => (RVal (VInt z), e, s)
      | EFlt bits => (RVal (VFlt (f_canon bits)), e, s)
      | EStr x => (RVal (VStr x), e, s)
      | EInterp parts =>
          (fix go (parts : list (bytes + expr)) (acc : bytes) (e : env) (s : store) : res * env * store :=
             match parts with
             | [] => (RVal (VStr acc), e, s)
             | inl lit :: r => go r (acc ++ lit) e s
             | inr x :: r =>
                 match ev e s x with
                 | (RVal v, e1, s1) =>
                     match display DEPTH s1 true v with
                     | Some txt => go r (acc ++ txt) e1 s1
                     | None => (RUnsup, e1, s1)
                     end
                 | other => other
                 end
             end) parts [] e s
      | EId y => match var y with
                 | Some v => (RVal v, e, s)
                 | None => (RErr ERuntime, e, s)
                 end
      | ENeg a =>
          match ev e s a with
          | (RVal (VInt z), e1, s1) => (RVal (VInt (wrap64 (- z))), e1, s1)
          | (RVal (VFlt z), e1, s1) => (RVal (VFlt (f_neg z)), e1, s1)
          | (RVal _, e1, s1) => (RErr EType, e1, s1)
          | other => other
          end
      | ENot a =>
          match ev e s a with
          | (RVal v, e1, s1) => (RVal (VBool (negb (truthy v))), e1, s1)
          | other => other
          end
      | EBin op a b0 =>
          match ev e s a with
          | (RVal va, e1, s1) =>
              match ev e1 s1 b0 with
              | (RVal vb, e2, s2) =>
                  match op, va, vb with
                  | OAdd, VList la, VList lb =>
                      let '(s3, v) := alloc_list s2 (get_list s2 la ++ get_list s2 lb) in (RVal v, e2, s3)
                  | OAdd, VMap la, VMap lb =>
                      let merged := fold_left (fun m kv => map_set DEPTH s2 m (fst kv) (snd kv)) (get_map s2 lb) (get_map s2 la) in
                      let '(s3, v) := alloc_map s2 merged in (RVal v, e2, s3)
                  | _, _, _ => (arith op va vb, e2, s2)
                  end
              | other => other
              end
          | other => other
          end
      | ECmp first rest =>
          match ev e s first with
          | (RVal v0, e1, s1) =>
              (fix go (prev : value) (rest : list (cmpop * expr)) (e : env) (s : store) : res * env * store :=
                 match rest with
                 | [] => (RVal (VBool true), e, s)
                 | (op, y) :: r =>
                     match ev e s y with
                     | (RVal vy, e1, s1) =>
                         match compare_op op DEPTH s1 prev vy with
                         | RVal (VBool true) =>
                             match r with
                             | [] => (RVal (VBool true), e1, s1)
                             | _ => go vy r e1 s1
                             end
                         | RVal w => (RVal w, e1, s1)       (* false: stop, later operands not evaluated *)
                         | other => (other, e1, s1)
                         end
                     | other => other
                     end
                 end) v0 rest e1 s1
          | other => other
          end
      | EAnd a b0 =>
          match ev e s a with
          | (RVal va, e1, s1) => if truthy va then ev e1 s1 b0 else (RVal va, e1, s1)
          | other => other
          end
      | EOr a b0 =>
          match ev e s a with
          | (RVal va, e1, s1) => if truthy va then (RVal va, e1, s1) else ev e1 s1 b0
          | other => other
          end
      | EAssign y h rhs =>
          match rhs with
          | EFn ps variadic ret body =>
              (* a function assigned to a name can refer to itself *)
              match ev e s rhs with
              | (RVal (VFn ci), e1, s1) =>
                  let s2 := match nth_error (clos s1) ci with
                            | Some c => set_clo s1 ci (mkclo (c_params c) (c_variadic c) (c_ret c) (c_gen c) (c_body c)
                                                             (update y (VFn ci) (c_env c)))
                            | None => s1
                            end in
                  match h with
                  | Some h0 => if hint_ok h0 (VFn ci) then (RVal (VFn ci), update y (VFn ci) e1, s2) else (RErr EType, e1, s2)
                  | None => (RVal (VFn ci), update y (VFn ci) e1, s2)
                  end
              | other => other
              end
          | _ =>
              match ev e s rhs with
              | (RVal v, e1, s1) =>
                  match h with
                  | Some h0 => if hint_ok h0 v then (RVal v, update y v e1, s1) else (RErr EType, update y v e1, s1)
                  | None => (RVal v, update y v e1, s1)
                  end
              | other => other
              end
          end
      | EOpAssign op y rhs =>
          match ev e s rhs with
          | (RVal vr, e1, s1) =>
              match (match lookup y e1 with Some v => Some v | None => match lookup y cenv with Some v => Some v | None => lookup y (exports s1) end end) with
              | None => (RErr ERuntime, e1, s1)
              | Some vl =>
                  match op, vl, vr with
                  | ORem, _, VInt 0 => (RUnsup, e1, s1)  (* x %= 0: see known finding *)
                  | OAdd, VList _, _ | OAdd, VMap _, _ => (RUnsup, e1, s1)
                  | _, _, _ =>
                      match arith op vl vr with
                      | RVal v => (RVal v, update y v e1, s1)
                      | r => (r, e1, s1)
                      end
                  end
              end
          | other => other
          end
      | EMulti ts rhs =>
          match ev e s rhs with
          | (RVal v, e1, s1) =>
              match bind_target DEPTH s1 (TTuple ts) v e1 with
              | BOk e2 => (RVal v, e2, s1)
              | BErr c => (RErr c, e1, s1)
              | BUnsup => (RUnsup, e1, s1)
              end
          | other => other
          end
      | EList es =>
          match evlist es e s with
          | (inr vs, e1, s1) => let '(s2, v) := alloc_list s1 vs in (RVal v, e1, s2)
          | (inl r, e1, s1) => (r, e1, s1)
          end
      | ETuple es =>
          match evlist es e s with
          | (inr vs, e1, s1) => (RVal (VTuple vs), e1, s1)
          | (inl r, e1, s1) => (r, e1, s1)
          end
      | EMap kvs =>
          match evlist (map snd kvs) e s with
          | (inr vs, e1, s1) =>
              let m := fold_left (fun m kv => map_set DEPTH s1 m (VStr (fst kv)) (snd kv)) (combine (map fst kvs) vs) [] in
              let '(s2, v) := alloc_map s1 m in (RVal v, e1, s2)
          | (inl r, e1, s1) => (r, e1, s1)
          end
      | ERange a b0 incl =>
          match ev e s a with
          | (RVal va, e1, s1) =>
              match ev e1 s1 b0 with
              | (RVal vb, e2, s2) =>
                  match va, vb with
                  | VInt lo, VInt hi => (RVal (VRange lo hi incl), e2, s2)
                  | _, _ => if is_num va && is_num vb then (RUnsup, e2, s2) else (RErr EType, e2, s2)
                  end
              | other => other
              end
          | other => other
          end
      | EIndex a i =>
          match ev e s a with
          | (RVal va, e1, s1) =>
              match ev e1 s1 i with
              | (RVal vi, e2, s2) =>
                  let elems := match va with
                               | VList l => Some (get_list s2 l)
                               | VTuple vs => Some vs
                               | _ => None
                               end in
                  match elems, vi with
                  | Some vs, VInt k =>
                      if k <? 0 then (RErr ERuntime, e2, s2)
                      else match nth_error vs (Z.to_nat k) with
                           | Some v => (RVal v, e2, s2)
                           | None => (RErr ERuntime, e2, s2)
                           end
                  | Some vs, VRange lo hi incl =>
                      (* KRange::indices: clamp to 0..len, empty when reversed *)
                      let len := Z.of_nat (length vs) in
                      let hi' := if incl then hi + 1 else hi in
                      if (lo <? 0) || (hi' <? 0) || (hi' <? lo) then (RUnsup, e2, s2)
                      else
                        let a0 := Z.min lo len in
                        let b1 := Z.min hi' len in
                        let sl := firstn (Z.to_nat (b1 - a0)) (skipn (Z.to_nat a0) vs) in
                        match va with
                        | VList _ => let '(s3, v) := alloc_list s2 sl in (RVal v, e2, s3)
                        | _ => (RVal (VTuple sl), e2, s2)
                        end
                  | Some _, VFlt _ => (RUnsup, e2, s2)
                  | Some _, _ => (RErr ERuntime, e2, s2)
                  | None, _ =>
                      match va with
                      | VStr _ | VMap _ | VRange _ _ _ => (RUnsup, e2, s2)
                      | _ => (RErr ERuntime, e2, s2)
                      end
                  end
              | other => other
              end
          | other => other
          end
      | EIndexAssign a i v =>
          (* evaluation order of `a[i] = v`: the value first, then container and index *)
          match ev e s v with
          | (RVal vv, e0, s0) =>
              match ev e0 s0 a with
              | (RVal va, e1, s1) =>
                  match ev e1 s1 i with
                  | (RVal vi, e2, s2) =>
                      match va, vi with
                      | VList l, VInt k =>
                          let vs := get_list s2 l in
                          if (k <? 0) || (Z.of_nat (length vs) <=? k) then (RErr ERuntime, e2, s2)
                          else (RVal vv, e2, set_list s2 l (set_nth (Z.to_nat k) vv vs))
                      | VList _, _ => (RUnsup, e2, s2)
                      | VMap _, _ => (RUnsup, e2, s2)
                      | _, _ => (RErr ERuntime, e2, s2)
                      end
                  | other => other
                  end
              | other => other
              end
          | other => other
          end
      | EAccess a k =>
          match ev e s a with
          | (RVal (VMap m), e1, s1) =>
              match map_get DEPTH s1 (get_map s1 m) (VStr k) with
              | Some (Some v) => (RVal v, e1, s1)
              | Some None => (RErr ERuntime, e1, s1)
              | None => (RFuel, e1, s1)
              end
          | (RVal _, e1, s1) => (RUnsup, e1, s1)
          | other => other
          end
      | EAccessAssign a k v =>
          match ev e s v with
          | (RVal vv, e0, s0) =>
              match ev e0 s0 a with
              | (RVal (VMap m), e1, s1) =>
                  (RVal vv, e1, set_map s1 m (map_set DEPTH s1 (get_map s1 m) (VStr k) vv))
              | (RVal _, e1, s1) => (RUnsup, e1, s1)
              | other => other
              end
          | other => other
          end
      | EIf arms els =>
          (fix go (arms : list (expr * expr)) (e : env) (s : store) : res * env * store :=
             match arms with
             | [] => match els with
                     | Some b0 => ev e s b0
                     | None => (RVal VNull, e, s)
                     end
             | (c, b0) :: r =>
                 match ev e s c with
                 | (RVal vc, e1, s1) => if truthy vc then ev e1 s1 b0 else go r e1 s1
                 | other => other
                 end
             end) arms e s
      | ESwitch arms els =>
          (fix go (arms : list (expr * expr)) (e : env) (s : store) : res * env * store :=
             match arms with
             | [] => match els with
                     | Some b0 => ev e s b0
                     | None => (RVal VNull, e, s)
                     end
             | (c, b0) :: r =>
                 match ev e s c with
                 | (RVal vc, e1, s1) => if truthy vc then ev e1 s1 b0 else go r e1 s1
                 | other => other
                 end
             end) arms e s
      | EWhile c b0 | EUntil c b0 =>
          let want := match x with EWhile _ _ => true | _ => false end in
          (* iteration count is bounded by the fuel: each round consumes one unit *)
          (* the value of a loop is the value of its last iteration's body (null after
             `continue`), null when it never ran -- as koto's own tests define it *)
          (fix loop (n : nat) (last : value) (e : env) (s : store) : res * env * store :=
             match n with
             | O => (RFuel, e, s)
             | S n' =>
                 match eval n' cenv yt e s c with
                 | (RVal vc, e1, s1) =>
                     if Bool.eqb (truthy vc) want then
                       match eval n' cenv yt e1 s1 b0 with
                       | (RVal w, e2, s2) => loop n' w e2 s2
                       | (RCont, e2, s2) => loop n' VNull e2 s2
                       | (RBreak v, e2, s2) => (RVal v, e2, s2)
                       | other => other
                       end
                     else (RVal last, e1, s1)
                 | other => other
                 end
             end) f VNull e s
      | ELoop b0 =>
          (fix loop (n : nat) (e : env) (s : store) : res * env * store :=
             match n with
             | O => (RFuel, e, s)
             | S n' =>
                 match eval n' cenv yt e s b0 with
                 | (RVal _, e2, s2) | (RCont, e2, s2) => loop n' e2 s2
                 | (RBreak v, e2, s2) => (RVal v, e2, s2)
                 | other => other
                 end
             end) f e s
      | EFor ts it b0 =>
          match ev e s it with
          | (RVal vi, e1, s1) =>
              match iter_elems s1 vi with
              | None => if is_iterable vi then (RUnsup, e1, s1) else (RErr EType, e1, s1)
              | Some elems =>
                  (* the element sequence of lists is read live by the implementation;
                     programs that mutate the iterated container are outside the model *)
                  (fix go (elems : list value) (last : value) (e : env) (s : store) : res * env * store :=
                     match elems with
                     | [] => (RVal last, e, s)
                     | v :: r =>
                         (* a generator gives up one value per iteration: `break` leaves the rest *)
                         let s := match vi with VIter l => set_list s l r | _ => s end in
                         let t := match ts with [t] => t | _ => TTuple ts end in
                         match bind_target DEPTH s t v e with
                         | BOk e1 =>
                             match ev e1 s b0 with
                             | (RVal w, e2, s2) => go r w e2 s2
                             | (RCont, e2, s2) => go r VNull e2 s2
                             | (RBreak w, e2, s2) => (RVal w, e2, s2)
                             | other => other
                             end
                         | BErr c => (RErr c, e, s)
                         | BUnsup => (RUnsup, e, s)
                         end
                     end) elems VNull e1 s1
              end
          | other => other
          end
      | EBreak None => (RBreak VNull, e, s)
      | EBreak (Some v) =>
          match ev e s v with
          | (RVal w, e1, s1) => (RBreak w, e1, s1)
          | other => other
          end
      | EContinue => (RCont, e, s)
      | EFn ps variadic ret body =>
          (* defaults are evaluated now, left to right; the whole visible
             environment is captured by copy *)
          let visible := e ++ cenv in
          (fix go (ps : list (target * option expr)) (acc : list (target * option value)) (e : env) (s : store)
             : res * env * store :=
             match ps with
             | [] =>
                 let '(s1, ci) := alloc_clo s (mkclo (rev acc) variadic ret false body visible) in
                 (RVal (VFn ci), e, s1)
             | (t, None) :: r => go r ((t, None) :: acc) e s
             | (t, Some d) :: r =>
                 match ev e s d with
                 | (RVal v, e1, s1) => go r ((t, Some v) :: acc) e1 s1
                 | other => other
                 end
             end) ps [] e s
      | EGenFn ps variadic body =>
          let visible := e ++ cenv in
          (fix go (ps : list (target * option expr)) (acc : list (target * option value)) (e : env) (s : store)
             : res * env * store :=
             match ps with
             | [] =>
                 let '(s1, ci) := alloc_clo s (mkclo (rev acc) variadic None true body visible) in
                 (RVal (VFn ci), e, s1)
             | (t, None) :: r => go r ((t, None) :: acc) e s
             | (t, Some d) :: r =>
                 match ev e s d with
                 | (RVal v, e1, s1) => go r ((t, Some v) :: acc) e1 s1
                 | other => other
                 end
             end) ps [] e s
      | EYield a =>
          match ev e s a with
          | (RVal v, e1, s1) =>
              match yt with
              | Some l => (RVal VNull, e1, set_list s1 l (get_list s1 l ++ [v]))
              | None => (RUnsup, e1, s1)
              end
          | other => other
          end
      | ENext a =>
          match ev e s a with
          | (RVal (VIter l), e1, s1) =>
              match get_list s1 l with
              | v :: r => (RVal v, e1, set_list s1 l r)
              | [] => (RVal VNull, e1, s1)
              end
          | (RVal _, e1, s1) => (RUnsup, e1, s1)
          | other => other
          end
      | EToTuple a | EToList a =>
          match ev e s a with
          | (RVal v, e1, s1) =>
              match iter_elems s1 v with
              | Some vs =>
                  let s2 := consume_iter s1 v in
                  match x with
                  | EToTuple _ => (RVal (VTuple vs), e1, s2)
                  | _ => let '(s3, w) := alloc_list s2 vs in (RVal w, e1, s3)
                  end
              | None => (RUnsup, e1, s1)
              end
          | other => other
          end
      | ECall fx args =>
          match ev e s fx with
          | (RVal fv, e1, s1) =>
              match evlist args e1 s1 with
              | (inr vs, e2, s2) => call fv vs e2 s2
              | (inl r, e2, s2) => (r, e2, s2)
              end
          | other => other
          end
      | ECallP fx pargs =>
          (* every argument expression is evaluated first, left to right; the packed ones are then
             replaced by the values they iterate over (KotoVm::unpack_packed_arguments, at call time) *)
          match ev e s fx with
          | (RVal fv, e1, s1) =>
              match evlist (map snd pargs) e1 s1 with
              | (inr vs, e2, s2) =>
                  (fix splice (fl : list bool) (vs : list value) (acc : list value) (s : store) : res * env * store :=
                     match fl, vs with
                     | [], [] => call fv (rev acc) e2 s
                     | false :: fl', v :: vs' => splice fl' vs' (v :: acc) s
                     | true :: fl', v :: vs' =>
                         match iter_elems s v with
                         | Some xs => splice fl' vs' (rev xs ++ acc) (consume_iter s v)
                         | None => (RUnsup, e2, s)
                         end
                     | _, _ => (RUnsup, e2, s)
                     end) (map fst pargs) vs [] s2
              | (inl r, e2, s2) => (r, e2, s2)
              end
          | other => other
          end
      | EPipe a fx args =>
          (* a -> f b  ==  f(a, b): the piped value is evaluated first *)
          match ev e s a with
          | (RVal va, e0, s0) =>
              match ev e0 s0 fx with
              | (RVal fv, e1, s1) =>
                  match evlist args e1 s1 with
                  | (inr vs, e2, s2) => call fv (va :: vs) e2 s2
                  | (inl r, e2, s2) => (r, e2, s2)
                  end
              | other => other
              end
          | other => other
          end
      | EReturn None => (RRet VNull, e, s)
      | EReturn (Some v) =>
          match ev e s v with
          | (RVal w, e1, s1) => (RRet w, e1, s1)
          | other => other
          end
      | EMatch subjects arms els =>
          match evlist subjects e s with
          | (inl r, e1, s1) => (r, e1, s1)
          | (inr vs, e1, s1) =>
              (* one pattern per subject in each alternative *)
              let try_alt (alt : list pattern) (e : env) : matchres :=
                (fix go (ps : list pattern) (vs : list value) (e : env) : matchres :=
                   match ps, vs with
                   | [], [] => MYes e
                   | p :: ps', v :: vs' =>
                       match match_pat DEPTH s1 p v e with
                       | MYes e' => go ps' vs' e'
                       | r => r
                       end
                   | _, _ => MStuck RUnsup
                   end) alt vs e in
              (fix go_arms (arms : list (list (list pattern) * option expr * expr)) (e : env) (s : store)
                 : res * env * store :=
                 match arms with
                 | [] => match els with
                         | Some b0 => ev e s b0
                         | None => (RVal VNull, e, s)
                         end
                 | (alts, guard, body) :: rest =>
                     (fix go_alts (alts : list (list pattern)) (e : env) (s : store) : res * env * store :=
                        match alts with
                        | [] => go_arms rest e s
                        | alt :: more =>
                            match try_alt alt e with
                            | MYes e' =>
                                match guard with
                                | None => ev e' s body
                                | Some g =>
                                    match ev e' s g with
                                    | (RVal vg, e2, s2) => if truthy vg then ev e2 s2 body else go_alts more e2 s2
                                    | other => other
                                    end
                                end
                            | MNo => go_alts more e s
                            | MStuck r => (r, e, s)
                            end
                        end) alts e s
                 end) arms e1 s1
          end
      | EThrow a =>
          match ev e s a with
          | (RVal v, e1, s1) =>
              match v with
              | VStr _ => (RThrow v, e1, s1)
              | VMap _ => (RUnsup, e1, s1)      (* needs @display: outside the model *)
              | _ => (RErr ERuntime, e1, s1)    (* only strings and displayable objects can be thrown *)
              end
          | other => other
          end
      | ETry body catches fin =>
          let run_finally (r : res * env * store) : res * env * store :=
            match fin with
            | None => r
            | Some fb =>
                let '(r0, e1, s1) := r in
                match r0 with
                | RFuel | RUnsup => r
                | _ =>
                    match ev e1 s1 fb with
                    | (RVal v, e2, s2) =>
                        match r0 with
                        | RVal _ => (RVal v, e2, s2)   (* finally provides the value *)
                        | other => (other, e2, s2)     (* break/continue/return/error continue after finally *)
                        end
                    | other => other
                    end
                end
            end in
          match ev e s body with
          | (RThrow v, e1, s1) =>
              (* typed catches are tried in order *)
              run_finally
                ((fix go (cs : list (option id * option hint * expr)) : res * env * store :=
                    match cs with
                    | [] => (RThrow v, e1, s1)
                    | (y, h, cb) :: r =>
                        let ok := match h with Some h0 => hint_ok h0 v | None => true end in
                        if ok then ev (match y with Some y0 => update y0 v e1 | None => e1 end) s1 cb
                        else go r
                    end) catches)
          | (RErr c, e1, s1) =>
              (* runtime errors are caught too; the caught value is the error's message
                 string: typed as String, its text is outside the model *)
              run_finally
                ((fix go (cs : list (option id * option hint * expr)) : res * env * store :=
                    match cs with
                    | [] => (RErr c, e1, s1)
                    | (y, h, cb) :: r =>
                        let ok := match h with
                                  | Some h0 => bytes_eqb (h_name h0) ty_String || bytes_eqb (h_name h0) ty_Any
                                  | None => true
                                  end in
                        if ok then
                          match y with
                          | Some _ => (RUnsup, e1, s1)     (* binding the message text *)
                          | None => ev e1 s1 cb
                          end
                        else go r
                    end) catches)
          | other => run_finally other
          end
      | EPrint a =>
          match ev e s a with
          | (RVal v, e1, s1) =>
              match display DEPTH s1 true v with
              | Some txt => (RVal VNull, e1, emit s1 txt)
              | None => (RUnsup, e1, s1)
              end
          | other => other
          end
      | ESize a =>
          match ev e s a with
          | (RVal v, e1, s1) =>
              match v with
              | VList l => (RVal (VInt (Z.of_nat (length (get_list s1 l)))), e1, s1)
              | VTuple vs => (RVal (VInt (Z.of_nat (length vs))), e1, s1)
              | VMap m => (RVal (VInt (Z.of_nat (length (get_map s1 m)))), e1, s1)
              | VStr x => (RVal (VInt (Z.of_nat (length x))), e1, s1)
              | VRange lo hi incl =>
                  match range_elems lo hi incl with
                  | Some l => (RVal (VInt (Z.of_nat (length l))), e1, s1)
                  | None => (RUnsup, e1, s1)
                  end
              | _ => (RErr ERuntime, e1, s1)
              end
          | other => other
          end
      | EPush a v =>
          match ev e s a with
          | (RVal (VList l), e1, s1) =>
              match ev e1 s1 v with
              | (RVal w, e2, s2) => (RVal (VList l), e2, set_list s2 l (get_list s2 l ++ [w]))
              | other => other
              end
          | (RVal _, e1, s1) => (RUnsup, e1, s1)
          | other => other
          end
      | EInsert a k v =>
          match ev e s a with
          | (RVal (VMap m), e1, s1) =>
              match ev e1 s1 k with
              | (RVal vk, e2, s2) =>
                  match ev e2 s2 v with
                  | (RVal vv, e3, s3) =>
                      if hashable vk then
                        let old := match map_get DEPTH s3 (get_map s3 m) vk with Some (Some o) => o | _ => VNull end in
                        (RVal old, e3, set_map s3 m (map_set DEPTH s3 (get_map s3 m) vk vv))
                      else (RErr ERuntime, e3, s3)
                  | other => other
                  end
              | other => other
              end
          | (RVal _, e1, s1) => (RUnsup, e1, s1)
          | other => other
          end
      | ERemoveKey a k =>
          match ev e s a with
          | (RVal (VMap m), e1, s1) =>
              match ev e1 s1 k with
              | (RVal vk, e2, s2) =>
                  if hashable vk then
                    let old := match map_get DEPTH s2 (get_map s2 m) vk with Some (Some o) => o | _ => VNull end in
                    (RVal old, e2, set_map s2 m (map_del DEPTH s2 (get_map s2 m) vk))
                  else (RErr ERuntime, e2, s2)
              | other => other
              end
          | (RVal _, e1, s1) => (RUnsup, e1, s1)
          | other => other
          end
      | ECopy a =>
          match ev e s a with
          | (RVal (VList l), e1, s1) => let '(s2, v) := alloc_list s1 (get_list s1 l) in (RVal v, e1, s2)
          | (RVal (VMap m), e1, s1) => let '(s2, v) := alloc_map s1 (get_map s1 m) in (RVal v, e1, s2)
          | other => other
          end
      | EDeepCopy a =>
          match ev e s a with
          | (RVal v, e1, s1) =>
              match deep_copy DEPTH s1 v with
              | Some (s2, w) => (RVal w, e1, s2)
              | None => (RFuel, e1, s1)
              end
          | other => other
          end
      | EBlock es =>
          (fix go (es : list expr) (last : value) (e : env) (s : store) : res * env * store :=
             match es with
             | [] => (RVal last, e, s)
             | x :: r =>
                 match ev e s x with
                 | (RVal v, e1, s1) => go r v e1 s1
                 | other => other
                 end
             end) es VNull e s
      end
  end.

(* a whole script: the value of the last expression *)
Definition run (fuel : nat) (p : expr) : res * store :=
  let '(r, _, s) := eval fuel [] None [] empty_store p in
  match r with
  | RRet v => (RVal v, s)
  | _ => (r, s)
  end.
