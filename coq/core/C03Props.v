(* C03 — pinned laws of the reference semantics for pattern matching and unpacking. *)
From KV.core Require Import Ast Sem SemProofs.

Theorem wildcard_always_matches : forall f s v e, match_pat (S f) s (PWild None) v e = MYes e.
Proof. exact SemProofs.wildcard_always_matches. Qed.
Theorem typed_wildcard_matches_iff_hint : forall f s h v e,
  match_pat (S f) s (PWild (Some h)) v e = if hint_ok h v then MYes e else MNo.
Proof. exact SemProofs.typed_wildcard_matches_iff_hint. Qed.
Theorem id_always_matches_and_binds : forall f s x v e, match_pat (S f) s (PId x None) v e = MYes (update x v e).
Proof. exact SemProofs.id_always_matches_and_binds. Qed.
Theorem typed_id_matches_iff_hint : forall f s x h v e,
  match_pat (S f) s (PId x (Some h)) v e = if hint_ok h v then MYes (update x v e) else MNo.
Proof. exact SemProofs.typed_id_matches_iff_hint. Qed.
Theorem literal_matches_by_equality : forall f s z v e,
  match_pat (S f) s (PInt z) v e =
  match veq DEPTH s v (VInt z) with Some true => MYes e | Some false => MNo | None => MStuck RFuel end.
Proof. exact SemProofs.literal_matches_by_equality. Qed.
Theorem tuple_pattern_needs_equal_size : forall f s ps vs e,
  length ps <> length vs -> match_pat (S f) s (PTuple ps) (VTuple vs) e = MNo.
Proof. exact SemProofs.tuple_pattern_needs_equal_size. Qed.
Theorem rest_pattern_needs_enough : forall f s before rest after vs e,
  (length vs < length before + length after)%nat ->
  match_pat (S f) s (PTupleRest before rest after) (VTuple vs) e = MNo.
Proof. exact SemProofs.rest_pattern_needs_enough. Qed.
Theorem unsized_subject_never_matches_sequence_pattern : forall f s ps v e,
  (match v with VList _ | VTuple _ | VStr _ | VRange _ _ _ | VMap _ => False | _ => True end) ->
  match_pat (S f) s (PTuple ps) v e = MNo.
Proof. exact SemProofs.unsized_subject_never_matches_sequence_pattern. Qed.
Theorem map_pattern_on_non_map_is_no_match : forall f s keys v e,
  (match v with VMap _ => False | _ => True end) -> match_pat (S f) s (PMap keys) v e = MNo.
Proof. exact SemProofs.map_pattern_on_non_map_is_no_match. Qed.
Theorem match_without_arms_is_null : forall f cenv yt e s subj v e1 s1,
  eval f cenv yt e s subj = (RVal v, e1, s1) ->
  eval (S f) cenv yt e s (EMatch [subj] [] None) = (RVal VNull, e1, s1).
Proof. exact SemProofs.match_without_arms_is_null. Qed.
Theorem unpack_missing_is_null : forall f s x y v e,
  bind_target (S (S f)) s (TTuple [TId x None; TId y None]) (VTuple [v]) e
  = BOk (update y VNull (update x v e)).
Proof. exact SemProofs.unpack_missing_is_null. Qed.
Theorem unpack_extras_ignored : forall f s x v w e,
  bind_target (S (S f)) s (TTuple [TId x None]) (VTuple [v; w]) e = BOk (update x v e).
Proof. exact SemProofs.unpack_extras_ignored. Qed.

Print Assumptions wildcard_always_matches.
Print Assumptions typed_wildcard_matches_iff_hint.
Print Assumptions id_always_matches_and_binds.
Print Assumptions typed_id_matches_iff_hint.
Print Assumptions literal_matches_by_equality.
Print Assumptions tuple_pattern_needs_equal_size.
Print Assumptions rest_pattern_needs_enough.
Print Assumptions unsized_subject_never_matches_sequence_pattern.
Print Assumptions map_pattern_on_non_map_is_no_match.
Print Assumptions match_without_arms_is_null.
Print Assumptions unpack_missing_is_null.
Print Assumptions unpack_extras_ignored.

Example first_arm_wins :
  (* match (1, 2): (x, y) then 10; (1, ...) then 20 *)
  fst (run 100 (EMatch [ETuple [EInt 1; EInt 2]]
                  [([[PTuple [PId 0%N None; PId 1%N None]]], None, ETuple [EInt 10; EId 0%N; EId 1%N]);
                   ([[PTupleRest [PInt 1] None []]], None, EInt 20)] None))
  = RVal (VTuple [VInt 10; VInt 1; VInt 2]).
Proof. vm_compute. reflexivity. Qed.
Example typed_wildcard_alternatives :
  (* match 'abc': _: Number or _: String then 1; else 2 *)
  fst (run 100 (EMatch [EStr [97%N]]
                  [([[PWild (Some (mkhint ty_Number false))]; [PWild (Some (mkhint ty_String false))]], None, EInt 1)]
                  (Some (EInt 2)))) = RVal (VInt 1).
Proof. vm_compute. reflexivity. Qed.
Example ellipsis_on_unsized_subject_falls_through :
  fst (run 100 (EMatch [EInt 1] [([[PTupleRest [PId 0%N None] (Some 1%N) []]], None, EInt 1);
                                 ([[PId 2%N None]], None, EInt 3)] None)) = RVal (VInt 3).
Proof. vm_compute. reflexivity. Qed.
