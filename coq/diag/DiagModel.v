(* C12 — executable, implementation-shaped models of the diagnostic machinery.  NO proofs here.

   SourceMap   crates/bytecode/src/chunk.rs    DebugInfo::{push, get_source_span}
   Excerpt     crates/parser/src/error.rs      format_source_excerpt  (source_path = None)
   Trace       crates/runtime/src/vm.rs        push_frame / pop_frame / pop_call_stack_on_error
               crates/runtime/src/error.rs     Error::extend_trace
   Debug       crates/runtime/src/vm.rs        run_debug_instruction (the prefix only)

   u32 arithmetic is explicit: every `+ 1` / `-` of the Rust code is an outcome
   (`Panic POverflow` = "attempt to add/subtract with overflow", what a build with
   overflow checks does; a release build wraps instead and then `"^".repeat(huge)`),
   every `unwrap()` is an outcome (`Panic PUnwrap`). *)
From Coq Require Export List NArith Bool Lia.
Export ListNotations.
Open Scope N_scope.

Definition cp := N.
Definition LF : cp := 10.
Definition CR : cp := 13.
Definition SPACE : cp := 32.
Definition BAR : cp := 124.
Definition CARET : cp := 94.
Definition COLON : cp := 58.

Definition U32_MAX : N := 4294967295.

(* ------------------------------------------------------------------ spans *)
Record pos := mkPos { p_line : N; p_col : N }.
Record span := mkSpan { s_start : pos; s_end : pos }.

Definition pos_eqb (a b : pos) : bool := (p_line a =? p_line b) && (p_col a =? p_col b).
(* #[derive(PartialEq)] on Span / Position *)
Definition span_eqb (a b : span) : bool := pos_eqb (s_start a) (s_start b) && pos_eqb (s_end a) (s_end b).

(* ------------------------------------------------------------------ SourceMap *)
(* source_map: Vec<(u32, Span)>, in push order *)
Definition smap := list (N * span).

(* DebugInfo::push *)
Definition sm_push (m : smap) (ip : N) (sp : span) : smap :=
  match rev m with                       (* self.source_map.last() *)
  | entry :: _ => if span_eqb (snd entry) sp then m else m ++ [(ip, sp)]
  | [] => m ++ [(ip, sp)]
  end.

(* DebugInfo::get_source_span: `for entry in iter { if entry.0 <= ip { result = Some } else { break } }` *)
Fixpoint sm_scan (m : smap) (ip : N) (result : option span) : option span :=
  match m with
  | [] => result
  | entry :: rest => if fst entry <=? ip then sm_scan rest ip (Some (snd entry)) else result
  end.

Definition sm_get (m : smap) (ip : N) : option span := sm_scan m ip None.

(* a compilation = a sequence of pushes (push_op / push_bytes_with_span) *)
Definition sm_build (pushes : list (N * span)) : smap :=
  fold_left (fun m p => sm_push m (fst p) (snd p)) pushes [].

(* ------------------------------------------------------------------ Excerpt *)
Inductive panic := PUnwrap | POverflow.
Inductive outcome (A : Type) := Done (a : A) | Panic (p : panic).
Arguments Done {A} a.
Arguments Panic {A} p.

Definition bind {A B} (o : outcome A) (f : A -> outcome B) : outcome B :=
  match o with Done a => f a | Panic p => Panic p end.

(* u32 `a + 1` and `a - b` with overflow checks *)
Definition u32_succ (a : N) : outcome N := if a <? U32_MAX then Done (a + 1) else Panic POverflow.
Definition u32_sub (a b : N) : outcome N := if b <=? a then Done (a - b) else Panic POverflow.

(* str::split_inclusive('\n') *)
Fixpoint split_incl (s : list cp) : list (list cp) :=
  match s with
  | [] => []
  | c :: r =>
      if c =? LF then [c] :: split_incl r
      else match split_incl r with
           | [] => [[c]]
           | p :: ps => (c :: p) :: ps
           end
  end.

(* strip_suffix(ch) *)
Definition strip_suffix (ch : cp) (l : list cp) : option (list cp) :=
  match rev l with
  | c :: r => if c =? ch then Some (rev r) else None
  | [] => None
  end.

(* the closure of str::lines():
     let Some(line) = line.strip_suffix('\n') else { return line };
     let Some(line) = line.strip_suffix('\r') else { return line };  line *)
Definition strip_line (l : list cp) : list cp :=
  match strip_suffix LF l with
  | None => l
  | Some l1 => match strip_suffix CR l1 with None => l1 | Some l2 => l2 end
  end.

Definition lines (s : list cp) : list (list cp) := map strip_line (split_incl s).

(* u32::to_string: decimal digits (fuel 40 digits is more than any N below 2^128 needs) *)
Fixpoint dec_digits (fuel : nat) (n : N) (acc : list cp) : list cp :=
  match fuel with
  | O => acc
  | S f => let acc' := (48 + n mod 10) :: acc in
           if n / 10 =? 0 then acc' else dec_digits f (n / 10) acc'
  end.
Definition dec (n : N) : list cp := dec_digits 40 n [].

Definition nlen {A} (l : list A) : N := N.of_nat (length l).
Definition nrepeat (c : cp) (n : N) : list cp := repeat c (N.to_nat n).

(* Iterator::skip(n) on a list, with a binary counter (line numbers can be close to u32::MAX) *)
Fixpoint nskip {A} (n : N) (l : list A) : list A :=
  match l with
  | [] => []
  | _ :: r => if n =? 0 then l else nskip (n - 1) r
  end.

(* (start.line..=end.line).map(|n| (n + 1).to_string()): `count` elements from `from` *)
Fixpoint line_numbers (from : N) (count : nat) : outcome (list (list cp)) :=
  match count with
  | O => Done []
  | S k => bind (u32_succ from) (fun n1 =>
           bind (line_numbers (from + 1) k) (fun rest => Done (dec n1 :: rest)))
  end.

(* iter().max_by_key(|n| n.len()): None on an empty list; the LAST maximal element *)
Fixpoint max_by_len (l : list (list cp)) (best : option (list cp)) : option (list cp) :=
  match l with
  | [] => best
  | x :: r => match best with
              | None => max_by_len r (Some x)
              | Some b => if nlen b <=? nlen x then max_by_len r (Some x) else max_by_len r best
              end
  end.

(* format!(" {:>w$} | {}\n", number, line) *)
Definition quote_line (w : N) (number line : list cp) : list cp :=
  [SPACE] ++ nrepeat SPACE (w - nlen number) ++ number ++ [SPACE; BAR; SPACE] ++ line ++ [LF].

Fixpoint zip_quote (w : N) (ls ns : list (list cp)) : list cp :=
  match ls, ns with
  | l :: ls', n :: ns' => quote_line w n l ++ zip_quote w ls' ns'
  | _, _ => []
  end.

(* format_source_excerpt(source, span, None) *)
Definition excerpt (source : list cp) (sp : span) : outcome (list cp) :=
  let sl := p_line (s_start sp) in let sc := p_col (s_start sp) in
  let el := p_line (s_end sp) in let ec := p_col (s_end sp) in
  (* .take((end.line - start.line + 1) as usize) *)
  bind (u32_sub el sl) (fun d =>
  bind (u32_succ d) (fun count =>
  let excerpt_lines := firstn (N.to_nat count) (nskip sl (lines source)) in
  (* start.line..=end.line is non-empty here because the subtraction succeeded *)
  bind (line_numbers sl (N.to_nat count)) (fun numbers =>
  match max_by_len numbers None with
  | None => Panic PUnwrap
  | Some widest =>
      let w := nlen widest in
      let padding := nrepeat SPACE (w + 2) in
      bind (if sl =? el then
              match numbers with
              | [] => Panic PUnwrap
              | number :: _ =>
                  match excerpt_lines with
                  | [] => Panic PUnwrap
                  | line :: _ =>
                      bind (u32_sub ec sc) (fun carets =>
                      Done (quote_line w number line ++ padding ++ [BAR]
                            ++ nrepeat SPACE (sc + 1) ++ nrepeat CARET carets))
                  end
              end
            else Done (zip_quote w excerpt_lines numbers)) (fun body =>
      (* format!("{}:{}", start.line + 1, start.column + 1) *)
      bind (u32_succ sl) (fun l1 =>
      bind (u32_succ sc) (fun c1 =>
      Done (dec l1 ++ [COLON] ++ dec c1 ++ [LF] ++ padding ++ [BAR; LF] ++ body))))
  end))).

(* ------------------------------------------------------------------ Trace *)
(* the fields of vm.rs `Frame` that unwinding reads *)
Record frame := mkFrame {
  f_ret_ip : N;          (* return_instruction_ip *)
  f_catch : bool;        (* !catch_stack.is_empty() *)
  f_barrier : bool       (* execution_barrier *)
}.

(* call_stack: Vec<Frame>, kept TOP FIRST here (head = call_stack.last()) *)
Record vmstate := mkVm { v_stack : list frame; v_iip : N (* instruction_ip *) }.

(* push_frame: the caller's frame records the ip of the instruction being executed *)
Definition push_frame (v : vmstate) : vmstate :=
  let st := match v_stack v with
            | top :: r => mkFrame (v_iip v) (f_catch top) (f_barrier top) :: r
            | [] => []
            end in
  mkVm (mkFrame 0 false false :: st) (v_iip v).

(* pop_frame (the parts unwinding depends on): instruction_ip := return_frame.return_instruction_ip *)
Definition pop_frame (v : vmstate) : option vmstate :=
  match v_stack v with
  | [] => None                                   (* EmptyCallStack *)
  | _ :: [] => Some (mkVm [] (v_iip v))
  | _ :: (ret :: _) as rest => Some (mkVm rest (f_ret_ip ret))
  end.

Inductive unwound := Caught (trace : list N) | Uncaught (trace : list N) | UnwindError.

(* the `while let Some(frame) = self.call_stack.last()` loop; fuel = stack height *)
Fixpoint unwind_loop (fuel : nat) (v : vmstate) (allow_catch : bool) (trace : list N) : unwound :=
  match v_stack v with
  | [] => Uncaught trace
  | fr :: _ =>
      if f_catch fr && allow_catch then Caught trace
      else if f_barrier fr then Uncaught trace
      else match fuel with
           | O => UnwindError
           | S fuel' =>
               match pop_frame v with
               | None => UnwindError
               | Some v' =>
                   let trace' := if match v_stack v' with [] => true | _ => false end
                                 then trace else trace ++ [v_iip v'] in
                   unwind_loop fuel' v' allow_catch trace'
               end
           end
  end.

(* pop_call_stack_on_error: error.extend_trace(self.instruction_frame()) first *)
Definition pop_call_stack_on_error (v : vmstate) (allow_catch : bool) : unwound :=
  unwind_loop (length (v_stack v)) v allow_catch [v_iip v].

(* running up to the fault: the top-level frame of `run` has execution_barrier = true;
   each call happens while executing the instruction at `ip`; `try` blocks entered in the
   current frame set its catch flag *)
Inductive event := ECall (ip : N) | ETry.

Definition step (v : vmstate) (e : event) : vmstate :=
  match e with
  | ECall ip => push_frame (mkVm (v_stack v) ip)
  | ETry => match v_stack v with
            | top :: r => mkVm (mkFrame (f_ret_ip top) true (f_barrier top) :: r) (v_iip v)
            | [] => v
            end
  end.

Definition vm_main : vmstate := mkVm [mkFrame 0 false true] 0.
Definition run_events (es : list event) : vmstate := fold_left step es vm_main.
Definition fault_at (v : vmstate) (ip : N) : unwound := pop_call_stack_on_error (mkVm (v_stack v) ip) true.

(* ------------------------------------------------------------------ debug prefix *)
(* run_debug_instruction with chunk.path = None:
   (Some(span), None) => format!("[{}] ", span.start.line + 1),  (None, None) => "[#ERR] " *)
Definition LBRACKET : cp := 91.
Definition RBRACKET : cp := 93.
Definition ERR_PREFIX : list cp := [91; 35; 69; 82; 82; 93; 32].

Definition debug_prefix (m : smap) (instruction_ip : N) : outcome (list cp) :=
  match sm_get m instruction_ip with
  | Some sp => bind (u32_succ (p_line (s_start sp))) (fun l1 => Done ([LBRACKET] ++ dec l1 ++ [RBRACKET; SPACE]))
  | None => Done ERR_PREFIX
  end.
