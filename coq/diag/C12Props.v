(* C12 — Diagnostics identify the right source location.
   ONLY the pinned statements live here; every proof is `exact <lemma>`.
   They quantify over ALL push sequences, texts, spans, call stacks and call histories. *)
From KV.diag Require Import DiagModel DiagSpec DiagProofs DiagExcerptProofs DiagRun DiagSpanStack DiagResume.
Open Scope N_scope.

(* --- SourceMap (DebugInfo::push / get_source_span) ------------------------------------ *)

(* for ANY push sequence with non-decreasing ips (what the compiler produces: ip = bytes.len()),
   a lookup returns the span of the last push with ip' <= ip: the dedup in `push` never changes a lookup *)
Theorem lookup_latest : forall pushes q,
    nondecreasing 0 pushes -> sm_get (sm_build pushes) q = spec_lookup pushes q.
Proof. exact DiagProofs.lookup_latest. Qed.
Print Assumptions lookup_latest.

(* for ANY push sequence at all: the early `break` makes a lookup see only the longest prefix of stored
   entries whose ips are all <= the query *)
Theorem lookup_prefix : forall pushes q,
    sm_get (sm_build pushes) q = last_span (take_while_le q (sm_build pushes)).
Proof. exact DiagProofs.lookup_prefix. Qed.
Print Assumptions lookup_prefix.

(* `push` is public and does not check the order: with decreasing ips the lookup is NOT the last push <= ip *)
Theorem lookup_unsorted_refuted : exists pushes q,
    sm_get (sm_build pushes) q <> spec_lookup pushes q.
Proof.
  exists [(5, mk_span 0 0 0 1); (2, mk_span 1 0 1 1)], 3. vm_compute. discriminate.
Qed.
Print Assumptions lookup_unsorted_refuted.

(* --- Excerpt (format_source_excerpt) ---------------------------------------------------- *)

(* for a span inside the text the excerpt is exactly: position, gutter, lines start.line..=end.line of the
   text (each with its number), and `end.column - start.column` carets under a one-line span; no panic *)
Theorem excerpt_quotes_lines : forall src sp,
    span_in_text src sp -> excerpt src sp = Done (spec_excerpt src sp).
Proof. exact DiagExcerptProofs.excerpt_quotes_lines. Qed.
Print Assumptions excerpt_quotes_lines.

(* the EXACT no-panic precondition (u32 line numbers): start.line <= end.line < u32::MAX, start.column < u32::MAX
   and, for a one-line span, the line exists in `source.lines()` and start.column <= end.column *)
Theorem excerpt_total : forall src sp,
    u32 (p_line (s_start sp)) -> u32 (p_line (s_end sp)) ->
    (excerpt_safe src sp = true <-> exists t, excerpt src sp = Done t).
Proof. exact DiagExcerptProofs.excerpt_total. Qed.
Print Assumptions excerpt_total.

(* outside that precondition the renderer panics: (a) a one-line span on the empty "line" after the final
   line break (`lines()` does not yield it) -> unwrap on None; (b) end.column < start.column -> u32 subtraction
   overflows (a release build wraps and asks for ~4G carets); (c) end.line < start.line *)
Theorem excerpt_panics_refuted :
    excerpt [120; 10] (mk_span 1 0 1 0) = Panic PUnwrap
    /\ excerpt [120; 10] (mk_span 0 1 0 0) = Panic POverflow
    /\ excerpt [120; 10] (mk_span 1 0 0 0) = Panic POverflow.
Proof. repeat split; vm_compute; reflexivity. Qed.
Print Assumptions excerpt_panics_refuted.

(* --- Trace (pop_call_stack_on_error / extend_trace) ------------------------------------- *)

(* ANY call stack (any catch / barrier flags, any return ips): the trace is the faulting instruction_ip followed
   by the return_instruction_ip of every frame below the top, down to and including the first frame that stops
   the unwinding; the error is caught iff that frame stops it with a catch handler *)
Theorem trace_shape : forall v allow,
    pop_call_stack_on_error v allow = spec_unwind allow (v_stack v) (v_iip v).
Proof. exact DiagProofs.trace_shape. Qed.
Print Assumptions trace_shape.

(* ANY call history c1 .. cn from the top level (no try): the trace is the fault, then the call sites
   innermost first *)
Theorem trace_order : forall cs f,
    fault_at (run_events (map ECall cs)) f = Uncaught (f :: rev cs).
Proof. exact DiagProofs.trace_order. Qed.
Print Assumptions trace_order.

(* ONE trace entry per active call: the length of the trace is the call depth + 1, and a function that recursed d times
   through one call instruction contributes d identical adjacent frames -- a deduplicating extend_trace contradicts this *)
Theorem trace_matches_call_stack : forall cs f,
    exists t, fault_at (run_events (map ECall cs)) f = Uncaught t
              /\ length t = S (length cs)
              /\ (forall c d, cs = repeat c d -> t = f :: repeat c d).
Proof. exact DiagProofs.trace_matches_call_stack. Qed.
Print Assumptions trace_matches_call_stack.

Theorem dedup_trace_refuted : exists cs f t,
    fault_at (run_events (map ECall cs)) f = Uncaught t /\ dedup_adjacent t <> t
    /\ (length (dedup_adjacent t) < S (length cs))%nat.
Proof. exact DiagProofs.dedup_trace_refuted. Qed.
Print Assumptions dedup_trace_refuted.

(* a `try` entered in some frame: the frames above it are unwound (innermost first) and the error is caught there *)
Theorem trace_caught : forall cs1 cs2 f,
    fault_at (run_events (map ECall cs1 ++ ETry :: map ECall cs2)) f = Caught (f :: rev cs2).
Proof. exact DiagProofs.trace_caught. Qed.
Print Assumptions trace_caught.

(* --- debug prefix (run_debug_instruction) ------------------------------------------------ *)

(* the prefix shows (1-based) the start line of the last span pushed at or before the Debug instruction *)
Theorem debug_prefix_line : forall pushes ip,
    nondecreasing 0 pushes ->
    debug_prefix (sm_build pushes) ip =
    match spec_lookup pushes ip with
    | Some sp => if p_line (s_start sp) <? U32_MAX
                 then Done ([LBRACKET] ++ dec (p_line (s_start sp) + 1) ++ [RBRACKET; SPACE])
                 else Panic POverflow
    | None => Done ERR_PREFIX
    end.
Proof. exact DiagExcerptProofs.debug_prefix_line. Qed.
Print Assumptions debug_prefix_line.

(* --- instruction_ip across calls, returns, yields and resumes (execute_instructions / continue_running) ---- *)

(* after ANY sequence of entries, instructions, jumps / caught errors, calls, returns, yields and resumes: while the
   VM executes, the frame a fault (or `debug`) reports is the ip of the instruction about to be executed -- also for
   the first instruction a generator runs after being resumed -- and each caller frame is the ip of its call *)
Theorem fault_ip_current : forall ip0 stale es,
    let v := rrun true ip0 stale es in
    (r_active v = true -> fault_frame v = r_ip v)
    /\ caller_frames v = map rf_call_at (r_frames v).
Proof. exact DiagResume.fault_ip_current. Qed.
Print Assumptions fault_ip_current.

(* the refresh on entry of execute_instructions is what makes this true at a resume point: without it the first
   instruction after a resume is attributed to the `yield` (the seeded change that the first version of this check missed) *)
Theorem resume_without_refresh_refuted :
  let v := rrun false 0 0 [REnter; RStep 3; RYield 2; RResume] in
  r_active v = true /\ r_ip v = 5 /\ fault_frame v = 3.
Proof. exact DiagResume.resume_without_refresh_refuted. Qed.
Print Assumptions resume_without_refresh_refuted.

(* --- span stack discipline of the compiler (abstract: the compile_* routines are not transcribed) ------- *)

(* ANY tree of nodes whose scripts are locally well-bracketed (extra push_span / pop_span pairs, or a final
   `span_stack.truncate` as in compile_chain): compile_node leaves the span stack as it found it *)
Theorem span_stack_balanced : forall n, wf_node n -> forall st, c_stack (compile n st) = c_stack st.
Proof. exact DiagSpanStack.span_stack_balanced. Qed.
Print Assumptions span_stack_balanced.

(* an instruction a node emits with push_op, outside any extra push_span and after any number of (well-bracketed)
   children, is recorded with the node's OWN span *)
Theorem op_span_owner : forall sp body tr id st,
    direct id body -> In (id, sp) (c_rec (compile (Node sp body tr) st)).
Proof. exact DiagSpanStack.op_span_owner. Qed.
Print Assumptions op_span_owner.

(* without the final truncate a chain-like child leaves its own span behind and the parent's next instruction carries it
   (the planted bug "span_stack.truncate removed"; what D-predicate M2 detects on real chunks) *)
Theorem span_leak_refuted :
  let parent_span := mk_span 2 2 3 9 in let link_span := mk_span 3 4 3 7 in
  let leaky_chain := Node (mk_span 3 4 3 9) (APush link_span (AOp 1 ANil)) false in
  ~ wf_node leaky_chain
  /\ c_rec (compile (Node parent_span (AChild leaky_chain (AOp 2 ANil)) false) (mkC [] []))
     = [(1, link_span); (2, mk_span 3 4 3 9)].
Proof. split; [simpl; intros [H|H]; discriminate | vm_compute; reflexivity]. Qed.
Print Assumptions span_leak_refuted.

(* --- non-vacuity -------------------------------------------------------------------------- *)

(* dedup really happens and lookups between entries resolve to the earlier one *)
Example smap_dedup :
  sm_build [(0, mk_span 0 0 0 1); (3, mk_span 1 0 1 4); (5, mk_span 1 0 1 4); (9, mk_span 0 0 0 1)]
  = [(0, mk_span 0 0 0 1); (3, mk_span 1 0 1 4); (9, mk_span 0 0 0 1)]
  /\ nondecreasing 0 [(0, mk_span 0 0 0 1); (3, mk_span 1 0 1 4); (5, mk_span 1 0 1 4); (9, mk_span 0 0 0 1)].
Proof. split; [vm_compute; reflexivity | simpl; lia]. Qed.

(* "f =\n x\r\n\nz": a two-line span inside the text, CR LF stripped *)
Definition w_src : list cp := [102; 32; 61; 10; 32; 120; 13; 10; 10; 122].
Example in_text_holds : span_in_text w_src (mk_span 0 1 1 2).
Proof.
  unfold span_in_text. simpl. split; [lia|]. split; [exists [32; 120]; vm_compute; reflexivity|].
  split; [lia|]. split; vm_compute; reflexivity.
Qed.
Example excerpt_example :
  excerpt w_src (mk_span 1 1 1 2)
  = Done [50; 58; 50; 10; 32; 32; 32; 124; 10; 32; 50; 32; 124; 32; 32; 120; 10; 32; 32; 32; 124; 32; 32; 94].
Proof. vm_compute. reflexivity. Qed.

(* a multi-line span reaching past the text does not panic but quotes fewer lines than it names *)
Example excerpt_truncates :
  exists t, excerpt [120; 10] (mk_span 0 1 1 0) = Done t /\ excerpt_safe [120; 10] (mk_span 0 1 1 0) = true
            /\ ~ span_in_text [120; 10] (mk_span 0 1 1 0).
Proof.
  eexists. split; [vm_compute; reflexivity|]. split; [vm_compute; reflexivity|].
  unfold span_in_text. simpl. intros [_ [[l Hl] _]]. vm_compute in Hl. discriminate.
Qed.

Example trace_example : fault_at (run_events [ECall 5; ECall 9; ECall 12]) 77 = Uncaught [77; 12; 9; 5].
Proof. vm_compute. reflexivity. Qed.
Example trace_caught_example : fault_at (run_events [ECall 5; ETry; ECall 9; ECall 12]) 77 = Caught [77; 12; 9].
Proof. vm_compute. reflexivity. Qed.

(* a binary op whose right operand is a two-link chain (with truncate): Add carries the BinaryOp's span *)
Example span_stack_example :
  let chain := Node (mk_span 3 4 3 9) (APush (mk_span 3 4 3 7) (AOp 1 (APush (mk_span 3 8 3 9) (AOp 2 ANil)))) true in
  wf_node (Node (mk_span 2 2 3 9) (AChild chain (AOp 3 ANil)) false)
  /\ c_rec (compile (Node (mk_span 2 2 3 9) (AChild chain (AOp 3 ANil)) false) (mkC [] []))
     = [(1, mk_span 3 4 3 7); (2, mk_span 3 8 3 9); (3, mk_span 2 2 3 9)].
Proof. split; [simpl; auto | vm_compute; reflexivity]. Qed.

Example resume_example :
  let v := rrun true 0 99 [REnter; RStep 3; RCall 4 40; RStep 2; RYield 2; RResume] in
  r_active v = true /\ fault_frame v = 44 /\ caller_frames v = [3].
Proof. vm_compute. repeat split; reflexivity. Qed.
