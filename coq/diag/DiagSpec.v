(* C12 — what the property says, independently of how the code computes it. *)
From KV.diag Require Import DiagModel.
Open Scope N_scope.

(* ------------------------------------------------------------------ source map *)
(* "the span of the last push whose ip is <= the queried ip", read off the raw push
   sequence (no dedup, no early exit) *)
Definition spec_lookup (pushes : list (N * span)) (q : N) : option span :=
  fold_left (fun acc p => if fst p <=? q then Some (snd p) else acc) pushes None.

(* ips never decrease along the push sequence (the compiler pushes `bytes.len()`) *)
Fixpoint nondecreasing (lo : N) (l : list (N * span)) : Prop :=
  match l with
  | [] => True
  | p :: r => lo <= fst p /\ nondecreasing (fst p) r
  end.

(* what a lookup does on an arbitrary (possibly unsorted) map: it only sees the longest
   prefix of stored entries whose ips are all <= the query *)
Fixpoint take_while_le (q : N) (m : smap) : smap :=
  match m with
  | [] => []
  | e :: r => if fst e <=? q then e :: take_while_le q r else []
  end.

Definition last_span (m : smap) : option span :=
  match rev m with e :: _ => Some (snd e) | [] => None end.

(* ------------------------------------------------------------------ lines of a text *)
(* the text after the k-th line break; None when there are fewer than k line breaks *)
Fixpoint drop_lines (s : list cp) (k : nat) {struct s} : option (list cp) :=
  match k with
  | O => Some s
  | S k' => match s with
            | [] => None
            | c :: r => if c =? LF then drop_lines r k' else drop_lines r k
            end
  end.

(* up to and including the first line break *)
Fixpoint take_incl (s : list cp) : list cp :=
  match s with
  | [] => []
  | c :: r => if c =? LF then [c] else c :: take_incl r
  end.

(* line k (0-based) of the text, without its terminator (LF or CR LF); there is no line k
   when the text has fewer than k line breaks or nothing follows the k-th one *)
Definition spec_line (s : list cp) (k : nat) : option (list cp) :=
  match drop_lines s k with
  | Some (c :: r) => Some (strip_line (take_incl (c :: r)))
  | _ => None
  end.

Definition the_line (s : list cp) (k : N) : list cp :=
  match spec_line s (N.to_nat k) with Some l => l | None => [] end.

(* [from; from+1; ...] (count elements) *)
Fixpoint nrange (from : N) (count : nat) : list N :=
  match count with O => [] | S k => from :: nrange (from + 1) k end.

Definition line_no (k : N) : list cp := dec (k + 1).

(* width of the widest line number quoted *)
Definition spec_width (ks : list N) : N := fold_right (fun k acc => N.max (nlen (line_no k)) acc) 0 ks.

Definition u32 (n : N) : Prop := n <= U32_MAX.

(* a span that lies inside the text: ordered, its last line exists, and (same line) ordered columns;
   the two `< U32_MAX` conjuncts exclude the `+ 1` overflows of the 1-based rendering *)
Definition span_in_text (src : list cp) (sp : span) : Prop :=
  let sl := p_line (s_start sp) in let sc := p_col (s_start sp) in
  let el := p_line (s_end sp) in let ec := p_col (s_end sp) in
  sl <= el /\ (exists l, spec_line src (N.to_nat el) = Some l) /\ (sl = el -> sc <= ec)
  /\ el < U32_MAX /\ sc < U32_MAX.

(* the text C12 asks for: position, gutter, the quoted lines sl..el, carets under a one-line span *)
Definition spec_excerpt (src : list cp) (sp : span) : list cp :=
  let sl := p_line (s_start sp) in let sc := p_col (s_start sp) in
  let el := p_line (s_end sp) in let ec := p_col (s_end sp) in
  let ks := nrange sl (N.to_nat (el - sl + 1)) in
  let w := spec_width ks in
  let padding := nrepeat SPACE (w + 2) in
  dec (sl + 1) ++ [COLON] ++ dec (sc + 1) ++ [LF] ++ padding ++ [BAR; LF]
  ++ (if sl =? el
      then quote_line w (line_no sl) (the_line src sl) ++ padding ++ [BAR]
           ++ nrepeat SPACE (sc + 1) ++ nrepeat CARET (ec - sc)
      else flat_map (fun k => quote_line w (line_no k) (the_line src k)) ks).

(* exactly when the renderer does not panic (for u32 positions) *)
Definition excerpt_safe (src : list cp) (sp : span) : bool :=
  let sl := p_line (s_start sp) in let sc := p_col (s_start sp) in
  let el := p_line (s_end sp) in let ec := p_col (s_end sp) in
  (sl <=? el) && (el <? U32_MAX) && (sc <? U32_MAX)
  && (if sl =? el
      then match spec_line src (N.to_nat sl) with Some _ => sc <=? ec | None => false end
      else true).

(* ------------------------------------------------------------------ trace *)
(* unwinding stops at a frame with a catch handler (when catching is allowed) or an execution barrier *)
Definition stops (allow : bool) (fr : frame) : bool := (f_catch fr && allow) || f_barrier fr.

(* the frames unwinding looks at, innermost first: everything above the first stopping frame, and that frame *)
Fixpoint visited (allow : bool) (st : list frame) : list frame :=
  match st with
  | [] => []
  | fr :: r => if stops allow fr then [fr] else fr :: visited allow r
  end.

Definition spec_unwind (allow : bool) (st : list frame) (iip : N) : unwound :=
  let vis := visited allow st in
  let tr := iip :: map f_ret_ip (tl vis) in
  match rev vis with
  | fr :: _ => if f_catch fr && allow then Caught tr else Uncaught tr
  | [] => Uncaught tr
  end.
