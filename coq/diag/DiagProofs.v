(* C12 — all proofs. *)
From KV.diag Require Import DiagModel DiagSpec.
Open Scope N_scope.

(* ================================================================== source map *)

Definition all_le (q : N) (m : smap) : bool := forallb (fun e => fst e <=? q) m.

Lemma scan_app1 : forall m e q acc,
    sm_scan (m ++ [e]) q acc =
    if all_le q m then (if fst e <=? q then Some (snd e) else sm_scan m q acc) else sm_scan m q acc.
Proof.
  induction m as [|x m IH]; intros e q acc; simpl.
  - reflexivity.
  - destruct (fst x <=? q); simpl; [apply IH | reflexivity].
Qed.

Lemma scan_all_le : forall m q acc,
    all_le q m = true -> sm_scan m q acc = match last_span m with Some s => Some s | None => acc end.
Proof.
  intros m; induction m as [|x m IH] using rev_ind; intros q acc H.
  - reflexivity.
  - unfold all_le in H. rewrite forallb_app in H. apply andb_true_iff in H. destruct H as [Hm Hx].
    simpl in Hx. rewrite andb_true_r in Hx.
    rewrite scan_app1. fold (all_le q m) in Hm. rewrite Hm, Hx.
    unfold last_span. rewrite rev_app_distr. reflexivity.
Qed.

Lemma all_le_mono : forall m a b, a <= b -> all_le a m = true -> all_le b m = true.
Proof.
  intros m a b Hab H. unfold all_le in *. rewrite forallb_forall in *.
  intros x Hx. specialize (H x Hx). apply N.leb_le in H. apply N.leb_le. lia.
Qed.

Lemma span_eqb_eq : forall a b, span_eqb a b = true -> a = b.
Proof.
  intros [[al ac] [bl bc]] [[cl cc] [dl dc]]. unfold span_eqb, pos_eqb. simpl. intros H.
  rewrite !andb_true_iff, !N.eqb_eq in H. destruct H as [[? ?] [? ?]]. subst. reflexivity.
Qed.

Lemma spec_lookup_app : forall pushes p q,
    spec_lookup (pushes ++ [p]) q = if fst p <=? q then Some (snd p) else spec_lookup pushes q.
Proof. intros. unfold spec_lookup. rewrite fold_left_app. reflexivity. Qed.

Lemma sm_build_app : forall pushes p, sm_build (pushes ++ [p]) = sm_push (sm_build pushes) (fst p) (snd p).
Proof. intros. unfold sm_build. rewrite fold_left_app. reflexivity. Qed.

(* ips of a sequence are bounded by `hi` and the sequence is nondecreasing: right-to-left view *)
Lemma nondecreasing_app : forall l lo p,
    nondecreasing lo (l ++ [p]) ->
    nondecreasing lo l /\ lo <= fst p /\ forallb (fun e => fst e <=? fst p) l = true.
Proof.
  induction l as [|x l IH]; intros lo p H; simpl in *.
  - destruct H. repeat split; auto.
  - destruct H as [H1 H2]. apply IH in H2. destruct H2 as [Ha [Hb Hc]].
    repeat split; auto; try lia. rewrite Hc. rewrite andb_true_r. apply N.leb_le. lia.
Qed.

(* invariant of a sorted build: stored ips <= pushed ips bound; last stored span = last pushed span;
   lookups agree with the specification *)
Lemma build_invariant : forall pushes,
    nondecreasing 0 pushes ->
    let m := sm_build pushes in
    (forall b, forallb (fun e => fst e <=? b) pushes = true -> all_le b m = true)
    /\ last_span m = last_span pushes
    /\ forall q, sm_get m q = spec_lookup pushes q.
Proof.
  induction pushes as [|p pushes IH] using rev_ind; intros Hs m.
  - subst m. simpl. repeat split; auto.
  - apply nondecreasing_app in Hs. destruct Hs as [Hs [_ Hbound]].
    specialize (IH Hs). cbv zeta in IH. destruct IH as [IHb [IHl IHq]].
    subst m. rewrite sm_build_app. set (m := sm_build pushes) in *.
    assert (Hm_le : all_le (fst p) m = true) by (apply IHb; exact Hbound).
    unfold sm_push.
    destruct (rev m) as [|entry rm] eqn:Hrev.
    + (* nothing stored yet *)
      assert (m = []) by (apply (f_equal (@rev _)) in Hrev; rewrite rev_involutive in Hrev; exact Hrev).
      rewrite H in *. simpl. repeat split.
      * intros b Hb. rewrite forallb_app in Hb. apply andb_true_iff in Hb. destruct Hb as [_ Hb].
        simpl in *. exact Hb.
      * unfold last_span. rewrite rev_app_distr. reflexivity.
      * intros q. rewrite spec_lookup_app. unfold sm_get. simpl.
        destruct (fst p <=? q) eqn:E; [reflexivity|].
        specialize (IHq q). unfold sm_get in IHq. simpl in IHq. exact IHq.
    + assert (Hlast : last_span m = Some (snd entry)) by (unfold last_span; rewrite Hrev; reflexivity).
      destruct (span_eqb (snd entry) (snd p)) eqn:Heq.
      * (* dedup: the map is unchanged *)
        apply span_eqb_eq in Heq. repeat split.
        -- intros b Hb. rewrite forallb_app in Hb. apply andb_true_iff in Hb. destruct Hb as [Hb _].
           apply IHb. exact Hb.
        -- rewrite Hlast. unfold last_span. rewrite rev_app_distr. simpl. rewrite Heq. reflexivity.
        -- intros q. rewrite spec_lookup_app. destruct (fst p <=? q) eqn:E.
           ++ apply N.leb_le in E. unfold sm_get.
              rewrite scan_all_le by (eapply all_le_mono; eauto). rewrite Hlast, Heq. reflexivity.
           ++ apply IHq.
      * (* a new entry is appended *)
        repeat split.
        -- intros b Hb. rewrite forallb_app in Hb. apply andb_true_iff in Hb. destruct Hb as [Hb Hp].
           unfold all_le. rewrite forallb_app. fold (all_le b m). rewrite (IHb b Hb). simpl in *. exact Hp.
        -- unfold last_span. rewrite !rev_app_distr. reflexivity.
        -- intros q. rewrite spec_lookup_app. unfold sm_get. rewrite scan_app1. simpl.
           destruct (fst p <=? q) eqn:E.
           ++ apply N.leb_le in E. rewrite (all_le_mono m (fst p) q E Hm_le). reflexivity.
           ++ specialize (IHq q). unfold sm_get in IHq. destruct (all_le q m); exact IHq.
Qed.

Theorem lookup_latest : forall pushes q,
    nondecreasing 0 pushes -> sm_get (sm_build pushes) q = spec_lookup pushes q.
Proof. intros pushes q H. apply (build_invariant pushes H). Qed.

Lemma scan_prefix : forall m q acc,
    sm_scan m q acc = match last_span (take_while_le q m) with Some s => Some s | None => acc end.
Proof.
  induction m as [|e m IH]; intros q acc; simpl.
  - reflexivity.
  - destruct (fst e <=? q).
    + rewrite IH. unfold last_span. simpl.
      destruct (rev (take_while_le q m)) as [|x r] eqn:E; simpl; reflexivity.
    + reflexivity.
Qed.

Theorem lookup_prefix : forall pushes q,
    sm_get (sm_build pushes) q = last_span (take_while_le q (sm_build pushes)).
Proof.
  intros. unfold sm_get. rewrite scan_prefix.
  destruct (last_span (take_while_le q (sm_build pushes))); reflexivity.
Qed.

(* ================================================================== trace *)

Definition finish (allow : bool) (vis : list frame) (tr : list N) : unwound :=
  match rev vis with
  | fr :: _ => if f_catch fr && allow then Caught tr else Uncaught tr
  | [] => Uncaught tr
  end.

Lemma finish_cons : forall allow fr vis tr, vis <> [] -> finish allow (fr :: vis) tr = finish allow vis tr.
Proof.
  intros allow fr vis tr H. unfold finish. simpl.
  destruct (rev vis) as [|x r] eqn:E.
  - exfalso. apply H. apply (f_equal (@rev _)) in E. rewrite rev_involutive in E. exact E.
  - reflexivity.
Qed.

Lemma visited_nonempty : forall allow fr r, visited allow (fr :: r) <> [].
Proof. intros. simpl. destruct (stops allow fr); discriminate. Qed.

Lemma visited_head : forall allow fr r, exists t, visited allow (fr :: r) = fr :: t.
Proof. intros. simpl. destruct (stops allow fr); eauto. Qed.

Lemma unwind_loop_spec : forall st fuel iip allow tr,
    (length st <= fuel)%nat ->
    unwind_loop fuel (mkVm st iip) allow tr
    = finish allow (visited allow st) (tr ++ map f_ret_ip (tl (visited allow st))).
Proof.
  induction st as [|fr r IH]; intros fuel iip allow tr Hf.
  - destruct fuel; simpl; rewrite app_nil_r; reflexivity.
  - destruct fuel as [|fuel]; [simpl in Hf; lia|].
    simpl unwind_loop. unfold stops.
    simpl visited. unfold stops.
    destruct (f_catch fr && allow) eqn:Hc; simpl.
    + unfold finish. simpl. rewrite Hc, app_nil_r. reflexivity.
    + destruct (f_barrier fr) eqn:Hb; simpl.
      * unfold finish. simpl. rewrite Hc, app_nil_r. reflexivity.
      * destruct r as [|ret r'].
        -- simpl. destruct fuel; simpl; unfold finish; simpl; rewrite Hc, app_nil_r; reflexivity.
        -- unfold pop_frame. simpl v_stack. cbv iota beta.
           rewrite IH by (simpl in *; lia).
           rewrite finish_cons by apply visited_nonempty.
           destruct (visited_head allow ret r') as [t Ht]. rewrite Ht. simpl.
           rewrite <- app_assoc. reflexivity.
Qed.

Theorem trace_shape : forall v allow,
    pop_call_stack_on_error v allow = spec_unwind allow (v_stack v) (v_iip v).
Proof.
  intros [st iip] allow. unfold pop_call_stack_on_error. simpl.
  rewrite unwind_loop_spec by lia. reflexivity.
Qed.

(* the stack reached by a sequence of calls from a state whose top frame is `top` *)
Definition set_ret (fr : frame) (ip : N) : frame := mkFrame ip (f_catch fr) (f_barrier fr).

Fixpoint mid (top : frame) (rc : list N) : list frame :=
  match rc with
  | [] => []
  | c :: r => match r with
              | [] => [set_ret top c]
              | _ => mkFrame c false false :: mid top r
              end
  end.

Lemma step_call_stack : forall v c,
    v_stack (step v (ECall c)) =
    mkFrame 0 false false ::
      match v_stack v with top :: r => mkFrame c (f_catch top) (f_barrier top) :: r | [] => [] end.
Proof. reflexivity. Qed.

Lemma mid_cons : forall top c x r, mid top (c :: x :: r) = mkFrame c false false :: mid top (x :: r).
Proof. reflexivity. Qed.

Lemma run_calls_from : forall cs top B iip,
    cs <> [] ->
    v_stack (fold_left step (map ECall cs) (mkVm (top :: B) iip))
    = mkFrame 0 false false :: mid top (rev cs) ++ B.
Proof.
  induction cs as [|c cs IH] using rev_ind; intros top B iip Hne.
  - congruence.
  - rewrite map_app, fold_left_app.
    change (fold_left step (map ECall [c]) ?v) with (step v (ECall c)).
    rewrite step_call_stack. rewrite rev_app_distr. change (rev [c]) with [c]. change ([c] ++ rev cs) with (c :: rev cs).
    destruct cs as [|c0 cs0].
    + reflexivity.
    + rewrite IH by discriminate.
      destruct (rev (c0 :: cs0)) as [|x rc'] eqn:E.
      * exfalso. apply (f_equal (@rev _)) in E. rewrite rev_involutive in E. discriminate.
      * rewrite mid_cons. reflexivity.
Qed.

Lemma stops_plain : forall allow c, stops allow (mkFrame c false false) = false.
Proof. reflexivity. Qed.

Lemma visited_nostop : forall allow fr r, stops allow fr = false -> visited allow (fr :: r) = fr :: visited allow r.
Proof. intros. simpl. rewrite H. reflexivity. Qed.

Lemma mid_rets : forall top rc, map f_ret_ip (mid top rc) = rc.
Proof.
  induction rc as [|c r IH]; simpl; [reflexivity|].
  destruct r; simpl in *; [reflexivity|]. f_equal. exact IH.
Qed.

Lemma visited_mid : forall allow top rc B,
    rc <> [] -> stops allow top = true -> visited allow (mid top rc ++ B) = mid top rc.
Proof.
  induction rc as [|c r IH]; intros B Hne Hs; [congruence|].
  destruct r as [|c' r'].
  - simpl. unfold stops in *. simpl. rewrite Hs. reflexivity.
  - rewrite mid_cons. rewrite <- app_comm_cons.
    rewrite visited_nostop by apply stops_plain.
    rewrite IH by (auto; discriminate). reflexivity.
Qed.

Lemma mid_last : forall top rc, rc <> [] -> exists c pre, mid top rc = pre ++ [set_ret top c].
Proof.
  induction rc as [|c r IH]; intros H; [congruence|].
  destruct r as [|c' r'].
  - exists c, []. reflexivity.
  - destruct IH as [c1 [pre Hp]]; [discriminate|].
    exists c1, (mkFrame c false false :: pre).
    change (mid top (c :: c' :: r')) with (mkFrame c false false :: mid top (c' :: r')).
    rewrite Hp. reflexivity.
Qed.

(* calls from any state whose top frame stops the unwinding *)
Lemma trace_calls : forall cs top B iip f allow,
    stops allow top = true ->
    pop_call_stack_on_error
      (mkVm (v_stack (fold_left step (map ECall cs) (mkVm (top :: B) iip))) f) allow
    = if f_catch top && allow then Caught (f :: rev cs) else Uncaught (f :: rev cs).
Proof.
  intros cs top B iip f allow Hs.
  rewrite trace_shape. simpl v_stack. simpl v_iip.
  destruct cs as [|c cs].
  - simpl. unfold spec_unwind. simpl. rewrite Hs. simpl. reflexivity.
  - rewrite run_calls_from by discriminate.
    set (rc := rev (c :: cs)).
    assert (Hrc : rc <> []).
    { subst rc. intro E. apply (f_equal (@rev _)) in E. rewrite rev_involutive in E. discriminate. }
    unfold spec_unwind. rewrite visited_nostop by apply stops_plain.
    rewrite visited_mid by assumption. simpl tl. rewrite mid_rets.
    destruct (mid_last top rc Hrc) as [c1 [pre Hp]]. rewrite Hp.
    simpl rev. rewrite rev_app_distr. simpl. reflexivity.
Qed.

Theorem trace_order : forall cs f,
    fault_at (run_events (map ECall cs)) f = Uncaught (f :: rev cs).
Proof.
  intros cs f. unfold fault_at, run_events, vm_main.
  rewrite (trace_calls cs (mkFrame 0 false true) [] 0 f true) by reflexivity. reflexivity.
Qed.

Lemma run_calls_nonempty : forall cs v, v_stack v <> [] -> v_stack (fold_left step (map ECall cs) v) <> [].
Proof.
  induction cs as [|c cs IH]; intros v H; simpl; [exact H|].
  apply IH. unfold push_frame. simpl. discriminate.
Qed.

Theorem trace_caught : forall cs1 cs2 f,
    fault_at (run_events (map ECall cs1 ++ ETry :: map ECall cs2)) f = Caught (f :: rev cs2).
Proof.
  intros cs1 cs2 f. unfold fault_at, run_events. rewrite fold_left_app.
  change (fold_left step (ETry :: map ECall cs2) ?v) with (fold_left step (map ECall cs2) (step v ETry)).
  set (v1 := fold_left step (map ECall cs1) vm_main).
  assert (H1 : v_stack v1 <> []) by (apply run_calls_nonempty; discriminate).
  destruct v1 as [st iip]. simpl in H1. destruct st as [|top B]; [congruence|].
  change (step (mkVm (top :: B) iip) ETry) with (mkVm (mkFrame (f_ret_ip top) true (f_barrier top) :: B) iip).
  rewrite (trace_calls cs2 (mkFrame (f_ret_ip top) true (f_barrier top)) B iip f true) by reflexivity.
  reflexivity.
Qed.

(* one trace entry per active call: the trace is as long as the call stack is deep, whatever the call-site ips are --
   in particular a function recursing d times through ONE call instruction gives d identical, adjacent frames *)
Theorem trace_matches_call_stack : forall cs f,
    exists t, fault_at (run_events (map ECall cs)) f = Uncaught t
              /\ length t = S (length cs)
              /\ (forall c d, cs = repeat c d -> t = f :: repeat c d).
Proof.
  intros cs f. exists (f :: rev cs). split; [apply trace_order|]. split.
  - simpl. rewrite rev_length. reflexivity.
  - intros c d ->. f_equal.
    induction d as [|d IH]; simpl; [reflexivity|]. rewrite IH.
    clear IH. induction d as [|d IH]; simpl; [reflexivity|]. rewrite <- IH. reflexivity.
Qed.

(* an `extend_trace` that drops a frame equal to the most recent entry (a "don't list a frame twice" guard) *)
Fixpoint dedup_adjacent (t : list N) : list N :=
  match t with
  | a :: ((b :: _) as r) => if a =? b then dedup_adjacent r else a :: dedup_adjacent r
  | _ => t
  end.

Theorem dedup_trace_refuted : exists cs f t,
    fault_at (run_events (map ECall cs)) f = Uncaught t /\ dedup_adjacent t <> t
    /\ (length (dedup_adjacent t) < S (length cs))%nat.
Proof.
  exists [30; 20; 20; 20], 10, [10; 20; 20; 20; 30]. split; [vm_compute; reflexivity|].
  split; [vm_compute; discriminate | vm_compute; lia].
Qed.
