(* C12 — proofs about the excerpt renderer model and the debug prefix. *)
From Coq Require Import Arith PeanoNat.
From KV.diag Require Import DiagModel DiagSpec DiagProofs.
Open Scope N_scope.

(* ------------------------------------------------------------------ lines() = the spec's lines *)

Lemma split_incl_nil : forall s, split_incl s = [] -> s = [].
Proof.
  destruct s as [|c r]; simpl; intros H; [reflexivity|].
  destruct (c =? LF); [discriminate|]. destruct (split_incl r); discriminate.
Qed.

Definition spec_piece (s : list cp) (k : nat) : option (list cp) :=
  match drop_lines s k with
  | Some (c :: r) => Some (take_incl (c :: r))
  | _ => None
  end.

Lemma drop_lines_nil : forall k, drop_lines [] k = match k with O => Some [] | S _ => None end.
Proof. destruct k; reflexivity. Qed.

Lemma spec_piece_cons_lf : forall c r k,
    (c =? LF) = true ->
    spec_piece (c :: r) k = match k with O => Some [c] | S k' => spec_piece r k' end.
Proof. intros c r k E. destruct k; unfold spec_piece; simpl; rewrite E; reflexivity. Qed.

Lemma spec_piece_cons_other : forall c r k,
    (c =? LF) = false ->
    spec_piece (c :: r) k = match k with O => Some (c :: take_incl r) | S _ => spec_piece r k end.
Proof. intros c r k E. destruct k; unfold spec_piece; simpl; rewrite E; reflexivity. Qed.

Lemma spec_piece_nil : forall k, spec_piece [] k = None.
Proof. destruct k; reflexivity. Qed.

Lemma spec_piece_0 : forall c r, spec_piece (c :: r) 0 = Some (take_incl (c :: r)).
Proof. reflexivity. Qed.

Lemma split_incl_nth : forall s k, nth_error (split_incl s) k = spec_piece s k.
Proof.
  induction s as [|c r IH]; intros k.
  - rewrite spec_piece_nil. destruct k; reflexivity.
  - simpl split_incl. destruct (c =? LF) eqn:E.
    + rewrite spec_piece_cons_lf by exact E. destruct k as [|k']; [reflexivity|]. simpl. apply IH.
    + rewrite spec_piece_cons_other by exact E.
      destruct (split_incl r) as [|p ps] eqn:Es.
      * apply split_incl_nil in Es. subst r.
        destruct k as [|k']; [reflexivity|]. rewrite spec_piece_nil. destruct k'; reflexivity.
      * destruct k as [|k'].
        -- specialize (IH O). simpl in IH.
           destruct r as [|c' r']; [discriminate|]. rewrite spec_piece_0 in IH. inversion IH. reflexivity.
        -- rewrite <- IH. reflexivity.
Qed.

Lemma lines_nth : forall s k, nth_error (lines s) k = spec_line s k.
Proof.
  intros. unfold lines. rewrite nth_error_map, split_incl_nth. unfold spec_piece, spec_line.
  destruct (drop_lines s k) as [[|c r]|]; reflexivity.
Qed.

(* ------------------------------------------------------------------ pieces of the renderer *)

Lemma nrange_length : forall cnt from, length (nrange from cnt) = cnt.
Proof. induction cnt; intros; simpl; auto. Qed.

Lemma line_numbers_ok : forall cnt from,
    from + N.of_nat cnt <= U32_MAX ->
    line_numbers from cnt = Done (map line_no (nrange from cnt)).
Proof.
  induction cnt as [|k IH]; intros from H.
  - reflexivity.
  - simpl line_numbers. unfold u32_succ.
    assert (from <? U32_MAX = true) by (apply N.ltb_lt; lia). rewrite H0. simpl bind.
    rewrite IH by lia. reflexivity.
Qed.

Lemma line_numbers_overflow : forall cnt from,
    from <= U32_MAX -> U32_MAX < from + N.of_nat cnt ->
    line_numbers from cnt = Panic POverflow.
Proof.
  induction cnt as [|k IH]; intros from H1 H2.
  - simpl in H2. lia.
  - simpl line_numbers. unfold u32_succ.
    destruct (from <? U32_MAX) eqn:E.
    + apply N.ltb_lt in E. simpl bind. rewrite IH by lia. reflexivity.
    + reflexivity.
Qed.

Lemma max_by_len_some : forall l b,
    exists x, max_by_len l (Some b) = Some x /\ nlen x = N.max (fold_right (fun y acc => N.max (nlen y) acc) 0 l) (nlen b).
Proof.
  induction l as [|y l IH]; intros b; simpl.
  - exists b. split; [reflexivity|]. lia.
  - destruct (nlen b <=? nlen y) eqn:E.
    + apply N.leb_le in E. destruct (IH y) as [x [Hx Hl]]. exists x. split; [exact Hx|]. lia.
    + apply N.leb_gt in E. destruct (IH b) as [x [Hx Hl]]. exists x. split; [exact Hx|]. lia.
Qed.

Lemma fold_width_map : forall ks,
    fold_right (fun y acc => N.max (nlen y) acc) 0 (map line_no ks) = spec_width ks.
Proof. induction ks; simpl; [reflexivity|]. rewrite IHks. reflexivity. Qed.

Lemma max_by_len_width : forall ks,
    ks <> [] -> exists x, max_by_len (map line_no ks) None = Some x /\ nlen x = spec_width ks.
Proof.
  intros [|k ks] H; [congruence|]. simpl.
  destruct (max_by_len_some (map line_no ks) (line_no k)) as [x [Hx Hl]].
  exists x. split; [exact Hx|]. rewrite Hl. rewrite fold_width_map. unfold spec_width. simpl. lia.
Qed.

Lemma zip_quote_map : forall w (f g : N -> list cp) ks,
    zip_quote w (map f ks) (map g ks) = flat_map (fun k => quote_line w (g k) (f k)) ks.
Proof. induction ks; simpl; [reflexivity|]. rewrite IHks. reflexivity. Qed.

Lemma firstn_skipn_lines : forall src cnt from,
    (forall k, In k (nrange from cnt) -> spec_line src (N.to_nat k) <> None) ->
    firstn cnt (skipn (N.to_nat from) (lines src)) = map (the_line src) (nrange from cnt).
Proof.
  intros src. induction cnt as [|c IH]; intros from H.
  - reflexivity.
  - simpl nrange. simpl map.
    assert (Hf : spec_line src (N.to_nat from) <> None) by (apply H; left; reflexivity).
    rewrite <- lines_nth in Hf.
    destruct (nth_error (lines src) (N.to_nat from)) as [l|] eqn:E; [|congruence].
    pose proof (nth_error_split (lines src) (N.to_nat from) E) as [l1 [l2 [Hs Hl]]].
    assert (Hsk : skipn (N.to_nat from) (lines src) = l :: l2).
    { rewrite Hs. rewrite <- Hl. rewrite skipn_app, skipn_all, Nat.sub_diag. reflexivity. }
    rewrite Hsk. simpl firstn. f_equal.
    + unfold the_line. rewrite <- lines_nth, E. reflexivity.
    + specialize (IH (from + 1)). rewrite <- IH.
      * replace (N.to_nat (from + 1)) with (S (N.to_nat from)) by lia.
        rewrite Hs, <- Hl. rewrite skipn_app. rewrite skipn_all2 by lia.
        replace (S (length l1) - length l1)%nat with 1%nat by lia. reflexivity.
      * intros k Hk. apply H. right. exact Hk.
Qed.

(* ------------------------------------------------------------------ the renderer, reduced *)

Ltac norm_app := simpl app; repeat (rewrite <- app_assoc || rewrite <- app_comm_cons); simpl app; reflexivity.

Definition header (sl c1 w : N) : list cp :=
  dec (sl + 1) ++ [COLON] ++ dec c1 ++ [LF] ++ nrepeat SPACE (w + 2) ++ [BAR; LF].

Definition branch (src : list cp) (sl sc el ec : N) : outcome (list cp) :=
  let cnt := N.to_nat (el - sl + 1) in
  let ks := nrange sl cnt in
  let w := spec_width ks in
  let excerpt_lines := firstn cnt (skipn (N.to_nat sl) (lines src)) in
  if sl =? el then
    match map line_no ks with
    | [] => Panic PUnwrap
    | number :: _ =>
        match excerpt_lines with
        | [] => Panic PUnwrap
        | line :: _ =>
            bind (u32_sub ec sc) (fun carets =>
            Done (quote_line w number line ++ nrepeat SPACE (w + 2) ++ [BAR]
                  ++ nrepeat SPACE (sc + 1) ++ nrepeat CARET carets))
        end
    end
  else Done (zip_quote w excerpt_lines (map line_no ks)).

Lemma nskip_skipn : forall {A} (l : list A) n, nskip n l = skipn (N.to_nat n) l.
Proof.
  induction l as [|x r IH]; intros n; simpl.
  - destruct (N.to_nat n); reflexivity.
  - destruct (n =? 0) eqn:E.
    + apply N.eqb_eq in E. subst n. reflexivity.
    + apply N.eqb_neq in E. rewrite IH. replace (N.to_nat n) with (S (N.to_nat (n - 1))) by lia. reflexivity.
Qed.

Lemma excerpt_reduce : forall src sl sc el ec,
    sl <= el -> el < U32_MAX ->
    excerpt src (mkSpan (mkPos sl sc) (mkPos el ec)) =
    bind (branch src sl sc el ec) (fun body =>
    bind (u32_succ sc) (fun c1 =>
    Done (header sl c1 (spec_width (nrange sl (N.to_nat (el - sl + 1)))) ++ body))).
Proof.
  intros src sl sc el ec H1 H2. unfold excerpt. simpl p_line. simpl p_col. rewrite nskip_skipn.
  unfold u32_sub at 1. assert (E1 : sl <=? el = true) by (apply N.leb_le; lia). rewrite E1. simpl bind.
  unfold u32_succ at 1. assert (E2 : el - sl <? U32_MAX = true) by (apply N.ltb_lt; lia). rewrite E2. simpl bind.
  rewrite line_numbers_ok by lia. simpl bind.
  set (cnt := N.to_nat (el - sl + 1)).
  assert (Hks : nrange sl cnt <> []).
  { subst cnt. replace (N.to_nat (el - sl + 1)) with (S (N.to_nat (el - sl))) by lia. simpl. discriminate. }
  destruct (max_by_len_width (nrange sl cnt) Hks) as [x [Hx Hl]]. rewrite Hx, Hl.
  unfold branch. fold cnt.
  unfold u32_succ at 1. assert (E3 : sl <? U32_MAX = true) by (apply N.ltb_lt; lia). rewrite E3.
  unfold header.
  destruct (sl =? el).
  - destruct (map line_no (nrange sl cnt)) as [|number ns]; [reflexivity|].
    destruct (firstn cnt (skipn (N.to_nat sl) (lines src))) as [|line ls]; [reflexivity|].
    destruct (u32_sub ec sc); simpl; [|reflexivity].
    destruct (u32_succ sc); simpl bind; [|reflexivity]. f_equal. unfold quote_line. norm_app.
  - simpl bind. destruct (u32_succ sc); simpl bind; [|reflexivity]. f_equal. norm_app.
Qed.

Lemma lines_range_exist : forall src sl el,
    sl <= el -> (exists l, spec_line src (N.to_nat el) = Some l) ->
    forall k, In k (nrange sl (N.to_nat (el - sl + 1))) -> spec_line src (N.to_nat k) <> None.
Proof.
  intros src sl el Hle [l Hl] k Hk.
  assert (Hr : forall cnt from k, In k (nrange from cnt) -> from <= k < from + N.of_nat cnt).
  { induction cnt as [|c IH]; intros from k0 Hin; simpl in Hin; [contradiction|].
    destruct Hin as [<- | Hin]; [lia|]. apply IH in Hin. lia. }
  apply Hr in Hk.
  rewrite <- lines_nth in *. intro Hn.
  apply nth_error_None in Hn.
  assert (nth_error (lines src) (N.to_nat el) <> None) by congruence.
  apply nth_error_Some in H. lia.
Qed.

Theorem excerpt_quotes_lines : forall src sp,
    span_in_text src sp -> excerpt src sp = Done (spec_excerpt src sp).
Proof.
  intros src [[sl sc] [el ec]]. unfold span_in_text. simpl p_line. simpl p_col.
  intros [Hle [Hex [Hcol [Hel Hsc]]]].
  rewrite excerpt_reduce by assumption.
  unfold spec_excerpt. simpl p_line. simpl p_col.
  set (cnt := N.to_nat (el - sl + 1)). set (ks := nrange sl cnt).
  unfold branch. fold cnt. fold ks.
  assert (Hlines : firstn cnt (skipn (N.to_nat sl) (lines src)) = map (the_line src) ks).
  { apply firstn_skipn_lines. apply lines_range_exist; assumption. }
  rewrite Hlines.
  unfold u32_succ. assert (E : sc <? U32_MAX = true) by (apply N.ltb_lt; lia). rewrite E.
  destruct (sl =? el) eqn:Es.
  - apply N.eqb_eq in Es. subst el.
    assert (Hc : cnt = 1%nat) by (subst cnt; replace (sl - sl + 1) with 1 by lia; reflexivity).
    subst ks. rewrite Hc. simpl nrange. simpl map.
    unfold u32_sub. assert (E2 : sc <=? ec = true) by (apply N.leb_le; auto). rewrite E2.
    simpl bind. unfold header. f_equal. unfold quote_line. norm_app.
  - rewrite zip_quote_map. simpl bind. unfold header. f_equal. norm_app.
Qed.

Lemma bind_done : forall {A B} (a : A) (f : A -> outcome B), bind (Done a) f = f a.
Proof. reflexivity. Qed.
Lemma bind_panic : forall {A B} p (f : A -> outcome B), bind (Panic p) f = Panic p.
Proof. reflexivity. Qed.

Lemma bind_panic_r : forall {A B} (o : outcome A) (f : A -> outcome B),
    (forall a, exists p, f a = Panic p) -> exists p, bind o f = Panic p.
Proof. intros A B [a|p] f H; simpl; [apply H | eauto]. Qed.

Theorem excerpt_total : forall src sp,
    u32 (p_line (s_start sp)) -> u32 (p_line (s_end sp)) ->
    (excerpt_safe src sp = true <-> exists t, excerpt src sp = Done t).
Proof.
  intros src [[sl sc] [el ec]]. unfold u32, excerpt_safe. simpl p_line. simpl p_col. intros Usl Uel.
  destruct (sl <=? el) eqn:E1.
  2:{ split; [discriminate|]. intros [t Ht]. unfold excerpt in Ht. simpl in Ht.
      unfold u32_sub in Ht. rewrite E1 in Ht. discriminate. }
  apply N.leb_le in E1.
  destruct (el <? U32_MAX) eqn:E2.
  2:{ split; [discriminate|]. intros [t Ht]. apply N.ltb_ge in E2.
      assert (el = U32_MAX) by lia. subst el.
      unfold excerpt in Ht. cbn [p_line p_col s_start s_end] in Ht.
      unfold u32_sub at 1 in Ht. assert (Hx : sl <=? U32_MAX = true) by (apply N.leb_le; lia).
      rewrite Hx in Ht. rewrite bind_done in Ht. unfold u32_succ at 1 in Ht.
      remember (U32_MAX - sl) as d.
      destruct (d <? U32_MAX) eqn:E3.
      - apply N.ltb_lt in E3. rewrite bind_done in Ht.
        rewrite line_numbers_overflow in Ht by lia. rewrite bind_panic in Ht. discriminate.
      - rewrite bind_panic in Ht. discriminate. }
  apply N.ltb_lt in E2.
  rewrite excerpt_reduce by assumption.
  destruct (sc <? U32_MAX) eqn:E3.
  2:{ split; [discriminate|]. intros [t Ht].
      destruct (bind_panic_r (branch src sl sc el ec)
                  (fun body => bind (u32_succ sc) (fun c1 =>
                     Done (header sl c1 (spec_width (nrange sl (N.to_nat (el - sl + 1)))) ++ body)))) as [p Hp].
      - intros a. unfold u32_succ. rewrite E3. exists POverflow. reflexivity.
      - rewrite Hp in Ht. discriminate. }
  simpl andb. unfold u32_succ. rewrite E3.
  unfold branch.
  destruct (sl =? el) eqn:Es.
  - apply N.eqb_eq in Es. subst el.
    replace (N.to_nat (sl - sl + 1)) with 1%nat by lia. simpl nrange. simpl map.
    rewrite <- lines_nth.
    destruct (nth_error (lines src) (N.to_nat sl)) as [l|] eqn:En.
    + pose proof (nth_error_split (lines src) (N.to_nat sl) En) as [l1 [l2 [Hs Hl]]].
      rewrite Hs, <- Hl. rewrite skipn_app, skipn_all, Nat.sub_diag. simpl.
      unfold u32_sub. destruct (sc <=? ec); simpl; split; eauto; try discriminate.
      intros [t Ht]. discriminate.
    + apply nth_error_None in En. rewrite skipn_all2 by exact En. simpl.
      split; [discriminate|]. intros [t Ht]. discriminate.
  - simpl. split; eauto.
Qed.

(* ------------------------------------------------------------------ debug prefix *)

Theorem debug_prefix_line : forall pushes ip,
    nondecreasing 0 pushes ->
    debug_prefix (sm_build pushes) ip =
    match spec_lookup pushes ip with
    | Some sp => if p_line (s_start sp) <? U32_MAX
                 then Done ([LBRACKET] ++ dec (p_line (s_start sp) + 1) ++ [RBRACKET; SPACE])
                 else Panic POverflow
    | None => Done ERR_PREFIX
    end.
Proof.
  intros pushes ip H. unfold debug_prefix. rewrite lookup_latest by exact H.
  destruct (spec_lookup pushes ip) as [sp|]; [|reflexivity].
  unfold u32_succ. destruct (p_line (s_start sp) <? U32_MAX); reflexivity.
Qed.
