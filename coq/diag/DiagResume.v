(* C12 — `instruction_ip` across calls, returns, yields and resumes
   (crates/runtime/src/vm.rs: execute_instructions, push_frame, pop_frame, continue_running).

   execute_instructions:   self.instruction_ip = self.ip();            (* on entry, also when a generator is resumed *)
                           while let Some(instruction) = self.reader.next() {   (* reader.ip moves past it *)
                               match self.execute_instruction(instruction) {
                                   Continue        => {}
                                   Return / Yield  => return            (* early: the loop tail is skipped *)
                                   Err(e)          => pop_call_stack_on_error(e)   (* reads instruction_ip *)
                               }
                               self.instruction_ip = self.ip();         (* loop tail *)
                           }
   The frame that an error (or a `debug`) reports is `instruction_ip`; the claim proved here is that at every loop
   head it equals reader.ip, i.e. while an instruction is being executed it is the ip where that instruction starts. *)
From KV.diag Require Import DiagModel.
Open Scope N_scope.

Record rframe := mkRF {
  rf_ret_iip : N;        (* return_instruction_ip *)
  rf_resume : N;         (* return_resume_ip *)
  rf_call_at : N         (* GHOST: where the call instruction that pushed the callee started *)
}.

Record rvm := mkR {
  r_ip : N;              (* reader.ip *)
  r_iip : N;             (* instruction_ip *)
  r_frames : list rframe; (* frames BELOW the current one, innermost first *)
  r_active : bool        (* inside the loop of execute_instructions *)
}.

Inductive revent :=
| REnter                       (* run / call_function: execute_instructions entered *)
| RStep (len : N)              (* an instruction of `len` bytes that completes normally *)
| RJump (len target : N)       (* a jump, or an error caught in this frame: set_ip(target) *)
| RCall (len target : N)       (* Call: push_frame, continue at the callee's first instruction *)
| RReturn (len : N)            (* Return with a caller frame to return to: pop_frame *)
| RYield (len : N)             (* Yield: execute_instructions returns, the VM is suspended *)
| RResume.                     (* continue_running: execute_instructions entered again *)

(* `entry_refresh`: whether execute_instructions starts with `self.instruction_ip = self.ip()` *)
Definition rstep (entry_refresh : bool) (v : rvm) (e : revent) : rvm :=
  match e with
  | REnter | RResume =>
      if r_active v then v
      else mkR (r_ip v) (if entry_refresh then r_ip v else r_iip v) (r_frames v) true
  | RStep len =>
      if r_active v then let ip' := r_ip v + len in mkR ip' ip' (r_frames v) true else v
  | RJump len target =>
      if r_active v then mkR target target (r_frames v) true else v
  | RCall len target =>
      if r_active v then
        (* reader.next() moved ip past the call; push_frame stores instruction_ip and the resume ip *)
        mkR target target (mkRF (r_iip v) (r_ip v + len) (r_ip v) :: r_frames v) true
      else v
  | RReturn len =>
      if r_active v then
        match r_frames v with
        | fr :: rest =>
            (* pop_frame: instruction_ip = return_instruction_ip, ip = resume ip; then the loop tail *)
            mkR (rf_resume fr) (rf_resume fr) rest true
        | [] => mkR (r_ip v + len) (r_iip v) [] false      (* the outermost frame returned: inactive *)
        end
      else v
  | RYield len =>
      if r_active v then mkR (r_ip v + len) (r_iip v) (r_frames v) false else v   (* no loop tail *)
  end.

(* any start: ip0 where execution starts, an arbitrary stale instruction_ip *)
Definition rinit (ip0 stale : N) : rvm := mkR ip0 stale [] false.
Definition rrun (entry_refresh : bool) (ip0 stale : N) (es : list revent) : rvm :=
  fold_left (rstep entry_refresh) es (rinit ip0 stale).

(* what an error raised by the instruction about to be executed reports first, and then for each caller *)
Definition fault_frame (v : rvm) : N := r_iip v.
Definition caller_frames (v : rvm) : list N := map rf_ret_iip (r_frames v).

Definition rinv (v : rvm) : Prop :=
  (r_active v = true -> r_iip v = r_ip v)
  /\ Forall (fun fr => rf_ret_iip fr = rf_call_at fr) (r_frames v).

Lemma rstep_inv : forall v e, rinv v -> rinv (rstep true v e).
Proof.
  intros [ip iip frames active] e [Ha Hf]. simpl in *.
  destruct e; simpl; destruct active; simpl; try (destruct frames as [|fr rest]; simpl);
    unfold rinv; simpl;
    (split;
     [ intro H; try discriminate; try reflexivity; auto
     | first [ exact Hf
             | constructor; [simpl; apply Ha; reflexivity | exact Hf]
             | inversion Hf; assumption
             | constructor ] ]).
Qed.

Lemma rrun_inv : forall es v, rinv v -> rinv (fold_left (rstep true) es v).
Proof. induction es as [|e es IH]; intros v H; simpl; [exact H | apply IH, rstep_inv, H]. Qed.

(* after ANY sequence of calls, returns, jumps, yields and resumes: while the VM executes, the frame a fault would
   report is the ip of the instruction about to be executed, and every caller frame is the ip of its call instruction *)
Theorem fault_ip_current : forall ip0 stale es,
    let v := rrun true ip0 stale es in
    (r_active v = true -> fault_frame v = r_ip v)
    /\ caller_frames v = map rf_call_at (r_frames v).
Proof.
  intros ip0 stale es v.
  assert (H : rinv v).
  { subst v. unfold rrun. apply rrun_inv. unfold rinv, rinit. simpl. split; [discriminate | constructor]. }
  destruct H as [Ha Hf]. split; [exact Ha|].
  unfold caller_frames. induction Hf as [|fr l Hx Hl IH]; simpl; [reflexivity|]. rewrite Hx, IH. reflexivity.
Qed.

(* without the refresh on entry the first instruction after a resume is attributed to the yield *)
Theorem resume_without_refresh_refuted :
  let v := rrun false 0 0 [REnter; RStep 3; RYield 2; RResume] in
  r_active v = true /\ r_ip v = 5 /\ fault_frame v = 3.
Proof. vm_compute. repeat split; reflexivity. Qed.
