(* Encoders for the correspondence check: plain numbers in, nested lists of numbers out. *)
From KV.diag Require Import DiagModel.
Open Scope N_scope.

Definition mk_span (sl sc el ec : N) : span := mkSpan (mkPos sl sc) (mkPos el ec).

Definition span_of_list (l : list N) : span :=
  match l with
  | [sl; sc; el; ec] => mk_span sl sc el ec
  | _ => mk_span 0 0 0 0
  end.

Definition enc_span (s : span) : list N :=
  [p_line (s_start s); p_col (s_start s); p_line (s_end s); p_col (s_end s)].

(* pushes: [ip; sl; sc; el; ec] each *)
Definition push_of_list (l : list N) : N * span :=
  match l with
  | ip :: r => (ip, span_of_list r)
  | [] => (0, mk_span 0 0 0 0)
  end.

Definition smap_out (pushes : list (list N)) (queries : list N) : list (list N) :=
  let m := sm_build (map push_of_list pushes) in
  map (fun q => match sm_get m q with Some s => enc_span s | None => [] end) queries.

Definition enc_outcome (o : outcome (list cp)) : N * list N :=
  match o with
  | Done t => (0, t)
  | Panic PUnwrap => (1, [])
  | Panic POverflow => (2, [])
  end.

Definition excerpt_out (src : list cp) (sp : list N) : N * list N :=
  enc_outcome (excerpt src (span_of_list sp)).

Definition debug_out (pushes : list (list N)) (ip : N) : N * list N :=
  enc_outcome (debug_prefix (sm_build (map push_of_list pushes)) ip).

(* events: (0, ip) = call executed at ip, (1, _) = try entered in the current frame *)
Definition event_of (e : N * N) : event := if fst e =? 0 then ECall (snd e) else ETry.

Definition trace_out (events : list (N * N)) (fault_ip : N) : N * list N :=
  match fault_at (run_events (map event_of events)) fault_ip with
  | Uncaught t => (0, t)
  | Caught t => (1, t)
  | UnwindError => (2, [])
  end.
