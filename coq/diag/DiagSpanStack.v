(* C12 — the compiler's span-stack discipline (crates/bytecode/src/compiler.rs), abstractly.

   compile_node(n):  push_span(n);  <the node kind's code>;  pop_span()
   The code of a node kind is a script of: push_op (records the span on TOP of the stack for the instruction),
   push_op_without_span, compile_node(child), extra push_span / pop_span (catch arg / catch block, for-loop
   iterable, the links of a chain).  compile_chain pushes one span per link without popping and ends with
   `span_stack.truncate(span_stack_count)`.

   The 5000 lines of compile_* routines are NOT transcribed; what is proved is the discipline itself: any tree of
   nodes whose scripts are locally well-bracketed (or truncate at the end) leaves the span stack as it found it,
   and an instruction emitted by a node outside any extra push carries that node's own span.  The tie to the real
   compiler is D-predicate M2 of checks/c12.py (every decoded instruction of real chunks carries the span of an
   AST node of the matching kind). *)
From Coq Require Import Arith PeanoNat.
From KV.diag Require Import DiagModel.
Open Scope N_scope.

Inductive node :=
| Node (sp : span) (body : acts) (truncate : bool)
with acts :=
| ANil
| AOp (id : N) (r : acts)            (* push_op: debug_info.push(ip, self.span()) *)
| AOpNoSpan (r : acts)               (* push_op_without_span *)
| AChild (c : node) (r : acts)       (* self.compile_node(child) *)
| APush (s : span) (r : acts)        (* push_span of something else *)
| APop (r : acts).                   (* pop_span *)

Scheme node_mut := Induction for node Sort Prop
with acts_mut := Induction for acts Sort Prop.
Combined Scheme node_acts_ind from node_mut, acts_mut.

(* span_stack (head = last()), and what push_op recorded: (instruction id, span) *)
Record cstate := mkC { c_stack : list span; c_rec : list (N * span) }.

Definition top (st : cstate) : option span := hd_error (c_stack st).

(* Vec::truncate(len): keep the oldest `len` entries *)
Definition truncate_to (len : nat) (l : list span) : list span := skipn (length l - len) l.

Fixpoint compile (n : node) (st : cstate) : cstate :=
  match n with
  | Node sp body tr =>
      let st1 := mkC (sp :: c_stack st) (c_rec st) in
      let count := length (c_stack st1) in
      let st2 := run body st1 in
      let st3 := if tr then mkC (truncate_to count (c_stack st2)) (c_rec st2) else st2 in
      mkC (tl (c_stack st3)) (c_rec st3)
  end
with run (a : acts) (st : cstate) : cstate :=
  match a with
  | ANil => st
  | AOp id r =>
      run r (match top st with
             | Some s => mkC (c_stack st) (c_rec st ++ [(id, s)])
             | None => st                       (* expect("Empty span stack"): unreachable below a node *)
             end)
  | AOpNoSpan r => run r st
  | AChild c r => run r (compile c st)
  | APush s r => run r (mkC (s :: c_stack st) (c_rec st))
  | APop r => run r (mkC (tl (c_stack st)) (c_rec st))
  end.

(* scripts are locally well-bracketed: a pop only undoes an extra push of the same script, and at the end either
   nothing extra is left or the routine truncates (compile_chain) *)
Fixpoint wf_node (n : node) : Prop :=
  match n with Node _ body tr => wf_acts tr 0 body end
with wf_acts (tr : bool) (d : nat) (a : acts) : Prop :=
  match a with
  | ANil => tr = true \/ d = O
  | AOp _ r => wf_acts tr d r
  | AOpNoSpan r => wf_acts tr d r
  | AChild c r => wf_node c /\ wf_acts tr d r
  | APush _ r => wf_acts tr (S d) r
  | APop r => (0 < d)%nat /\ wf_acts tr (pred d) r
  end.

Lemma truncate_app : forall ext base, truncate_to (length base) (ext ++ base) = base.
Proof.
  intros. unfold truncate_to. rewrite app_length.
  replace (length ext + length base - length base)%nat with (length ext) by lia.
  rewrite skipn_app, skipn_all, Nat.sub_diag. reflexivity.
Qed.

Lemma balance_mut :
  (forall n, wf_node n -> forall st, c_stack (compile n st) = c_stack st)
  /\ (forall a tr d, wf_acts tr d a -> forall st ext base,
         c_stack st = ext ++ base -> length ext = d ->
         exists ext', c_stack (run a st) = ext' ++ base /\ (tr = true \/ ext' = [])).
Proof.
  apply (node_acts_ind
           (fun n => wf_node n -> forall st, c_stack (compile n st) = c_stack st)
           (fun a => forall tr d, wf_acts tr d a -> forall st ext base,
                c_stack st = ext ++ base -> length ext = d ->
                exists ext', c_stack (run a st) = ext' ++ base /\ (tr = true \/ ext' = []))).
  - (* Node *)
    intros sp body IH tr Hwf st. simpl in Hwf.
    change (compile (Node sp body tr) st) with
        (let st1 := mkC (sp :: c_stack st) (c_rec st) in
         let st2 := run body st1 in
         let st3 := if tr then mkC (truncate_to (length (c_stack st1)) (c_stack st2)) (c_rec st2) else st2 in
         mkC (tl (c_stack st3)) (c_rec st3)).
    cbv zeta.
    destruct (IH tr O Hwf (mkC (sp :: c_stack st) (c_rec st)) [] (sp :: c_stack st) eq_refl eq_refl)
      as [ext' [He Ht]].
    destruct tr.
    + cbn [c_stack c_rec]. rewrite He.
      pose proof (truncate_app ext' (sp :: c_stack st)) as Ht2. cbn [length] in Ht2 |- *.
      rewrite Ht2. reflexivity.
    + destruct Ht as [Ht|Ht]; [discriminate|]. subst ext'. simpl in He. simpl. rewrite He. reflexivity.
  - (* ANil *)
    intros tr d Hwf st ext base Hs Hl. simpl in *. exists ext. split; [exact Hs|].
    destruct Hwf as [H|H]; [left; exact H|]. right. subst d. destruct ext; [reflexivity|discriminate].
  - (* AOp *)
    intros id r IH tr d Hwf st ext base Hs Hl. simpl in *.
    destruct (top st); eapply IH; eauto.
  - (* AOpNoSpan *)
    intros r IH tr d Hwf st ext base Hs Hl. simpl in *. eapply IH; eauto.
  - (* AChild *)
    intros c IHc r IHr tr d [Hc Hr] st ext base Hs Hl. simpl.
    eapply IHr; eauto. rewrite IHc by exact Hc. exact Hs.
  - (* APush *)
    intros s r IH tr d Hwf st ext base Hs Hl. simpl in *.
    eapply (IH tr (S d) Hwf _ (s :: ext) base); simpl; [rewrite Hs; reflexivity | lia].
  - (* APop *)
    intros r IH tr d [Hd Hwf] st ext base Hs Hl. simpl in *.
    destruct ext as [|x ext]; [simpl in Hl; lia|].
    eapply (IH tr (pred d) Hwf _ ext base); simpl; [rewrite Hs; reflexivity | simpl in Hl; lia].
Qed.

(* compile_node leaves the span stack exactly as it found it, for every tree of well-bracketed node scripts *)
Theorem span_stack_balanced : forall n, wf_node n -> forall st, c_stack (compile n st) = c_stack st.
Proof. exact (proj1 balance_mut). Qed.

(* records only grow *)
Lemma rec_mono_mut :
  (forall n st, exists more, c_rec (compile n st) = c_rec st ++ more)
  /\ (forall a st, exists more, c_rec (run a st) = c_rec st ++ more).
Proof.
  apply (node_acts_ind (fun n => forall st, exists more, c_rec (compile n st) = c_rec st ++ more)
                  (fun a => forall st, exists more, c_rec (run a st) = c_rec st ++ more)).
  - intros sp body IH tr st. simpl.
    destruct (IH (mkC (sp :: c_stack st) (c_rec st))) as [m Hm]. exists m.
    destruct tr; simpl; exact Hm.
  - intros st. exists []. simpl. rewrite app_nil_r. reflexivity.
  - intros id r IH st. simpl. destruct (top st) as [s|].
    + destruct (IH (mkC (c_stack st) (c_rec st ++ [(id, s)]))) as [m Hm]. exists ((id, s) :: m).
      rewrite Hm. simpl. rewrite <- app_assoc. reflexivity.
    + apply IH.
  - intros r IH st. simpl. apply IH.
  - intros c IHc r IHr st. simpl. destruct (IHc st) as [m1 H1]. destruct (IHr (compile c st)) as [m2 H2].
    exists (m1 ++ m2). rewrite H2, H1, app_assoc. reflexivity.
  - intros s r IH st. simpl. apply (IH (mkC (s :: c_stack st) (c_rec st))).
  - intros r IH st. simpl. apply (IH (mkC (tl (c_stack st)) (c_rec st))).
Qed.

(* an instruction that a node emits with push_op outside any extra push_span carries the node's OWN span:
   `direct id a`: id is emitted by script a itself (not by a child) before any extra push *)
Fixpoint direct (id : N) (a : acts) : Prop :=
  match a with
  | ANil => False
  | AOp i r => i = id \/ direct id r
  | AOpNoSpan r => direct id r
  | AChild c r => wf_node c /\ direct id r
  | APush _ _ => False
  | APop _ => False
  end.

Lemma direct_records : forall a id sp st,
    direct id a -> hd_error (c_stack st) = Some sp -> In (id, sp) (c_rec (run a st)).
Proof.
  induction a as [|i r IH|r IH|c r IH|s r IH|r IH]; intros id sp st Hd Htop; simpl in *; try contradiction.
  - unfold top. rewrite Htop. destruct Hd as [->|Hd].
    + destruct (proj2 rec_mono_mut r (mkC (c_stack st) (c_rec st ++ [(id, sp)]))) as [m Hm].
      rewrite Hm. simpl. apply in_or_app. left. apply in_or_app. right. left. reflexivity.
    + apply IH; [exact Hd | exact Htop].
  - apply IH; assumption.
  - destruct Hd as [Hc Hd]. apply IH; [exact Hd|]. rewrite span_stack_balanced by exact Hc. exact Htop.
Qed.

Theorem op_span_owner : forall sp body tr id st,
    direct id body -> In (id, sp) (c_rec (compile (Node sp body tr) st)).
Proof.
  intros sp body tr id st Hd. simpl.
  assert (H : In (id, sp) (c_rec (run body (mkC (sp :: c_stack st) (c_rec st)))))
    by (apply direct_records; [exact Hd | reflexivity]).
  destruct tr; simpl; exact H.
Qed.
