(* From expressions to whole scripts: the main block, NewFrame / Return, and the byte-level VM. *)
From Coq Require Import ZArith NArith List Bool Lia.
From KV.comp Require Import Ast0 Sem0 Instr0 Comp0 VM0 Known0 InstrLemmas CompLemmas SimBase SimExpr SimAll.
Import ListNotations.
Open Scope N_scope.
Ltac Zify.zify_post_hook ::= Z.to_euclidean_division_equations.

Definition noD : ident -> bool := fun _ => false.

Lemma block_sim : forall pool p, p <> [] -> all_list frag p = true ->
  forall st out st' c, comp_block (comp pool) RAny p st = OK (out, st', c) -> wfst st ->
  drop_block dropped false p = false ->
  ip st' = ip st + code_size c /\ ext st st' /\ wfst st' /\
  (exists ro, o_reg out = Some ro) /\
  forall n s rs prog, any_list known_expr p = false -> inv st noD s rs ->
    tbase st + tused st' <= N.of_nat (length rs) -> code_at prog (ip st) c ->
    match eval_block (eval n) s p with
    | ONorm v s' => exists rs', star pool prog (ip st) rs (ip st') rs' /\ length rs' = length rs /\
                                (forall ro, o_reg out = Some ro -> get rs' ro = Some v)
    | OErr c => stops pool prog (ip st) rs (VFail c)
    | OFuel => True
    | _ => False
    end.
Proof.
  intros pool p. induction p as [|e rest IH]; intros NE FR st out st' c H W DR; [congruence|].
  cbn [all_list] in FR. apply andb_prop in FR as [Fe Frest].
  destruct rest as [|e2 rest].
  - (* last expression: mode Any *)
    cbn [comp_block] in H. cbn [drop_block] in DR.
    destruct (sim_expr pool e Fe RAny st out st' c H W DR) as ((I & E & W' & SH) & DY).
    split; [assumption|]. split; [assumption|]. split; [assumption|].
    split; [destruct SH as [(-> & _)|(x & l & -> & _)]; cbn; eauto|].
    { intros n s rs prog K IV B CA. cbn [any_list] in K. rewrite orb_false_r in K. cbn [eval_block].
      assert (RD : forall x, noD x = true -> reads x e = false) by (intros; discriminate).
      specialize (DY n s rs noD prog K IV RD (dest_ok_any _ _ _ _) B CA).
      destruct (eval n s e) as [v s'| | | |]; auto.
      destruct DY as (rs' & St & LN & _ & R & _). exists rs'. auto. }
  - remember (e2 :: rest) as tl. cbn [comp_block] in H. rewrite Heqtl in H. rewrite <- Heqtl in H.
    apply bind_inv in H. destruct H as (o1 & st1 & c1 & c2 & H1 & H2 & ->).
    cbn [drop_block] in DR. rewrite Heqtl in DR. rewrite <- Heqtl in DR.
    apply orb_false_elim in DR as [D1 D2].
    destruct (sim_expr pool e Fe RNone st o1 st1 c1 H1 W D1) as ((I1 & E1 & W1 & SH1) & DY1).
    assert (NE2 : tl <> []) by (subst; discriminate).
    destruct (IH NE2 Frest st1 out st' c2 H2 W1 D2) as (I2 & E2 & W2 & RO & DY2).
    split; [rewrite code_size_app; lia|].
    split; [eapply ext_trans; eauto|].
    split; [assumption|]. split; [assumption|].
    { intros n s rs prog K IV B CA. cbn [any_list] in K. apply orb_false_elim in K as [K1 K2].
      apply code_at_app in CA as [CA1 CA2].
      cbn [eval_block]. rewrite Heqtl. rewrite <- Heqtl.
      assert (RD : forall x, noD x = true -> reads x e = false) by (intros; discriminate).
      assert (DO : dest_ok st RNone rs noD e) by (intros d Ed; discriminate).
      assert (B1 : tbase st + tused st1 <= N.of_nat (length rs)) by (pose proof (ext_used _ _ E2); lia).
      specialize (DY1 n s rs noD prog K1 IV RD DO B1 CA1).
      destruct (eval n s e) as [v1 s1| | | |]; auto.
      destruct DY1 as (rs1 & St1 & LN1 & IV1 & _).
      assert (IV1' : inv st1 noD s1 rs1).
      { eapply inv_weaken; [exact IV1|]. intros x Hx. unfold dirty in Hx. cbn in Hx. exact Hx. }
      assert (B2 : tbase st1 + tused st' <= N.of_nat (length rs1)).
      { rewrite LN1, (ext_tbase _ _ E1). exact B. }
      rewrite <- I1 in CA2.
      specialize (DY2 n s1 rs1 prog K2 IV1' B2 CA2).
      destruct (eval_block (eval n) s1 tl) as [v s'| | | |]; auto.
      * destruct DY2 as (rs' & St2 & LN2 & R). exists rs'. splits; auto.
        -- eapply star_trans; eauto.
        -- lia.
      * eapply star_stops; eauto. }
Qed.

Lemma get_resize_null : forall n k, k < N.of_nat n -> get (resize [VNull] n) k = Some VNull.
Proof.
  assert (G : forall n k, (k < n)%nat -> nth_error (resize [] n) k = Some VNull).
  { induction n; intros k Hk; [lia|]. destruct k; cbn; [reflexivity|]. apply IHn. lia. }
  intros n k Hk. unfold get. destruct n; [lia|]. cbn [resize].
  destruct (N.to_nat k) eqn:E; cbn; [reflexivity|]. apply G. lia.
Qed.

Lemma length_resize : forall rs n, length (resize rs n) = n.
Proof. intros rs n. revert rs. induction n; intros; cbn; [reflexivity|]. destruct rs; cbn; rewrite IHn; reflexivity. Qed.

(* the byte machine follows the instruction machine *)
Lemma run_refines : forall prog consts n pc rs r,
  forallb wf_instr prog = true ->
  irun_from n consts prog pc rs = r -> r <> VBad ->
  run_from n (mkChunk (encode_code prog) consts) pc rs = r.
Proof.
  intros prog consts. induction n; intros pc rs r W H NB; [exact H|].
  cbn [irun_from run_from] in *.
  destruct (instr_at prog pc) as [i|] eqn:IA.
  - rewrite (step_refines _ _ _ _ _ W IA).
    destruct (istep consts prog pc rs); [apply IHn; auto|exact H].
  - unfold istep in H. rewrite IA in H. congruence.
Qed.

Definition sem_to_vm (r : Sem0.result) : vmres :=
  match r with Done v => VDone v | Failed c => VFail c | _ => VTimeout end.

Theorem comp_correct_frag : forall p fuel ch,
  p <> [] -> all_list frag p = true -> known_C01 p = false ->
  compile p = OK ch ->
  match Sem0.run fuel p with
  | Done v => exists n, VM0.run n ch = VDone v
  | Failed c => exists n, VM0.run n ch = VFail c
  | _ => True
  end.
Proof.
  intros p fuel ch NE FR KN HC.
  unfold known_C01 in KN. apply orb_false_elim in KN as [K1 K2].
  unfold compile in HC. destruct (compile_code p) as [[code pl]|] eqn:CC; [|discriminate].
  destruct (forallb wf_instr code) eqn:WF; [|discriminate]. inversion HC; subst ch; clear HC.
  unfold compile_code in CC. cbv zeta in CC.
  destruct (255 <? 1 + local_count p mod 256) eqn:LC; [discriminate|].
  set (st0 := init_st (local_count p mod 256)) in *.
  match type of CC with match ?b st0 with _ => _ end = _ => destruct (b st0) as [[[u stf] c]|] eqn:BODY; [|discriminate] end.
  inversion CC; subst code pl; clear CC.
  apply bind_inv in BODY. destruct BODY as (blk & st1 & c1 & c2 & HB & HT & ->).
  assert (W0 : wfst st0).
  { constructor.
    - unfold st0, init_st, nlocals. cbn [locals tbase length]. lia.
    - unfold st0, init_st. cbn [tcount tused]. lia.
    - intros x l G. unfold st0, init_st, get_local_assigned_register in G. cbn in G. discriminate. }
  destruct (block_sim (pool_of p) p NE FR st0 blk st1 c1 HB W0 K2) as (I1 & E1 & W1 & (ro & RO) & DY).
  rewrite RO in HT.
  apply bind_inv in HT. destruct HT as (u1 & st2 & cr & c3 & HE & HP & ->).
  unfold emit in HE. inversion HE; subst u1 st2 cr; clear HE.
  destruct u. apply pop_if_inv in HP; [|apply wfst_set_ip; assumption].
  destruct HP as (-> & I3 & L3 & T3 & U3 & E3 & W3 & _).
  set (nregs := tbase stf + tused stf).
  set (prog := INewFrame nregs :: c1 ++ [IReturn ro] ++ []).
  set (rs0 := resize [VNull] (N.to_nat nregs)).
  assert (TB : tbase stf = tbase st0) by (rewrite T3; cbn; apply (ext_tbase _ _ E1)).
  assert (TU : tused st1 = tused stf) by (rewrite U3; reflexivity).
  assert (CAall : code_at prog 2 (c1 ++ [IReturn ro])).
  { exists [INewFrame nregs], []. split; [unfold prog; cbn; rewrite app_nil_r; reflexivity|reflexivity]. }
  apply code_at_app in CAall as [CA1 CA2].
  assert (IV0 : inv st0 noD env0 rs0).
  { constructor.
    - intros x l S. unfold st0, init_st, slot_of in S. cbn in S. discriminate.
    - intros k K3 K4. apply get_resize_null. unfold nregs. rewrite TB. lia.
    - intros. reflexivity. }
  assert (B0 : tbase st0 + tused st1 <= N.of_nat (length rs0)).
  { unfold rs0. rewrite length_resize. unfold nregs. rewrite TB, TU. lia. }
  assert (FIRST : istep (pool_of p) prog 0 [VNull] = SNext 2 rs0) by reflexivity.
  specialize (DY fuel env0 rs0 prog K1 IV0 B0 CA1).
  unfold Sem0.run.
  assert (FIN : forall r, stops (pool_of p) prog 0 [VNull] r -> r <> VBad ->
                exists n, VM0.run n (mkChunk (encode_code prog) (pool_of p)) = r).
  { intros r ST NB. apply stops_run in ST. destruct ST as (n & Hn). exists n.
    unfold VM0.run. apply run_refines; auto. }
  destruct (eval_block (eval fuel) env0 p) as [v s'| | | |]; auto.
  - destruct DY as (rs' & St & LN & R). apply FIN; [|discriminate].
    exists (ip st1), rs'. split.
    + econstructor; [exact FIRST|exact St].
    + rewrite I1 in *. change (ip st0) with 2 in *.
      rewrite (istep_at _ _ _ _ rs' CA2). cbn [exec]. unfold with_reg. rewrite (R _ RO). reflexivity.
  - apply FIN; [|discriminate]. eapply star_stops; [|exact DY]. apply star_one. exact FIRST.
Qed.
