(* From expressions to whole scripts: the main block, NewFrame / Return, and the byte-level VM. *)
From Coq Require Import ZArith NArith List Bool Lia.
From KV.comp Require Import Ast0 Sem0 Instr0 Comp0 VM0 Known0 InstrLemmas CompLemmas SemLemmas SimBase SimExpr SimQ SimAll.
Import ListNotations.
Open Scope N_scope.
Ltac Zify.zify_post_hook ::= Z.to_euclidean_division_equations.

Definition noD : ident -> bool := fun _ => false.

Lemma get_resize_null : forall n k, k < N.of_nat n -> get (resize [VNull] n) k = Some VNull.
Proof.
  assert (G : forall n k, (k < n)%nat -> nth_error (resize [] n) k = Some VNull).
  { induction n; intros k Hk; [lia|]. destruct k; cbn; [reflexivity|]. apply IHn. lia. }
  intros n k Hk. unfold get. destruct n; [lia|]. cbn [resize].
  destruct (N.to_nat k) eqn:E; cbn; [reflexivity|]. apply G. lia.
Qed.

Lemma length_resize : forall rs n, length (resize rs n) = n.
Proof. intros rs n. revert rs. induction n; intros; cbn; [reflexivity|]. destruct rs; cbn; rewrite IHn; reflexivity. Qed.

(* the byte machine follows the instruction machine *)
Lemma run_refines : forall prog consts n pc rs r,
  forallb wf_instr prog = true ->
  irun_from n consts prog pc rs = r -> r <> VBad ->
  run_from n (mkChunk (encode_code prog) consts) pc rs = r.
Proof.
  intros prog consts. induction n; intros pc rs r W H NB; [exact H|].
  cbn [irun_from run_from] in *.
  destruct (instr_at prog pc) as [i|] eqn:IA.
  - rewrite (step_refines _ _ _ _ _ W IA).
    destruct (istep consts prog pc rs); [apply IHn; auto|exact H].
  - unfold istep in H. rewrite IA in H. congruence.
Qed.

Definition sem_to_vm (r : Sem0.result) : vmres :=
  match r with Done v => VDone v | Failed c => VFail c | _ => VTimeout end.

Lemma resolve_wf : forall b c, forallb wf_instr c = true -> resolve b c = OK c.
Proof.
  induction c; intros H; [reflexivity|]. cbn [forallb] in H. apply andb_prop in H as [Ha Hc].
  cbn [resolve]. rewrite (IHc Hc). destruct a; try reflexivity. discriminate.
Qed.

Theorem comp_correct_all : forall p fuel ch,
  wf0 p = true -> known_C01 p = false ->
  compile p = OK ch ->
  match Sem0.run fuel p with
  | Done v => exists n, VM0.run n ch = VDone v
  | Failed c => exists n, VM0.run n ch = VFail c
  | _ => True
  end.
Proof.
  intros p fuel ch WF KN HC.
  unfold known_C01 in KN. apply orb_false_elim in KN as [K1 K2].
  unfold compile in HC. destruct (compile_code p) as [[code pl]|] eqn:CC; [|discriminate].
  destruct (forallb wf_instr code) eqn:WFI; [|discriminate]. inversion HC; subst ch; clear HC.
  unfold compile_code in CC. cbv zeta in CC.
  destruct (255 <? 1 + local_count p) eqn:LC; [discriminate|].
  set (st0 := init_st (local_count p)) in *.
  match type of CC with match ?b st0 with _ => _ end = _ => destruct (b st0) as [[[u stf] c]|] eqn:BODY; [|discriminate] end.
  inversion CC; subst code pl; clear CC.
  apply bind_inv in BODY. destruct BODY as (blk & st1 & c1 & c2 & HB & HT & ->).
  assert (W0 : wfst st0).
  { constructor.
    - unfold st0, init_st, nlocals. cbn [locals tbase length]. lia.
    - unfold st0, init_st. cbn [tcount tused]. lia.
    - intros x l G. unfold st0, init_st, get_local_assigned_register in G. cbn in G. discriminate. }
  change (comp_block (comp (pool_of p)) RAny p st0) with (comp (pool_of p) (EBlock p) RAny st0) in HB.
  destruct (sim_all (pool_of p) (EBlock p)) as (HQ & _).
  destruct (HQ WF RAny st0 blk st1 c1 HB W0 K2) as ((I1 & E1 & W1 & SH) & DY).
  (* the tail: Return *)
  assert (TAIL : tbase stf = tbase st1 /\ tused st1 <= tused stf /\
                 (forall ro, o_reg blk = Some ro -> c2 = [IReturn ro])).
  { destruct (o_reg blk) as [ro|].
    - apply bind_inv in HT. destruct HT as (u1 & st2 & cr & c3 & HE & HP & ->).
      unfold emit in HE. inversion HE; subst u1 st2 cr; clear HE. destruct u.
      apply pop_if_inv in HP; [|apply wfst_set_ip; assumption].
      destruct HP as (-> & I3 & L3 & T3 & U3 & E3 & W3 & _). cbn [tbase tused set_ip] in *.
      splits; try lia. intros ro0 E0. inversion E0; subst. reflexivity.
    - apply bind_inv in HT. destruct HT as (t & st2 & cr & c3 & HPU & HT & ->).
      apply push_inv in HPU; [|assumption].
      destruct HPU as (-> & -> & L & T & Lo & I & C & U & E & W2).
      apply bind_inv in HT. destruct HT as (u1 & st3 & cr & c4 & HE & HT & ->).
      unfold emit in HE. inversion HE; subst u1 st3 cr; clear HE.
      apply bind_inv in HT. destruct HT as (u1 & st3 & cr & c5 & HE & HT & ->).
      unfold emit in HE. inversion HE; subst u1 st3 cr; clear HE. destruct u.
      apply pop_inv in HT; [|apply wfst_set_ip; apply wfst_set_ip; assumption].
      destruct HT as (-> & L3 & T3 & Lo3 & I3 & C3 & U3 & E3 & W3). cbn [tbase tused set_ip] in *.
      splits; try lia. intros ro0 E0. discriminate. }
  destruct TAIL as (TB & TU & RET).
  set (nregs := tbase stf + tused stf).
  set (prog := INewFrame nregs :: c1 ++ c2).
  set (rs0 := resize [VNull] (N.to_nat nregs)).
  assert (TB0 : tbase stf = tbase st0) by (rewrite TB; apply (ext_tbase _ _ E1)).
  assert (CAall : code_at prog 2 (c1 ++ c2)).
  { exists [INewFrame nregs], []. split; [unfold prog; cbn; rewrite app_nil_r; reflexivity|reflexivity]. }
  apply code_at_app in CAall as [CA1 CA2].
  assert (WF1 : forallb wf_instr c1 = true).
  { cbn [forallb] in WFI. apply andb_prop in WFI as [_ WFI]. rewrite forallb_app in WFI.
    apply andb_prop in WFI. tauto. }
  assert (CR : cares prog 0 (ip st0) c1).
  { exists c1. split; [apply resolve_wf; assumption|exact CA1]. }
  assert (IV0 : inv st1 noD env0 rs0).
  { constructor.
    - intros x l S _. destruct (slot_of_id _ _ _ S) as (L & _). pose proof (wf_len _ W1).
      apply get_resize_null. unfold nregs. rewrite TB. lia.
    - intros k K3 K4. apply get_resize_null. unfold nregs. rewrite TB. lia.
    - intros. reflexivity. }
  assert (B0 : tbase st0 + tused st1 <= N.of_nat (length rs0)).
  { unfold rs0. rewrite length_resize. unfold nregs. rewrite TB0. lia. }
  assert (FIRST : istep (pool_of p) prog 0 [VNull] = SNext 2 rs0) by reflexivity.
  assert (RD0 : forall x, noD x = true -> reads x (EBlock p) = false) by (intros; discriminate).
  assert (LO0 : esc (EBlock p) = true -> loop_ok st0 rs0 noD (EBlock p)).
  { intros _. unfold loop_ok, st0, init_st. cbn. exact I. }
  specialize (DY (S fuel) env0 rs0 noD prog 0 st1 (ext_refl st1) W1 K1 IV0 RD0 (dest_ok_any _ _ _ _) LO0 B0 CR).
  change (eval (S fuel) env0 (EBlock p)) with (eval_block (eval fuel) env0 p) in DY.
  unfold Sem0.run.
  assert (FIN : forall r, stops (pool_of p) prog 0 [VNull] r -> r <> VBad ->
                exists n, VM0.run n (mkChunk (encode_code prog) (pool_of p)) = r).
  { intros r ST NB. apply stops_run in ST. destruct ST as (n & Hn). exists n.
    unfold VM0.run. apply run_refines; auto. }
  pose proof (jump_not_norm (S fuel) (EBlock p) env0) as JN.
  change (eval (S fuel) env0 (EBlock p)) with (eval_block (eval fuel) env0 p) in JN.
  destruct (eval_block (eval fuel) env0 p) as [v s'| | | |]; auto.
  - destruct DY as (rs' & St & LN & _ & R & _).
    unfold shapeQ in SH. destruct (is_jump (EBlock p)) eqn:J; [exfalso; exact (JN eq_refl)|].
    assert (exists ro, o_reg blk = Some ro) as (ro & RO).
    { destruct SH as [(-> & _)|(x & l & -> & _)]; cbn; eauto. }
    rewrite (RET ro RO) in CA2.
    apply FIN; [|discriminate].
    exists (ip st1), rs'. split.
    + econstructor; [exact FIRST|exact St].
    + rewrite I1 in *. change (ip st0) with 2 in *.
      rewrite (istep_at _ _ _ _ rs' CA2). cbn [exec]. unfold with_reg. rewrite (R _ RO). reflexivity.
  - apply FIN; [|discriminate]. eapply star_stops; [|exact DY]. apply star_one. exact FIRST.
Qed.
