(* Simulation case: if / else if / else. *)
From Coq Require Import ZArith NArith List Bool Lia.
From KV.comp Require Import Ast0 Sem0 Instr0 Comp0 VM0 Known0 InstrLemmas CompLemmas SemLemmas SimBase SimExpr SimQ.
Import ListNotations.
Open Scope N_scope.
Ltac Zify.zify_post_hook ::= Z.to_euclidean_division_equations.
Ltac norm_code H := repeat rewrite ?app_nil_l, ?app_nil_r in H; repeat rewrite <- app_assoc in H.

Definition asg_arms (arms : list (expr * expr)) (els : option expr) (x : ident) : bool :=
  any_arms (assigns x) arms || any_opt (assigns x) els.

Definition loop_okP (st : cst) (rs : regfile) (D : ident -> bool) (asg : ident -> bool) : Prop :=
  match loops st with
  | [] => True
  | li :: _ =>
    forall lr, l_result li = Some lr ->
      lr < N.of_nat (length rs) /\
      (lr < nlocals st \/ (tbase st <= lr /\ lr < tbase st + tcount st)) /\
      forall x, slot_of st x = Some lr -> D x = true /\ asg x = false
  end.

Lemma loop_okP_ext : forall st st1 (rs rs1 : regfile) D (asg asg1 : ident -> bool),
  ext st st1 -> wfst st1 -> tcount st <= tcount st1 -> length rs1 = length rs ->
  (forall x, asg1 x = true -> asg x = true) ->
  loop_okP st rs D asg -> loop_okP st1 rs1 D asg1.
Proof.
  intros st st1 rs rs1 D asg asg1 E W1 TC LN AS LO. unfold loop_okP in *.
  rewrite (ext_loops _ _ E). destruct (loops st) as [|li ls]; [exact Logic.I|].
  intros lr L. destruct (LO lr L) as (A1 & A2 & A3).
  pose proof (ext_tbase _ _ E). pose proof (ext_len _ _ E). splits.
  - lia.
  - destruct A2 as [A2|A2]; [left; lia|right; lia].
  - intros x Sx. assert (Sx0 : slot_of st x = Some lr).
    { destruct A2 as [A2|A2]; [eapply slot_of_old; eauto|].
      destruct (slot_of_id _ _ _ Sx) as (L1 & _). pose proof (wf_len _ W1). lia. }
    destruct (A3 x Sx0) as (B1 & B2). split; [assumption|].
    destruct (asg1 x) eqn:AX; [|reflexivity]. rewrite (AS _ AX) in B2. discriminate.
Qed.

Lemma loop_ok_P : forall st rs D e, loop_ok st rs D e = loop_okP st rs D (fun x => assigns x e).
Proof. reflexivity. Qed.

Lemma arm_inv : forall cmp ectx resreg els hj c t rest st u st' code,
  comp_arms cmp ectx resreg els hj ((c, t) :: rest) st = OK (u, st', code) ->
  exists co st1 cc creg st1p cp ot st2 ct c_rest,
    cmp c RAny st = OK (co, st1, cc) /\ o_reg co = Some creg /\
    pop_if (o_temp co) (set_ip st1 (ip st1 + 4)) = OK (tt, st1p, cp) /\
    cmp t ectx st1p = OK (ot, st2, ct) /\
    comp_arms cmp ectx resreg els true rest (if hj then set_ip st2 (ip st2 + 3) else st2)
      = OK (tt, st', c_rest) /\
    ip (if hj then set_ip st2 (ip st2 + 3) else st2) - (ip st1 + 4) <= 65535 /\
    code = cc ++ IJumpIfFalse creg (ip (if hj then set_ip st2 (ip st2 + 3) else st2) - (ip st1 + 4))
              :: (cp ++ ct) ++
              (if hj then [IJump (ip st' - ip (if hj then set_ip st2 (ip st2 + 3) else st2))] else []) ++ c_rest.
Proof.
  intros cmp ectx resreg els hj c t rest st u st' code H. cbn [comp_arms] in H.
  apply bind_inv in H. destruct H as (co & st1 & cc & c2 & HC & H & ->).
  apply bind_inv in H. destruct H as (creg & st1' & cx & c3 & HU & H & ->).
  unfold unwrap in HU. destruct (o_reg co) as [cr|] eqn:OC; [|discriminate].
  unfold ret in HU. inversion HU; subst cr st1' cx; clear HU.
  apply bind_inv in H. destruct H as (u1 & st1a & cx & c4 & HV & H & ->).
  unfold advance in HV. inversion HV; subst u1 st1a cx; clear HV.
  apply bind_inv in H. destruct H as (ip1 & stx & cx & c5 & HV & H & ->).
  unfold get_ip in HV. inversion HV; subst ip1 stx cx; clear HV.
  apply bind_inv in H. destruct H as (pr & st2 & cx & c6 & HT & H & ->).
  destruct pr as (ot & c_then). apply capture_inv in HT. destruct HT as (HT & ->).
  apply bind_inv in HT. destruct HT as (u2 & st1p & cp & ct & HP & HT & ->). destruct u2.
  apply bind_inv in H. destruct H as (u3 & st2j & cx & c7 & HJ & H & ->).
  assert (EJ : st2j = (if hj then set_ip st2 (ip st2 + 3) else st2) /\ cx = []).
  { destruct hj; [unfold advance in HJ|unfold ret in HJ]; inversion HJ; auto. }
  destruct EJ as (-> & ->). clear HJ.
  apply bind_inv in H. destruct H as (ip2 & stx & cx & c8 & HV & H & ->).
  unfold get_ip in HV. inversion HV; subst ip2 stx cx; clear HV.
  apply bind_inv in H. destruct H as (off1 & stx & cx & c9 & HV & H & ->).
  apply check_u16_inv in HV. destruct HV as (-> & -> & -> & OFF1).
  apply bind_inv in H. destruct H as (pr & st3 & cx & c10 & HR & H & ->).
  destruct pr as (ur & c_rest). apply capture_inv in HR. destruct HR as (HR & ->). destruct ur.
  apply bind_inv in H. destruct H as (ip3 & stx & cx & c11 & HV & H & ->).
  unfold get_ip in HV. inversion HV; subst ip3 stx cx; clear HV.
  apply bind_inv in H. destruct H as (off2 & stx & cx & c12 & HV & H & ->).
  assert (E2 : stx = st3 /\ cx = [] /\ (hj = true -> off2 = ip st3 - ip (if hj then set_ip st2 (ip st2 + 3) else st2))).
  { destruct hj.
    - apply check_u16_inv in HV. destruct HV as (-> & -> & -> & _). auto.
    - unfold ret in HV. inversion HV. splits; auto. discriminate. }
  destruct E2 as (-> & -> & O2). clear HV.
  unfold emit_raw in H. inversion H; subst; clear H.
  cbn [ip set_ip] in *.
  exists co, st1, cc, creg, st1p, cp, ot, st2, ct, c_rest. splits; auto.
  cbn [app]. destruct hj; [|reflexivity]. rewrite (O2 eq_refl). reflexivity.
Qed.

Section SimI.
  Variable pool : list pentry.
  Variable resreg : option N.
  Variable els : option expr.

  Local Notation ectx := (fixed_or_none resreg).
  Local Notation dmode := (match resreg with None => true | Some _ => false end).

  Definition post_arms (st st' : cst) (rs : regfile) (D : ident -> bool) (s : env)
             (prog : code) (brk : N) (asg : ident -> bool) (o : outcome) : Prop :=
    let fr (li : option loopinfo) (rs' : regfile) :=
        forall k, k < tbase st + tcount st -> Some k <> resreg ->
          (match li with Some l => Some k <> l_result l | None => True end) ->
          (forall x, asg x = true -> slot_of st' x <> Some k) -> get rs' k = get rs k in
    match o with
    | ONorm v s' =>
      exists rs', star pool prog (ip st) rs (ip st') rs' /\ length rs' = length rs /\
                  inv st' (dirty st' ectx D) s' rs' /\
                  (forall reg, resreg = Some reg -> get rs' reg = Some v) /\
                  fr None rs' /\ (forall x, asg x = false -> s' x = s x)
    | OBrk v s' =>
      match loops st with
      | [] => False
      | li :: _ =>
        exists rs', star pool prog (ip st) rs brk rs' /\ length rs' = length rs /\
                    inv st' (dirty st' ectx D) s' rs' /\
                    (forall lr, l_result li = Some lr -> get rs' lr = Some v) /\
                    fr (Some li) rs' /\ (forall x, asg x = false -> s' x = s x)
      end
    | OCont s' =>
      match loops st with
      | [] => False
      | li :: _ =>
        exists rs', star pool prog (ip st) rs (l_start li) rs' /\ length rs' = length rs /\
                    inv st' (dirty st' ectx D) s' rs' /\
                    (forall lr, l_result li = Some lr -> get rs' lr = Some VNull) /\
                    fr (Some li) rs' /\ (forall x, asg x = false -> s' x = s x)
      end
    | OErr ce => stops pool prog (ip st) rs (VFail ce)
    | OFuel => True
    end.

  Definition res_ok (st : cst) (rs : regfile) (arms : list (expr * expr)) : Prop :=
    forall reg, resreg = Some reg ->
      reg < N.of_nat (length rs) /\
      (reg < nlocals st \/ (tbase st <= reg /\ reg < tbase st + tcount st)) /\
      forall x, slot_of st x = Some reg ->
        all_branches (fixed_ok x) arms = true /\ all_opt (fixed_ok x) els = true.

  Definition ArmsS (arms : list (expr * expr)) : Prop :=
    forall hj st u st' c,
      comp_arms (comp pool) ectx resreg els hj arms st = OK (u, st', c) -> wfst st ->
      drop_arms dropped dmode arms = false ->
      match els with Some a => dropped dmode a = false | None => True end ->
      (hj = false -> (exists ct, arms = [ct]) /\ els = None /\ resreg = None) ->
      (ip st' = ip st + code_size c /\ ext st st' /\ wfst st' /\ tcount st' = tcount st) /\
      forall n s rs D prog brk,
        any_arms known_expr arms = false -> any_opt known_expr els = false ->
        inv st D s rs ->
        (forall x, D x = true -> any_arms (reads x) arms = false /\ any_opt (reads x) els = false) ->
        res_ok st rs arms ->
        (any_arms esc arms || any_opt esc els = true -> loop_okP st rs D (asg_arms arms els)) ->
        tbase st + tused st' <= N.of_nat (length rs) -> cares prog brk (ip st) c ->
        post_arms st st' rs D s prog brk (asg_arms arms els) (eval_elifs (eval n) s arms els).

  Lemma dirty_ext : forall st2 st' r D x, ext st2 st' -> dirty st2 r D x = true -> dirty st' r D x = true.
  Proof.
    intros st2 st' r D x E H. unfold dirty in *. apply orb_true_iff in H as [H|H]; [rewrite H; reflexivity|].
    destruct r; try discriminate. destruct (slot_of st2 x) as [l|] eqn:S; [|discriminate].
    rewrite (ext_slot _ _ E _ _ S), H. apply orb_true_r.
  Qed.

  (* a later part of the arms seen from the start of the arms *)
  Lemma post_arms_trans : forall st stj st' rs rs1 D s s1 prog brk (asg asg2 : ident -> bool) o,
    star pool prog (ip st) rs (ip stj) rs1 -> length rs1 = length rs ->
    loops stj = loops st -> tbase stj = tbase st -> tcount stj = tcount st -> ext stj st' ->
    (forall x, asg2 x = true -> asg x = true) ->
    (forall k, k < tbase st + tcount st -> (forall x, asg x = true -> slot_of st' x <> Some k) ->
               get rs1 k = get rs k) ->
    (forall x, asg x = false -> s1 x = s x) ->
    post_arms stj st' rs1 D s1 prog brk asg2 o -> post_arms st st' rs D s prog brk asg o.
  Proof.
    intros st stj st' rs rs1 D s s1 prog brk asg asg2 o ST LN LP TB TC E AS FR SF PO.
    assert (AF : forall x, asg x = false -> asg2 x = false).
    { intros x AX. destruct (asg2 x) eqn:A2; [|reflexivity]. rewrite (AS _ A2) in AX. discriminate. }
    unfold post_arms in *. rewrite LP, TB, TC in PO. destruct o as [v s'|v s'|s'|ce|]; auto.
    - destruct PO as (rs' & A1 & A2 & A3 & A4 & A5 & A6). exists rs'. splits; auto.
      + eapply star_trans; eauto.
      + lia.
      + intros k K1 K2 K2' K3. rewrite A5; auto.
      + intros x AX. rewrite (A6 _ (AF _ AX)). auto.
    - destruct (loops st) as [|li ls]; [exact PO|].
      destruct PO as (rs' & A1 & A2 & A3 & A4 & A5 & A6). exists rs'. splits; auto.
      + eapply star_trans; eauto.
      + lia.
      + intros k K1 K2 K2' K3. rewrite A5; auto.
      + intros x AX. rewrite (A6 _ (AF _ AX)). auto.
    - destruct (loops st) as [|li ls]; [exact PO|].
      destruct PO as (rs' & A1 & A2 & A3 & A4 & A5 & A6). exists rs'. splits; auto.
      + eapply star_trans; eauto.
      + lia.
      + intros k K1 K2 K2' K3. rewrite A5; auto.
      + intros x AX. rewrite (A6 _ (AF _ AX)). auto.
    - eapply star_stops; eauto.
  Qed.

  Hypothesis Qels : forall a, els = Some a -> Q pool a /\ wf_expr a = true.

  (* the else branch / the SetNull of a missing else *)
  Lemma arms_nil : ArmsS [].
  Proof.
    intros hj st u st' c H W _ Dels _. cbn [comp_arms] in H.
    destruct els as [a|] eqn:EL.
    - destruct (Qels a eq_refl) as (QA & WFa).
      apply bind_inv in H. destruct H as (oa & st1 & ca & c2 & HA & H & ->).
      unfold ret in H. inversion H; subst u st1 c2; clear H.
      destruct (QA WFa ectx st oa st' ca HA W) as ((I & E & W' & SH) & DY).
      { destruct resreg; exact Dels. }
      assert (TC : tcount st' = tcount st).
      { unfold shapeQ in SH. destruct (is_jump a); [tauto|]. 
        destruct resreg; cbn [fixed_or_none shape] in SH; tauto. }
      split; [rewrite app_nil_r; splits; auto|].
      intros n s rs D prog brk _ K IV RD RO LO B CA. cbn [any_opt] in K. rewrite app_nil_r in CA.
      cbn [eval_elifs].
      assert (RD' : forall x, D x = true -> reads x a = false).
      { intros x Dx. apply RD in Dx. cbn in Dx. tauto. }
      assert (DO : dest_ok st ectx rs D a).
      { intros d Ed. destruct resreg as [reg|] eqn:RR; cbn in Ed; inversion Ed; subst d.
        destruct (RO reg RR) as (A1 & A2 & A3). splits; auto. intros x Sx.
        destruct (A3 x Sx) as (_ & F). rewrite EL in F. exact F. }
      assert (LO' : esc a = true -> loop_ok st rs D a).
      { intros E0. cbn [any_arms any_opt orb] in LO. specialize (LO E0). rewrite loop_ok_P.
        eapply loop_okP_ext; eauto using ext_refl; try lia. intros x AX. unfold asg_arms. cbn. exact AX. }
      specialize (DY n s rs D prog brk K IV RD' DO LO' B CA).
      assert (AS : forall x, asg_arms [] (Some a) x = assigns x a) by reflexivity.
      unfold post_arms. unfold frame, frameL in DY.
      destruct (eval n s a) as [v s'|v s'|s'|ce|]; auto.
      + destruct DY as (rs' & A1 & A2 & A3 & A4 & A5 & A6 & A7). exists rs'. splits; auto.
        * intros reg RG. apply A7. rewrite RG. reflexivity.
        * intros k K1 K2 _ K3. apply A5; auto.
          destruct resreg; cbn; [exact K2|discriminate].
      + destruct (loops st) as [|li ls]; [exact DY|].
        destruct DY as (rs' & A1 & A2 & A3 & A4 & A5 & A6). exists rs'. splits; auto.
        intros k K1 K2 K2' K3. apply A5; auto.
        destruct resreg; cbn; [exact K2|discriminate].
      + destruct (loops st) as [|li ls]; [exact DY|].
        destruct DY as (rs' & A1 & A2 & A3 & A4 & A5 & A6). exists rs'. splits; auto.
        intros k K1 K2 K2' K3. apply A5; auto.
        destruct resreg; cbn; [exact K2|discriminate].
    - (* no else: the result is null *)
      destruct resreg as [reg|] eqn:RR; cbn [emit_opt] in H.
      + unfold emit in H. inversion H; subst u st' c; clear H. split.
        * cbn [code_size size ip set_ip tcount]. splits; auto; try lia.
          -- apply ext_set_ip.
          -- apply wfst_set_ip. assumption.
        * intros n s rs D prog brk _ _ IV RD RO LO B CA. cbn [eval_elifs]. unfold post_arms.
          destruct (RO reg RR) as (A1 & A2 & A3).
          destruct (set_ok rs reg VNull A1) as (rs' & SET).
          apply cares_one in CA; [|reflexivity].
          exists rs'. splits.
          -- cbn [ip set_ip]. apply star_one. rewrite (istep_at _ _ _ _ rs CA). cbn [exec]. unfold put. rewrite SET. reflexivity.
          -- eapply set_length; eauto.
          -- apply inv_set_ip.
             assert (IV' : inv st (dirty (set_ip st (ip st + size (ISetNull reg))) ectx D) s rs).
             { eapply inv_weaken; eauto. intros. apply dirty_mono. assumption. }
             eapply inv_set; eauto. destruct A2 as [A2|[A2 _]]; [right|left; assumption].
             split; [assumption|]. intros x Sx. unfold dirty. rewrite RR. cbn [fixed_or_none].
             rewrite slot_of_set_ip, Sx, N.eqb_refl. apply orb_true_r.
          -- intros reg0 RG. rewrite RR in RG. inversion RG; subst. eapply get_set_same; eauto.
          -- intros k K1 K2 _ K3. eapply get_set_other; eauto. intros ->. apply K2. symmetry. exact RR.
          -- intros. reflexivity.
      + unfold ret in H. inversion H; subst u st' c; clear H. split.
        * cbn [code_size]. splits; auto using ext_refl. lia.
        * intros n s rs D prog brk _ _ IV RD RO LO B CA. cbn [eval_elifs]. unfold post_arms.
          exists rs. splits; auto.
          -- constructor.
          -- eapply inv_weaken; eauto. intros. apply dirty_mono. assumption.
          -- intros reg RG. congruence.
  Qed.

  Lemma arms_cons : forall c t rest,
    Q pool c -> wf_expr c = true -> esc c = false -> Q pool t -> wf_expr t = true ->
    ArmsS rest -> ArmsS ((c, t) :: rest).
  Proof.
    intros c t rest Qc WFc NEc Qt WFt IHr hj st u st' code H W DR Dels HJ.
    apply arm_inv in H.
    destruct H as (co & st1 & cc & creg & st1p & cp & ot & st2 & ct & c_rest & HC & OC & HP & HT & HR & OFF1 & ->).
    cbn [drop_arms] in DR. apply orb_false_elim in DR as [DR Dr]. apply orb_false_elim in DR as [Dc Dt].
    destruct (Qc WFc RAny st co st1 cc HC W Dc) as ((I1 & E1 & W1 & SH1) & DYc).
    assert (SH1' : shape st RAny co st1 c).
    { unfold shapeQ in SH1. destruct (is_jump c) eqn:J; [apply is_jump_esc in J; congruence|exact SH1]. }
    set (st1a := set_ip st1 (ip st1 + 4)) in *.
    assert (W1a : wfst st1a) by (apply wfst_set_ip; assumption).
    apply pop_if_inv in HP; [|assumption]. destruct HP as (-> & I1p & L1p & T1p & U1p & E1p & W1p & C1p).
    assert (TC1p : tcount st1p = tcount st).
    { change (tcount st1a) with (tcount st1) in C1p.
      destruct SH1' as [(-> & C)|(x & l & -> & C & _)]; cbn [o_temp out_temp out_assigned] in C1p; lia. }
    assert (Dt' : dropped (is_none ectx) t = false) by (destruct resreg; exact Dt).
    destruct (Qt WFt ectx st1p ot st2 ct HT W1p Dt') as ((I2 & E2 & W2 & SH2) & DYt).
    assert (TC2 : tcount st2 = tcount st1p).
    { unfold shapeQ in SH2. destruct (is_jump t); [tauto|]. destruct resreg; cbn [fixed_or_none shape] in SH2; tauto. }
    set (st2j := if hj then set_ip st2 (ip st2 + 3) else st2) in *.
    assert (W2j : wfst st2j) by (unfold st2j; destruct hj; [apply wfst_set_ip|]; assumption).
    assert (E22j : ext st2 st2j) by (unfold st2j; destruct hj; [apply ext_set_ip|apply ext_refl]).
    assert (TC2j : tcount st2j = tcount st2 /\ tbase st2j = tbase st2 /\ tused st2j = tused st2 /\
                   ip st2j = ip st2 + (if hj then 3 else 0)).
    { unfold st2j. destruct hj; cbn; splits; auto; lia. }
    destruct TC2j as (TC2j & TB2j & TU2j & IP2j).
    assert (HJ' : true = false -> (exists ct0, rest = [ct0]) /\ els = None /\ resreg = None) by discriminate.
    destruct (IHr true st2j tt st' c_rest HR W2j Dr Dels HJ') as ((I3 & E3 & W3 & TC3) & DYr).
    assert (E11a : ext st1 st1a) by apply ext_set_ip.
    assert (E1p2 : ext st1 st1p) by (eapply ext_trans; eauto).
    assert (E01p : ext st st1p) by (eapply ext_trans; eauto).
    assert (E02 : ext st st2) by (eapply ext_trans; eauto).
    assert (E02j : ext st st2j) by (eapply ext_trans; eauto).
    assert (E2' : ext st2 st') by (eapply ext_trans; eauto).
    assert (E1p' : ext st1p st') by (eapply ext_trans; eauto).
    assert (E1' : ext st1 st') by (eapply ext_trans; eauto).
    assert (IP1a : ip st1a = ip st1 + 4) by reflexivity.
    (* without the jump there is nothing after the branch *)
    assert (NOJ : hj = false -> c_rest = [] /\ st' = st2 /\ resreg = None).
    { intros HF. destruct (HJ HF) as ((ct0 & EA) & EE & ER). inversion EA; subst rest.
      unfold st2j in HR. rewrite HF in HR. cbn [comp_arms] in HR. rewrite EE, ER in HR. cbn [emit_opt] in HR.
      unfold ret in HR. inversion HR. auto. }
    split.
    - splits; auto.
      + rewrite !code_size_app. cbn [code_size size]. rewrite !code_size_app. cbn [app code_size].
        destruct hj; cbn [code_size size]; lia.
      + lia.
    - intros n s rs D prog brk Ka Ke IV RD RO LO B CA. cbn [eval_elifs].
      cbn [any_arms] in Ka. apply orb_false_elim in Ka as [Ka Kr]. apply orb_false_elim in Ka as [Kc Kt].
      cbn [app] in CA. apply cares_app in CA as [CA1 CA]. apply cares_cons in CA as [CAJ CA]; [|reflexivity].
      apply cares_app in CA as [CAt CA3].
      assert (RDc : forall x, D x = true -> reads x c = false).
      { intros x Dx. destruct (RD x Dx) as (R1 & _). cbn in R1. apply orb_false_elim in R1 as [R1 _].
        apply orb_false_elim in R1. tauto. }
      assert (RDt : forall x, D x = true -> reads x t = false).
      { intros x Dx. destruct (RD x Dx) as (R1 & _). cbn in R1. apply orb_false_elim in R1 as [R1 _].
        apply orb_false_elim in R1. tauto. }
      assert (RDr : forall x, D x = true -> any_arms (reads x) rest = false /\ any_opt (reads x) els = false).
      { intros x Dx. destruct (RD x Dx) as (R1 & R2). cbn in R1. apply orb_false_elim in R1 as [_ R1]. auto. }
      assert (LOc : esc c = true -> loop_ok st rs D c) by (intros; congruence).
      assert (B1 : tbase st + tused st1 <= N.of_nat (length rs)) by (pose proof (ext_used _ _ E1'); lia).
      specialize (DYc n s rs D prog brk Kc IV RDc (dest_ok_any _ _ _ _) LOc B1 CA1).
      pose proof (sem_no_esc n c s NEc) as NJ.
      destruct (eval n s c) as [vc s1| | | |]; try contradiction; [|exact DYc|exact Logic.I].
      destruct DYc as (rs1 & S1 & LN1 & IV1 & R1 & FR1 & SF1 & _).
      apply dirty_any in IV1. specialize (R1 _ OC).
      assert (CAJ' : code_at prog (ip st1) [IJumpIfFalse creg (ip st2j - (ip st1 + 4))]) by (rewrite I1; exact CAJ).
      pose proof (istep_at pool _ _ _ rs1 CAJ') as STJ. cbn [exec size] in STJ.
      unfold with_reg in STJ. rewrite R1 in STJ.
      assert (FRk : forall k, k < tbase st + tcount st ->
                 (forall x, asg_arms ((c, t) :: rest) els x = true -> slot_of st' x <> Some k) ->
                 get rs1 k = get rs k).
      { intros k K1 K3. apply FR1; auto. cbn. discriminate.
        intros x AX. eapply slot_ext_neq; [exact E1'|]. apply K3. unfold asg_arms. cbn. rewrite AX. reflexivity. }
      assert (SFk : forall x, asg_arms ((c, t) :: rest) els x = false -> s1 x = s x).
      { intros x AX. apply SF1. unfold asg_arms in AX. cbn in AX.
        apply orb_false_elim in AX as [AX _]. apply orb_false_elim in AX as [AX _].
        apply orb_false_elim in AX. tauto. }
      pose proof (ext_tbase _ _ E01p) as TB1p. pose proof (ext_tbase _ _ E02j) as TB2j'.
      destruct (truthy vc) eqn:TV.
      + (* the branch *)
        assert (S1p : star pool prog (ip st) rs (ip st1p) rs1).
        { eapply star_trans; [exact S1|]. apply star_one. rewrite STJ. f_equal. rewrite I1p, IP1a. reflexivity. }
        assert (IV1p : inv st1p D s1 rs1) by (eapply inv_ext; eauto).
        assert (DOt : dest_ok st1p ectx rs1 D t).
        { intros d Ed. destruct resreg as [reg|] eqn:RR; cbn in Ed; inversion Ed; subst d.
          destruct (RO reg eq_refl) as (A1 & A2 & A3). pose proof (ext_len _ _ E01p). splits.
          - lia.
          - destruct A2 as [A2|A2]; [left; lia|right; lia].
          - intros x Sx. assert (Sx0 : slot_of st x = Some reg).
            { destruct A2 as [A2|A2]; [eapply slot_of_old; eauto|].
              destruct (slot_of_id _ _ _ Sx) as (L1 & _). pose proof (wf_len _ W1p). lia. }
            destruct (A3 x Sx0) as (F & _). cbn in F. apply andb_prop in F. tauto. }
        assert (LOt : esc t = true -> loop_ok st1p rs1 D t).
        { intros E0. rewrite loop_ok_P. eapply (loop_okP_ext st st1p rs rs1); eauto; try lia.
          - intros x AX. unfold asg_arms. cbn. rewrite AX. rewrite !orb_true_r. reflexivity.
          - apply LO. cbn. rewrite E0. rewrite !orb_true_r. reflexivity. }
        assert (B2 : tbase st1p + tused st2 <= N.of_nat (length rs1)).
        { rewrite LN1, TB1p. pose proof (ext_used _ _ E2'). lia. }
        assert (CAt' : cares prog brk (ip st1p) ct).
        { rewrite I1p, IP1a, I1. cbn [app size] in CAt. exact CAt. }
        specialize (DYt n s1 rs1 D prog brk Kt IV1p RDt DOt LOt B2 CAt').
        unfold post_arms. rewrite <- (ext_loops _ _ E01p).
        assert (KD : forall k, Some k <> resreg -> Some k <> dest ectx).
        { intros k K2. destruct resreg; cbn; [exact K2|discriminate]. }
        assert (AT : forall x, assigns x t = true -> asg_arms ((c, t) :: rest) els x = true).
        { intros x AX. unfold asg_arms. cbn. rewrite AX. rewrite !orb_true_r. reflexivity. }
        assert (AF : forall x, asg_arms ((c, t) :: rest) els x = false -> assigns x t = false).
        { intros x AX. destruct (assigns x t) eqn:A; [|reflexivity]. rewrite (AT _ A) in AX. discriminate. }
        unfold frame, frameL in DYt.
        destruct (eval n s1 t) as [v s2|v s2|s2|ce|].
        * destruct DYt as (rs2 & A1 & A2 & A3 & A4 & A5 & A6 & A7).
          assert (END : star pool prog (ip st2) rs2 (ip st') rs2).
          { destruct hj eqn:HJE.
            - cbn [app] in CA3. apply cares_cons in CA3 as [CAJ2 _]; [|reflexivity].
              assert (CAJ2' : code_at prog (ip st2) [IJump (ip st' - ip st2j)]).
              { rewrite I2, I1p, IP1a, I1. cbn [app size] in CAJ2. rewrite code_size_app in CAJ2.
                cbn [code_size] in CAJ2. rewrite N.add_0_l in CAJ2. rewrite <- !N.add_assoc in *. exact CAJ2. }
              apply star_one. rewrite (istep_at _ _ _ _ rs2 CAJ2'). cbn [exec size]. f_equal. lia.
            - destruct (NOJ eq_refl) as (_ & -> & _). constructor. }
          exists rs2. splits; auto.
          -- eapply star_trans; [exact S1p|]. eapply star_trans; [exact A1|exact END].
          -- lia.
          -- eapply inv_weaken; [eapply inv_ext; [exact A3|exact E2'|exact W3]|]. intros x. apply dirty_ext. exact E2'.
          -- intros reg RG. apply A7. rewrite RG. reflexivity.
          -- intros k K1 K2 _ K3. rewrite A5; auto.
             ++ rewrite TB1p, TC1p. exact K1.
             ++ intros x AX. eapply slot_ext_neq; [exact E2'|]. apply K3. auto.
          -- intros x AX. rewrite (A6 _ (AF _ AX)). auto.
        * destruct (loops st1p) as [|li ls]; [exact DYt|].
          destruct DYt as (rs2 & A1 & A2 & A3 & A4 & A5 & A6).
          exists rs2. splits; auto.
          -- eapply star_trans; [exact S1p|exact A1].
          -- lia.
          -- eapply inv_weaken; [eapply inv_ext; [exact A3|exact E2'|exact W3]|]. intros x. apply dirty_ext. exact E2'.
          -- intros k K1 K2 K2' K3. rewrite A5; auto.
             ++ rewrite TB1p, TC1p. exact K1.
             ++ intros x AX. eapply slot_ext_neq; [exact E2'|]. apply K3. auto.
          -- intros x AX. rewrite (A6 _ (AF _ AX)). auto.
        * destruct (loops st1p) as [|li ls]; [exact DYt|].
          destruct DYt as (rs2 & A1 & A2 & A3 & A4 & A5 & A6).
          exists rs2. splits; auto.
          -- eapply star_trans; [exact S1p|exact A1].
          -- lia.
          -- eapply inv_weaken; [eapply inv_ext; [exact A3|exact E2'|exact W3]|]. intros x. apply dirty_ext. exact E2'.
          -- intros k K1 K2 K2' K3. rewrite A5; auto.
             ++ rewrite TB1p, TC1p. exact K1.
             ++ intros x AX. eapply slot_ext_neq; [exact E2'|]. apply K3. auto.
          -- intros x AX. rewrite (A6 _ (AF _ AX)). auto.
        * eapply star_stops; [exact S1p|exact DYt].
        * exact Logic.I.
      + (* the condition fails: on to the remaining arms *)
        assert (S2j : star pool prog (ip st) rs (ip st2j) rs1).
        { eapply star_trans; [exact S1|]. apply star_one. rewrite STJ. f_equal.
          pose proof (ext_len _ _ E2). rewrite IP2j, I2, I1p, IP1a. lia. }
        assert (IV2j : inv st2j D s1 rs1).
        { eapply inv_ext; [exact IV1| |exact W2j]. eapply ext_trans; [exact E1p2|]. eapply ext_trans; eauto. }
        assert (ROj : res_ok st2j rs1 rest).
        { intros reg RG. destruct (RO reg RG) as (A1 & A2 & A3). pose proof (ext_len _ _ E02j). splits.
          - lia.
          - destruct A2 as [A2|A2]; [left; lia|right; lia].
          - intros x Sx. assert (Sx0 : slot_of st x = Some reg).
            { destruct A2 as [A2|A2]; [eapply slot_of_old; eauto|].
              destruct (slot_of_id _ _ _ Sx) as (L1 & _). pose proof (wf_len _ W2j). lia. }
            destruct (A3 x Sx0) as (F & F2). cbn in F. apply andb_prop in F. tauto. }
        assert (ASr : forall x, asg_arms rest els x = true -> asg_arms ((c, t) :: rest) els x = true).
        { intros x AX. unfold asg_arms in *. cbn. apply orb_true_iff in AX as [AX|AX]; rewrite AX; rewrite ?orb_true_r; reflexivity. }
        assert (LOj : any_arms esc rest || any_opt esc els = true -> loop_okP st2j rs1 D (asg_arms rest els)).
        { intros E0. eapply (loop_okP_ext st st2j rs rs1); eauto; try lia.
          apply LO. cbn. apply orb_true_iff in E0 as [E0|E0]; rewrite E0; rewrite ?orb_true_r; reflexivity. }
        assert (B3 : tbase st2j + tused st' <= N.of_nat (length rs1)) by (rewrite LN1, TB2j'; exact B).
        assert (CAr : cares prog brk (ip st2j) c_rest).
        { destruct hj eqn:HJE.
          - cbn [app] in CA3. apply cares_cons in CA3 as [_ CAr]; [|reflexivity].
            match type of CAr with cares _ _ ?pc _ => assert (EQ : pc = ip st2j) end.
            { rewrite IP2j, I2, I1p, IP1a, I1. cbn [app size]. rewrite code_size_app. cbn [code_size size]. lia. }
            rewrite EQ in CAr. exact CAr.
          - destruct (NOJ eq_refl) as (-> & _ & _). exists []. split; [reflexivity|].
            destruct CAt as (x & _ & CAx). eapply code_at_nil. exact CAx. }
        specialize (DYr n s1 rs1 D prog brk Kr Ke IV2j RDr ROj LOj B3 CAr).
        eapply (post_arms_trans st st2j st'); eauto.
        * rewrite (ext_loops _ _ E02j). reflexivity.
        * lia.
  Qed.
End SimI.
