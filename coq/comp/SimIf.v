(* Simulation case: if / else if / else. *)
From Coq Require Import ZArith NArith List Bool Lia.
From KV.comp Require Import Ast0 Sem0 Instr0 Comp0 VM0 Known0 InstrLemmas CompLemmas SemLemmas SimBase SimExpr SimQ.
Import ListNotations.
Open Scope N_scope.
Ltac Zify.zify_post_hook ::= Z.to_euclidean_division_equations.
Ltac norm_code H := repeat rewrite ?app_nil_l, ?app_nil_r in H; repeat rewrite <- app_assoc in H.

Definition asg_arms (arms : list (expr * expr)) (els : option expr) (x : ident) : bool :=
  any_arms (assigns x) arms || any_opt (assigns x) els.

Definition loop_okP (st : cst) (rs : regfile) (D : ident -> bool) (asg : ident -> bool) : Prop :=
  match loops st with
  | [] => True
  | li :: _ =>
    l_start li <= ip st /\
    forall lr, l_result li = Some lr ->
      lr < N.of_nat (length rs) /\
      (lr < nlocals st \/ (tbase st <= lr /\ lr < tbase st + tcount st)) /\
      forall x, slot_of st x = Some lr -> D x = true /\ asg x = false
  end.

Lemma loop_okP_ext : forall st st1 (rs rs1 : regfile) D (asg asg1 : ident -> bool),
  ext st st1 -> wfst st1 -> tcount st <= tcount st1 -> length rs1 = length rs -> ip st <= ip st1 ->
  (forall x, asg1 x = true -> asg x = true) ->
  loop_okP st rs D asg -> loop_okP st1 rs1 D asg1.
Proof.
  intros st st1 rs rs1 D asg asg1 E W1 TC LN IP AS LO. unfold loop_okP in *.
  rewrite (ext_loops _ _ E). destruct (loops st) as [|li ls]; [exact Logic.I|].
  destruct LO as (LS & LO). split; [lia|].
  intros lr L. destruct (LO lr L) as (A1 & A2 & A3).
  pose proof (ext_tbase _ _ E). pose proof (ext_len _ _ E). splits.
  - lia.
  - destruct A2 as [A2|A2]; [left; lia|right; lia].
  - intros x Sx. assert (Sx0 : slot_of st x = Some lr).
    { destruct A2 as [A2|A2]; [eapply slot_of_old; eauto|].
      destruct (slot_of_id _ _ _ Sx) as (L1 & _). pose proof (wf_len _ W1). lia. }
    destruct (A3 x Sx0) as (B1 & B2). split; [assumption|].
    destruct (asg1 x) eqn:AX; [|reflexivity]. rewrite (AS _ AX) in B2. discriminate.
Qed.

Lemma loop_ok_P : forall st rs D e, loop_ok st rs D e = loop_okP st rs D (fun x => assigns x e).
Proof. reflexivity. Qed.

Lemma arm_inv : forall cmp ectx resreg els hj c t rest st u st' code,
  comp_arms cmp ectx resreg els hj ((c, t) :: rest) st = OK (u, st', code) ->
  exists co st1 cc creg st1p cp ot st2 ct c_rest,
    cmp c RAny st = OK (co, st1, cc) /\ o_reg co = Some creg /\
    pop_if (o_temp co) (set_ip st1 (ip st1 + 4)) = OK (tt, st1p, cp) /\
    cmp t ectx st1p = OK (ot, st2, ct) /\
    comp_arms cmp ectx resreg els true rest (if hj then set_ip st2 (ip st2 + 3) else st2)
      = OK (tt, st', c_rest) /\
    ip (if hj then set_ip st2 (ip st2 + 3) else st2) - (ip st1 + 4) <= 65535 /\
    code = cc ++ IJumpIfFalse creg (ip (if hj then set_ip st2 (ip st2 + 3) else st2) - (ip st1 + 4))
              :: (cp ++ ct) ++
              (if hj then [IJump (ip st' - ip (if hj then set_ip st2 (ip st2 + 3) else st2))] else []) ++ c_rest.
Proof.
  intros cmp ectx resreg els hj c t rest st u st' code H. cbn [comp_arms] in H.
  apply bind_inv in H. destruct H as (co & st1 & cc & c2 & HC & H & ->).
  apply bind_inv in H. destruct H as (creg & st1' & cx & c3 & HU & H & ->).
  unfold unwrap in HU. destruct (o_reg co) as [cr|] eqn:OC; [|discriminate].
  unfold ret in HU. inversion HU; subst cr st1' cx; clear HU.
  apply bind_inv in H. destruct H as (u1 & st1a & cx & c4 & HV & H & ->).
  unfold advance in HV. inversion HV; subst u1 st1a cx; clear HV.
  apply bind_inv in H. destruct H as (ip1 & stx & cx & c5 & HV & H & ->).
  unfold get_ip in HV. inversion HV; subst ip1 stx cx; clear HV.
  apply bind_inv in H. destruct H as (pr & st2 & cx & c6 & HT & H & ->).
  destruct pr as (ot & c_then). apply capture_inv in HT. destruct HT as (HT & ->).
  apply bind_inv in HT. destruct HT as (u2 & st1p & cp & ct & HP & HT & ->). destruct u2.
  apply bind_inv in H. destruct H as (u3 & st2j & cx & c7 & HJ & H & ->).
  assert (EJ : st2j = (if hj then set_ip st2 (ip st2 + 3) else st2) /\ cx = []).
  { destruct hj; [unfold advance in HJ|unfold ret in HJ]; inversion HJ; auto. }
  destruct EJ as (-> & ->). clear HJ.
  apply bind_inv in H. destruct H as (ip2 & stx & cx & c8 & HV & H & ->).
  unfold get_ip in HV. inversion HV; subst ip2 stx cx; clear HV.
  apply bind_inv in H. destruct H as (off1 & stx & cx & c9 & HV & H & ->).
  apply check_u16_inv in HV. destruct HV as (-> & -> & -> & OFF1).
  apply bind_inv in H. destruct H as (pr & st3 & cx & c10 & HR & H & ->).
  destruct pr as (ur & c_rest). apply capture_inv in HR. destruct HR as (HR & ->). destruct ur.
  apply bind_inv in H. destruct H as (ip3 & stx & cx & c11 & HV & H & ->).
  unfold get_ip in HV. inversion HV; subst ip3 stx cx; clear HV.
  apply bind_inv in H. destruct H as (off2 & stx & cx & c12 & HV & H & ->).
  assert (E2 : stx = st3 /\ cx = [] /\ (hj = true -> off2 = ip st3 - ip (if hj then set_ip st2 (ip st2 + 3) else st2))).
  { destruct hj.
    - apply check_u16_inv in HV. destruct HV as (-> & -> & -> & _). auto.
    - unfold ret in HV. inversion HV. splits; auto. discriminate. }
  destruct E2 as (-> & -> & O2). clear HV.
  unfold emit_raw in H. inversion H; subst; clear H.
  cbn [ip set_ip] in *.
  exists co, st1, cc, creg, st1p, cp, ot, st2, ct, c_rest. splits; auto.
  cbn [app]. destruct hj; [|reflexivity]. rewrite (O2 eq_refl). reflexivity.
Qed.

Section SimI.
  Variable pool : list pentry.
  Variable resreg : option N.
  Variable els : option expr.

  Local Notation ectx := (fixed_or_none resreg).
  Local Notation dmode := (match resreg with None => true | Some _ => false end).

  Definition post_arms (F st st' : cst) (rs : regfile) (D : ident -> bool) (s : env)
             (prog : code) (brk : N) (asg : ident -> bool) (o : outcome) : Prop :=
    let fr (li : option loopinfo) (rs' : regfile) :=
        forall k, k < tbase st + tcount st -> Some k <> resreg ->
          (match li with Some l => Some k <> l_result l | None => True end) ->
          (forall x, asg x = true -> slot_of st' x <> Some k) -> get rs' k = get rs k in
    match o with
    | ONorm v s' =>
      exists rs', star pool prog (ip st) rs (ip st') rs' /\ length rs' = length rs /\
                  inv F (dirty F ectx D) s' rs' /\
                  (forall reg, resreg = Some reg -> get rs' reg = Some v) /\
                  fr None rs' /\ (forall x, asg x = false -> s' x = s x)
    | OBrk v s' =>
      match loops st with
      | [] => False
      | li :: _ =>
        exists rs', star pool prog (ip st) rs brk rs' /\ length rs' = length rs /\
                    inv F (dirty F ectx D) s' rs' /\
                    (forall lr, l_result li = Some lr -> get rs' lr = Some v) /\
                    fr (Some li) rs' /\ (forall x, asg x = false -> s' x = s x)
      end
    | OCont s' =>
      match loops st with
      | [] => False
      | li :: _ =>
        exists rs', star pool prog (ip st) rs (l_start li) rs' /\ length rs' = length rs /\
                    inv F (dirty F ectx D) s' rs' /\
                    (forall lr, l_result li = Some lr -> get rs' lr = Some VNull) /\
                    fr (Some li) rs' /\ (forall x, asg x = false -> s' x = s x)
      end
    | OErr ce => stops pool prog (ip st) rs (VFail ce)
    | OFuel => True
    end.

  Definition res_ok (st : cst) (rs : regfile) (arms : list (expr * expr)) : Prop :=
    forall reg, resreg = Some reg ->
      reg < N.of_nat (length rs) /\
      (reg < nlocals st \/ (tbase st <= reg /\ reg < tbase st + tcount st)) /\
      forall x, slot_of st x = Some reg ->
        all_branches (fixed_ok x) arms = true /\ all_opt (fixed_ok x) els = true.

  Definition ArmsS (arms : list (expr * expr)) : Prop :=
    forall hj st u st' c,
      comp_arms (comp pool) ectx resreg els hj arms st = OK (u, st', c) -> wfst st ->
      drop_arms dropped dmode arms = false ->
      match els with Some a => dropped dmode a = false | None => True end ->
      (hj = false -> (exists ct, arms = [ct]) /\ els = None /\ resreg = None) ->
      (ip st' = ip st + code_size c /\ ext st st' /\ wfst st' /\ tcount st' = tcount st) /\
      forall n s rs D prog brk F,
        ext st' F -> wfst F ->
        any_arms known_expr arms = false -> any_opt known_expr els = false ->
        inv F D s rs ->
        (forall x, D x = true -> any_arms (reads x) arms = false /\ any_opt (reads x) els = false) ->
        res_ok st rs arms ->
        (any_arms esc arms || any_opt esc els = true -> loop_okP st rs D (asg_arms arms els)) ->
        tbase st + tused st' <= N.of_nat (length rs) -> cares prog brk (ip st) c ->
        post_arms F st st' rs D s prog brk (asg_arms arms els) (eval_elifs (eval n) s arms els).

  Lemma dirty_ext : forall st2 st' r D x, ext st2 st' -> dirty st2 r D x = true -> dirty st' r D x = true.
  Proof.
    intros st2 st' r D x E H. unfold dirty in *. apply orb_true_iff in H as [H|H]; [rewrite H; reflexivity|].
    destruct r; try discriminate. destruct (slot_of st2 x) as [l|] eqn:S; [|discriminate].
    rewrite (ext_slot _ _ E _ _ S), H. apply orb_true_r.
  Qed.

  (* a later part of the arms seen from the start of the arms *)
  Lemma post_arms_trans : forall F st stj st' rs rs1 D s s1 prog brk (asg asg2 : ident -> bool) o,
    star pool prog (ip st) rs (ip stj) rs1 -> length rs1 = length rs ->
    loops stj = loops st -> tbase stj = tbase st -> tcount stj = tcount st -> ext stj st' ->
    (forall x, asg2 x = true -> asg x = true) ->
    (forall k, k < tbase st + tcount st -> (forall x, asg x = true -> slot_of st' x <> Some k) ->
               get rs1 k = get rs k) ->
    (forall x, asg x = false -> s1 x = s x) ->
    post_arms F stj st' rs1 D s1 prog brk asg2 o -> post_arms F st st' rs D s prog brk asg o.
  Proof.
    intros F st stj st' rs rs1 D s s1 prog brk asg asg2 o ST LN LP TB TC E AS FR SF PO.
    assert (AF : forall x, asg x = false -> asg2 x = false).
    { intros x AX. destruct (asg2 x) eqn:A2; [|reflexivity]. rewrite (AS _ A2) in AX. discriminate. }
    unfold post_arms in *. rewrite LP, TB, TC in PO. destruct o as [v s'|v s'|s'|ce|]; auto.
    - destruct PO as (rs' & A1 & A2 & A3 & A4 & A5 & A6). exists rs'. splits; auto.
      + eapply star_trans; eauto.
      + lia.
      + intros k K1 K2 K2' K3. rewrite A5; auto.
      + intros x AX. rewrite (A6 _ (AF _ AX)). auto.
    - destruct (loops st) as [|li ls]; [exact PO|].
      destruct PO as (rs' & A1 & A2 & A3 & A4 & A5 & A6). exists rs'. splits; auto.
      + eapply star_trans; eauto.
      + lia.
      + intros k K1 K2 K2' K3. rewrite A5; auto.
      + intros x AX. rewrite (A6 _ (AF _ AX)). auto.
    - destruct (loops st) as [|li ls]; [exact PO|].
      destruct PO as (rs' & A1 & A2 & A3 & A4 & A5 & A6). exists rs'. splits; auto.
      + eapply star_trans; eauto.
      + lia.
      + intros k K1 K2 K2' K3. rewrite A5; auto.
      + intros x AX. rewrite (A6 _ (AF _ AX)). auto.
    - eapply star_stops; eauto.
  Qed.

  Hypothesis Qels : forall a, els = Some a -> Q pool a /\ wf_expr a = true.

  (* the else branch / the SetNull of a missing else *)
  Lemma arms_nil : ArmsS [].
  Proof.
    intros hj st u st' c H W _ Dels _. cbn [comp_arms] in H.
    destruct els as [a|] eqn:EL.
    - destruct (Qels a eq_refl) as (QA & WFa).
      apply bind_inv in H. destruct H as (oa & st1 & ca & c2 & HA & H & ->).
      unfold ret in H. inversion H; subst u st1 c2; clear H.
      destruct (QA WFa ectx st oa st' ca HA W) as ((I & E & W' & SH) & DY).
      { destruct resreg; exact Dels. }
      assert (TC : tcount st' = tcount st).
      { unfold shapeQ in SH. destruct (is_jump a); [tauto|]. 
        destruct resreg; cbn [fixed_or_none shape] in SH; tauto. }
      split; [rewrite app_nil_r; splits; auto|].
      intros n s rs D prog brk F EF WFF _ K IV RD RO LO B CA. cbn [any_opt] in K. rewrite app_nil_r in CA.
      cbn [eval_elifs].
      assert (RD' : forall x, D x = true -> reads x a = false).
      { intros x Dx. apply RD in Dx. cbn in Dx. tauto. }
      assert (DO : dest_ok st ectx rs D a).
      { intros d Ed. destruct resreg as [reg|] eqn:RR; cbn in Ed; inversion Ed; subst d.
        destruct (RO reg RR) as (A1 & A2 & A3). splits; auto. intros x Sx.
        destruct (A3 x Sx) as (_ & FX). rewrite EL in FX. exact FX. }
      assert (LO' : esc a = true -> loop_ok st rs D a).
      { intros E0. cbn [any_arms any_opt orb] in LO. specialize (LO E0). rewrite loop_ok_P.
        eapply loop_okP_ext; eauto using ext_refl; try lia. intros x AX. unfold asg_arms. cbn. exact AX. }
      specialize (DY n s rs D prog brk F EF WFF K IV RD' DO LO' B CA).
      assert (AS : forall x, asg_arms [] (Some a) x = assigns x a) by reflexivity.
      unfold post_arms. unfold frame, frameL in DY.
      destruct (eval n s a) as [v s'|v s'|s'|ce|]; auto.
      + destruct DY as (rs' & A1 & A2 & A3 & A4 & A5 & A6 & A7). exists rs'. splits; auto.
        * intros reg RG. apply A7. rewrite RG. reflexivity.
        * intros k K1 K2 _ K3. apply A5; auto.
          destruct resreg; cbn; [exact K2|discriminate].
      + destruct (loops st) as [|li ls]; [exact DY|].
        destruct DY as (rs' & A1 & A2 & A3 & A4 & A5 & A6). exists rs'. splits; auto.
        intros k K1 K2 K2' K3. apply A5; auto.
        destruct resreg; cbn; [exact K2|discriminate].
      + destruct (loops st) as [|li ls]; [exact DY|].
        destruct DY as (rs' & A1 & A2 & A3 & A4 & A5 & A6). exists rs'. splits; auto.
        intros k K1 K2 K2' K3. apply A5; auto.
        destruct resreg; cbn; [exact K2|discriminate].
    - (* no else: the result is null *)
      destruct resreg as [reg|] eqn:RR; cbn [emit_opt] in H.
      + unfold emit in H. inversion H; subst u st' c; clear H. split.
        * cbn [code_size size ip set_ip tcount]. splits; auto; try lia.
          -- apply ext_set_ip.
          -- apply wfst_set_ip. assumption.
        * intros n s rs D prog brk F EF WFF _ _ IV RD RO LO B CA. cbn [eval_elifs]. unfold post_arms.
          destruct (RO reg RR) as (A1 & A2 & A3).
          destruct (set_ok rs reg VNull A1) as (rs' & SET).
          apply cares_one in CA; [|reflexivity].
          exists rs'. splits.
          -- cbn [ip set_ip]. apply star_one. rewrite (istep_at _ _ _ _ rs CA). cbn [exec]. unfold put. rewrite SET. reflexivity.
          -- eapply set_length; eauto.
          -- assert (IV' : inv F (dirty F ectx D) s rs).
             { eapply inv_weaken; [exact IV|]. intros. apply dirty_mono. assumption. }
             eapply (inv_setF st); eauto.
             { eapply ext_trans; [apply ext_set_ip|exact EF]. }
             destruct A2 as [A2|[A2 _]]; [right|left; assumption].
             split; [assumption|]. intros x Sx. rewrite RR. cbn [fixed_or_none]. apply dirty_self. assumption.
          -- intros reg0 RG. rewrite RR in RG. inversion RG; subst. eapply get_set_same; eauto.
          -- intros k K1 K2 _ K3. eapply get_set_other; eauto. intros ->. apply K2. symmetry. exact RR.
          -- intros. reflexivity.
      + unfold ret in H. inversion H; subst u st' c; clear H. split.
        * cbn [code_size]. splits; auto using ext_refl. lia.
        * intros n s rs D prog brk F EF WFF _ _ IV RD RO LO B CA. cbn [eval_elifs]. unfold post_arms.
          exists rs. splits; auto.
          -- constructor.
          -- eapply inv_weaken; [exact IV|]. intros. apply dirty_mono. assumption.
          -- intros reg RG. congruence.
  Qed.

  Lemma arms_cons : forall c t rest,
    Q pool c -> wf_expr c = true -> esc c = false -> Q pool t -> wf_expr t = true ->
    ArmsS rest -> ArmsS ((c, t) :: rest).
  Proof.
    intros c t rest Qc WFc NEc Qt WFt IHr hj st u st' code H W DR Dels HJ.
    apply arm_inv in H.
    destruct H as (co & st1 & cc & creg & st1p & cp & ot & st2 & ct & c_rest & HC & OC & HP & HT & HR & OFF1 & ->).
    cbn [drop_arms] in DR. apply orb_false_elim in DR as [DR Dr]. apply orb_false_elim in DR as [Dc Dt].
    destruct (Qc WFc RAny st co st1 cc HC W Dc) as ((I1 & E1 & W1 & SH1) & DYc).
    assert (SH1' : shape st RAny co st1 c).
    { unfold shapeQ in SH1. destruct (is_jump c) eqn:J; [apply is_jump_esc in J; congruence|exact SH1]. }
    set (st1a := set_ip st1 (ip st1 + 4)) in *.
    assert (W1a : wfst st1a) by (apply wfst_set_ip; assumption).
    apply pop_if_inv in HP; [|assumption]. destruct HP as (-> & I1p & L1p & T1p & U1p & E1p & W1p & C1p).
    assert (TC1p : tcount st1p = tcount st).
    { change (tcount st1a) with (tcount st1) in C1p.
      destruct SH1' as [(-> & C)|(x & l & -> & C & _)]; cbn [o_temp out_temp out_assigned] in C1p; lia. }
    assert (Dt' : dropped (is_none ectx) t = false) by (destruct resreg; exact Dt).
    destruct (Qt WFt ectx st1p ot st2 ct HT W1p Dt') as ((I2 & E2 & W2 & SH2) & DYt).
    assert (TC2 : tcount st2 = tcount st1p).
    { unfold shapeQ in SH2. destruct (is_jump t); [tauto|]. destruct resreg; cbn [fixed_or_none shape] in SH2; tauto. }
    set (st2j := if hj then set_ip st2 (ip st2 + 3) else st2) in *.
    assert (W2j : wfst st2j) by (unfold st2j; destruct hj; [apply wfst_set_ip|]; assumption).
    assert (E22j : ext st2 st2j) by (unfold st2j; destruct hj; [apply ext_set_ip|apply ext_refl]).
    assert (TC2j : tcount st2j = tcount st2 /\ tbase st2j = tbase st2 /\ tused st2j = tused st2 /\
                   ip st2j = ip st2 + (if hj then 3 else 0)).
    { unfold st2j. destruct hj; cbn; splits; auto; lia. }
    destruct TC2j as (TC2j & TB2j & TU2j & IP2j).
    assert (HJ' : true = false -> (exists ct0, rest = [ct0]) /\ els = None /\ resreg = None) by discriminate.
    destruct (IHr true st2j tt st' c_rest HR W2j Dr Dels HJ') as ((I3 & E3 & W3 & TC3) & DYr).
    assert (E11a : ext st1 st1a) by apply ext_set_ip.
    assert (E1p2 : ext st1 st1p) by (eapply ext_trans; eauto).
    assert (E01p : ext st st1p) by (eapply ext_trans; eauto).
    assert (E02 : ext st st2) by (eapply ext_trans; eauto).
    assert (E02j : ext st st2j) by (eapply ext_trans; eauto).
    assert (E2' : ext st2 st') by (eapply ext_trans; eauto).
    assert (E1p' : ext st1p st') by (eapply ext_trans; eauto).
    assert (E1' : ext st1 st') by (eapply ext_trans; eauto).
    assert (E0' : ext st st') by (eapply ext_trans; eauto).
    assert (IP1a : ip st1a = ip st1 + 4) by reflexivity.
    (* without the jump there is nothing after the branch *)
    assert (NOJ : hj = false -> c_rest = [] /\ st' = st2 /\ resreg = None).
    { intros HF. destruct (HJ HF) as ((ct0 & EA) & EE & ER). inversion EA; subst rest.
      unfold st2j in HR. rewrite HF in HR. cbn [comp_arms] in HR. rewrite EE, ER in HR. cbn [emit_opt] in HR.
      unfold ret in HR. inversion HR. auto. }
    split.
    - splits; auto.
      + rewrite !code_size_app. cbn [code_size size]. rewrite !code_size_app. cbn [app code_size].
        destruct hj; cbn [code_size size]; lia.
      + lia.
    - intros n s rs D prog brk F EF WFF Ka Ke IV RD RO LO B CA. cbn [eval_elifs].
      assert (EF1 : ext st1 F) by (eapply ext_trans; eauto).
      assert (EF2 : ext st2 F) by (eapply ext_trans; eauto).
      cbn [any_arms] in Ka. apply orb_false_elim in Ka as [Ka Kr]. apply orb_false_elim in Ka as [Kc Kt].
      cbn [app] in CA. apply cares_app in CA as [CA1 CA]. apply cares_cons in CA as [CAJ CA]; [|reflexivity].
      apply cares_app in CA as [CAt CA3].
      assert (RDc : forall x, D x = true -> reads x c = false).
      { intros x Dx. destruct (RD x Dx) as (R1 & _). cbn in R1. apply orb_false_elim in R1 as [R1 _].
        apply orb_false_elim in R1. tauto. }
      assert (RDt : forall x, D x = true -> reads x t = false).
      { intros x Dx. destruct (RD x Dx) as (R1 & _). cbn in R1. apply orb_false_elim in R1 as [R1 _].
        apply orb_false_elim in R1. tauto. }
      assert (RDr : forall x, D x = true -> any_arms (reads x) rest = false /\ any_opt (reads x) els = false).
      { intros x Dx. destruct (RD x Dx) as (R1 & R2). cbn in R1. apply orb_false_elim in R1 as [_ R1]. auto. }
      assert (LOc : esc c = true -> loop_ok st rs D c) by (intros; congruence).
      assert (B1 : tbase st + tused st1 <= N.of_nat (length rs)) by (pose proof (ext_used _ _ E1'); lia).
      specialize (DYc n s rs D prog brk F EF1 WFF Kc IV RDc (dest_ok_any _ _ _ _) LOc B1 CA1).
      pose proof (sem_no_esc n c s NEc) as NJ.
      destruct (eval n s c) as [vc s1| | | |]; try contradiction; [|exact DYc|exact Logic.I].
      destruct DYc as (rs1 & S1 & LN1 & IV1 & R1 & FR1 & SF1 & _).
      apply dirty_any in IV1. specialize (R1 _ OC).
      assert (EQ1 : ip st + code_size cc = ip st1) by (rewrite I1; reflexivity).
      assert (CAJ' : code_at prog (ip st1) [IJumpIfFalse creg (ip st2j - (ip st1 + 4))]) by (rewrite EQ1 in CAJ; exact CAJ).
      pose proof (istep_at pool _ _ _ rs1 CAJ') as STJ. cbn [exec size] in STJ.
      unfold with_reg in STJ. rewrite R1 in STJ.
      assert (FRk : forall k, k < tbase st + tcount st ->
                 (forall x, asg_arms ((c, t) :: rest) els x = true -> slot_of st' x <> Some k) ->
                 get rs1 k = get rs k).
      { intros k K1 K3. apply FR1; auto. cbn. discriminate.
        intros x AX. eapply slot_ext_neq; [exact E1'|]. apply K3. unfold asg_arms. cbn. rewrite AX. reflexivity. }
      assert (SFk : forall x, asg_arms ((c, t) :: rest) els x = false -> s1 x = s x).
      { intros x AX. apply SF1. unfold asg_arms in AX. cbn in AX.
        apply orb_false_elim in AX as [AX _]. apply orb_false_elim in AX as [AX _].
        apply orb_false_elim in AX. tauto. }
      pose proof (ext_tbase _ _ E01p) as TB1p. pose proof (ext_tbase _ _ E02j) as TB2j'.
      destruct (truthy vc) eqn:TV.
      + (* the branch *)
        assert (S1p : star pool prog (ip st) rs (ip st1p) rs1).
        { eapply star_trans; [exact S1|]. apply star_one. rewrite STJ. f_equal. rewrite I1p, IP1a. reflexivity. }
        assert (DOt : dest_ok st1p ectx rs1 D t).
        { intros d Ed. destruct resreg as [reg|] eqn:RR; cbn in Ed; inversion Ed; subst d.
          destruct (RO reg RR) as (A1 & A2 & A3). pose proof (ext_len _ _ E01p). splits.
          - lia.
          - destruct A2 as [A2|A2]; [left; lia|right; lia].
          - intros x Sx. assert (Sx0 : slot_of st x = Some reg).
            { destruct A2 as [A2|A2]; [exact (slot_of_old st st1p x reg E01p A2 Sx)|].
              destruct (slot_of_id _ _ _ Sx) as (L1 & _). pose proof (wf_len _ W1p). lia. }
            destruct (A3 x Sx0) as (FX & _). cbn in FX. apply andb_prop in FX. tauto. }
        assert (LOt : esc t = true -> loop_ok st1p rs1 D t).
        { intros E0. rewrite loop_ok_P.
          apply (loop_okP_ext st st1p rs rs1 D (asg_arms ((c, t) :: rest) els) (fun x => assigns x t) E01p W1p);
            [lia|exact LN1|lia| |].
          - intros x AX. unfold asg_arms. cbn. rewrite AX. rewrite !orb_true_r. reflexivity.
          - apply LO. cbn. rewrite E0. rewrite !orb_true_r. reflexivity. }
        assert (B2 : tbase st1p + tused st2 <= N.of_nat (length rs1)).
        { rewrite LN1, TB1p. pose proof (ext_used _ _ E2'). lia. }
        assert (CAt' : cares prog brk (ip st1p) ct).
        { match type of CAt with cares _ _ ?pc _ => assert (EQ : pc = ip st1p) by (cbn [size]; lia) end.
          rewrite EQ in CAt. exact CAt. }
        specialize (DYt n s1 rs1 D prog brk F EF2 WFF Kt IV1 RDt DOt LOt B2 CAt').
        unfold post_arms. rewrite <- (ext_loops _ _ E01p).
        assert (KD : forall k, Some k <> resreg -> Some k <> dest ectx).
        { intros k K2. destruct resreg; cbn; [exact K2|discriminate]. }
        assert (AT : forall x, assigns x t = true -> asg_arms ((c, t) :: rest) els x = true).
        { intros x AX. unfold asg_arms. cbn. rewrite AX. rewrite !orb_true_r. reflexivity. }
        assert (AF : forall x, asg_arms ((c, t) :: rest) els x = false -> assigns x t = false).
        { intros x AX. destruct (assigns x t) eqn:A; [|reflexivity]. rewrite (AT _ A) in AX. discriminate. }
        unfold frame, frameL in DYt.
        destruct (eval n s1 t) as [v s2|v s2|s2|ce|].
        * destruct DYt as (rs2 & A1 & A2 & A3 & A4 & A5 & A6 & A7).
          assert (END : star pool prog (ip st2) rs2 (ip st') rs2).
          { destruct hj eqn:HJE.
            - cbn [app] in CA3. apply cares_cons in CA3 as [CAJ2 _]; [|reflexivity].
              assert (CAJ2' : code_at prog (ip st2) [IJump (ip st' - ip st2j)]).
              { match type of CAJ2 with code_at _ ?pc _ => assert (EQ : pc = ip st2) by (cbn [size]; lia) end.
                rewrite EQ in CAJ2. exact CAJ2. }
              apply star_one. rewrite (istep_at _ _ _ _ rs2 CAJ2'). cbn [exec size]. f_equal. lia.
            - destruct (NOJ eq_refl) as (_ & -> & _). constructor. }
          exists rs2. splits; auto.
          -- eapply star_trans; [exact S1p|]. eapply star_trans; [exact A1|exact END].
          -- lia.
          -- intros reg RG. apply A7. rewrite RG. reflexivity.
          -- intros k K1 K2 _ K3. rewrite A5; auto.
             ++ rewrite TB1p, TC1p. exact K1.
             ++ intros x AX. eapply slot_ext_neq; [exact E2'|]. apply K3. auto.
          -- intros x AX. rewrite (A6 _ (AF _ AX)). auto.
        * destruct (loops st1p) as [|li ls]; [exact DYt|].
          destruct DYt as (rs2 & A1 & A2 & A3 & A4 & A5 & A6).
          exists rs2. splits; auto.
          -- eapply star_trans; [exact S1p|exact A1].
          -- lia.
          -- intros k K1 K2 K2' K3. rewrite A5; auto.
             ++ rewrite TB1p, TC1p. exact K1.
             ++ intros x AX. eapply slot_ext_neq; [exact E2'|]. apply K3. auto.
          -- intros x AX. rewrite (A6 _ (AF _ AX)). auto.
        * destruct (loops st1p) as [|li ls]; [exact DYt|].
          destruct DYt as (rs2 & A1 & A2 & A3 & A4 & A5 & A6).
          exists rs2. splits; auto.
          -- eapply star_trans; [exact S1p|exact A1].
          -- lia.
          -- intros k K1 K2 K2' K3. rewrite A5; auto.
             ++ rewrite TB1p, TC1p. exact K1.
             ++ intros x AX. eapply slot_ext_neq; [exact E2'|]. apply K3. auto.
          -- intros x AX. rewrite (A6 _ (AF _ AX)). auto.
        * eapply star_stops; [exact S1p|exact DYt].
        * exact Logic.I.
      + (* the condition fails: on to the remaining arms *)
        assert (S2j : star pool prog (ip st) rs (ip st2j) rs1).
        { eapply star_trans; [exact S1|]. apply star_one. rewrite STJ. f_equal.
          pose proof (ext_len _ _ E2). rewrite IP2j, I2, I1p, IP1a. lia. }
        assert (ROj : res_ok st2j rs1 rest).
        { intros reg RG. destruct (RO reg RG) as (A1 & A2 & A3). pose proof (ext_len _ _ E02j). splits.
          - lia.
          - destruct A2 as [A2|A2]; [left; lia|right; lia].
          - intros x Sx. assert (Sx0 : slot_of st x = Some reg).
            { destruct A2 as [A2|A2]; [exact (slot_of_old st st2j x reg E02j A2 Sx)|].
              destruct (slot_of_id _ _ _ Sx) as (L1 & _). pose proof (wf_len _ W2j). lia. }
            destruct (A3 x Sx0) as (FX & F2). cbn in FX. apply andb_prop in FX. tauto. }
        assert (ASr : forall x, asg_arms rest els x = true -> asg_arms ((c, t) :: rest) els x = true).
        { intros x AX. unfold asg_arms in *. cbn. apply orb_true_iff in AX as [AX|AX]; rewrite AX; rewrite ?orb_true_r; reflexivity. }
        assert (LOj : any_arms esc rest || any_opt esc els = true -> loop_okP st2j rs1 D (asg_arms rest els)).
        { intros E0.
          apply (loop_okP_ext st st2j rs rs1 D (asg_arms ((c, t) :: rest) els) (asg_arms rest els) E02j W2j);
            [lia|exact LN1|lia|exact ASr|].
          apply LO. cbn. apply orb_true_iff in E0 as [E0|E0]; rewrite E0; rewrite ?orb_true_r; reflexivity. }
        assert (B3 : tbase st2j + tused st' <= N.of_nat (length rs1)) by (rewrite LN1, TB2j'; exact B).
        assert (CAr : cares prog brk (ip st2j) c_rest).
        { destruct hj eqn:HJE.
          - cbn [app] in CA3. apply cares_cons in CA3 as [_ CAr]; [|reflexivity].
            match type of CAr with cares _ _ ?pc _ => assert (EQ : pc = ip st2j) end.
            { cbn [size]. lia. }
            rewrite EQ in CAr. exact CAr.
          - destruct (NOJ eq_refl) as (-> & _ & _). cbn [app] in CA3.
            match type of CA3 with cares _ _ ?pc _ => assert (EQ : pc = ip st2j) by (cbn [size]; lia) end.
            rewrite EQ in CA3. exact CA3. }
        specialize (DYr n s1 rs1 D prog brk F EF WFF Kr Ke IV1 RDr ROj LOj B3 CAr).
        eapply (post_arms_trans F st st2j st'); eauto.
        * rewrite (ext_loops _ _ E02j). reflexivity.
        * lia.
  Qed.
End SimI.

Section SimI2.
  Variable pool : list pentry.

  Lemma arms_all : forall resreg els,
    (forall a, els = Some a -> Q pool a /\ wf_expr a = true) ->
    forall arms, cond_arms wf_expr esc arms = true ->
      Forall (fun ct => Q pool (fst ct) /\ Q pool (snd ct)) arms -> ArmsS pool resreg els arms.
  Proof.
    intros resreg els QE. induction arms as [|[c t] rest IH]; intros WF F.
    - apply arms_nil. exact QE.
    - cbn [cond_arms] in WF. apply andb_prop in WF as [WF WFr]. apply andb_prop in WF as [WF WFt].
      apply andb_prop in WF as [NE WFc]. apply negb_true_iff in NE.
      inversion F as [|? ? [Qc Qt] Fr]; subst. cbn [fst snd] in *.
      apply arms_cons; auto.
  Qed.

  Lemma ifQ : forall c t elifs els, Q pool c -> Q pool t ->
    Forall (fun ct => Q pool (fst ct) /\ Q pool (snd ct)) elifs ->
    (forall e, els = Some e -> Q pool e) -> Q pool (EIf c t elifs els).
  Proof.
    intros c t elifs els Qc Qt Qel Qe WF r st out st' code H W Dr.
    cbn [wf_expr] in WF. apply andb_prop in WF as [WFa WFe].
    cbn [dropped] in Dr. apply orb_false_elim in Dr as [Dra Dre].
    cbn [comp] in H.
    apply bind_inv in H. destruct H as (res & st1 & c1 & c2 & HR & H & ->).
    pose proof (fun rs D e => shape_reg_bound _ _ _ _ _ rs D e HR W) as RB.
    apply assign_result_inv in HR; [|assumption]. destruct HR as (-> & I1 & E1 & W1 & L1 & T1 & SH).
    apply bind_inv in H. destruct H as (u & st2 & ca & c3 & HA & H & ->).
    unfold ret in H. inversion H; subst out st' c3; clear H.
    assert (QE : forall a, els = Some a -> Q pool a /\ wf_expr a = true).
    { intros a EA. split; [apply Qe; assumption|]. subst els. exact WFe. }
    assert (AS : ArmsS pool (o_reg res) els ((c, t) :: elifs)).
    { apply arms_all; auto. }
    assert (DM : (match o_reg res with None => true | Some _ => false end) = is_none r).
    { destruct r; [destruct SH as (-> & _)|destruct SH as (-> & _)|destruct SH as (-> & _)]; reflexivity. }
    destruct (AS _ _ _ _ _ HA W1) as ((I2 & E2 & W2 & TC2) & DY).
    { rewrite DM. exact Dra. }
    { rewrite DM. destruct els; [exact Dre|exact Logic.I]. }
    { intros HF. apply orb_false_elim in HF as [HF H3]. apply orb_false_elim in HF as [H1 H2].
      apply negb_false_iff in H1. splits.
      - destruct elifs; [eauto|discriminate].
      - destruct els; [discriminate|reflexivity].
      - destruct (o_reg res); [discriminate|reflexivity]. }
    assert (E0' : ext st st2) by (eapply ext_trans; eauto).
    split.
    - unfold factsQ. splits; auto.
      + rewrite !code_size_app. cbn [code_size]. lia.
      + unfold shapeQ. cbn [is_jump shape]. destruct r; cbn [shape].
        * destruct SH as (-> & ->). auto.
        * left. destruct SH as (-> & C & _). split; [reflexivity|lia].
        * destruct SH as (-> & ->). auto.
    - intros n s rs D prog brk F EF WFF K IV RD DO LO B CA. destruct n; [exact Logic.I|].
      change (eval (S n) s (EIf c t elifs els)) with (eval_elifs (eval n) s ((c, t) :: elifs) els).
      cbn [known_expr] in K. apply orb_false_elim in K as [Ka Ke].
      norm_code CA.
      assert (RD1 : forall x, D x = true ->
                 any_arms (reads x) ((c, t) :: elifs) = false /\ any_opt (reads x) els = false).
      { intros x Dx. apply RD in Dx. cbn [reads] in Dx. apply orb_false_elim in Dx. exact Dx. }
      assert (RK : (exists d, r = RFixed d /\ o_reg res = Some d /\ st1 = st) \/
                   (r = RAny /\ o_reg res = Some (tbase st + tcount st) /\ tcount st1 = tcount st + 1) \/
                   (r = RNone /\ o_reg res = None /\ st1 = st)).
      { destruct r; [destruct SH as (-> & ->)|destruct SH as (-> & C & _)|destruct SH as (-> & ->)]; cbn; eauto 8. }
      assert (RO : res_ok (o_reg res) els st1 rs ((c, t) :: elifs)).
      { intros reg RG. destruct RK as [(d & -> & RR & ->)|[(-> & RR & C)|(-> & RR & ->)]]; rewrite RR in RG; inversion RG; subst.
        - destruct (DO _ eq_refl) as (A1 & A2 & A3). splits; auto. intros x Sx. specialize (A3 x Sx).
          cbn [fixed_ok] in A3. apply andb_prop in A3. exact A3.
        - pose proof (wf_cnt _ W1). pose proof (ext_used _ _ E2). splits.
          + lia.
          + right. lia.
          + intros x Sx. exfalso. destruct (slot_of_id _ _ _ Sx) as (L & _). pose proof (wf_len _ W1). lia. }
      assert (LO1 : any_arms esc ((c, t) :: elifs) || any_opt esc els = true ->
                    loop_okP st1 rs D (asg_arms ((c, t) :: elifs) els)).
      { intros E0. specialize (LO E0). rewrite loop_ok_P in LO.
        apply (loop_okP_ext st st1 rs rs D (fun x => assigns x (EIf c t elifs els)) (asg_arms ((c, t) :: elifs) els) E1 W1);
          [destruct RK as [(d & _ & _ & ->)|[(_ & _ & C)|(_ & _ & ->)]]; lia|reflexivity|lia|auto|exact LO]. }
      assert (B1 : tbase st1 + tused st2 <= N.of_nat (length rs)) by (rewrite T1; exact B).
      rewrite <- I1 in CA.
      specialize (DY n s rs D prog brk F EF WFF Ka Ke IV RD1 RO LO1 B1 CA).
      unfold post_arms in DY. rewrite (ext_loops _ _ E1) in DY. rewrite I1 in DY.
      assert (EF0 : ext st F) by (eapply ext_trans; eauto).
      assert (DW : forall x, dirty F (fixed_or_none (o_reg res)) D x = true -> dirty F r D x = true).
      { intros x Hx. destruct RK as [(d & -> & RR & ->)|[(-> & RR & C)|(-> & RR & ->)]]; rewrite RR in Hx; cbn [fixed_or_none] in Hx.
        - exact Hx.
        - eapply (dirty_absorbF st); eauto. right. split; [reflexivity|lia].
        - exact Hx. }
      assert (KR : forall k, k < tbase st + tcount st -> Some k <> dest r ->
                     k < tbase st1 + tcount st1 /\ Some k <> o_reg res).
      { intros k K1 K2. destruct RK as [(d & -> & RR & ->)|[(-> & RR & C)|(-> & RR & ->)]]; rewrite RR.
        - split; [lia|exact K2].
        - split; [lia|]. intros E0. inversion E0. lia.
        - split; [lia|discriminate]. }
      unfold frame, frameL.
      destruct (eval_elifs (eval n) s ((c, t) :: elifs) els) as [v s'|v s'|s'|ce|]; auto.
      + destruct DY as (rs' & A1 & A2 & A3 & A4 & A5 & A6). exists rs'. splits; auto.
        * eapply inv_weaken; eauto.
        * intros k K1 K2 K3. destruct (KR k K1 K2) as (X1 & X2). apply A5; auto.
        * intros d ->. apply A4. destruct SH as (-> & _). reflexivity.
      + destruct (loops st) as [|li ls]; [exact DY|].
        destruct DY as (rs' & A1 & A2 & A3 & A4 & A5 & A6). exists rs'. splits; auto.
        * eapply inv_weaken; eauto.
        * intros k K1 K2 K2' K3. destruct (KR k K1 K2) as (X1 & X2). apply A5; auto.
      + destruct (loops st) as [|li ls]; [exact DY|].
        destruct DY as (rs' & A1 & A2 & A3 & A4 & A5 & A6). exists rs'. splits; auto.
        * eapply inv_weaken; eauto.
        * intros k K1 K2 K2' K3. destruct (KR k K1 K2) as (X1 & X2). apply A5; auto.
  Qed.
End SimI2.
