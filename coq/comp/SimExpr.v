(* The simulation lemma for expressions (generalised over every compile context and result mode). *)
From Coq Require Import ZArith NArith List Bool Lia.
From KV.comp Require Import Ast0 Sem0 Instr0 Comp0 VM0 Known0 InstrLemmas CompLemmas SimBase.
Import ListNotations.
Open Scope N_scope.
Ltac Zify.zify_post_hook ::= Z.to_euclidean_division_equations.

Definition shape (st : cst) (r : rr) (out : cout) (st' : cst) (e : expr) : Prop :=
  match r with
  | RNone => out = out_none /\ tcount st' = tcount st
  | RFixed d => out = out_assigned d /\ tcount st' = tcount st
  | RAny => (out = out_temp (tbase st + tcount st) /\ tcount st' = tcount st + 1)
            \/ (exists x l, out = out_assigned l /\ tcount st' = tcount st /\
                            out_var e = Some x /\ slot_of st' x = Some l)
  end.

Definition facts st r out st' (c : code) e :=
  ip st' = ip st + code_size c /\ ext st st' /\ wfst st' /\ shape st r out st' e.

Definition dest_ok st r (rs : regfile) (D : ident -> bool) e :=
  forall d, r = RFixed d ->
    d < N.of_nat (length rs) /\ (d < nlocals st \/ (tbase st <= d /\ d < tbase st + tcount st)) /\
    forall x, slot_of st x = Some d -> fixed_ok x e = true.

Definition frame st st' r (rs rs' : regfile) e :=
  forall k, k < tbase st + tcount st -> Some k <> dest r ->
    (forall x, assigns x e = true -> slot_of st' x <> Some k) -> get rs' k = get rs k.

Section Sim.
  Variable pool : list pentry.

  Definition dyn e r st out st' (c : code) :=
    forall n s rs D prog brk F,
      ext st' F -> wfst F ->
      known_expr e = false ->
      inv F D s rs -> (forall x, D x = true -> reads x e = false) ->
      dest_ok st r rs D e -> tbase st + tused st' <= N.of_nat (length rs) ->
      cares prog brk (ip st) c ->
      match eval n s e with
      | ONorm v s' =>
        exists rs', star pool prog (ip st) rs (ip st') rs' /\ length rs' = length rs /\
                    inv F (dirty F r D) s' rs' /\
                    (forall ro, o_reg out = Some ro -> get rs' ro = Some v) /\
                    frame st st' r rs rs' e /\
                    (forall x, assigns x e = false -> s' x = s x)
      | OErr c => stops pool prog (ip st) rs (VFail c)
      | OFuel => True
      | _ => False
      end.

  Definition P e := forall r st out st' c,
      comp pool e r st = OK (out, st', c) -> wfst st -> dropped (is_none r) e = false ->
      facts st r out st' c e /\ dyn e r st out st' c.

  Lemma assign_result_inv : forall r st res st1 c,
    assign_result_register r st = OK (res, st1, c) -> wfst st ->
    c = [] /\ ip st1 = ip st /\ ext st st1 /\ wfst st1 /\ locals st1 = locals st /\ tbase st1 = tbase st /\
    match r with
    | RFixed d => res = out_assigned d /\ st1 = st
    | RNone => res = out_none /\ st1 = st
    | RAny => res = out_temp (tbase st + tcount st) /\ tcount st1 = tcount st + 1 /\
              tused st1 = N.max (tused st) (tcount st + 1)
    end.
  Proof.
    intros r st res st1 c H W. destruct r; cbn [assign_result_register] in H.
    - minv H. splits; auto using ext_refl.
    - minv H. apply push_inv in H0; [|assumption].
      destruct H0 as (-> & -> & L & T & Lo & I & C & U & E & W1). splits; auto.
    - minv H. splits; auto using ext_refl.
  Qed.

  (* a register that the result mode designates can be written *)
  Lemma shape_reg_bound : forall r st res st1 c (rs : regfile) D e,
    assign_result_register r st = OK (res, st1, c) -> wfst st ->
    dest_ok st r rs D e -> tbase st + tused st1 <= N.of_nat (length rs) ->
    forall reg, o_reg res = Some reg -> reg < N.of_nat (length rs).
  Proof.
    intros r st res st1 c rs D e H W DO B reg R.
    apply assign_result_inv in H; [|assumption].
    destruct H as (_ & _ & _ & W1 & _ & _ & H). destruct r.
    - destruct H as [-> _]. discriminate.
    - destruct H as (-> & C & U). cbn in R. inversion R; subst. pose proof (wf_cnt _ W1). lia.
    - destruct H as [-> _]. cbn in R. inversion R; subst. destruct (DO _ eq_refl) as (H & _). assumption.
  Qed.

  Lemma ext_set_ip : forall st n, ext st (set_ip st n).
  Proof. intros. apply ext_same_locals; cbn; auto; lia. Qed.
  Lemma wfst_set_ip : forall st n, wfst st -> wfst (set_ip st n).
  Proof. intros st n W. pose proof (wf_cnt _ W). apply (wfst_same_locals st); cbn; auto. Qed.
  Lemma inv_set_ip : forall st n D s rs, inv st D s rs -> inv (set_ip st n) D s rs.
  Proof. intros st n D s rs [A B C]. constructor; auto. Qed.
  Lemma slot_of_set_ip : forall st n x, slot_of (set_ip st n) x = slot_of st x.
  Proof. reflexivity. Qed.

  (* writing a register that is a temporary, or a local all of whose owners are marked dirty *)
  Lemma inv_setF : forall st F D s rs r v rs', inv F D s rs -> set rs r v = Some rs' ->
    ext st F -> wfst F ->
    (tbase st <= r \/ (r < nlocals st /\ forall x, slot_of F x = Some r -> D x = true)) ->
    inv F D s rs'.
  Proof.
    intros st F D s rs r v rs' IV SET E WF H. eapply inv_set; eauto.
    destruct H as [H|[H1 H2]]; [left; rewrite (ext_tbase _ _ E); assumption|right].
    split; [pose proof (ext_len _ _ E); lia|assumption].
  Qed.

  Lemma dirty_self : forall F d D x, slot_of F x = Some d -> dirty F (RFixed d) D x = true.
  Proof. intros. unfold dirty. rewrite H, N.eqb_refl. apply orb_true_r. Qed.

  (* constructs of the form: result <- assign_result_register; Set* result *)
  Lemma lit_case : forall e (mk : N -> instr) v,
    (forall r, comp pool e r =
               (do result <- assign_result_register r; do _ <- emit_opt (o_reg result) mk; ret result)) ->
    (forall n s, eval (S n) s e = ONorm v s) ->
    (forall reg next rs, exec pool (mk reg) next rs = put rs reg v next) ->
    (forall reg, is_hole (mk reg) = false) ->
    (forall x, assigns x e = false) ->
    forall r st out st' c, comp pool e r st = OK (out, st', c) -> wfst st ->
      facts st r out st' c e /\ dyn e r st out st' c.
  Proof.
    intros e mk v HC HE HX HH HA r st out st' c H W. rewrite HC in H. minv H.
    all: match goal with H : assign_result_register _ _ = OK _ |- _ =>
      pose proof (fun rs D e => shape_reg_bound _ _ _ _ _ rs D e H W) as RB;
      apply assign_result_inv in H; [|assumption];
      destruct H as (-> & I1 & E1 & W1 & L1 & T1 & SH) end.
    all: match goal with H : o_reg _ = _ |- _ => rename H into OR end.
    - (* a register: one instruction *)
      match goal with H : o_reg _ = Some ?n |- _ => rename n into reg end.
      match goal with |- context [set_ip ?x _] => rename x into a end.
      split.
      + unfold facts. cbn [app code_size set_ip ip]. splits; try lia.
        * eapply ext_trans; [eassumption|apply ext_set_ip].
        * apply wfst_set_ip. assumption.
        * destruct r; cbn [shape]; destruct SH as (-> & SH); cbn [tcount set_ip]; try subst; auto;
            try (cbn in OR; discriminate).
          left. destruct SH. split; auto.
      + intros n s rs D prog brk F EF WF K IV RD DO B CA. destruct n; [exact Logic.I|]. rewrite HE.
        assert (RL : reg < N.of_nat (length rs)).
        { eapply RB; eauto. }
        destruct (set_ok rs reg v RL) as (rs' & SET).
        exists rs'. cbn [app] in CA. apply cares_one in CA; [|apply HH]. rewrite I1 in *.
        assert (ST : istep pool prog (ip st) rs = SNext (ip st + size (mk reg)) rs').
        { rewrite (istep_at _ _ _ _ rs CA), HX. unfold put. rewrite SET. reflexivity. }
        splits.
        * cbn [ip set_ip]. apply star_one. exact ST.
        * eapply set_length; eauto.
        * assert (I1' : inv F (dirty F r D) s rs).
          { eapply inv_weaken; [exact IV|]. intros. apply dirty_mono. assumption. }
          eapply (inv_setF st); eauto.
          { eapply ext_trans; [|exact EF]. eapply ext_trans; [exact E1|apply ext_set_ip]. }
          destruct r; destruct SH as (-> & SH); cbn in OR; try discriminate; inversion OR; subst.
          -- left. lia.
          -- destruct (DO _ eq_refl) as (_ & [Hd|[Hd _]] & _).
             ++ right. split; [assumption|]. intros x Sx. apply dirty_self. assumption.
             ++ left. lia.
        * intros ro RO. assert (ro = reg) by congruence. subst. eapply get_set_same; eauto.
        * intros k K1 K2 K3. eapply get_set_other; eauto. intros ->.
          destruct r; destruct SH as (-> & SH); cbn in OR; try discriminate; inversion OR; subst.
          -- lia.
          -- apply K2. reflexivity.
        * intros. reflexivity.
    - (* no register: nothing emitted *)
      split.
      + unfold facts. cbn [app code_size]. splits; try lia; auto.
        destruct r; cbn [shape]; destruct SH as (-> & SH); try subst; auto. cbn in OR. discriminate.
      + intros n s rs D prog brk F EF WF K IV RD DO B CA. destruct n; [exact Logic.I|]. rewrite HE.
        exists rs. rewrite I1. splits; auto.
        * constructor.
        * eapply inv_weaken; [exact IV|]. intros. apply dirty_mono. assumption.
        * intros ro RO. destruct r; destruct SH as (-> & SH); cbn in OR, RO; discriminate.
        * intros k K1 K2 K3. reflexivity.
  Qed.

  Lemma unwrap_inv : forall o st r st' c, unwrap o st = OK (r, st', c) ->
    o_reg o = Some r /\ st' = st /\ c = [].
  Proof.
    unfold unwrap. intros o st r st' c H. destruct (o_reg o); [|discriminate].
    unfold ret in H. inversion H; subst. auto.
  Qed.

  Lemma pop_if_inv : forall b st st' c, pop_if b st = OK (tt, st', c) -> wfst st ->
    c = [] /\ ip st' = ip st /\ locals st' = locals st /\ tbase st' = tbase st /\ tused st' = tused st /\
    ext st st' /\ wfst st' /\ (if b then tcount st' + 1 = tcount st else tcount st' = tcount st).
  Proof.
    intros b st st' c H W. destruct b; cbn [pop_if] in H.
    - apply pop_inv in H; [|assumption]. destruct H as (-> & L & T & Lo & I & C & U & E & W'). splits; auto.
    - unfold ret in H. inversion H; subst. splits; auto using ext_refl.
  Qed.

  Lemma slot_ext_neq : forall st st' x k, ext st st' -> slot_of st' x <> Some k -> slot_of st x <> Some k.
  Proof. intros st st' x k E H S. apply H. eapply ext_slot; eauto. Qed.

  Lemma dirty_any : forall st D s rs st', inv st (dirty st' RAny D) s rs -> inv st D s rs.
  Proof. intros. eapply inv_weaken; eauto. intros x Hx. unfold dirty in Hx. cbn in Hx. rewrite orb_false_r in Hx. exact Hx. Qed.

  Lemma id_case : forall x, P (EId x).
  Proof.
    intros x r st out st' c H W _. cbn [comp] in H. unfold compile_load_id in H.
    destruct (get_local_assigned_register st x) as [l|] eqn:G; [|discriminate].
    pose proof (wf_asg _ W _ _ G) as SL.
    destruct (slot_of_id _ _ _ SL) as (LL & _).
    destruct r as [| |d].
    - unfold ret in H. inversion H; subst. split.
      + unfold facts. cbn. splits; auto using ext_refl. lia.
      + intros n s rs D prog brk F EF WF K IV RD DO B CA. destruct n; [exact Logic.I|]. cbn [eval].
        exists rs. splits; auto.
        * constructor.
        * eapply inv_weaken; [exact IV|]. intros. apply dirty_mono. assumption.
        * cbn. discriminate.
        * intros k _ _ _. reflexivity.
    - unfold ret in H. inversion H; subst. split.
      + unfold facts. cbn [code_size shape]. splits; auto using ext_refl; try lia.
        right. exists x, l. cbn [out_var]. auto.
      + intros n s rs D prog brk F EF WF K IV RD DO B CA. destruct n; [exact Logic.I|]. cbn [eval].
        exists rs. splits; auto.
        * constructor.
        * eapply inv_weaken; [exact IV|]. intros. apply dirty_mono. assumption.
        * cbn. intros ro RO. inversion RO; subst. eapply inv_agree; [exact IV|eapply ext_slot; eauto|].
          destruct (D x) eqn:Dx; [|reflexivity]. apply RD in Dx. cbn in Dx. rewrite N.eqb_refl in Dx. discriminate.
        * intros k _ _ _. reflexivity.
    - minv H. split.
      + unfold facts. cbn [app code_size size set_ip ip tcount shape]. splits; auto; try lia.
        * apply ext_set_ip.
        * apply wfst_set_ip. assumption.
      + intros n s rs D prog brk F EF WF K IV RD DO B CA. destruct n; [exact Logic.I|]. cbn [eval].
        destruct (DO _ eq_refl) as (DL & DR & DF).
        assert (GV : get rs l = Some (s x)).
        { eapply inv_agree; [exact IV|eapply ext_slot; [exact EF|exact SL]|].
          destruct (D x) eqn:Dx; [|reflexivity]. apply RD in Dx. cbn in Dx. rewrite N.eqb_refl in Dx. discriminate. }
        destruct (set_ok rs d (s x) DL) as (rs' & SET).
        exists rs'. cbn [app] in CA. apply cares_one in CA; [|reflexivity].
        assert (ST : istep pool prog (ip st) rs = SNext (ip st + size (ICopy d l)) rs').
        { rewrite (istep_at _ _ _ _ rs CA). cbn [exec]. unfold with_reg. rewrite GV. unfold put. rewrite SET. reflexivity. }
        splits.
        * cbn [ip set_ip]. apply star_one. exact ST.
        * eapply set_length; eauto.
        * assert (I1' : inv F (dirty F (RFixed d) D) s rs).
          { eapply inv_weaken; [exact IV|]. intros. apply dirty_mono. assumption. }
          eapply (inv_setF st); eauto.
          { eapply ext_trans; [apply ext_set_ip|exact EF]. }
          destruct DR as [Hd|[Hd _]]; [right|left; assumption]. split; [assumption|].
          intros y Sy. apply dirty_self. assumption.
        * cbn. intros ro RO. inversion RO; subst. eapply get_set_same; eauto.
        * intros k K1 K2 K3. eapply get_set_other; eauto. intros ->. apply K2. reflexivity.
        * intros. reflexivity.
  Qed.

  Lemma nested_case : forall a, P a -> P (ENested a).
  Proof.
    intros a IH r st out st' c H W Dr. cbn [comp dropped] in *.
    destruct (IH r st out st' c H W Dr) as (FF & Dy). split.
    - unfold facts, shape in *. cbn [out_var]. exact FF.
    - intros n s rs D prog brk F EF WF K IV RD DO B CA. destruct n; [exact Logic.I|]. cbn [eval].
      cbn [known_expr] in K.
      specialize (Dy n s rs D prog brk F EF WF K IV RD).
      assert (DO' : dest_ok st r rs D a).
      { intros d E. destruct (DO d E) as (A1 & A2 & A3). splits; auto. }
      specialize (Dy DO' B CA). destruct (eval n s a); auto.
  Qed.

  Ltac norm_code H := repeat rewrite ?app_nil_l, ?app_nil_r in H; repeat rewrite <- app_assoc in H.

  (* the register of a compiled operand (mode Any) still holds its value after a later operand
     that does not assign the operand's variable has run *)
  Lemma operand_kept : forall st1 st2 st3 lo a b lreg (rs1 rs2 : regfile) va,
    shape st1 RAny lo st2 a -> o_reg lo = Some lreg -> ext st1 st2 -> wfst st2 -> ext st2 st3 -> wfst st3 ->
    aliased a b = false ->
    frame st2 st3 RAny rs1 rs2 b -> get rs1 lreg = Some va -> get rs2 lreg = Some va.
  Proof.
    intros st1 st2 st3 lo a b lreg rs1 rs2 va SH OR E12 W2 E W3 AL FR G.
    rewrite <- G. pose proof (ext_tbase _ _ E12). apply FR.
    - destruct SH as [(-> & C)|(x & l & -> & C & OV & SL)]; cbn in OR; inversion OR; subst.
      + lia.
      + destruct (slot_of_id _ _ _ SL) as (LL & _). pose proof (wf_len _ W2). lia.
    - cbn. discriminate.
    - intros y AY SY.
      destruct SH as [(-> & C)|(x & l & -> & C & OV & SL)]; cbn in OR; inversion OR; subst.
      + destruct (slot_of_id _ _ _ SY) as (LL & _).
        pose proof (ext_tbase _ _ E). pose proof (wf_len _ W3). lia.
      + pose proof (ext_slot _ _ E _ _ SL) as SL3.
        assert (y = x) by (eapply slot_of_inj; eauto). subst.
        unfold aliased in AL. rewrite OV in AL. congruence.
  Qed.

  Lemma dest_ok_any : forall st rs D e, dest_ok st RAny rs D e.
  Proof. intros st rs D e d E. discriminate. Qed.

  Lemma arith_case : forall o a b, P a -> P b -> P (EArith o a b).
  Proof.
    intros o a b IHa IHb r st out st' c H W Dr.
    cbn [dropped] in Dr. apply orb_false_elim in Dr as [Dr Db]. apply orb_false_elim in Dr as [Dn Da].
    cbn [comp] in H.
    apply bind_inv in H. destruct H as (res & st1 & c1 & c2 & HR & H & ->).
    pose proof (fun rs D e => shape_reg_bound _ _ _ _ _ rs D e HR W) as RB.
    apply assign_result_inv in HR; [|assumption]. destruct HR as (-> & I1 & E1 & W1 & L1 & T1 & SH).
    assert (exists reg, o_reg res = Some reg) as (reg & OR).
    { destruct r; cbn in Dn; try discriminate; destruct SH as (-> & _); cbn; eauto. }
    rewrite OR in H.
    apply bind_inv in H. destruct H as (lo & st2 & ca & c3 & HA & H & ->).
    apply bind_inv in H. destruct H as (lreg & st2' & cx & c4 & HU & H & ->).
    apply unwrap_inv in HU. destruct HU as (OL & -> & ->).
    apply bind_inv in H. destruct H as (ro & st3 & cb & c5 & HB & H & ->).
    apply bind_inv in H. destruct H as (rreg & st3' & cy & c6 & HU & H & ->).
    apply unwrap_inv in HU. destruct HU as (ORR & -> & ->).
    apply bind_inv in H. destruct H as (u1 & st4 & ci & c7 & HE & H & ->).
    unfold emit in HE. inversion HE; subst u1 st4 ci; clear HE.
    apply bind_inv in H. destruct H as (u2 & st5 & cp1 & c8 & HP1 & H & ->).
    apply bind_inv in H. destruct H as (u3 & st6 & cp2 & c9 & HP2 & H & ->).
    unfold ret in H. inversion H; subst out st' c9; clear H.
    destruct u2, u3.
    destruct (IHa RAny _ _ _ _ HA W1 Da) as (FA & DA).
    destruct FA as (IA & EA & WA & SA).
    destruct (IHb RAny _ _ _ _ HB WA Db) as (FB & DB).
    destruct FB as (IB & EB & WB & SB).
    set (st4 := set_ip st3 (ip st3 + size (IArith o reg lreg rreg))) in *.
    assert (W4 : wfst st4) by (apply wfst_set_ip; assumption).
    apply pop_if_inv in HP1; [|assumption]. destruct HP1 as (-> & I5 & L5 & T5 & U5 & E5 & W5 & C5).
    apply pop_if_inv in HP2; [|assumption]. destruct HP2 as (-> & I6 & L6 & T6 & U6 & E6 & W6 & C6).
    assert (E34 : ext st3 st4) by apply ext_set_ip.
    assert (E3' : ext st3 st6) by (eapply ext_trans; [exact E34|eapply ext_trans; eauto]).
    assert (E2' : ext st2 st6) by (eapply ext_trans; eauto).
    assert (E1' : ext st1 st6) by (eapply ext_trans; eauto).
    assert (E0' : ext st st6) by (eapply ext_trans; eauto).
    assert (TC : tcount st6 = tcount st1).
    { unfold st4 in C5.
      destruct SA as [(-> & CA1)|(xa & la & -> & CA1 & _)]; destruct SB as [(-> & CB1)|(xb & lb & -> & CB1 & _)];
        cbn [o_temp out_temp out_assigned tcount set_ip] in C5, C6; lia. }
    split.
    - unfold facts. splits; auto.
      + rewrite !code_size_app. cbn [code_size size]. unfold st4 in I5. cbn [ip set_ip size] in I5. lia.
      + destruct r; cbn [shape]; cbn in Dn; try discriminate.
        * left. destruct SH as (-> & SH1 & SH2). split; [reflexivity|]. lia.
        * destruct SH as (-> & ->). split; [reflexivity|assumption].
    - intros n s rs D prog brk F EF WF K IV RD DO B CA. destruct n; [exact Logic.I|]. cbn [eval].
      assert (EF2 : ext st2 F) by (eapply ext_trans; eauto).
      assert (EF3 : ext st3 F) by (eapply ext_trans; eauto).
      assert (EF0 : ext st F) by (eapply ext_trans; eauto).
      cbn [known_expr] in K. apply orb_false_elim in K as [K Kb]. apply orb_false_elim in K as [AL Ka].
      norm_code CA. apply cares_app in CA as [CA1 CA]. apply cares_app in CA as [CA2 CA3].
      assert (RL : reg < N.of_nat (length rs)).
      { eapply RB; eauto. pose proof (ext_used _ _ E1'). lia. }
      assert (RDa : forall x, D x = true -> reads x a = false).
      { intros x Dx. apply RD in Dx. cbn in Dx. apply orb_false_elim in Dx. tauto. }
      assert (RDb : forall x, D x = true -> reads x b = false).
      { intros x Dx. apply RD in Dx. cbn in Dx. apply orb_false_elim in Dx. tauto. }
      assert (B1 : tbase st1 + tused st2 <= N.of_nat (length rs)).
      { pose proof (ext_used _ _ E2'). lia. }
      rewrite <- I1 in CA1.
      specialize (DA n s rs D prog brk F EF2 WF Ka IV RDa (dest_ok_any _ _ _ _) B1 CA1).
      destruct (eval n s a) as [va s1| | | |]; try contradiction; [|rewrite <- I1; exact DA|exact Logic.I].
      destruct DA as (rs1 & S1 & LN1 & IVa & RA & FRa & SFa).
      apply dirty_any in IVa.
      assert (B2 : tbase st2 + tused st3 <= N.of_nat (length rs1)).
      { pose proof (ext_used _ _ E3'). pose proof (ext_tbase _ _ EA). rewrite LN1. lia. }
      assert (CA2' : cares prog brk (ip st2) cb) by (rewrite IA, I1; exact CA2).
      specialize (DB n s1 rs1 D prog brk F EF3 WF Kb IVa RDb (dest_ok_any _ _ _ _) B2 CA2').
      destruct (eval n s1 b) as [vb s2| | | |]; try contradiction;
        [|rewrite <- I1; eapply star_stops; [exact S1|exact DB]|exact Logic.I].
      destruct DB as (rs2 & S2 & LN2 & IVb & RBv & FRb & SFb).
      apply dirty_any in IVb.
      assert (GL : get rs2 lreg = Some va).
      { eapply (operand_kept st1 st2 st3 lo a b lreg rs1 rs2 va); eauto. }
      specialize (RBv _ ORR).
      assert (CA3' : code_at prog (ip st3) [IArith o reg lreg rreg]).
      { apply (cares_one _ brk); [reflexivity|]. rewrite IB, IA, I1. replace (ip st + code_size ca + code_size cb) with (ip st + code_size ca + code_size cb) by lia.
        rewrite <- N.add_assoc. rewrite N.add_assoc. exact CA3. }
      assert (SS : star pool prog (ip st) rs (ip st3) rs2).
      { eapply star_trans; [rewrite <- I1; exact S1|exact S2]. }
      pose proof (istep_at pool _ _ _ rs2 CA3') as ST. cbn [exec] in ST.
      unfold with_reg in ST. rewrite GL, RBv in ST.
      destruct (arith o va vb) as [v|ce] eqn:AR; cbn [put_res] in ST.
      + assert (RL2 : reg < N.of_nat (length rs2)) by (rewrite LN2, LN1; exact RL).
        destruct (set_ok rs2 reg v RL2) as (rs3 & SET). unfold put in ST. rewrite SET in ST.
        exists rs3. splits.
        * eapply star_trans; [exact SS|]. replace (ip st6) with (ip st3 + size (IArith o reg lreg rreg)).
          -- apply star_one. exact ST.
          -- unfold st4 in I5. cbn [ip set_ip size] in *. lia.
        * rewrite (set_length _ _ _ _ SET). lia.
        * assert (IV6 : inv F (dirty F r D) s2 rs2).
          { eapply inv_weaken; [exact IVb|]. intros. apply dirty_mono. assumption. }
          eapply (inv_setF st); eauto.
          destruct r; cbn in Dn; try discriminate.
          -- destruct SH as (-> & SH1 & SH2). cbn in OR. inversion OR; subst reg.
             left. lia.
          -- destruct SH as (-> & ->). cbn in OR. inversion OR; subst reg.
             destruct (DO _ eq_refl) as (_ & [Hd|[Hd _]] & _).
             ++ right. split; [assumption|]. intros x Sx. apply dirty_self. assumption.
             ++ left. assumption.
        * intros ro0 RO. assert (ro0 = reg) by congruence. subst. eapply get_set_same; eauto.
        * intros k K1 K2 K3.
          rewrite (get_set_other _ _ _ _ k SET).
          -- rewrite FRb.
             ++ apply FRa.
                ** pose proof (wf_cnt _ W1). destruct r; cbn in Dn; try discriminate.
                   --- destruct SH as (_ & SH1 & _). lia.
                   --- destruct SH as (_ & ->). lia.
                ** cbn. discriminate.
                ** intros x AX. eapply slot_ext_neq; [exact E2'|]. apply K3. cbn. rewrite AX. reflexivity.
             ++ pose proof (ext_tbase _ _ EA). destruct r; cbn in Dn; try discriminate.
                ** destruct SH as (_ & SH1 & _).
                   destruct SA as [(_ & CA0)|(xa & la & _ & CA0 & _)]; lia.
                ** destruct SH as (_ & ->).
                   destruct SA as [(_ & CA0)|(xa & la & _ & CA0 & _)]; lia.
             ++ cbn. discriminate.
             ++ intros x AX. eapply slot_ext_neq; [exact E3'|]. apply K3. cbn. rewrite AX. apply orb_true_r.
          -- intros ->. destruct r; cbn in Dn; try discriminate.
             ++ destruct SH as (-> & SH1 & SH2). cbn in OR. inversion OR; subst reg. lia.
             ++ destruct SH as (-> & ->). cbn in OR. inversion OR; subst reg. apply K2. reflexivity.
        * intros x AX. cbn in AX. apply orb_false_elim in AX as [AXa AXb].
          rewrite (SFb _ AXb). apply SFa. assumption.
      + exists (ip st3), rs2. split; [exact SS|exact ST].
  Qed.

  Lemma slot_of_old : forall st st' x d, ext st st' -> d < nlocals st -> slot_of st' x = Some d ->
    slot_of st x = Some d.
  Proof.
    intros st st' x d E Hd S. destruct (slot_of st x) as [l0|] eqn:S0.
    - pose proof (ext_slot _ _ E _ _ S0). congruence.
    - pose proof (ext_new _ _ E _ _ S S0). lia.
  Qed.

  (* the dirty set of an inner Fixed destination is absorbed by the outer one *)
  Lemma dirty_absorb : forall st st2 st4 r reg D x,
    ext st st2 -> ext st2 st4 -> wfst st2 ->
    (r = RFixed reg \/ (dest r = None /\ tbase st <= reg)) ->
    dirty st2 (RFixed reg) D x = true -> dirty st4 r D x = true.
  Proof.
    intros st st2 st4 r reg D x E02 E24 W2 HR H. unfold dirty in *.
    apply orb_true_iff in H as [H|H]; [rewrite H; reflexivity|].
    destruct (slot_of st2 x) as [l|] eqn:S; [|discriminate]. apply N.eqb_eq in H. subst l.
    destruct HR as [->|[HN HT]].
    - rewrite (ext_slot _ _ E24 _ _ S), N.eqb_refl. apply orb_true_r.
    - destruct (slot_of_id _ _ _ S) as (L & _). pose proof (wf_len _ W2). pose proof (ext_tbase _ _ E02). lia.
  Qed.

  Lemma dirty_absorbF : forall st F r reg D x,
    ext st F -> wfst F ->
    (r = RFixed reg \/ (dest r = None /\ tbase st <= reg)) ->
    dirty F (RFixed reg) D x = true -> dirty F r D x = true.
  Proof.
    intros st F r reg D x E W HR H. destruct HR as [->|[HN HT]]; [exact H|].
    unfold dirty in *. apply orb_true_iff in H as [H|H]; [rewrite H; reflexivity|].
    destruct (slot_of F x) as [l|] eqn:S; [|discriminate]. apply N.eqb_eq in H. subst l.
    destruct (slot_of_id _ _ _ S) as (L & _). pose proof (wf_len _ W). pose proof (ext_tbase _ _ E). lia.
  Qed.

  Lemma logic_case : forall o a b, P a -> P b -> P (ELogic o a b).
  Proof.
    intros o a b IHa IHb r st out st' c H W Dr.
    cbn [dropped] in Dr. apply orb_false_elim in Dr as [Da Db].
    cbn [comp] in H.
    apply bind_inv in H. destruct H as (res & st1 & c1 & c2 & HR & H & ->).
    pose proof (fun rs D e => shape_reg_bound _ _ _ _ _ rs D e HR W) as RB.
    apply assign_result_inv in HR; [|assumption]. destruct HR as (-> & I1 & E1 & W1 & L1 & T1 & SH).
    apply bind_inv in H. destruct H as (reg & st1' & c1' & c3 & HG & H & ->).
    (* the jump register: the result register or a fresh temporary *)
    assert (REG : c1' = [] /\ ip st1' = ip st /\ ext st st1' /\ wfst st1' /\ tbase st1' = tbase st /\
                  ((r = RFixed reg /\ st1' = st) \/
                   (r = RAny /\ reg = tbase st + tcount st /\ st1' = st1 /\ tcount st1 = tcount st + 1) \/
                   (r = RNone /\ reg = tbase st + tcount st /\ tcount st1' = tcount st + 1 /\ st1 = st))).
    { destruct r; cbn in HG.
      - destruct SH as (-> & ->). cbn in HG. apply push_inv in HG; [|assumption].
        destruct HG as (-> & -> & L & T & Lo & I & C & U & E & W'). splits; auto. right. right. auto.
      - destruct SH as (-> & C & U). cbn in HG. unfold ret in HG. inversion HG; subst.
        splits; auto. right. left. auto.
      - destruct SH as (-> & ->). cbn in HG. unfold ret in HG. inversion HG; subst.
        splits; auto using ext_refl. }
    destruct REG as (-> & I1' & E1' & W1' & T1' & RC).
    apply bind_inv in H. destruct H as (oa & st2 & ca & c4 & HA & H & ->).
    apply bind_inv in H. destruct H as (ob & st3 & cj & c5 & HJ & H & ->).
    apply bind_inv in H. destruct H as (u & st4 & cp & c6 & HP & H & ->).
    unfold ret in H. inversion H; subst out st' c6; clear H. destruct u.
    (* jump_over *)
    unfold jump_over in HJ.
    apply bind_inv in HJ. destruct HJ as (u & st2a & cz & c7 & HV & HJ & ->).
    unfold advance in HV. inversion HV; subst u st2a cz; clear HV.
    apply bind_inv in HJ. destruct HJ as (ip1 & stx & cz & c8 & HV & HJ & ->).
    unfold get_ip in HV. inversion HV; subst ip1 stx cz; clear HV.
    apply bind_inv in HJ. destruct HJ as (pr & st3a & cz & c9 & HB & HJ & ->).
    destruct pr as (ob' & cb). apply capture_inv in HB. destruct HB as (HB & ->).
    apply bind_inv in HJ. destruct HJ as (ip2 & stx & cz & c10 & HV & HJ & ->).
    unfold get_ip in HV. inversion HV; subst ip2 stx cz; clear HV.
    apply bind_inv in HJ. destruct HJ as (off & stx & cz & c11 & HV & HJ & ->).
    apply check_u16_inv in HV. destruct HV as (-> & -> & -> & OFF).
    apply bind_inv in HJ. destruct HJ as (u & stx & cz & c12 & HV & HJ & ->).
    unfold emit_raw in HV. inversion HV; subst u stx cz; clear HV.
    unfold ret in HJ. inversion HJ; subst ob st3 c12; clear HJ.
    set (mkj := match o with LAnd => IJumpIfFalse reg | LOr => IJumpIfTrue reg end) in *.
    assert (SZ : forall n, size (mkj n) = 4) by (intros; unfold mkj; destruct o; reflexivity).
    set (st2a := set_ip st2 (ip st2 + size (mkj 0))) in *.
    destruct (IHa (RFixed reg) _ _ _ _ HA W1' Da) as (FA & DA).
    destruct FA as (IA & EA & WA & (-> & CA0)).
    assert (W2a : wfst st2a) by (apply wfst_set_ip; assumption).
    destruct (IHb (RFixed reg) _ _ _ _ HB W2a Db) as (FB & DB).
    destruct FB as (IB & EB & WB & (-> & CB0)).
    apply pop_if_inv in HP; [|assumption]. destruct HP as (-> & I4 & L4 & T4 & U4 & E4 & W4 & C4).
    assert (E22a : ext st2 st2a) by apply ext_set_ip.
    assert (E2' : ext st2 st4) by (eapply ext_trans; [exact E22a|eapply ext_trans; eauto]).
    assert (E2a' : ext st2a st4) by (eapply ext_trans; eauto).
    assert (E1s : ext st1' st4) by (eapply ext_trans; eauto).
    assert (E0' : ext st st4) by (eapply ext_trans; eauto).
    assert (E02 : ext st st2) by (eapply ext_trans; [exact E1'|exact EA]).
    assert (IP2a : ip st2a = ip st2 + 4) by (unfold st2a; cbn [ip set_ip]; rewrite SZ; reflexivity).
    split.
    - unfold facts. splits; auto.
      + rewrite !code_size_app. cbn [code_size]. rewrite SZ. lia.
      + assert (tcount st2a = tcount st2) by reflexivity.
        destruct RC as [(-> & ->)|[(-> & -> & -> & C1)|(-> & -> & C1 & ->)]]; cbn [shape].
        * destruct SH as (-> & _). cbn in C4. split; [reflexivity|lia].
        * destruct SH as (-> & _). cbn in C4. left. split; [reflexivity|lia].
        * destruct SH as (-> & _). cbn in C4. split; [reflexivity|lia].
    - intros n s rs D prog brk F EF WF K IV RD DO B CA. destruct n; [exact Logic.I|]. cbn [eval].
      assert (EF2 : ext st2 F) by (eapply ext_trans; eauto).
      assert (EF0 : ext st F) by (eapply ext_trans; eauto).
      assert (EF3a : ext st3a F) by (eapply ext_trans; eauto).
      cbn [known_expr] in K. apply orb_false_elim in K as [Ka Kb].
      norm_code CA. apply cares_app in CA as [CA1 CA]. apply cares_cons in CA as [CAJ CA2]; [|unfold mkj; destruct o; reflexivity].
      assert (RDa : forall x, D x = true -> reads x a = false).
      { intros x Dx. apply RD in Dx. cbn in Dx. apply orb_false_elim in Dx. tauto. }
      assert (RDb : forall x, D x = true -> reads x b = false).
      { intros x Dx. apply RD in Dx. cbn in Dx. apply orb_false_elim in Dx. tauto. }
      assert (RL : reg < N.of_nat (length rs)).
      { destruct RC as [(-> & ->)|[(-> & -> & -> & C1)|(-> & -> & C1 & ->)]].
        - destruct (DO _ eq_refl) as (X & _). exact X.
        - pose proof (wf_cnt _ W1'). pose proof (ext_used _ _ E1s). lia.
        - pose proof (wf_cnt _ W1'). pose proof (ext_used _ _ E1s). lia. }
      assert (RK : r = RFixed reg \/ (dest r = None /\ tbase st <= reg)).
      { destruct RC as [(-> & ->)|[(-> & -> & -> & C1)|(-> & -> & C1 & ->)]]; [left; reflexivity| |];
          right; split; try reflexivity; lia. }
      assert (FO : forall x, slot_of st x = Some reg ->
                             fixed_ok x a = true /\ reads x b = false /\ fixed_ok x b = true).
      { intros x Sx. destruct RK as [->|[_ HT]].
        - destruct (DO _ eq_refl) as (_ & _ & FX). specialize (FX _ Sx). cbn in FX.
          apply andb_prop in FX as [FX F3]. apply andb_prop in FX as [F1 F2]. apply negb_true_iff in F2. auto.
        - destruct (slot_of_id _ _ _ Sx) as (L & _). pose proof (wf_len _ W). lia. }
      assert (RPOS : reg < nlocals st \/ (tbase st <= reg /\ reg < tbase st1' + tcount st1')).
      { destruct RC as [(-> & ->)|[(-> & -> & -> & C1)|(-> & -> & C1 & ->)]].
        - destruct (DO _ eq_refl) as (_ & X & _). exact X.
        - right. lia.
        - right. lia. }
      assert (DOa : dest_ok st1' (RFixed reg) rs D a).
      { intros d Ed. inversion Ed; subst d. splits; auto.
        - destruct RPOS; [left; pose proof (ext_len _ _ E1'); lia|right; lia].
        - intros x Sx. destruct RPOS as [RP|RP].
          + apply (slot_of_old _ _ _ _ E1' RP) in Sx. apply FO; assumption.
          + destruct (slot_of_id _ _ _ Sx) as (L & _). pose proof (wf_len _ W1'). lia. }
      assert (B1 : tbase st1' + tused st2 <= N.of_nat (length rs)).
      { pose proof (ext_used _ _ E2'). lia. }
      rewrite <- I1' in CA1.
      specialize (DA n s rs D prog brk F EF2 WF Ka IV RDa DOa B1 CA1).
      destruct (eval n s a) as [va s1| | | |]; try contradiction; [|rewrite <- I1'; exact DA|exact Logic.I].
      destruct DA as (rs1 & S1 & LN1 & IVa & RA & FRa & SFa).
      specialize (RA _ eq_refl).
      assert (EQ2 : ip st + code_size ca = ip st2) by lia.
      assert (CAJ' : code_at prog (ip st2) [mkj (ip st3a - (ip st2 + size (mkj 0)))]).
      { rewrite EQ2 in CAJ. exact CAJ. }
      pose proof (istep_at pool _ _ _ rs1 CAJ') as ST.
      (* the state after the whole construct, given the final register file *)
      assert (FIN : forall s' rs' v, length rs' = length rs ->
                 inv F (dirty F r D) s' rs' -> get rs' reg = Some v ->
                 (forall k, k < tbase st + tcount st -> Some k <> dest r ->
                     (forall x, assigns x (ELogic o a b) = true -> slot_of st4 x <> Some k) ->
                     get rs' k = get rs k) ->
                 (forall x, assigns x (ELogic o a b) = false -> s' x = s x) ->
                 star pool prog (ip st) rs (ip st4) rs' ->
                 exists rs'0, star pool prog (ip st) rs (ip st4) rs'0 /\ length rs'0 = length rs /\
                   inv F (dirty F r D) s' rs'0 /\
                   (forall ro, o_reg res = Some ro -> get rs'0 ro = Some v) /\
                   frame st st4 r rs rs'0 (ELogic o a b) /\
                   (forall x, assigns x (ELogic o a b) = false -> s' x = s x)).
      { intros s' rs' v L' I' G' F' SF' SS'. exists rs'. splits; auto.
        intros ro RO. destruct RC as [(-> & ->)|[(-> & -> & -> & C1)|(-> & -> & C1 & ->)]];
          destruct SH as (-> & _); cbn in RO; inversion RO; subst; assumption. }
      assert (KLT : forall k, k < tbase st + tcount st -> Some k <> dest r -> k <> reg /\ k < tbase st1' + tcount st1').
      { intros k K1 K2. destruct RC as [(-> & ->)|[(-> & -> & -> & C1)|(-> & -> & C1 & ->)]].
        - split; [intros ->; apply K2; reflexivity|lia].
        - split; lia.
        - split; lia. }
      assert (SKIP : truthy va = match o with LAnd => false | LOr => true end ->
                 exists rs'0, star pool prog (ip st) rs (ip st4) rs'0 /\ length rs'0 = length rs /\
                   inv F (dirty F r D) s1 rs'0 /\
                   (forall ro, o_reg res = Some ro -> get rs'0 ro = Some va) /\
                   frame st st4 r rs rs'0 (ELogic o a b) /\
                   (forall x, assigns x (ELogic o a b) = false -> s1 x = s x)).
      { intros TV. apply (FIN s1 rs1 va); auto.
        - eapply inv_weaken; [exact IVa|].
          intros x Hx. eapply (dirty_absorbF st); eauto.
        - intros k K1 K2 K3. destruct (KLT k K1 K2) as (KN & KL). apply FRa; auto.
          + cbn. intros E. inversion E. congruence.
          + intros x AX. eapply slot_ext_neq; [exact E2'|]. apply K3. cbn. rewrite AX. reflexivity.
        - intros x AX. cbn in AX. apply orb_false_elim in AX as [AX _]. auto.
        - eapply star_trans; [rewrite <- I1'; exact S1|].
          apply star_one. rewrite ST. unfold mkj. destruct o; cbn [exec]; unfold with_reg; rewrite RA, TV.
          + f_equal. rewrite I4. cbn [size]. unfold st2a in IB. cbn [ip set_ip] in IB. rewrite SZ in *. lia.
          + f_equal. rewrite I4. cbn [size]. unfold st2a in IB. cbn [ip set_ip] in IB. rewrite SZ in *. lia. }
      assert (CONT : truthy va = match o with LAnd => true | LOr => false end ->
                 match eval n s1 b with
                 | ONorm v s' => exists rs'0, star pool prog (ip st) rs (ip st4) rs'0 /\ length rs'0 = length rs /\
                     inv F (dirty F r D) s' rs'0 /\
                     (forall ro, o_reg res = Some ro -> get rs'0 ro = Some v) /\
                     frame st st4 r rs rs'0 (ELogic o a b) /\
                     (forall x, assigns x (ELogic o a b) = false -> s' x = s x)
                 | OErr c => stops pool prog (ip st) rs (VFail c)
                 | OFuel => True
                 | _ => False
                 end).
      { intros TV.
        assert (S2a : star pool prog (ip st) rs (ip st2a) rs1).
        { eapply star_trans; [rewrite <- I1'; exact S1|].
          apply star_one. rewrite ST. unfold mkj. destruct o; cbn [exec]; unfold with_reg; rewrite RA, TV;
            f_equal; rewrite IP2a; cbn [size]; lia. }
        set (D2 := dirty F (RFixed reg) D).
        assert (IV2 : inv F D2 s1 rs1) by exact IVa.
        assert (RD2 : forall x, D2 x = true -> reads x b = false).
        { intros x Hx. unfold D2, dirty in Hx. apply orb_true_iff in Hx as [Hx|Hx]; [auto|].
          destruct (slot_of F x) as [l|] eqn:S; [|discriminate]. apply N.eqb_eq in Hx. subst l.
          destruct RPOS as [RP|RP].
          - apply (slot_of_old st F) in S; [|exact EF0|assumption].
            apply FO; assumption.
          - destruct (slot_of_id _ _ _ S) as (L & _). pose proof (wf_len _ WF).
            pose proof (ext_tbase _ _ EF0). lia. }
        assert (DOb : dest_ok st2a (RFixed reg) rs1 D2 b).
        { intros d Ed. inversion Ed; subst d. splits.
          - rewrite LN1. exact RL.
          - destruct RPOS; [left; pose proof (ext_len _ _ E1'); pose proof (ext_len _ _ EA); unfold st2a, nlocals in *; cbn [locals set_ip]; lia
                           |right; pose proof (ext_tbase _ _ EA); unfold st2a; cbn [tbase tcount set_ip]; lia].
          - intros x Sx. assert (Sx' : slot_of st2 x = Some reg) by exact Sx.
            destruct RPOS as [RP|RP].
            + apply (slot_of_old st st2) in Sx'; [|exact E02|assumption]. apply FO; assumption.
            + destruct (slot_of_id _ _ _ Sx') as (L & _). pose proof (wf_len _ WA).
              pose proof (ext_tbase _ _ EA). lia. }
        assert (B2 : tbase st2a + tused st3a <= N.of_nat (length rs1)).
        { pose proof (ext_used _ _ E4). pose proof (ext_tbase _ _ EA). rewrite LN1. unfold st2a. cbn [tbase set_ip]. lia. }
        assert (CA2' : cares prog brk (ip st2a) cb).
        { rewrite IP2a, IA, I1'. rewrite SZ in CA2. exact CA2. }
        specialize (DB n s1 rs1 D2 prog brk F EF3a WF Kb IV2 RD2 DOb B2 CA2').
        destruct (eval n s1 b) as [vb s2| | | |]; try contradiction;
          [|eapply star_stops; [exact S2a|exact DB]|exact Logic.I].
        destruct DB as (rs2 & S2 & LN2 & IVb & RBv & FRb & SFb).
        specialize (RBv _ eq_refl).
        apply (FIN s2 rs2 vb); auto.
        - lia.
        - eapply inv_weaken; [exact IVb|].
          intros x Hx.
          assert (HD2 : forall y, D2 y = true -> dirty F r D y = true).
          { intros y Hy. eapply (dirty_absorbF st); eauto. }
          unfold dirty in Hx. apply orb_true_iff in Hx as [Hx|Hx]; [apply HD2; exact Hx|].
          apply HD2. unfold D2, dirty. rewrite Hx. apply orb_true_r.
        - intros k K1 K2 K3. destruct (KLT k K1 K2) as (KN & KL).
          rewrite FRb.
          + apply FRa; auto.
            * cbn. intros E. inversion E. congruence.
            * intros x AX. eapply slot_ext_neq; [exact E2'|]. apply K3. cbn. rewrite AX. reflexivity.
          + pose proof (ext_tbase _ _ EA). unfold st2a. cbn [tbase tcount set_ip]. lia.
          + cbn. intros E. inversion E. congruence.
          + intros x AX. eapply slot_ext_neq; [exact E4|]. apply K3. cbn. rewrite AX. apply orb_true_r.
        - intros x AX. cbn in AX. apply orb_false_elim in AX as [AXa AXb]. rewrite (SFb _ AXb). auto.
        - eapply star_trans; [exact S2a|]. rewrite I4. exact S2. }
      destruct o; destruct (truthy va) eqn:TV;
        first [apply CONT; reflexivity | apply SKIP; reflexivity].
  Qed.

  Lemma inv_assign_dirty : forall st l D s rs x v, inv st (dirty st (RFixed l) D) s rs ->
    slot_of st x = Some l -> get rs l = Some v -> inv st D (upd s x v) rs.
  Proof.
    intros st l D s rs x v [A B C] S G. constructor; auto.
    - intros y ly Sy Dy. unfold upd. destruct (y =? x) eqn:E.
      + apply N.eqb_eq in E. subst. assert (ly = l) by congruence. subst. assumption.
      + apply A; [assumption|]. unfold dirty. rewrite Dy, Sy. cbn.
        destruct (ly =? l) eqn:E2; [|reflexivity]. apply N.eqb_eq in E2. subst ly.
        apply N.eqb_neq in E. exfalso. apply E. eapply slot_of_inj; eauto.
    - intros y Sy. unfold upd. destruct (y =? x) eqn:E; [apply N.eqb_eq in E; subst; congruence|auto].
  Qed.

  Lemma assign_case : forall x a, P a -> P (EAssign x a).
  Proof.
    intros x a IHa r st out st' c H W Dr.
    cbn [dropped] in Dr. cbn [comp] in H.
    apply bind_inv in H. destruct H as (l & st1 & c1 & c2 & HR & H & ->).
    apply reserve_inv in HR; [|assumption].
    destruct HR as (-> & E1 & W1 & S1 & I1 & C1 & U1 & NEW & OLD).
    apply bind_inv in H. destruct H as (v & st2 & ca & c3 & HA & H & ->).
    apply bind_inv in H. destruct H as (vreg & st2' & cz & c4 & HU & H & ->).
    apply unwrap_inv in HU. destruct HU as (OV & -> & ->).
    destruct (IHa (RFixed l) _ _ _ _ HA W1 Dr) as (FA & DA).
    destruct FA as (IA & EA & WA & (-> & CA0)).
    cbn in OV. inversion OV; subst vreg. cbn [o_temp out_assigned] in H.
    apply bind_inv in H. destruct H as (u & st3 & cz & c5 & HC & H & ->). destruct u.
    pose proof (ext_slot _ _ EA _ _ S1) as S2.
    apply (commit_inv _ _ _ _ x) in HC; [|assumption|assumption].
    destruct HC as (-> & E3 & W3 & G3 & I3 & C3 & U3 & N3).
    pose proof (ext_slot _ _ E3 _ _ S2) as S3.
    assert (LPOS : l < nlocals st1) by (destruct (slot_of_id _ _ _ S1); assumption).
    (* everything up to the commit, for any final register file *)
    assert (CORE : forall n s rs D prog brk F, ext st3 F -> wfst F ->
      known_expr (EAssign x a) = false -> inv F D s rs ->
      (forall y, D y = true -> reads y (EAssign x a) = false) ->
      tbase st + tused st3 <= N.of_nat (length rs) -> cares prog brk (ip st) ca ->
      match eval n s a with
      | ONorm v s1 => exists rs1, star pool prog (ip st) rs (ip st3) rs1 /\ length rs1 = length rs /\
           inv F D (upd s1 x v) rs1 /\ get rs1 l = Some v /\
           (forall k, k < tbase st + tcount st -> k <> l ->
              (forall y, assigns y a = true -> slot_of st3 y <> Some k) -> get rs1 k = get rs k) /\
           (forall y, assigns y (EAssign x a) = false -> upd s1 x v y = s y)
      | OErr c => stops pool prog (ip st) rs (VFail c)
      | OFuel => True
      | _ => False
      end).
    { intros n s rs D prog brk F EF WF K IV RD B CA. cbn [known_expr] in K. apply orb_false_elim in K as [FX Ka].
      apply negb_false_iff in FX.
      assert (EF2 : ext st2 F) by (eapply ext_trans; eauto).
      assert (DOa : dest_ok st1 (RFixed l) rs D a).
      { intros d Ed. inversion Ed; subst d. splits.
        - pose proof (wf_len _ W1). pose proof (ext_tbase _ _ E1). lia.
        - left. assumption.
        - intros y Sy. assert (y = x) by (eapply slot_of_inj; eauto). subst. assumption. }
      assert (B1 : tbase st1 + tused st2 <= N.of_nat (length rs)).
      { pose proof (ext_tbase _ _ E1). pose proof (ext_used _ _ E3). lia. }
      rewrite <- I1 in CA.
      specialize (DA n s rs D prog brk F EF2 WF Ka IV RD DOa B1 CA).
      destruct (eval n s a) as [va s1| | | |]; try contradiction; [|rewrite <- I1; exact DA|exact Logic.I].
      destruct DA as (rs1 & St & LN & IVa & RA & FRa & SFa).
      specialize (RA _ eq_refl).
      exists rs1. splits; auto.
      - rewrite <- I1, I3. exact St.
      - eapply inv_assign_dirty; [exact IVa|eapply ext_slot; [exact EF|exact S3]|exact RA].
      - intros k K1 K2 K3. apply FRa.
        + rewrite (ext_tbase _ _ E1), C1. exact K1.
        + cbn. intros E. inversion E. congruence.
        + intros y AY. eapply slot_ext_neq; [exact E3|]. auto.
      - intros y AY. cbn in AY. apply orb_false_elim in AY as [NE AY]. unfold upd.
        rewrite N.eqb_sym in NE. rewrite NE. auto. }
    destruct r as [| |d].
    - (* None *)
      unfold ret in H. inversion H; subst out st' c5; clear H. split.
      + unfold facts. splits; auto.
        * rewrite !code_size_app. cbn [code_size]. lia.
        * eapply ext_trans; [exact E1|eapply ext_trans; eauto].
        * cbn [shape]. split; [reflexivity|lia].
      + intros n s rs D prog brk F EF WF K IV RD DO B CA. destruct n; [exact Logic.I|]. cbn [eval].
        norm_code CA. specialize (CORE n s rs D prog brk F EF WF K IV RD B CA).
        destruct (eval n s a) as [va s1| | | |]; auto.
        destruct CORE as (rs1 & St & LN & IVf & G & FR & SF).
        exists rs1. splits; auto.
        * eapply inv_weaken; eauto. intros. apply dirty_mono. assumption.
        * cbn. discriminate.
        * intros k K1 K2 K3. apply FR; auto.
          -- intros ->. eapply K3; [|exact S3]. cbn. rewrite N.eqb_refl. reflexivity.
          -- intros y AY. apply K3. cbn. rewrite AY. apply orb_true_r.
    - (* Any: the local's register is the result *)
      unfold ret in H. inversion H; subst out st' c5; clear H. split.
      + unfold facts. splits; auto.
        * rewrite !code_size_app. cbn [code_size]. lia.
        * eapply ext_trans; [exact E1|eapply ext_trans; eauto].
        * cbn [shape]. right. exists x, l. splits; auto. lia.
      + intros n s rs D prog brk F EF WF K IV RD DO B CA. destruct n; [exact Logic.I|]. cbn [eval].
        norm_code CA. specialize (CORE n s rs D prog brk F EF WF K IV RD B CA).
        destruct (eval n s a) as [va s1| | | |]; auto.
        destruct CORE as (rs1 & St & LN & IVf & G & FR & SF).
        exists rs1. splits; auto.
        * eapply inv_weaken; eauto. intros. apply dirty_mono. assumption.
        * cbn. intros ro RO. inversion RO; subst. assumption.
        * intros k K1 K2 K3. apply FR; auto.
          -- intros ->. eapply K3; [|exact S3]. cbn. rewrite N.eqb_refl. reflexivity.
          -- intros y AY. apply K3. cbn. rewrite AY. apply orb_true_r.
    - (* Fixed d: copy unless d is the local's own register *)
      apply bind_inv in H. destruct H as (u & st4 & cc & c6 & HC & H & ->). destruct u.
      unfold ret in H. inversion H; subst out st' c6; clear H.
      destruct (d =? l) eqn:DL.
      + apply N.eqb_eq in DL. subst d. unfold ret in HC. inversion HC; subst st4 cc; clear HC. split.
        * unfold facts. splits; auto.
          -- rewrite !code_size_app. cbn [code_size]. lia.
          -- eapply ext_trans; [exact E1|eapply ext_trans; eauto].
          -- cbn [shape]. split; [reflexivity|lia].
        * intros n s rs D prog brk F EF WF K IV RD DO B CA. destruct n; [exact Logic.I|]. cbn [eval].
          norm_code CA. specialize (CORE n s rs D prog brk F EF WF K IV RD B CA).
          destruct (eval n s a) as [va s1| | | |]; auto.
          destruct CORE as (rs1 & St & LN & IVf & G & FR & SF).
          exists rs1. splits; auto.
          -- eapply inv_weaken; eauto. intros. apply dirty_mono. assumption.
          -- cbn. intros ro RO. inversion RO; subst. assumption.
          -- intros k K1 K2 K3. apply FR; auto.
             ++ intros ->. apply K2. reflexivity.
             ++ intros y AY. apply K3. cbn. rewrite AY. apply orb_true_r.
      + apply N.eqb_neq in DL. unfold emit in HC. inversion HC; subst st4 cc; clear HC. split.
        * unfold facts. cbn [ip set_ip tcount]. splits; auto.
          -- rewrite !code_size_app. cbn [code_size size]. lia.
          -- eapply ext_trans; [exact E1|eapply ext_trans; [exact EA|eapply ext_trans; [exact E3|apply ext_set_ip]]].
          -- apply wfst_set_ip. assumption.
          -- cbn [shape tcount set_ip]. split; [reflexivity|lia].
        * intros n s rs D prog brk F EF WF K IV RD DO B CA. destruct n; [exact Logic.I|]. cbn [eval].
          norm_code CA. apply cares_app in CA as [CA1 CA2].
          assert (B' : tbase st + tused st3 <= N.of_nat (length rs)) by exact B.
          assert (EF3 : ext st3 F) by (eapply ext_trans; [apply ext_set_ip|exact EF]).
          specialize (CORE n s rs D prog brk F EF3 WF K IV RD B' CA1).
          destruct (eval n s a) as [va s1| | | |]; auto.
          destruct CORE as (rs1 & St & LN & IVf & G & FR & SF).
          destruct (DO _ eq_refl) as (DLN & DPOS & _).
          assert (DLN1 : d < N.of_nat (length rs1)) by (rewrite LN; exact DLN).
          destruct (set_ok rs1 d va DLN1) as (rs2 & SET).
          assert (CA2' : code_at prog (ip st3) [ICopy d l]).
          { apply (cares_one _ brk); [reflexivity|]. rewrite I3, IA, I1. exact CA2. }
          pose proof (istep_at pool _ _ _ rs1 CA2') as ST. cbn [exec] in ST.
          unfold with_reg, put in ST. rewrite G, SET in ST.
          set (st4 := set_ip st3 (ip st3 + size (ICopy d l))).
          exists rs2. splits.
          -- eapply star_trans; [exact St|]. apply star_one. exact ST.
          -- rewrite (set_length _ _ _ _ SET). exact LN.
          -- assert (IV4 : inv F (dirty F (RFixed d) D) (upd s1 x va) rs1).
             { eapply inv_weaken; [exact IVf|]. intros. apply dirty_mono. assumption. }
             assert (E03 : ext st st3) by (eapply ext_trans; [exact E1|eapply ext_trans; eauto]).
             eapply (inv_setF st); eauto.
             { eapply ext_trans; [exact E03|exact EF3]. }
             destruct DPOS as [Hd|[Hd _]].
             ++ right. split; [assumption|]. intros y Sy. apply dirty_self. assumption.
             ++ left. assumption.
          -- cbn. intros ro RO. inversion RO; subst. eapply get_set_same; eauto.
          -- intros k K1 K2 K3. rewrite (get_set_other _ _ _ _ k SET).
             ++ apply FR; auto.
                ** intros ->. eapply K3; [|exact S3]. cbn. rewrite N.eqb_refl. reflexivity.
                ** intros y AY. apply K3. cbn. rewrite AY. apply orb_true_r.
             ++ intros ->. apply K2. reflexivity.
          -- exact SF.
  Qed.

End Sim.
