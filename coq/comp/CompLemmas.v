(* Facts about the compiler model's monad and Frame operations, break-hole resolution, and the
   execution relation of the instruction machine. *)
From Coq Require Import ZArith NArith List Bool Lia.
From KV.comp Require Import Ast0 Sem0 Instr0 Comp0 VM0 InstrLemmas.
Import ListNotations.
Open Scope N_scope.
Ltac Zify.zify_post_hook ::= Z.to_euclidean_division_equations.

(* ---- induction principle for the nested AST *)
Section ExprInd.
  Variable P : expr -> Prop.
  Hypothesis HNull : P ENull.
  Hypothesis HBool : forall b, P (EBool b).
  Hypothesis HInt : forall z, P (EInt z).
  Hypothesis HId : forall x, P (EId x).
  Hypothesis HNested : forall e, P e -> P (ENested e).
  Hypothesis HNeg : forall e, P e -> P (ENeg e).
  Hypothesis HNot : forall e, P e -> P (ENot e).
  Hypothesis HArith : forall o a b, P a -> P b -> P (EArith o a b).
  Hypothesis HCmp : forall o a b, P a -> P b -> P (ECmp o a b).
  Hypothesis HLogic : forall o a b, P a -> P b -> P (ELogic o a b).
  Hypothesis HAssign : forall x e, P e -> P (EAssign x e).
  Hypothesis HOpAssign : forall o x e, P e -> P (EOpAssign o x e).
  Hypothesis HBlock : forall es, Forall P es -> P (EBlock es).
  Hypothesis HIf : forall c t elifs els, P c -> P t ->
      Forall (fun ct => P (fst ct) /\ P (snd ct)) elifs ->
      (forall e, els = Some e -> P e) -> P (EIf c t elifs els).
  Hypothesis HWhile : forall c b, P c -> P b -> P (EWhile c b).
  Hypothesis HUntil : forall c b, P c -> P b -> P (EUntil c b).
  Hypothesis HLoop : forall b, P b -> P (ELoop b).
  Hypothesis HBreak : forall v, (forall e, v = Some e -> P e) -> P (EBreak v).
  Hypothesis HContinue : P EContinue.

  Fixpoint expr_ind2 (e : expr) : P e :=
    match e with
    | ENull => HNull
    | EBool b => HBool b
    | EInt z => HInt z
    | EId x => HId x
    | ENested a => HNested a (expr_ind2 a)
    | ENeg a => HNeg a (expr_ind2 a)
    | ENot a => HNot a (expr_ind2 a)
    | EArith o a b => HArith o a b (expr_ind2 a) (expr_ind2 b)
    | ECmp o a b => HCmp o a b (expr_ind2 a) (expr_ind2 b)
    | ELogic o a b => HLogic o a b (expr_ind2 a) (expr_ind2 b)
    | EAssign x a => HAssign x a (expr_ind2 a)
    | EOpAssign o x a => HOpAssign o x a (expr_ind2 a)
    | EBlock es =>
      HBlock es ((fix go (l : list expr) : Forall P l :=
                    match l with
                    | [] => Forall_nil _
                    | x :: r => Forall_cons x (expr_ind2 x) (go r)
                    end) es)
    | EIf c t elifs els =>
      HIf c t elifs els (expr_ind2 c) (expr_ind2 t)
          ((fix go (l : list (expr * expr)) : Forall (fun ct => P (fst ct) /\ P (snd ct)) l :=
              match l with
              | [] => Forall_nil _
              | (a, b) :: r => Forall_cons (a, b) (conj (expr_ind2 a) (expr_ind2 b)) (go r)
              end) elifs)
          (match els as o return (forall e, o = Some e -> P e) with
           | Some a => fun e H => match H in (_ = y) return (match y with Some z => P z | None => True end)
                                  with eq_refl => expr_ind2 a end
           | None => fun e H => match H in (_ = y) return (match y with Some z => P z | None => True end)
                                with eq_refl => I end
           end)
    | EWhile c b => HWhile c b (expr_ind2 c) (expr_ind2 b)
    | EUntil c b => HUntil c b (expr_ind2 c) (expr_ind2 b)
    | ELoop b => HLoop b (expr_ind2 b)
    | EBreak v =>
      HBreak v (match v as o return (forall e, o = Some e -> P e) with
                | Some a => fun e H => match H in (_ = y) return (match y with Some z => P z | None => True end)
                                       with eq_refl => expr_ind2 a end
                | None => fun e H => match H in (_ = y) return (match y with Some z => P z | None => True end)
                                     with eq_refl => I end
                end)
    | EContinue => HContinue
    end.
End ExprInd.

(* ---- monad inversion *)
Lemma bind_inv : forall A B (m : M A) (f : A -> M B) st b st2 c,
  bind m f st = OK (b, st2, c) ->
  exists a st1 c1 c2, m st = OK (a, st1, c1) /\ f a st1 = OK (b, st2, c2) /\ c = c1 ++ c2.
Proof.
  unfold bind. intros. destruct (m st) as [[[a st1] c1]|]; [|discriminate].
  destruct (f a st1) as [[[b' st2'] c2]|] eqn:E; [|discriminate].
  inversion H; subst. eauto 8.
Qed.

Lemma capture_inv : forall A (m : M A) st a c0 st1 c,
  capture m st = OK ((a, c0), st1, c) -> m st = OK (a, st1, c0) /\ c = [].
Proof.
  unfold capture. intros. destruct (m st) as [[[a' st'] c']|]; [|discriminate].
  inversion H; subst. auto.
Qed.

Ltac minv H :=
  lazymatch type of H with
  | bind _ _ _ = OK _ =>
    let a := fresh "a" in let st1 := fresh "st" in let c1 := fresh "c" in let c2 := fresh "c" in
    let H1 := fresh "H" in let H2 := fresh "H" in let E := fresh "E" in
    apply bind_inv in H; destruct H as (a & st1 & c1 & c2 & H1 & H2 & E);
    try (subst); minv H1; minv H2
  | (let '(x, y) := ?p in _) _ = OK _ => destruct p; minv H
  | ret _ _ = OK _ => unfold ret in H; inversion H; subst; clear H
  | fail _ _ = OK _ => discriminate H
  | emit _ _ = OK _ => unfold emit in H; inversion H; subst; clear H
  | advance _ _ = OK _ => unfold advance in H; inversion H; subst; clear H
  | emit_raw _ _ = OK _ => unfold emit_raw in H; inversion H; subst; clear H
  | get_ip _ = OK _ => unfold get_ip in H; inversion H; subst; clear H
  | stack_count _ = OK _ => unfold stack_count in H; inversion H; subst; clear H
  | current_loop _ = OK _ => unfold current_loop in H; inversion H; subst; clear H
  | push_loop _ _ _ = OK _ => unfold push_loop in H; inversion H; subst; clear H
  | truncate_register_stack _ _ = OK _ => unfold truncate_register_stack in H; inversion H; subst; clear H
  | capture _ _ = OK _ =>
    let E := fresh "E" in apply capture_inv in H; destruct H as [H E]; try subst; minv H
  | emit_opt ?o _ _ = OK _ =>
    let EO := fresh "EO" in destruct o eqn:EO; cbn [emit_opt] in H; minv H
  | _ => idtac
  end.

Ltac splits := repeat match goal with |- _ /\ _ => split end.

Lemma check_u16_inv : forall n st r st' c,
  check_u16 n st = OK (r, st', c) -> r = n /\ st' = st /\ c = [] /\ n <= 65535.
Proof.
  unfold check_u16. intros. destruct (n <=? 65535) eqn:E; [|discriminate].
  unfold ret in H. inversion H; subst. apply N.leb_le in E. auto.
Qed.

(* ---- Frame facts *)
Definition slot_of (st : cst) (x : ident) : option N :=
  find_local (is_assigned_or_reserved x) (locals st) 0.
Definition nlocals (st : cst) : N := N.of_nat (length (locals st)).

Lemma find_local_range : forall p l i k, find_local p l i = Some k ->
  i <= k /\ k < i + N.of_nat (length l) /\
  exists a, nth_error l (N.to_nat (k - i)) = Some a /\ p a = true.
Proof.
  induction l; intros i k H; cbn [find_local] in H; [discriminate|].
  destruct (p a) eqn:E.
  - inversion H; subst. cbn [length]. repeat split; try lia.
    exists a. rewrite N.sub_diag. auto.
  - apply IHl in H. destruct H as (H1 & H2 & b & H3 & H4). cbn [length].
    repeat split; try lia. exists b. split; [|assumption].
    replace (N.to_nat (k - i)) with (S (N.to_nat (k - (i + 1)))) by lia. exact H3.
Qed.

Lemma find_local_app_some : forall p l m i k,
  find_local p l i = Some k -> find_local p (l ++ m) i = Some k.
Proof.
  induction l; intros; cbn [find_local app] in *; [discriminate|].
  destruct (p a); auto.
Qed.

Lemma find_local_app_none : forall p l m i,
  find_local p l i = None -> find_local p (l ++ m) i = find_local p m (i + N.of_nat (length l)).
Proof.
  induction l; intros; cbn [find_local app length] in *.
  - f_equal. lia.
  - destruct (p a); [discriminate|]. rewrite IHl by assumption. f_equal. lia.
Qed.

Lemma find_local_ext : forall p q l i,
  (forall a, In a l -> p a = q a) -> find_local p l i = find_local q l i.
Proof.
  induction l; intros; cbn [find_local]; [reflexivity|].
  rewrite (H a) by (left; reflexivity). destruct (q a); [reflexivity|].
  apply IHl. intros. apply H. right. assumption.
Qed.

Definition slot_id (l : lreg) : option ident :=
  match l with LAssigned x | LReserved x => Some x | LAllocated => None end.

Lemma slot_of_id : forall st x l, slot_of st x = Some l ->
  l < nlocals st /\ exists a, nth_error (locals st) (N.to_nat l) = Some a /\ slot_id a = Some x.
Proof.
  unfold slot_of, nlocals. intros st x l H. apply find_local_range in H.
  destruct H as (_ & H2 & a & H3 & H4). split; [lia|].
  rewrite N.sub_0_r in H3. exists a. split; [assumption|].
  destruct a; cbn in *; try discriminate; apply N.eqb_eq in H4; subst; reflexivity.
Qed.

Lemma slot_of_inj : forall st x y l, slot_of st x = Some l -> slot_of st y = Some l -> x = y.
Proof.
  intros st x y l H1 H2. apply slot_of_id in H1. apply slot_of_id in H2.
  destruct H1 as (_ & a & E1 & I1). destruct H2 as (_ & b & E2 & I2). congruence.
Qed.

Record wfst (st : cst) : Prop := {
  wf_len : nlocals st <= tbase st;
  wf_cnt : tcount st <= tused st;
  wf_asg : forall x l, get_local_assigned_register st x = Some l -> slot_of st x = Some l
}.

(* st' is a later state of the same frame *)
Record ext (st st' : cst) : Prop := {
  ext_tbase : tbase st' = tbase st;
  ext_loops : loops st' = loops st;
  ext_used : tused st <= tused st';
  ext_len : nlocals st <= nlocals st';
  ext_slot : forall x l, slot_of st x = Some l -> slot_of st' x = Some l;
  ext_asg : forall x l, get_local_assigned_register st x = Some l ->
                        get_local_assigned_register st' x = Some l;
  ext_new : forall x l, slot_of st' x = Some l -> slot_of st x = None -> nlocals st <= l
}.

Lemma ext_refl : forall st, ext st st.
Proof. intros. constructor; auto; try lia. intros. congruence. Qed.

Lemma ext_trans : forall a b c, ext a b -> ext b c -> ext a c.
Proof.
  intros a b c [] []. constructor; try congruence; try lia; auto.
  intros x l H1 H2. destruct (slot_of b x) as [l'|] eqn:E.
  - pose proof (ext_slot1 _ _ E) as E'. rewrite E' in H1. inversion H1; subst. eauto.
  - specialize (ext_new1 _ _ H1 E). lia.
Qed.

(* states that differ only in ip / temporaries / loops have the same locals *)
Lemma ext_same_locals : forall st st',
  locals st' = locals st -> tbase st' = tbase st -> loops st' = loops st -> tused st <= tused st' ->
  ext st st'.
Proof.
  intros st st' L T Lo U. unfold nlocals, slot_of, get_local_assigned_register.
  constructor; unfold nlocals, slot_of, get_local_assigned_register; rewrite ?L; auto; try lia.
  intros. congruence.
Qed.

Lemma wfst_same_locals : forall st st',
  locals st' = locals st -> tbase st' = tbase st -> tcount st' <= tused st' -> wfst st -> wfst st'.
Proof.
  intros st st' L T C [W1 W2 W3].
  constructor; unfold nlocals, slot_of, get_local_assigned_register in *; rewrite ?L, ?T; auto.
Qed.

Lemma reserve_inv : forall x st l st1 c, reserve_local_register x st = OK (l, st1, c) -> wfst st ->
  c = [] /\ ext st st1 /\ wfst st1 /\ slot_of st1 x = Some l /\ ip st1 = ip st /\ tcount st1 = tcount st /\
  tused st1 = tused st /\
  (slot_of st x = None -> l = nlocals st /\ nlocals st1 = nlocals st + 1) /\
  (forall l0, slot_of st x = Some l0 -> st1 = st).
Proof.
  unfold reserve_local_register. intros x st l st1 c H W.
  fold (slot_of st x) in H. destruct (slot_of st x) as [r|] eqn:E.
  - inversion H; subst. splits; auto using ext_refl; intros; try congruence.
  - match type of H with (if ?b then _ else _) = _ => destruct b eqn:Eb end; [|discriminate].
    inversion H; subst; clear H. apply N.ltb_lt in Eb. rewrite app_length in Eb. cbn [length] in Eb.
    assert (S1 : slot_of (set_locals st (locals st ++ [LReserved x])) x = Some (nlocals st)).
    { unfold slot_of in *. cbn [locals set_locals]. rewrite find_local_app_none by assumption.
      cbn [find_local is_assigned_or_reserved]. rewrite N.eqb_refl. reflexivity. }
    assert (SO : forall y l, slot_of st y = Some l -> slot_of (set_locals st (locals st ++ [LReserved x])) y = Some l).
    { unfold slot_of. cbn [locals set_locals]. intros. apply find_local_app_some. assumption. }
    assert (AS : forall y, get_local_assigned_register (set_locals st (locals st ++ [LReserved x])) y
                           = get_local_assigned_register st y).
    { unfold get_local_assigned_register. cbn [locals set_locals]. intros y.
      destruct (find_local (is_assigned y) (locals st) 0) eqn:F.
      - apply find_local_app_some. assumption.
      - rewrite find_local_app_none by assumption. reflexivity. }
    destruct W as [W1 W2 W3].
    set (st1 := set_locals st (locals st ++ [LReserved x])) in *.
    assert (NL : nlocals st1 = nlocals st + 1).
    { unfold nlocals, st1. cbn [locals set_locals]. rewrite app_length. cbn [length]. lia. }
    assert (LT : nlocals st + 1 <= tbase st) by (unfold nlocals; lia).
    assert (EX : ext st st1).
    { constructor; auto; try (unfold st1; cbn; lia); try (rewrite NL; lia).
      - intros. rewrite AS. assumption.
      - intros y l H1 H2. unfold slot_of in H1, H2. unfold st1 in H1. cbn [locals set_locals] in H1.
        rewrite find_local_app_none in H1 by assumption.
        apply find_local_range in H1. unfold nlocals. lia. }
    assert (WF : wfst st1).
    { constructor.
      - rewrite NL. unfold st1. cbn. lia.
      - unfold st1. cbn. lia.
      - intros y l H1. rewrite AS in H1. auto. }
    assert (LEQ : N.of_nat (length (locals st ++ [LReserved x])) - 1 = nlocals st).
    { unfold nlocals. rewrite app_length. cbn [length]. lia. }
    rewrite LEQ. splits; auto.
    intros. discriminate.
Qed.

Lemma nth_error_set_nth : forall A (l : list A) n m a,
  nth_error (set_nth l n a) m =
  if Nat.eqb n m then (match nth_error l n with Some _ => Some a | None => None end) else nth_error l m.
Proof.
  induction l; intros; cbn [set_nth].
  - destruct n, m; cbn; try reflexivity; destruct (Nat.eqb n m); reflexivity.
  - destruct n, m; cbn [nth_error Nat.eqb]; try reflexivity. apply IHl.
Qed.

Lemma length_set_nth : forall A (l : list A) n a, length (set_nth l n a) = length l.
Proof. induction l; intros; destruct n; cbn; auto. Qed.

Lemma find_local_set_nth_same : forall p l n a b i,
  nth_error l n = Some b -> p a = p b -> find_local p (set_nth l n a) i = find_local p l i.
Proof.
  induction l; intros; destruct n; cbn in *; try discriminate.
  - inversion H; subst. rewrite H0. reflexivity.
  - destruct (p a); [reflexivity|]. eapply IHl; eauto.
Qed.

Lemma find_first_refine : forall (p q : lreg -> bool) l i r a,
  find_local q l i = Some r -> nth_error l (N.to_nat (r - i)) = Some a -> p a = true ->
  (forall b, p b = true -> q b = true) -> find_local p l i = Some r.
Proof.
  induction l; intros i r b F N Pb PQ; cbn [find_local] in *; [discriminate|].
  destruct (q a) eqn:Q.
  - inversion F; subst. rewrite N.sub_diag in N. cbn in N. inversion N; subst. rewrite Pb. reflexivity.
  - destruct (p a) eqn:Pa; [rewrite PQ in Q by assumption; discriminate|].
    pose proof (find_local_range _ _ _ _ F) as (R1 & _).
    eapply IHl; eauto.
    replace (N.to_nat (r - i)) with (S (N.to_nat (r - (i + 1)))) in N by lia. exact N.
Qed.

Lemma commit_inv : forall r st st1 c x, commit_local_register r st = OK (tt, st1, c) -> wfst st ->
  slot_of st x = Some r ->
  c = [] /\ ext st st1 /\ wfst st1 /\ get_local_assigned_register st1 x = Some r /\
  ip st1 = ip st /\ tcount st1 = tcount st /\ tused st1 = tused st /\ nlocals st1 = nlocals st.
Proof.
  unfold commit_local_register. intros r st st1 c x H W S.
  destruct (slot_of_id _ _ _ S) as (Hl & a & Ea & Ia). rewrite Ea in H.
  destruct a as [y|y|]; cbn in Ia; try discriminate; inversion Ia; subst y.
  - inversion H; subst. splits; auto using ext_refl.
    unfold get_local_assigned_register, slot_of in *.
    eapply find_first_refine; eauto.
    + rewrite N.sub_0_r. eassumption.
    + cbn. apply N.eqb_refl.
    + intros b. destruct b; cbn; auto; discriminate.
  - inversion H; subst; clear H.
    set (st1 := set_locals st (set_nth (locals st) (N.to_nat r) (LAssigned x))).
    assert (SO : forall y, slot_of st1 y = slot_of st y).
    { intros y. unfold slot_of, st1. cbn [locals set_locals].
      eapply find_local_set_nth_same; eauto. }
    assert (AX : get_local_assigned_register st1 x = Some r).
    { unfold get_local_assigned_register.
      eapply find_first_refine with (q := is_assigned_or_reserved x).
      - fold (slot_of st1 x). rewrite SO. assumption.
      - rewrite N.sub_0_r. unfold st1. cbn [locals set_locals].
        rewrite nth_error_set_nth, Nat.eqb_refl, Ea. reflexivity.
      - cbn. apply N.eqb_refl.
      - intros b. destruct b; cbn; auto; discriminate. }
    assert (AY : forall y, y <> x -> get_local_assigned_register st1 y = get_local_assigned_register st y).
    { intros y Ny. unfold get_local_assigned_register, st1. cbn [locals set_locals].
      eapply find_local_set_nth_same; eauto. cbn.
      destruct (x =? y) eqn:E; [apply N.eqb_eq in E; congruence|reflexivity]. }
    assert (NL : nlocals st1 = nlocals st).
    { unfold nlocals, st1. cbn [locals set_locals]. rewrite length_set_nth. reflexivity. }
    destruct W as [W1 W2 W3].
    assert (EX : ext st st1).
    { constructor; auto; try (unfold st1; cbn; lia); try (rewrite NL; lia).
      - intros y l. rewrite SO. auto.
      - intros y l G. destruct (N.eq_dec y x) as [->|Ny].
        + apply W3 in G. rewrite S in G. inversion G; subst. assumption.
        + rewrite AY by assumption. assumption.
      - intros y l. rewrite SO. congruence. }
    assert (WF : wfst st1).
    { constructor.
      - rewrite NL. exact W1.
      - exact W2.
      - intros y l G. rewrite SO. destruct (N.eq_dec y x) as [->|Ny].
        + rewrite AX in G. inversion G; subst. assumption.
        + rewrite AY in G by assumption. auto. }
    splits; auto.
Qed.

Lemma push_inv : forall st t st1 c, push_register st = OK (t, st1, c) -> wfst st ->
  c = [] /\ t = tbase st + tcount st /\ locals st1 = locals st /\ tbase st1 = tbase st /\
  loops st1 = loops st /\ ip st1 = ip st /\ tcount st1 = tcount st + 1 /\
  tused st1 = N.max (tused st) (tcount st + 1) /\ ext st st1 /\ wfst st1.
Proof.
  unfold push_register. intros st t st1 c H W.
  destruct (tbase st + tcount st =? 255); [discriminate|]. inversion H; subst; clear H.
  cbn [locals tbase loops ip tcount tused set_temps].
  splits; auto.
  - apply ext_same_locals; cbn; auto; lia.
  - apply (wfst_same_locals st); [reflexivity|reflexivity|cbn; lia|exact W].
Qed.

Lemma pop_inv : forall st st1 c, pop_register st = OK (tt, st1, c) -> wfst st ->
  c = [] /\ locals st1 = locals st /\ tbase st1 = tbase st /\ loops st1 = loops st /\ ip st1 = ip st /\
  tcount st1 + 1 = tcount st /\ tused st1 = tused st /\ ext st st1 /\ wfst st1.
Proof.
  unfold pop_register. intros st st1 c H W.
  destruct (tcount st =? 0) eqn:E; [discriminate|]. apply N.eqb_neq in E.
  inversion H; subst; clear H.
  cbn [locals tbase loops ip tcount tused set_temps].
  splits; auto; try lia.
  - apply ext_same_locals; cbn; auto; lia.
  - pose proof (wf_cnt _ W). apply (wfst_same_locals st); [reflexivity|reflexivity|cbn; lia|exact W].
Qed.
