(* The general simulation statement (expressions that may leave through break / continue) and the
   statement-level constructs: parentheses, blocks. *)
From Coq Require Import ZArith NArith List Bool Lia.
From KV.comp Require Import Ast0 Sem0 Instr0 Comp0 VM0 Known0 InstrLemmas CompLemmas SemLemmas SimBase SimExpr.
Import ListNotations.
Open Scope N_scope.
Ltac Zify.zify_post_hook ::= Z.to_euclidean_division_equations.
Ltac norm_code H := repeat rewrite ?app_nil_l, ?app_nil_r in H; repeat rewrite <- app_assoc in H.

(* the innermost enclosing loop: its result register is live, writable, and its variable (if it
   is the register of one: `x = while ...`) is half-written and untouched by the code *)
Definition loop_ok (st : cst) (rs : regfile) (D : ident -> bool) (e : expr) : Prop :=
  match loops st with
  | [] => True
  | li :: _ =>
    l_start li <= ip st /\
    forall lr, l_result li = Some lr ->
      lr < N.of_nat (length rs) /\
      (lr < nlocals st \/ (tbase st <= lr /\ lr < tbase st + tcount st)) /\
      forall x, slot_of st x = Some lr -> D x = true /\ assigns x e = false
  end.

Definition shapeQ st r out st' e : Prop :=
  if is_jump e then out = out_none /\ tcount st' = tcount st else shape st r out st' e.

Definition factsQ st r out st' (c : code) e :=
  ip st' = ip st + code_size c /\ ext st st' /\ wfst st' /\ shapeQ st r out st' e.

Definition frameL st st' r (li : loopinfo) (rs rs' : regfile) e :=
  forall k, k < tbase st + tcount st -> Some k <> dest r -> Some k <> l_result li ->
    (forall x, assigns x e = true -> slot_of st' x <> Some k) -> get rs' k = get rs k.

Section SimQ.
  Variable pool : list pentry.

  Definition dynQ e r st out st' (c : code) :=
    forall n s rs D prog brk F,
      ext st' F -> wfst F ->
      known_expr e = false ->
      inv F D s rs -> (forall x, D x = true -> reads x e = false) ->
      dest_ok st r rs D e -> (esc e = true -> loop_ok st rs D e) ->
      tbase st + tused st' <= N.of_nat (length rs) ->
      cares prog brk (ip st) c ->
      match eval n s e with
      | ONorm v s' =>
        exists rs', star pool prog (ip st) rs (ip st') rs' /\ length rs' = length rs /\
                    inv F (dirty F r D) s' rs' /\
                    (forall ro, o_reg out = Some ro -> get rs' ro = Some v) /\
                    frame st st' r rs rs' e /\
                    (forall x, assigns x e = false -> s' x = s x) /\
                    (forall d, r = RFixed d -> get rs' d = Some v)
      | OBrk v s' =>
        match loops st with
        | [] => False
        | li :: _ =>
          exists rs', star pool prog (ip st) rs brk rs' /\ length rs' = length rs /\
                      inv F (dirty F r D) s' rs' /\
                      (forall lr, l_result li = Some lr -> get rs' lr = Some v) /\
                      frameL st st' r li rs rs' e /\
                      (forall x, assigns x e = false -> s' x = s x)
        end
      | OCont s' =>
        match loops st with
        | [] => False
        | li :: _ =>
          exists rs', star pool prog (ip st) rs (l_start li) rs' /\ length rs' = length rs /\
                      inv F (dirty F r D) s' rs' /\
                      (forall lr, l_result li = Some lr -> get rs' lr = Some VNull) /\
                      frameL st st' r li rs rs' e /\
                      (forall x, assigns x e = false -> s' x = s x)
        end
      | OErr ce => stops pool prog (ip st) rs (VFail ce)
      | OFuel => True
      end.

  Definition Q e := wf_expr e = true -> forall r st out st' c,
      comp pool e r st = OK (out, st', c) -> wfst st -> dropped (is_none r) e = false ->
      factsQ st r out st' c e /\ dynQ e r st out st' c.

  Lemma is_jump_esc : forall e, is_jump e = true -> esc e = true.
  Proof.
    induction e using expr_ind2; cbn [is_jump esc]; intros J; try discriminate; auto.
    induction es as [|e0 rest IHr]; [discriminate|].
    inversion H; subst. cbn [any_list]. destruct rest as [|e1 rest].
    - rewrite (H2 J). reflexivity.
    - rewrite (IHr H3 J). apply orb_true_r.
  Qed.

  Lemma P_to_Q : forall e, P pool e -> esc e = false -> Q e.
  Proof.
    intros e HP NE _ r st out st' c H W Dr.
    destruct (HP r st out st' c H W Dr) as ((I & E & W' & SH) & DY). split.
    - unfold factsQ, shapeQ. splits; auto.
      destruct (is_jump e) eqn:J; [apply is_jump_esc in J; congruence|exact SH].
    - intros n s rs D prog brk F EF WFF K IV RD DO LO B CA.
      specialize (DY n s rs D prog brk F EF WFF K IV RD DO B CA).
      destruct (eval n s e); auto; try contradiction.
      destruct DY as (rs' & A1 & A2 & A3 & A4 & A5 & A6). exists rs'. splits; auto.
      intros d ->. apply A4. cbn [shape] in SH. destruct SH as (-> & _). reflexivity.
  Qed.

  Lemma Q_to_P : forall e, Q e -> wf_expr e = true -> esc e = false -> P pool e.
  Proof.
    intros e HQ WF NE r st out st' c H W Dr.
    destruct (HQ WF r st out st' c H W Dr) as ((I & E & W' & SH) & DY). split.
    - unfold facts. splits; auto. unfold shapeQ in SH.
      destruct (is_jump e) eqn:J; [apply is_jump_esc in J; congruence|exact SH].
    - intros n s rs D prog brk F EF WFF K IV RD DO B CA.
      assert (LO : esc e = true -> loop_ok st rs D e) by (intros; congruence).
      specialize (DY n s rs D prog brk F EF WFF K IV RD DO LO B CA).
      pose proof (sem_no_esc n e s NE) as NJ.
      destruct (eval n s e); auto; try contradiction.
      destruct DY as (rs' & A1 & A2 & A3 & A4 & A5 & A6 & A7). exists rs'. splits; auto.
  Qed.

  Lemma nestedQ : forall a, Q a -> Q (ENested a).
  Proof.
    intros a IH WF r st out st' c H W Dr. cbn [wf_expr comp dropped] in *.
    destruct (IH WF r st out st' c H W Dr) as (FF & Dy). split.
    - unfold factsQ, shapeQ, shape in *. cbn [is_jump out_var]. exact FF.
    - intros n s rs D prog brk F EF WFF K IV RD DO LO B CA. destruct n; [exact Logic.I|]. cbn [eval].
      cbn [known_expr] in K.
      assert (DO' : dest_ok st r rs D a).
      { intros d E. destruct (DO d E) as (A1 & A2 & A3). splits; auto. }
      specialize (Dy n s rs D prog brk F EF WFF K IV RD DO' LO B CA).
      destruct (eval n s a); auto.
  Qed.

  Lemma blockQ_one : forall e, Q e -> Q (EBlock [e]).
  Proof.
    intros a IH WF r st out st' c H W Dr.
    cbn [wf_expr all_list] in WF. rewrite andb_true_r in WF.
    cbn [comp comp_block] in H. cbn [dropped drop_block] in Dr.
    destruct (IH WF r st out st' c H W Dr) as (FF & Dy). split.
    - unfold factsQ, shapeQ, shape in *. cbn [is_jump out_var]. exact FF.
    - intros n s rs D prog brk F EF WFF K IV RD DO LO B CA. destruct n; [exact Logic.I|].
      cbn [eval eval_block]. cbn [known_expr any_list] in K. rewrite orb_false_r in K.
      assert (RD' : forall x, D x = true -> reads x a = false).
      { intros x Dx. apply RD in Dx. cbn in Dx. rewrite orb_false_r in Dx. exact Dx. }
      assert (DO' : dest_ok st r rs D a).
      { intros d E. destruct (DO d E) as (A1 & A2 & A3). splits; auto. }
      assert (LO' : esc a = true -> loop_ok st rs D a).
      { intros E. cbn [esc any_list] in LO. rewrite orb_false_r in LO. specialize (LO E).
        unfold loop_ok in *. destruct (loops st); [exact Logic.I|]. destruct LO as (LS & LO).
        split; [exact LS|]. intros lr L.
        destruct (LO lr L) as (A1 & A2 & A3). splits; auto. intros x Sx.
        destruct (A3 x Sx) as (B1 & B2). cbn in B2. rewrite orb_false_r in B2. auto. }
      specialize (Dy n s rs D prog brk F EF WFF K IV RD' DO' LO' B CA).
      assert (AS : forall x, assigns x (EBlock [a]) = assigns x a).
      { intros. cbn. apply orb_false_r. }
      unfold frame, frameL in *.
      destruct (eval n s a); auto.
      + destruct Dy as (rs' & A1 & A2 & A3 & A4 & A5 & A6 & A7). exists rs'. splits; auto.
        * intros k K1 K2 K3. apply A5; auto. intros x AX. apply K3. rewrite AS. exact AX.
        * intros x AX. apply A6. rewrite <- AS. exact AX.
      + destruct (loops st); [exact Dy|].
        destruct Dy as (rs' & A1 & A2 & A3 & A4 & A5 & A6). exists rs'. splits; auto.
        * intros k K1 K2 K2' K3. apply A5; auto. intros x AX. apply K3. rewrite AS. exact AX.
        * intros x AX. apply A6. rewrite <- AS. exact AX.
      + destruct (loops st); [exact Dy|].
        destruct Dy as (rs' & A1 & A2 & A3 & A4 & A5 & A6). exists rs'. splits; auto.
        * intros k K1 K2 K2' K3. apply A5; auto. intros x AX. apply K3. rewrite AS. exact AX.
        * intros x AX. apply A6. rewrite <- AS. exact AX.
  Qed.

  Lemma dirty_none : forall st D s rs st', inv st (dirty st' RNone D) s rs -> inv st D s rs.
  Proof. intros. eapply inv_weaken; eauto. intros x Hx. unfold dirty in Hx. cbn in Hx. rewrite orb_false_r in Hx. exact Hx. Qed.

  (* a context fact that survives an extension of the compile state which keeps the temporaries *)
  Lemma loop_ok_ext : forall st st1 (rs rs1 : regfile) D e e1,
    ext st st1 -> wfst st -> wfst st1 -> tcount st1 = tcount st -> length rs1 = length rs ->
    ip st <= ip st1 ->
    (forall x, assigns x e1 = true -> assigns x e = true) ->
    loop_ok st rs D e -> loop_ok st1 rs1 D e1.
  Proof.
    intros st st1 rs rs1 D e e1 E W W1 TC LN IP AS LO. unfold loop_ok in *.
    rewrite (ext_loops _ _ E). destruct (loops st) as [|li ls]; [exact Logic.I|].
    destruct LO as (LS & LO). split; [lia|].
    intros lr L. destruct (LO lr L) as (A1 & A2 & A3).
    pose proof (ext_tbase _ _ E). pose proof (ext_len _ _ E). splits.
    - lia.
    - destruct A2 as [A2|A2]; [left; lia|right; lia].
    - intros x Sx. assert (Sx0 : slot_of st x = Some lr).
      { destruct A2 as [A2|A2]; [eapply slot_of_old; eauto|].
        destruct (slot_of_id _ _ _ Sx) as (L1 & _). pose proof (wf_len _ W1). lia. }
      destruct (A3 x Sx0) as (B1 & B2). split; [assumption|].
      destruct (assigns x e1) eqn:AX; [|reflexivity]. rewrite (AS _ AX) in B2. discriminate.
  Qed.

  Lemma dest_ok_ext : forall st st1 r (rs rs1 : regfile) D e e1,
    ext st st1 -> wfst st1 -> tcount st1 = tcount st -> length rs1 = length rs ->
    (forall x, fixed_ok x e = true -> fixed_ok x e1 = true) ->
    dest_ok st r rs D e -> dest_ok st1 r rs1 D e1.
  Proof.
    intros st st1 r rs rs1 D e e1 E W1 TC LN FX DO d Ed. destruct (DO d Ed) as (A1 & A2 & A3).
    pose proof (ext_tbase _ _ E). pose proof (ext_len _ _ E). splits.
    - lia.
    - destruct A2 as [A2|A2]; [left; lia|right; lia].
    - intros x Sx. apply FX. apply A3. destruct A2 as [A2|A2]; [eapply slot_of_old; eauto|].
      destruct (slot_of_id _ _ _ Sx) as (L1 & _). pose proof (wf_len _ W1). lia.
  Qed.

  Lemma blockQ_cons : forall e e2 rest, Q e -> Q (EBlock (e2 :: rest)) -> Q (EBlock (e :: e2 :: rest)).
  Proof.
    intros e e2 rest IHe IHr WF r st out st' c H W Dr.
    cbn [wf_expr all_list] in WF. apply andb_prop in WF as [WFe WFr].
    assert (WFr' : wf_expr (EBlock (e2 :: rest)) = true) by exact WFr.
    cbn [comp comp_block] in H.
    apply bind_inv in H. destruct H as (o1 & st1 & c1 & c2 & H1 & H2 & ->).
    cbn [dropped drop_block] in Dr. apply orb_false_elim in Dr as [D1 D2].
    destruct (IHe WFe RNone st o1 st1 c1 H1 W D1) as ((I1 & E1 & W1 & SH1) & DY1).
    assert (H2' : comp pool (EBlock (e2 :: rest)) r st1 = OK (out, st', c2)) by exact H2.
    destruct (IHr WFr' r st1 out st' c2 H2' W1 D2) as ((I2 & E2 & W2 & SH2) & DY2).
    assert (TC1 : tcount st1 = tcount st).
    { unfold shapeQ in SH1. destruct (is_jump e); [tauto|]. cbn [shape] in SH1. tauto. }
    pose proof (ext_tbase _ _ E1) as TB1.
    split.
    - unfold factsQ. splits; auto.
      + rewrite code_size_app. lia.
      + eapply ext_trans; eauto.
      + assert (IJ : is_jump (EBlock (e :: e2 :: rest)) = is_jump (EBlock (e2 :: rest))) by reflexivity.
        assert (OVc : out_var (EBlock (e :: e2 :: rest)) = out_var (EBlock (e2 :: rest))) by reflexivity.
        unfold shapeQ in *. rewrite IJ. destruct (is_jump (EBlock (e2 :: rest))).
        * destruct SH2. split; [assumption|lia].
        * unfold shape in *. rewrite OVc. rewrite TB1, TC1 in SH2. exact SH2.
    - intros n s rs D prog brk F EF WFF K IV RD DO LO B CA. destruct n; [exact Logic.I|].
      change (eval (S n) s (EBlock (e :: e2 :: rest))) with
        (match eval n s e with ONorm _ s1 => eval_block (eval n) s1 (e2 :: rest) | o => o end).
      cbn [known_expr any_list] in K. apply orb_false_elim in K as [K1 K2].
      apply cares_app in CA as [CA1 CA2].
      assert (RD1 : forall x, D x = true -> reads x e = false).
      { intros x Dx. apply RD in Dx. cbn in Dx. apply orb_false_elim in Dx. tauto. }
      assert (RD2 : forall x, D x = true -> reads x (EBlock (e2 :: rest)) = false).
      { intros x Dx. apply RD in Dx. cbn in Dx. apply orb_false_elim in Dx. cbn. tauto. }
      assert (DO1 : dest_ok st RNone rs D e) by (intros d Ed; discriminate).
      assert (LO1 : esc e = true -> loop_ok st rs D e).
      { intros E. eapply (loop_ok_ext st st rs rs D (EBlock (e :: e2 :: rest)) e); eauto using ext_refl; try lia.
        - intros x AX. cbn. rewrite AX. reflexivity.
        - apply LO. cbn. rewrite E. reflexivity. }
      assert (B1 : tbase st + tused st1 <= N.of_nat (length rs)) by (pose proof (ext_used _ _ E2); lia).
      assert (EF1 : ext st1 F) by (eapply ext_trans; eauto).
      specialize (DY1 n s rs D prog brk F EF1 WFF K1 IV RD1 DO1 LO1 B1 CA1).
      assert (AS1 : forall x, assigns x e = true -> assigns x (EBlock (e :: e2 :: rest)) = true).
      { intros x AX. cbn. rewrite AX. reflexivity. }
      assert (AS2 : forall x, assigns x (EBlock (e2 :: rest)) = true -> assigns x (EBlock (e :: e2 :: rest)) = true).
      { intros x AX. cbn in *. rewrite AX. apply orb_true_r. }
      assert (ASF : forall x, assigns x (EBlock (e :: e2 :: rest)) = false ->
                              assigns x e = false /\ assigns x (EBlock (e2 :: rest)) = false).
      { intros x AX. cbn in *. apply orb_false_elim in AX. exact AX. }
      destruct (eval n s e) as [v1 s1| v1 s1 | s1 | ce |]; auto.
      + (* the statement completes: go on with the rest *)
        destruct DY1 as (rs1 & St1 & LN1 & IV1 & _ & FR1 & SF1 & _). apply dirty_none in IV1.
        assert (DO2 : dest_ok st1 r rs1 D (EBlock (e2 :: rest))).
        { eapply dest_ok_ext; eauto. }
        assert (LO2 : esc (EBlock (e2 :: rest)) = true -> loop_ok st1 rs1 D (EBlock (e2 :: rest))).
        { intros E. eapply (loop_ok_ext st st1 rs rs1 D (EBlock (e :: e2 :: rest))); eauto; try lia.
          apply LO. cbn in *. rewrite E. apply orb_true_r. }
        assert (B2 : tbase st1 + tused st' <= N.of_nat (length rs1)) by (rewrite LN1, TB1; exact B).
        rewrite <- I1 in CA2.
        specialize (DY2 (S n) s1 rs1 D prog brk F EF WFF K2 IV1 RD2 DO2 LO2 B2 CA2).
        change (eval (S n) s1 (EBlock (e2 :: rest))) with (eval_block (eval n) s1 (e2 :: rest)) in DY2.
        assert (FRk : forall k, k < tbase st + tcount st ->
                   (forall x, assigns x (EBlock (e :: e2 :: rest)) = true -> slot_of st' x <> Some k) ->
                   get rs1 k = get rs k).
        { intros k K3 K4. apply FR1; auto. cbn. discriminate.
          intros x AX. eapply slot_ext_neq; [exact E2|]. apply K4. auto. }
        rewrite (ext_loops _ _ E1) in DY2.
        destruct (eval_block (eval n) s1 (e2 :: rest)) as [v s'| v s' | s' | ce |]; auto.
        * destruct DY2 as (rs' & A1 & A2 & A3 & A4 & A5 & A6 & A7). exists rs'. splits; auto.
          -- eapply star_trans; eauto.
          -- lia.
          -- intros k K3 K4 K5. rewrite A5; auto. rewrite TB1, TC1. exact K3.
          -- intros x AX. destruct (ASF x AX) as (X1 & X2). rewrite (A6 _ X2). auto.
        * destruct (loops st) as [|li ls]; [exact DY2|].
          destruct DY2 as (rs' & A1 & A2 & A3 & A4 & A5 & A6). exists rs'. splits; auto.
          -- eapply star_trans; eauto.
          -- lia.
          -- intros k K3 K4 K4' K5. rewrite A5; auto. rewrite TB1, TC1. exact K3.
          -- intros x AX. destruct (ASF x AX) as (X1 & X2). rewrite (A6 _ X2). auto.
        * destruct (loops st) as [|li ls]; [exact DY2|].
          destruct DY2 as (rs' & A1 & A2 & A3 & A4 & A5 & A6). exists rs'. splits; auto.
          -- eapply star_trans; eauto.
          -- lia.
          -- intros k K3 K4 K4' K5. rewrite A5; auto. rewrite TB1, TC1. exact K3.
          -- intros x AX. destruct (ASF x AX) as (X1 & X2). rewrite (A6 _ X2). auto.
        * eapply star_stops; eauto.
      + (* break: the rest of the block is skipped *)
        destruct (loops st) as [|li ls]; [exact DY1|].
        destruct DY1 as (rs1 & St1 & LN1 & IV1 & RL & FR1 & SF1). apply dirty_none in IV1.
        exists rs1. splits; auto.
        * eapply inv_weaken; [exact IV1|]. intros. apply dirty_mono. assumption.
        * intros k K3 K4 K4' K5. apply FR1; auto. cbn. discriminate.
          intros x AX. eapply slot_ext_neq; [exact E2|]. apply K5. auto.
        * intros x AX. destruct (ASF x AX). auto.
      + destruct (loops st) as [|li ls]; [exact DY1|].
        destruct DY1 as (rs1 & St1 & LN1 & IV1 & RL & FR1 & SF1). apply dirty_none in IV1.
        exists rs1. splits; auto.
        * eapply inv_weaken; [exact IV1|]. intros. apply dirty_mono. assumption.
        * intros k K3 K4 K4' K5. apply FR1; auto. cbn. discriminate.
          intros x AX. eapply slot_ext_neq; [exact E2|]. apply K5. auto.
        * intros x AX. destruct (ASF x AX). auto.
  Qed.

  Lemma blockQ_nil : Q (EBlock []).
  Proof.
    apply P_to_Q; [|reflexivity].
    intros r st out st' c H W _.
    assert (H' : comp pool ENull r st = OK (out, st', c)).
    { cbn [comp comp_block] in *.
      apply bind_inv in H. destruct H as (res & st1 & c1 & c2 & HR & H & ->).
      destruct (o_reg res) as [reg|] eqn:OR; [|discriminate H].
      assert (BO : forall A B (m : M A) (f : A -> M B) st a st1 c1 b st2 c2,
                 m st = OK (a, st1, c1) -> f a st1 = OK (b, st2, c2) ->
                 bind m f st = OK (b, st2, c1 ++ c2)).
      { intros A B m f st0 a st0' c0 b st2 c3 M1 M2. unfold bind. rewrite M1, M2. reflexivity. }
      eapply BO; [exact HR|]. rewrite OR. cbn [emit_opt]. exact H. }
    assert (X : facts st r out st' c ENull /\ dyn pool ENull r st out st' c).
    { eapply (lit_case pool ENull ISetNull VNull); eauto. }
    destruct X as (FF & DY). split.
    - exact FF.
    - intros n s rs D prog brk F EF WFF K IV RD DO B CA.
      assert (DO' : dest_ok st r rs D ENull).
      { intros d E. destruct (DO d E) as (A1 & A2 & A3). splits; auto. }
      specialize (DY n s rs D prog brk F EF WFF eq_refl IV (fun _ _ => eq_refl) DO' B CA).
      destruct n; [exact Logic.I|]. exact DY.
  Qed.

  Lemma blockQ : forall es, Forall Q es -> Q (EBlock es).
  Proof.
    induction es as [|e rest IH]; intros F; [apply blockQ_nil|].
    inversion F; subst. destruct rest as [|e2 rest].
    - apply blockQ_one. assumption.
    - apply blockQ_cons; auto.
  Qed.
End SimQ.
