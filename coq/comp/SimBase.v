(* Infrastructure of the simulation proof: execution relation of the instruction machine,
   the invariant relating a compile state, a Sem0 environment and a register file. *)
From Coq Require Import ZArith NArith List Bool Lia.
From KV.comp Require Import Ast0 Sem0 Instr0 Comp0 VM0 Known0 InstrLemmas CompLemmas.
Import ListNotations.
Open Scope N_scope.
Ltac Zify.zify_post_hook ::= Z.to_euclidean_division_equations.

(* ---- register file *)
Lemma get_set_same : forall rs r v rs', set rs r v = Some rs' -> get rs' r = Some v.
Proof.
  unfold set, get. intros rs r v rs' H. destruct (r <? N.of_nat (length rs)) eqn:E; [|discriminate].
  inversion H; subst. apply N.ltb_lt in E. rewrite nth_error_set_nth, Nat.eqb_refl.
  destruct (nth_error rs (N.to_nat r)) eqn:F; [reflexivity|].
  apply nth_error_None in F. lia.
Qed.

Lemma get_set_other : forall rs r v rs' k, set rs r v = Some rs' -> k <> r -> get rs' k = get rs k.
Proof.
  unfold set, get. intros rs r v rs' k H N. destruct (r <? N.of_nat (length rs)); [|discriminate].
  inversion H; subst. rewrite nth_error_set_nth.
  destruct (Nat.eqb (N.to_nat r) (N.to_nat k)) eqn:E; [apply Nat.eqb_eq in E; lia|reflexivity].
Qed.

Lemma set_length : forall rs r v rs', set rs r v = Some rs' -> length rs' = length rs.
Proof.
  unfold set. intros rs r v rs' H. destruct (r <? N.of_nat (length rs)); [|discriminate].
  inversion H; subst. apply length_set_nth.
Qed.

Lemma set_ok : forall rs r v, r < N.of_nat (length rs) -> exists rs', set rs r v = Some rs'.
Proof. unfold set. intros. apply N.ltb_lt in H. rewrite H. eauto. Qed.

(* ---- execution of the instruction machine *)
Section Exec.
  Variable consts : list pentry.
  Variable prog : code.

  Inductive star : N -> regfile -> N -> regfile -> Prop :=
  | star_refl : forall pc rs, star pc rs pc rs
  | star_step : forall pc rs pc1 rs1 pc2 rs2,
      istep consts prog pc rs = SNext pc1 rs1 -> star pc1 rs1 pc2 rs2 -> star pc rs pc2 rs2.

  Lemma star_trans : forall a ra b rb c rc, star a ra b rb -> star b rb c rc -> star a ra c rc.
  Proof. induction 1; intros; [assumption|]. econstructor; eauto. Qed.

  Lemma star_one : forall pc rs pc1 rs1, istep consts prog pc rs = SNext pc1 rs1 -> star pc rs pc1 rs1.
  Proof. intros. econstructor; eauto. constructor. Qed.

  Definition stops (pc : N) (rs : regfile) (r : vmres) : Prop :=
    exists pc' rs', star pc rs pc' rs' /\ istep consts prog pc' rs' = SStop r.

  Lemma star_stops : forall a ra b rb r, star a ra b rb -> stops b rb r -> stops a ra r.
  Proof. intros a ra b rb r S (pc' & rs' & S' & E). exists pc', rs'. split; [eapply star_trans; eauto|assumption]. Qed.

  Lemma stops_run : forall pc rs r, stops pc rs r -> exists n, irun_from n consts prog pc rs = r.
  Proof.
    intros pc rs r (pc' & rs' & St & E). induction St.
    - exists 1%nat. cbn. rewrite E. reflexivity.
    - destruct (IHSt E) as (n & Hn). exists (S n). cbn. rewrite H. assumption.
  Qed.

  Lemma istep_at : forall pc i rs, code_at prog pc [i] ->
    istep consts prog pc rs = exec consts i (pc + size i) rs.
  Proof. intros. unfold istep. rewrite (code_at_instr _ _ _ H). reflexivity. Qed.
End Exec.

(* ---- the invariant *)
Record inv (st : cst) (D : ident -> bool) (s : env) (rs : regfile) : Prop := {
  inv_agree : forall x l, slot_of st x = Some l -> D x = false -> get rs l = Some (s x);
  inv_fresh : forall k, nlocals st <= k -> k < tbase st -> get rs k = Some VNull;
  inv_unset : forall x, slot_of st x = None -> s x = VNull
}.

Definition dest (r : rr) : option N := match r with RFixed d => Some d | _ => None end.
Definition is_none (r : rr) : bool := match r with RNone => true | _ => false end.

Definition dirty (st' : cst) (r : rr) (D : ident -> bool) : ident -> bool :=
  fun x => D x || match r, slot_of st' x with RFixed d, Some l => l =? d | _, _ => false end.

Lemma dirty_mono : forall st r D x, D x = true -> dirty st r D x = true.
Proof. unfold dirty. intros. rewrite H. reflexivity. Qed.

Lemma dirty_nofixed : forall st r D x, dest r = None -> dirty st r D x = D x.
Proof. unfold dirty. intros. destruct r; cbn in *; try discriminate; apply orb_false_r. Qed.

Lemma inv_ext : forall st st' D s rs, inv st D s rs -> ext st st' -> wfst st' -> inv st' D s rs.
Proof.
  intros st st' D s rs [A B C] E W. constructor.
  - intros x l S Dx. destruct (slot_of st x) as [l0|] eqn:S0.
    + pose proof (ext_slot _ _ E _ _ S0). assert (l0 = l) by congruence. subst. auto.
    + pose proof (ext_new _ _ E _ _ S S0). rewrite (C x S0). apply B; [assumption|].
      destruct (slot_of_id _ _ _ S) as (L & _). pose proof (wf_len _ W). rewrite <- (ext_tbase _ _ E). lia.
  - intros k K1 K2. apply B; [pose proof (ext_len _ _ E); lia|rewrite <- (ext_tbase _ _ E); assumption].
  - intros x S. apply C. destruct (slot_of st x) eqn:S0; [|reflexivity].
    rewrite (ext_slot _ _ E _ _ S0) in S. discriminate.
Qed.

Lemma inv_weaken : forall st (D D' : ident -> bool) s rs, inv st D s rs ->
  (forall x, D x = true -> D' x = true) -> inv st D' s rs.
Proof.
  intros st D D' s rs [A B C] H. constructor; auto.
  intros x l S Dx. apply A; [assumption|]. destruct (D x) eqn:E; [|reflexivity].
  rewrite (H _ E) in Dx. discriminate.
Qed.

Lemma inv_set : forall st D s rs r v rs', inv st D s rs -> set rs r v = Some rs' -> wfst st ->
  (tbase st <= r \/ (r < nlocals st /\ forall x, slot_of st x = Some r -> D x = true)) ->
  inv st D s rs'.
Proof.
  intros st D s rs r v rs' [A B C] S W H. constructor; auto.
  - intros x l Sx Dx. rewrite (get_set_other _ _ _ _ l S); [auto|].
    intros ->. destruct H as [H|[H1 H2]].
    + destruct (slot_of_id _ _ _ Sx) as (L & _). pose proof (wf_len _ W). lia.
    + rewrite (H2 _ Sx) in Dx. discriminate.
  - intros k K1 K2. rewrite (get_set_other _ _ _ _ k S); [auto|]. lia.
Qed.

Lemma inv_assign : forall st D s rs x l v, inv st D s rs -> slot_of st x = Some l ->
  get rs l = Some v -> inv st D (upd s x v) rs.
Proof.
  intros st D s rs x l v [A B C] S G. constructor; auto.
  - intros y ly Sy Dy. unfold upd. destruct (y =? x) eqn:E.
    + apply N.eqb_eq in E. subst. assert (ly = l) by congruence. subst. assumption.
    + auto.
  - intros y Sy. unfold upd. destruct (y =? x) eqn:E; [apply N.eqb_eq in E; subst; congruence|auto].
Qed.
