(* Infrastructure of the simulation proof: execution relation of the instruction machine,
   the invariant relating a compile state, a Sem0 environment and a register file. *)
From Coq Require Import ZArith NArith List Bool Lia.
From KV.comp Require Import Ast0 Sem0 Instr0 Comp0 VM0 Known0 InstrLemmas CompLemmas.
Import ListNotations.
Open Scope N_scope.
Ltac Zify.zify_post_hook ::= Z.to_euclidean_division_equations.

(* ---- register file *)
Lemma get_set_same : forall rs r v rs', set rs r v = Some rs' -> get rs' r = Some v.
Proof.
  unfold set, get. intros rs r v rs' H. destruct (r <? N.of_nat (length rs)) eqn:E; [|discriminate].
  inversion H; subst. apply N.ltb_lt in E. rewrite nth_error_set_nth, Nat.eqb_refl.
  destruct (nth_error rs (N.to_nat r)) eqn:F; [reflexivity|].
  apply nth_error_None in F. lia.
Qed.

Lemma get_set_other : forall rs r v rs' k, set rs r v = Some rs' -> k <> r -> get rs' k = get rs k.
Proof.
  unfold set, get. intros rs r v rs' k H N. destruct (r <? N.of_nat (length rs)); [|discriminate].
  inversion H; subst. rewrite nth_error_set_nth.
  destruct (Nat.eqb (N.to_nat r) (N.to_nat k)) eqn:E; [apply Nat.eqb_eq in E; lia|reflexivity].
Qed.

Lemma set_length : forall rs r v rs', set rs r v = Some rs' -> length rs' = length rs.
Proof.
  unfold set. intros rs r v rs' H. destruct (r <? N.of_nat (length rs)); [|discriminate].
  inversion H; subst. apply length_set_nth.
Qed.

Lemma set_ok : forall rs r v, r < N.of_nat (length rs) -> exists rs', set rs r v = Some rs'.
Proof. unfold set. intros. apply N.ltb_lt in H. rewrite H. eauto. Qed.

(* ---- execution of the instruction machine *)
Section Exec.
  Variable consts : list pentry.
  Variable prog : code.

  Inductive star : N -> regfile -> N -> regfile -> Prop :=
  | star_refl : forall pc rs, star pc rs pc rs
  | star_step : forall pc rs pc1 rs1 pc2 rs2,
      istep consts prog pc rs = SNext pc1 rs1 -> star pc1 rs1 pc2 rs2 -> star pc rs pc2 rs2.

  Lemma star_trans : forall a ra b rb c rc, star a ra b rb -> star b rb c rc -> star a ra c rc.
  Proof. induction 1; intros; [assumption|]. econstructor; eauto. Qed.

  Lemma star_one : forall pc rs pc1 rs1, istep consts prog pc rs = SNext pc1 rs1 -> star pc rs pc1 rs1.
  Proof. intros. econstructor; eauto. constructor. Qed.

  Definition stops (pc : N) (rs : regfile) (r : vmres) : Prop :=
    exists pc' rs', star pc rs pc' rs' /\ istep consts prog pc' rs' = SStop r.

  Lemma star_stops : forall a ra b rb r, star a ra b rb -> stops b rb r -> stops a ra r.
  Proof. intros a ra b rb r S (pc' & rs' & S' & E). exists pc', rs'. split; [eapply star_trans; eauto|assumption]. Qed.

  Lemma stops_run : forall pc rs r, stops pc rs r -> exists n, irun_from n consts prog pc rs = r.
  Proof.
    intros pc rs r (pc' & rs' & St & E). induction St.
    - exists 1%nat. cbn. rewrite E. reflexivity.
    - destruct (IHSt E) as (n & Hn). exists (S n). cbn. rewrite H. assumption.
  Qed.

  Lemma istep_at : forall pc i rs, code_at prog pc [i] ->
    istep consts prog pc rs = exec consts i (pc + size i) rs.
  Proof. intros. unfold istep. rewrite (code_at_instr _ _ _ H). reflexivity. Qed.
End Exec.

(* ---- the invariant *)
Record inv (st : cst) (D : ident -> bool) (s : env) (rs : regfile) : Prop := {
  inv_agree : forall x l, slot_of st x = Some l -> D x = false -> get rs l = Some (s x);
  inv_fresh : forall k, nlocals st <= k -> k < tbase st -> get rs k = Some VNull;
  inv_unset : forall x, slot_of st x = None -> s x = VNull
}.

Definition dest (r : rr) : option N := match r with RFixed d => Some d | _ => None end.
Definition is_none (r : rr) : bool := match r with RNone => true | _ => false end.

Definition dirty (st' : cst) (r : rr) (D : ident -> bool) : ident -> bool :=
  fun x => D x || match r, slot_of st' x with RFixed d, Some l => l =? d | _, _ => false end.

Lemma dirty_mono : forall st r D x, D x = true -> dirty st r D x = true.
Proof. unfold dirty. intros. rewrite H. reflexivity. Qed.

Lemma dirty_nofixed : forall st r D x, dest r = None -> dirty st r D x = D x.
Proof. unfold dirty. intros. destruct r; cbn in *; try discriminate; apply orb_false_r. Qed.

Lemma inv_ext : forall st st' D s rs, inv st D s rs -> ext st st' -> wfst st' -> inv st' D s rs.
Proof.
  intros st st' D s rs [A B C] E W. constructor.
  - intros x l S Dx. destruct (slot_of st x) as [l0|] eqn:S0.
    + pose proof (ext_slot _ _ E _ _ S0). assert (l0 = l) by congruence. subst. auto.
    + pose proof (ext_new _ _ E _ _ S S0). rewrite (C x S0). apply B; [assumption|].
      destruct (slot_of_id _ _ _ S) as (L & _). pose proof (wf_len _ W). rewrite <- (ext_tbase _ _ E). lia.
  - intros k K1 K2. apply B; [pose proof (ext_len _ _ E); lia|rewrite <- (ext_tbase _ _ E); assumption].
  - intros x S. apply C. destruct (slot_of st x) eqn:S0; [|reflexivity].
    rewrite (ext_slot _ _ E _ _ S0) in S. discriminate.
Qed.

Lemma inv_weaken : forall st (D D' : ident -> bool) s rs, inv st D s rs ->
  (forall x, D x = true -> D' x = true) -> inv st D' s rs.
Proof.
  intros st D D' s rs [A B C] H. constructor; auto.
  intros x l S Dx. apply A; [assumption|]. destruct (D x) eqn:E; [|reflexivity].
  rewrite (H _ E) in Dx. discriminate.
Qed.

Lemma inv_set : forall st D s rs r v rs', inv st D s rs -> set rs r v = Some rs' -> wfst st ->
  (tbase st <= r \/ (r < nlocals st /\ forall x, slot_of st x = Some r -> D x = true)) ->
  inv st D s rs'.
Proof.
  intros st D s rs r v rs' [A B C] S W H. constructor; auto.
  - intros x l Sx Dx. rewrite (get_set_other _ _ _ _ l S); [auto|].
    intros ->. destruct H as [H|[H1 H2]].
    + destruct (slot_of_id _ _ _ Sx) as (L & _). pose proof (wf_len _ W). lia.
    + rewrite (H2 _ Sx) in Dx. discriminate.
  - intros k K1 K2. rewrite (get_set_other _ _ _ _ k S); [auto|]. lia.
Qed.

Lemma inv_assign : forall st D s rs x l v, inv st D s rs -> slot_of st x = Some l ->
  get rs l = Some v -> inv st D (upd s x v) rs.
Proof.
  intros st D s rs x l v [A B C] S G. constructor; auto.
  - intros y ly Sy Dy. unfold upd. destruct (y =? x) eqn:E.
    + apply N.eqb_eq in E. subst. assert (ly = l) by congruence. subst. assumption.
    + auto.
  - intros y Sy. unfold upd. destruct (y =? x) eqn:E; [apply N.eqb_eq in E; subst; congruence|auto].
Qed.

(* ---- code with unresolved `break` holes: what the chunk holds is the code as resolved by the
   enclosing loop (end ip [brk]) *)
Definition is_hole (i : instr) : bool := match i with IHole _ => true | _ => false end.

Definition cares (prog : code) (brk pc : N) (c : code) : Prop :=
  exists c', resolve brk c = OK c' /\ code_at prog pc c'.

Lemma resolve_app_1 : forall b c1 c2 c', resolve b (c1 ++ c2) = OK c' ->
  exists c1' c2', resolve b c1 = OK c1' /\ resolve b c2 = OK c2' /\ c' = c1' ++ c2'.
Proof.
  induction c1; intros c2 c' H.
  { exists [], c'. cbn [app] in H. splits; auto. }
  cbn [app resolve] in H |- *.
  destruct (resolve b (c1 ++ c2)) as [r|] eqn:R; [|discriminate].
  apply IHc1 in R. destruct R as (c1' & c2' & R1 & R2 & ->). rewrite R1.
  destruct a; try (inversion H; subst; eexists; eexists; splits; eauto; reflexivity).
  destruct ((p + 2 <=? b) && (b - p - 2 <=? 65535)); [|discriminate]. inversion H; subst.
  eexists; eexists; splits; eauto; reflexivity.
Qed.

Lemma resolve_app_2 : forall b c1 c2 c1' c2', resolve b c1 = OK c1' -> resolve b c2 = OK c2' ->
  resolve b (c1 ++ c2) = OK (c1' ++ c2').
Proof.
  induction c1; intros c2 c1' c2' H1 H2.
  { cbn in H1. inversion H1; subst. exact H2. }
  cbn [app resolve] in H1 |- *.
  destruct (resolve b c1) as [r1|] eqn:R1; [|discriminate].
  rewrite (IHc1 c2 r1 c2' eq_refl H2).
  destruct a; try (inversion H1; subst; reflexivity).
  destruct ((p + 2 <=? b) && (b - p - 2 <=? 65535)); [|discriminate]. inversion H1; subst. reflexivity.
Qed.

Lemma resolve_size : forall b c c', resolve b c = OK c' -> code_size c' = code_size c.
Proof.
  induction c; intros c' H; cbn [resolve] in H; [inversion H; reflexivity|].
  destruct (resolve b c) as [r|] eqn:R; [|discriminate]. specialize (IHc _ eq_refl).
  destruct a; try (inversion H; subst; cbn [code_size]; rewrite IHc; reflexivity).
  destruct ((p + 2 <=? b) && (b - p - 2 <=? 65535)); [|discriminate]. inversion H; subst. cbn [code_size size]. rewrite IHc. reflexivity.
Qed.

Lemma cares_app : forall prog brk pc c1 c2,
  cares prog brk pc (c1 ++ c2) <-> cares prog brk pc c1 /\ cares prog brk (pc + code_size c1) c2.
Proof.
  intros. unfold cares. split.
  - intros (c' & R & CA). apply resolve_app_1 in R. destruct R as (c1' & c2' & R1 & R2 & ->).
    apply code_at_app in CA. destruct CA as [CA1 CA2]. rewrite (resolve_size _ _ _ R1) in CA2. split; eauto.
  - intros [(c1' & R1 & CA1) (c2' & R2 & CA2)]. exists (c1' ++ c2'). split.
    + apply resolve_app_2; assumption.
    + apply code_at_app. rewrite (resolve_size _ _ _ R1). auto.
Qed.

Lemma resolve_one : forall b i, is_hole i = false -> resolve b [i] = OK [i].
Proof. intros b i H. destruct i; try reflexivity. discriminate. Qed.

Lemma cares_one : forall prog brk pc i, is_hole i = false -> cares prog brk pc [i] -> code_at prog pc [i].
Proof. intros prog brk pc i H (c' & R & CA). rewrite resolve_one in R by assumption. inversion R; subst. assumption. Qed.

Lemma cares_cons : forall prog brk pc i c, is_hole i = false ->
  cares prog brk pc (i :: c) -> code_at prog pc [i] /\ cares prog brk (pc + size i) c.
Proof.
  intros prog brk pc i c H CA. change (i :: c) with ([i] ++ c) in CA. apply cares_app in CA.
  destruct CA as [CA1 CA2]. split; [eapply cares_one; eauto|].
  cbn [code_size] in CA2. rewrite N.add_0_r in CA2. exact CA2.
Qed.

Lemma cares_hole : forall prog brk pc p, cares prog brk pc [IHole p] ->
  code_at prog pc [IJump (brk - p - 2)] /\ brk - p - 2 <= 65535 /\ p + 2 <= brk.
Proof.
  intros prog brk pc p (c' & R & CA). cbn [resolve] in R.
  destruct ((p + 2 <=? brk) && (brk - p - 2 <=? 65535)) eqn:E; [|discriminate]. inversion R; subst.
  apply andb_prop in E as [E1 E2]. apply N.leb_le in E1, E2. auto.
Qed.

Lemma resolve_idem : forall b c c', resolve b c = OK c' -> forall b2, resolve b2 c' = OK c'.
Proof.
  induction c; intros c' H b2; cbn [resolve] in H; [inversion H; reflexivity|].
  destruct (resolve b c) as [r|] eqn:R; [|discriminate]. specialize (IHc _ eq_refl b2).
  destruct a; try (inversion H; subst; cbn [resolve]; rewrite IHc; reflexivity).
  destruct ((p + 2 <=? b) && (b - p - 2 <=? 65535)); [|discriminate]. inversion H; subst. cbn [resolve]. rewrite IHc. reflexivity.
Qed.

(* code resolved by an inner loop sits in the chunk as it is, whatever the outer loop resolves *)
Lemma cares_resolved : forall prog b c c' brk pc, resolve b c = OK c' ->
  cares prog brk pc c' -> cares prog b pc c.
Proof.
  intros prog b c c' brk pc R (c'' & R2 & CA). rewrite (resolve_idem _ _ _ R brk) in R2.
  inversion R2; subst. exists c''. auto.
Qed.
