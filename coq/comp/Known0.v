(* Decidable syntactic classes used by the simulation theorem.

   known_C01 p : the class of programs hit by the genuine defect K1 of the unchanged tree
     (a) result-register aliasing in compile_assign:  `x = rhs` passes x's own register as the Fixed
         result register into rhs; rhs shapes that write their result register before they finish
         evaluating (and / or, comparison chains, loops) then read a half-written x
         (`x = y and x`, `x = 1 < x < 5`, `x = while x < 3 ...`);
     (b) operand aliasing: an operand that is a bare local (or an assignment, whose value lives in
         the local's register) is not copied, so a later operand of the same operator that assigns
         the local changes the earlier operand (`x + (x = 5)`, `(x = 3) + (x = 4)`,
         `x < (x = 10)`).
   wf0 p : restrictions of the proved fragment that are not defects:
     `break` / `continue` may not leave the right-hand side of an assignment, a loop condition or
     a `break` value (the guide does not say what a half-evaluated assignment leaves behind). *)
From Coq Require Import ZArith NArith List Bool.
From KV.comp Require Import Ast0.
Import ListNotations.

Section ListHelpers.
  Variable f : expr -> bool.
  Fixpoint any_list (es : list expr) : bool :=
    match es with [] => false | e :: r => f e || any_list r end.
  Fixpoint any_arms (arms : list (expr * expr)) : bool :=
    match arms with [] => false | (c, t) :: r => f c || f t || any_arms r end.
  Definition any_opt (o : option expr) : bool :=
    match o with Some e => f e | None => false end.
  Fixpoint all_list (es : list expr) : bool :=
    match es with [] => true | e :: r => f e && all_list r end.
  Fixpoint all_arms (arms : list (expr * expr)) : bool :=
    match arms with [] => true | (c, t) :: r => f c && f t && all_arms r end.
  Definition all_opt (o : option expr) : bool :=
    match o with Some e => f e | None => true end.
  (* the branches (not the conditions) *)
  Fixpoint all_branches (arms : list (expr * expr)) : bool :=
    match arms with [] => true | (_, t) :: r => f t && all_branches r end.
  Fixpoint last_of (es : list expr) : bool :=
    match es with [] => true | e :: r => match r with [] => f e | _ => last_of r end end.
  Variable g : expr -> bool.
  (* arms whose conditions do not satisfy g *)
  Fixpoint cond_arms (arms : list (expr * expr)) : bool :=
    match arms with [] => true | (c, t) :: r => negb (g c) && f c && f t && cond_arms r end.
End ListHelpers.

(* e mentions the value of x *)
Fixpoint reads (x : ident) (e : expr) : bool :=
  match e with
  | ENull | EBool _ | EInt _ | EContinue | EBreak None => false
  | EId y => N.eqb y x
  | ENested a | ENeg a | ENot a | ELoop a | EAssign _ a | EBreak (Some a) => reads x a
  | EOpAssign _ y a => N.eqb y x || reads x a
  | EArith _ a b | ECmp _ a b | ELogic _ a b | EWhile a b | EUntil a b => reads x a || reads x b
  | EBlock es => any_list (reads x) es
  | EIf c t elifs els => any_arms (reads x) ((c, t) :: elifs) || any_opt (reads x) els
  end.

(* e contains an assignment to x *)
Fixpoint assigns (x : ident) (e : expr) : bool :=
  match e with
  | ENull | EBool _ | EInt _ | EContinue | EBreak None | EId _ => false
  | ENested a | ENeg a | ENot a | ELoop a | EBreak (Some a) => assigns x a
  | EAssign y a | EOpAssign _ y a => N.eqb y x || assigns x a
  | EArith _ a b | ECmp _ a b | ELogic _ a b | EWhile a b | EUntil a b => assigns x a || assigns x b
  | EBlock es => any_list (assigns x) es
  | EIf c t elifs els => any_arms (assigns x) ((c, t) :: elifs) || any_opt (assigns x) els
  end.

(* e contains a break / continue that is not enclosed by a loop inside e *)
Fixpoint esc (e : expr) : bool :=
  match e with
  | ENull | EBool _ | EInt _ | EId _ => false
  | EContinue | EBreak _ => true
  | EWhile c _ | EUntil c _ => esc c      (* a loop catches the jumps of its body *)
  | ELoop _ => false
  | ENested a | ENeg a | ENot a | EAssign _ a | EOpAssign _ _ a => esc a
  | EArith _ a b | ECmp _ a b | ELogic _ a b => esc a || esc b
  | EBlock es => any_list esc es
  | EIf c t elifs els => any_arms esc ((c, t) :: elifs) || any_opt esc els
  end.

(* compiled with result mode Any, e yields the register of this local (no temporary, no copy) *)
Fixpoint out_var (e : expr) : option ident :=
  match e with
  | EId x => Some x
  | EAssign x _ => Some x
  | ENested a => out_var a
  | EBlock es =>
    (fix last (es : list expr) : option ident :=
       match es with
       | [] => None
       | e :: r => match r with [] => out_var e | _ => last r end
       end) es
  | _ => None
  end.
Definition holds_var (x : ident) (e : expr) : bool :=
  match out_var e with Some y => N.eqb y x | None => false end.

(* compiled with Fixed (register of x), e never reads x after its first write of that register
   (in a comparison chain the later operands may not assign x either: a middle operand `(x = 3)`
   lives in x's register, which the link before it overwrites) *)
Fixpoint fixed_ok (x : ident) (e : expr) : bool :=
  match e with
  | ENested a => fixed_ok x a
  | ELogic _ a b => fixed_ok x a && negb (reads x b) && fixed_ok x b
  | ECmp _ _ (ECmp _ b c) =>
    negb (reads x b) && negb (reads x c) && negb (assigns x b) && negb (assigns x c)
  | EWhile _ _ | EUntil _ _ | ELoop _ => negb (reads x e) && negb (assigns x e)
  | EBlock es => last_of (fixed_ok x) es
  | EIf c t elifs els => all_branches (fixed_ok x) ((c, t) :: elifs) && all_opt (fixed_ok x) els
  | _ => true
  end.

(* the operand evaluated right after the left operand of a comparison *)
Definition next_operand (rhs : expr) : expr :=
  match rhs with ECmp _ b _ => b | _ => rhs end.

Definition aliased (a b : expr) : bool :=
  match out_var a with Some x => assigns x b | None => false end.

Fixpoint known_expr (e : expr) : bool :=
  match e with
  | ENull | EBool _ | EInt _ | EId _ | EContinue | EBreak None => false
  | ENested a | ENeg a | ENot a | ELoop a | EOpAssign _ _ a | EBreak (Some a) => known_expr a
  | EAssign x a => negb (fixed_ok x a) || known_expr a
  | EArith _ a b => aliased a b || known_expr a || known_expr b
  | ECmp _ a b => aliased a (next_operand b) || known_expr a || known_expr b
  | ELogic _ a b | EWhile a b | EUntil a b => known_expr a || known_expr b
  | EBlock es => any_list known_expr es
  | EIf c t elifs els => any_arms known_expr ((c, t) :: elifs) || any_opt known_expr els
  end.
(* (c) the type error of an operator whose value is discarded is not raised: in result mode None
   the compiler evaluates the operands but leaves out the operator (`1 + true` as a statement
   runs to completion).  d = the expression is compiled with result mode None *)
Definition ordering (o : cop) : bool :=
  match o with CEq | CNe => false | _ => true end.

Section DropHelpers.
  Variable f : bool -> expr -> bool.
  Fixpoint drop_block (d : bool) (es : list expr) : bool :=
    match es with
    | [] => false
    | e :: r => match r with [] => f d e | _ => f true e || drop_block d r end
    end.
  Fixpoint drop_arms (d : bool) (arms : list (expr * expr)) : bool :=
    match arms with [] => false | (c, t) :: r => f false c || f d t || drop_arms d r end.
End DropHelpers.

Fixpoint dropped (d : bool) (e : expr) : bool :=
  match e with
  | ENull | EBool _ | EInt _ | EId _ | EContinue | EBreak None => false
  | ENested a => dropped d a
  | ENeg a => d || dropped false a
  | ENot a | EAssign _ a | EOpAssign _ _ a | EBreak (Some a) => dropped false a
  | EArith _ a b => d || dropped false a || dropped false b
  | ECmp o a b =>
    dropped false a ||
    (fix chain (o : cop) (rhs : expr) : bool :=
       match rhs with
       | ECmp o2 b c => dropped false b || chain o2 c
       | _ => (d && ordering o) || dropped false rhs
       end) o b
  | ELogic _ a b => dropped false a || dropped false b
  | EWhile c b | EUntil c b => dropped false c || dropped d b
  | ELoop b => dropped d b
  | EBlock es => drop_block dropped d es
  | EIf c t elifs els =>
    drop_arms dropped d ((c, t) :: elifs) || match els with Some a => dropped d a | None => false end
  end.

Definition known_C01 (p : program) : bool := any_list known_expr p || drop_block dropped false p.

(* break / continue may only travel through statement positions: block items, branches of an if,
   loop bodies, parentheses -- not through operands, conditions, right-hand sides, break values *)
Fixpoint wf_expr (e : expr) : bool :=
  match e with
  | ENull | EBool _ | EInt _ | EId _ | EContinue | EBreak None => true
  | ENested a | ELoop a => wf_expr a
  | ENeg a | ENot a | EOpAssign _ _ a | EAssign _ a | EBreak (Some a) => negb (esc a) && wf_expr a
  | EArith _ a b | ECmp _ a b | ELogic _ a b => negb (esc a) && negb (esc b) && wf_expr a && wf_expr b
  | EWhile c b | EUntil c b => negb (esc c) && wf_expr c && wf_expr b
  | EBlock es => all_list wf_expr es
  | EIf c t elifs els =>
    cond_arms wf_expr esc ((c, t) :: elifs) &&
    all_opt wf_expr els
  end.
Definition wf0 (p : program) : bool := all_list wf_expr p.

(* e is a bare break / continue (through parentheses / as the last item of a block): compile_node
   returns no register for it whatever the result mode *)
Fixpoint is_jump (e : expr) : bool :=
  match e with
  | EBreak _ | EContinue => true
  | ENested a => is_jump a
  | EBlock es =>
    (fix last (es : list expr) : bool :=
       match es with
       | [] => false
       | e :: r => match r with [] => is_jump e | _ => last r end
       end) es
  | _ => false
  end.
