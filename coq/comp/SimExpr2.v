(* Simulation cases: unary operators, compound assignment. *)
From Coq Require Import ZArith NArith List Bool Lia.
From KV.comp Require Import Ast0 Sem0 Instr0 Comp0 VM0 Known0 InstrLemmas CompLemmas SimBase SimExpr.
Import ListNotations.
Open Scope N_scope.
Ltac Zify.zify_post_hook ::= Z.to_euclidean_division_equations.
Ltac norm_code H := repeat rewrite ?app_nil_l, ?app_nil_r in H; repeat rewrite <- app_assoc in H.

Section Sim2.
  Variable pool : list pentry.

  (* result <- assign_result_register; v <- [a]Any; op result v (only with a result register); pop *)
  Lemma unary_case : forall e a (mk : N -> N -> instr) (f : value -> value + err),
    (forall r, comp pool e r =
       (do result <- assign_result_register r;
        do v <- comp pool a RAny;
        do vreg <- unwrap v;
        do _ <- emit_opt (o_reg result) (fun reg => mk reg vreg);
        do _ <- pop_if (o_temp v);
        ret result)) ->
    (forall n s, eval (S n) s e =
       match eval n s a with
       | ONorm v s1 => match f v with inl r => ONorm r s1 | inr c => OErr c end
       | o => o
       end) ->
    (forall reg vreg next rs, exec pool (mk reg vreg) next rs =
                              with_reg rs vreg (fun x => put_res rs reg (f x) next)) ->
    (forall reg vreg, size (mk reg vreg) = 3) ->
    (forall reg vreg, is_hole (mk reg vreg) = false) ->
    (forall r, dropped (is_none r) e = false ->
               dropped false a = false /\ (r = RNone -> forall v, exists w, f v = inl w)) ->
    known_expr e = known_expr a -> (forall x, reads x e = reads x a) ->
    (forall x, assigns x e = assigns x a) ->
    P pool a -> P pool e.
  Proof.
    intros e a mk f HC HE HX HS HH HD HK HRd HAs IHa r st out st' c H W Dr.
    destruct (HD r Dr) as (Da & TOT).
    rewrite HC in H.
    apply bind_inv in H. destruct H as (res & st1 & c1 & c2 & HR & H & ->).
    pose proof (fun rs D e => shape_reg_bound _ _ _ _ _ rs D e HR W) as RB.
    apply assign_result_inv in HR; [|assumption]. destruct HR as (-> & I1 & E1 & W1 & L1 & T1 & SH).
    apply bind_inv in H. destruct H as (vo & st2 & ca & c3 & HA & H & ->).
    apply bind_inv in H. destruct H as (vreg & st2' & cx & c4 & HU & H & ->).
    apply unwrap_inv in HU. destruct HU as (OL & -> & ->).
    apply bind_inv in H. destruct H as (u1 & st3 & ci & c5 & HE1 & H & ->).
    apply bind_inv in H. destruct H as (u2 & st4 & cp & c6 & HP & H & ->).
    unfold ret in H. inversion H; subst out st' c6; clear H. destruct u1, u2.
    destruct (IHa RAny _ _ _ _ HA W1 Da) as (FA & DA).
    destruct FA as (IA & EA & WA & SA).
    (* the optional instruction *)
    assert (EM : (exists reg, o_reg res = Some reg /\ ci = [mk reg vreg] /\
                              st3 = set_ip st2 (ip st2 + 3)) \/
                 (o_reg res = None /\ ci = [] /\ st3 = st2)).
    { destruct (o_reg res) as [reg|]; cbn [emit_opt] in HE1.
      - left. exists reg. unfold emit in HE1. inversion HE1. rewrite HS. auto.
      - right. unfold ret in HE1. inversion HE1. auto. }
    assert (W3 : wfst st3).
    { destruct EM as [(reg & _ & _ & ->)|(_ & _ & ->)]; [apply wfst_set_ip|]; assumption. }
    assert (E23 : ext st2 st3).
    { destruct EM as [(reg & _ & _ & ->)|(_ & _ & ->)]; [apply ext_set_ip|apply ext_refl]. }
    assert (TC3 : tcount st3 = tcount st2 /\ tbase st3 = tbase st2 /\ tused st3 = tused st2).
    { destruct EM as [(reg & _ & _ & ->)|(_ & _ & ->)]; cbn; auto. }
    apply pop_if_inv in HP; [|assumption]. destruct HP as (-> & I4 & L4 & T4 & U4 & E4 & W4 & C4).
    assert (E2' : ext st2 st4) by (eapply ext_trans; eauto).
    assert (E1' : ext st1 st4) by (eapply ext_trans; eauto).
    assert (E0' : ext st st4) by (eapply ext_trans; eauto).
    assert (TC : tcount st4 = tcount st1).
    { destruct TC3 as (TC3 & _).
      destruct SA as [(-> & CA1)|(xa & la & -> & CA1 & _)]; cbn [o_temp out_temp out_assigned] in C4; lia. }
    split.
    - unfold facts. splits; auto.
      + rewrite !code_size_app.
        destruct EM as [(reg & _ & -> & ->)|(_ & -> & ->)]; cbn [code_size ip set_ip] in *;
          rewrite ?HS; lia.
      + destruct r; cbn [shape].
        * destruct SH as (-> & ->). split; [reflexivity|assumption].
        * left. destruct SH as (-> & SH1 & SH2). split; [reflexivity|]. lia.
        * destruct SH as (-> & ->). split; [reflexivity|assumption].
    - intros n s rs D prog brk F EF WF K IV RD DO B CA. destruct n; [exact Logic.I|]. rewrite HE.
      assert (EF2 : ext st2 F) by (eapply ext_trans; eauto).
      assert (EF0 : ext st F) by (eapply ext_trans; eauto).
      rewrite HK in K.
      norm_code CA. apply cares_app in CA as [CA1 CA2].
      assert (RDa : forall x, D x = true -> reads x a = false).
      { intros x Dx. rewrite <- HRd. auto. }
      assert (B1 : tbase st1 + tused st2 <= N.of_nat (length rs)).
      { pose proof (ext_used _ _ E2'). lia. }
      rewrite <- I1 in CA1.
      specialize (DA n s rs D prog brk F EF2 WF K IV RDa (dest_ok_any _ _ _ _) B1 CA1).
      destruct (eval n s a) as [va s1| | | |]; try contradiction; [|rewrite <- I1; exact DA|exact Logic.I].
      destruct DA as (rs1 & S1 & LN1 & IVa & RA & FRa & SFa).
      apply dirty_any in IVa. specialize (RA _ OL).
      assert (FRM : forall k, k < tbase st + tcount st -> get rs1 k = get rs k \/ True) by auto.
      assert (FR0 : forall k, k < tbase st + tcount st ->
                 (forall x, assigns x e = true -> slot_of st4 x <> Some k) -> get rs1 k = get rs k).
      { intros k K1 K3. apply FRa.
        - pose proof (wf_cnt _ W1). destruct r.
          + destruct SH as (_ & ->). lia.
          + destruct SH as (_ & SH1 & _). lia.
          + destruct SH as (_ & ->). lia.
        - cbn. discriminate.
        - intros x AX. eapply slot_ext_neq; [exact E2'|]. apply K3. rewrite HAs. exact AX. }
      destruct EM as [(reg & OR & -> & ->)|(OR & -> & ->)].
      + (* with a result register *)
        assert (RL : reg < N.of_nat (length rs)).
        { eapply RB; eauto. pose proof (ext_used _ _ E1'). lia. }
        assert (CA2' : code_at prog (ip st2) [mk reg vreg]).
        { apply (cares_one _ brk); [apply HH|]. rewrite IA, I1. norm_code CA2. exact CA2. }
        pose proof (istep_at pool _ _ _ rs1 CA2') as ST. rewrite HX in ST.
        unfold with_reg in ST. rewrite RA in ST. rewrite HS in ST.
        destruct (f va) as [v|ce] eqn:FV; cbn [put_res] in ST.
        * assert (RL1 : reg < N.of_nat (length rs1)) by (rewrite LN1; exact RL).
          destruct (set_ok rs1 reg v RL1) as (rs2 & SET). unfold put in ST. rewrite SET in ST.
          exists rs2. splits.
          -- eapply star_trans; [rewrite <- I1; exact S1|]. rewrite I4. cbn [ip set_ip].
             apply star_one. exact ST.
          -- rewrite (set_length _ _ _ _ SET). exact LN1.
          -- assert (IV6 : inv F (dirty F r D) s1 rs1).
             { eapply inv_weaken; [exact IVa|]. intros. apply dirty_mono. assumption. }
             eapply (inv_setF st); eauto.
             destruct r.
             ++ destruct SH as (-> & _). cbn in OR. discriminate.
             ++ destruct SH as (-> & SH1 & SH2). cbn in OR. inversion OR; subst reg.
                left. lia.
             ++ destruct SH as (-> & ->). cbn in OR. inversion OR; subst reg.
                destruct (DO _ eq_refl) as (_ & [Hd|[Hd _]] & _).
                ** right. split; [assumption|]. intros x Sx. apply dirty_self. assumption.
                ** left. assumption.
          -- intros ro0 RO. assert (ro0 = reg) by congruence. subst. eapply get_set_same; eauto.
          -- intros k K1 K2 K3. rewrite (get_set_other _ _ _ _ k SET); [apply FR0; auto|].
             intros ->. destruct r.
             ++ destruct SH as (-> & _). cbn in OR. discriminate.
             ++ destruct SH as (-> & SH1 & SH2). cbn in OR. inversion OR; subst reg. lia.
             ++ destruct SH as (-> & ->). cbn in OR. inversion OR; subst reg. apply K2. reflexivity.
          -- intros x AX. rewrite HAs in AX. auto.
        * exists (ip st2), rs1. split; [rewrite <- I1; exact S1|exact ST].
      + (* no result register: the operand has run, the operator is left out *)
        assert (RN : r = RNone).
        { destruct r; [reflexivity| |]; [destruct SH as (-> & _)|destruct SH as (-> & _)]; cbn in OR; discriminate. }
        destruct (TOT RN va) as (w & FW). rewrite FW.
        exists rs1. splits; auto.
        * rewrite <- I1, I4. exact S1.
        * eapply inv_weaken; [exact IVa|]. intros. apply dirty_mono. assumption.
        * intros ro0 RO. congruence.
        * intros k K1 K2 K3. apply FR0; auto.
        * intros x AX. rewrite HAs in AX. auto.
  Qed.

  Lemma neg_case : forall a, P pool a -> P pool (ENeg a).
  Proof.
    intros a IHa. eapply (unary_case (ENeg a) a INegate negate); auto.
    intros r Dr. cbn [dropped] in Dr. apply orb_false_elim in Dr as [Dn Da]. split; [assumption|].
    intros ->. discriminate.
  Qed.

  Lemma not_case : forall a, P pool a -> P pool (ENot a).
  Proof.
    intros a IHa.
    eapply (unary_case (ENot a) a INot (fun v => inl (VBool (negb (truthy v))))); auto.
    intros r Dr. cbn [dropped] in Dr. split; [assumption|]. intros _ v. eauto.
  Qed.

  Lemma inv_assign_set : forall st D s rs x l v rs', inv st D s rs -> slot_of st x = Some l ->
    set rs l v = Some rs' -> inv st D (upd s x v) rs'.
  Proof.
    intros st D s rs x l v rs' [A B C] S SET. constructor.
    - intros y ly Sy Dy. unfold upd. destruct (y =? x) eqn:E.
      + apply N.eqb_eq in E. subst. assert (ly = l) by congruence. subst. eapply get_set_same; eauto.
      + rewrite (get_set_other _ _ _ _ ly SET); [auto|].
        intros ->. apply N.eqb_neq in E. apply E. eapply slot_of_inj; eauto.
    - intros k K1 K2. rewrite (get_set_other _ _ _ _ k SET); [auto|].
      destruct (slot_of_id _ _ _ S) as (L & _). lia.
    - intros y Sy. unfold upd. destruct (y =? x) eqn:E; [apply N.eqb_eq in E; subst; congruence|auto].
  Qed.

  Lemma opassign_case : forall o x a, P pool a -> P pool (EOpAssign o x a).
  Proof.
    intros o x a IHa r st out st' c H W Dr. cbn [dropped] in Dr. cbn [comp] in H.
    apply bind_inv in H. destruct H as (res & st1 & c1 & c2 & HR & H & ->).
    pose proof (fun rs D e => shape_reg_bound _ _ _ _ _ rs D e HR W) as RB.
    apply assign_result_inv in HR; [|assumption]. destruct HR as (-> & I1 & E1 & W1 & L1 & T1 & SH).
    apply bind_inv in H. destruct H as (ro & st2 & ca & c3 & HA & H & ->).
    apply bind_inv in H. destruct H as (rreg & st2' & cx & c4 & HU & H & ->).
    apply unwrap_inv in HU. destruct HU as (ORR & -> & ->).
    apply bind_inv in H. destruct H as (lo & st2' & cl & c5 & HL & H & ->).
    unfold compile_load_id in HL.
    destruct (get_local_assigned_register st2 x) as [lx|] eqn:GX; [|discriminate].
    unfold ret in HL. inversion HL; subst lo st2' cl; clear HL.
    apply bind_inv in H. destruct H as (lreg & st2' & cx & c6 & HU & H & ->).
    apply unwrap_inv in HU. destruct HU as (OLL & -> & ->). cbn in OLL. inversion OLL; subst lreg.
    apply bind_inv in H. destruct H as (u1 & st3 & ci & c7 & HE & H & ->).
    unfold emit in HE. inversion HE; subst u1 st3 ci; clear HE.
    apply bind_inv in H. destruct H as (u2 & st4 & cc & c8 & HE1 & H & ->).
    apply bind_inv in H. destruct H as (u3 & st4' & cp0 & c9 & HP0 & H & ->).
    cbn [o_temp out_assigned pop_if] in HP0. unfold ret in HP0. inversion HP0; subst u3 st4' cp0; clear HP0.
    apply bind_inv in H. destruct H as (u4 & st5 & cp & c10 & HP & H & ->).
    unfold ret in H. inversion H; subst out st' c10; clear H. destruct u2, u4.
    destruct (IHa RAny _ _ _ _ HA W1 Dr) as (FA & DA).
    destruct FA as (IA & EA & WA & SA).
    set (st3 := set_ip st2 (ip st2 + size (IArithAssign o lx rreg))) in *.
    assert (W3 : wfst st3) by (apply wfst_set_ip; assumption).
    assert (EM : (exists reg, o_reg res = Some reg /\ cc = [ICopy reg lx] /\
                              st4 = set_ip st3 (ip st3 + 3)) \/
                 (o_reg res = None /\ cc = [] /\ st4 = st3)).
    { destruct (o_reg res) as [reg|]; cbn [emit_opt] in HE1.
      - left. exists reg. unfold emit in HE1. inversion HE1. auto.
      - right. unfold ret in HE1. inversion HE1. auto. }
    assert (W4 : wfst st4).
    { destruct EM as [(reg & _ & _ & ->)|(_ & _ & ->)]; [apply wfst_set_ip|]; assumption. }
    assert (E24 : ext st2 st4).
    { destruct EM as [(reg & _ & _ & ->)|(_ & _ & ->)];
        [eapply ext_trans; [apply ext_set_ip|apply ext_set_ip]|apply ext_set_ip]. }
    assert (TC4 : tcount st4 = tcount st2 /\ tbase st4 = tbase st2 /\ tused st4 = tused st2).
    { destruct EM as [(reg & _ & _ & ->)|(_ & _ & ->)]; cbn; auto. }
    apply pop_if_inv in HP; [|assumption]. destruct HP as (-> & I5 & L5 & T5 & U5 & E5 & W5 & C5).
    assert (E2' : ext st2 st5) by (eapply ext_trans; eauto).
    assert (E1' : ext st1 st5) by (eapply ext_trans; eauto).
    assert (E0' : ext st st5) by (eapply ext_trans; eauto).
    assert (TC : tcount st5 = tcount st1).
    { destruct TC4 as (TC4 & _).
      destruct SA as [(-> & CA1)|(xa & la & -> & CA1 & _)]; cbn [o_temp out_temp out_assigned] in C5; lia. }
    pose proof (wf_asg _ WA _ _ GX) as SX2.
    pose proof (ext_slot _ _ E2' _ _ SX2) as SX5.
    split.
    - unfold facts. splits; auto.
      + rewrite !code_size_app.
        destruct EM as [(reg & _ & -> & ->)|(_ & -> & ->)]; unfold st3 in *;
          cbn [code_size ip set_ip size] in *; lia.
      + destruct r; cbn [shape].
        * destruct SH as (-> & ->). split; [reflexivity|assumption].
        * left. destruct SH as (-> & SH1 & SH2). split; [reflexivity|]. lia.
        * destruct SH as (-> & ->). split; [reflexivity|assumption].
    - intros n s rs D prog brk F EF WF K IV RD DO B CA. destruct n; [exact Logic.I|]. cbn [eval].
      assert (EF2 : ext st2 F) by (eapply ext_trans; eauto).
      assert (EF0 : ext st F) by (eapply ext_trans; eauto).
      cbn [known_expr] in K.
      norm_code CA. apply cares_app in CA as [CA1 CA]. apply cares_cons in CA as [CA2 CA3]; [|try reflexivity].
      assert (RDa : forall y, D y = true -> reads y a = false).
      { intros y Dy. apply RD in Dy. cbn in Dy. apply orb_false_elim in Dy. tauto. }
      assert (DX : D x = false).
      { destruct (D x) eqn:Dx; [|reflexivity]. apply RD in Dx. cbn in Dx. rewrite N.eqb_refl in Dx. discriminate. }
      assert (B1 : tbase st1 + tused st2 <= N.of_nat (length rs)).
      { pose proof (ext_used _ _ E2'). lia. }
      rewrite <- I1 in CA1.
      specialize (DA n s rs D prog brk F EF2 WF K IV RDa (dest_ok_any _ _ _ _) B1 CA1).
      destruct (eval n s a) as [va s1| | | |]; try contradiction; [|rewrite <- I1; exact DA|exact Logic.I].
      destruct DA as (rs1 & S1 & LN1 & IVa & RA & FRa & SFa).
      apply dirty_any in IVa. specialize (RA _ ORR).
      assert (SXF : slot_of F x = Some lx) by (eapply ext_slot; [exact EF2|exact SX2]).
      assert (GX1 : get rs1 lx = Some (s1 x)) by (eapply inv_agree; eauto).
      assert (CA2' : code_at prog (ip st2) [IArithAssign o lx rreg]).
      { rewrite IA, I1. exact CA2. }
      pose proof (istep_at pool _ _ _ rs1 CA2') as ST. cbn [exec] in ST.
      unfold with_reg in ST. rewrite GX1, RA in ST.
      destruct (arith o (s1 x) va) as [rv|ce] eqn:AR; cbn [put_res] in ST;
        [|exists (ip st2), rs1; split; [rewrite <- I1; exact S1|exact ST]].
      assert (LXL : lx < N.of_nat (length rs1)).
      { unfold get in GX1. assert (nth_error rs1 (N.to_nat lx) <> None) by congruence.
        apply nth_error_Some in H. lia. }
      destruct (set_ok rs1 lx rv LXL) as (rs2 & SET). unfold put in ST. rewrite SET in ST.
      assert (IV2 : inv F D (upd s1 x rv) rs2) by (eapply inv_assign_set; eauto).
      assert (S2 : star pool prog (ip st) rs (ip st3) rs2).
      { eapply star_trans; [rewrite <- I1; exact S1|]. apply star_one. exact ST. }
      assert (FR0 : forall k, k < tbase st + tcount st ->
                 (forall y, assigns y (EOpAssign o x a) = true -> slot_of st5 y <> Some k) ->
                 get rs2 k = get rs k).
      { intros k K1 K3. rewrite (get_set_other _ _ _ _ k SET).
        - apply FRa.
          + pose proof (wf_cnt _ W1). destruct r.
            * destruct SH as (_ & ->). lia.
            * destruct SH as (_ & SH1 & _). lia.
            * destruct SH as (_ & ->). lia.
          + cbn. discriminate.
          + intros y AY. eapply slot_ext_neq; [exact E2'|]. apply K3. cbn. rewrite AY. apply orb_true_r.
        - intros ->. eapply K3; [|exact SX5]. cbn. rewrite N.eqb_refl. reflexivity. }
      assert (SF0 : forall y, assigns y (EOpAssign o x a) = false -> upd s1 x rv y = s y).
      { intros y AY. cbn in AY. apply orb_false_elim in AY as [NE AY]. unfold upd.
        rewrite N.eqb_sym in NE. rewrite NE. auto. }
      destruct EM as [(reg & OR & -> & ->)|(OR & -> & ->)].
      + assert (RL : reg < N.of_nat (length rs)).
        { eapply RB; eauto. pose proof (ext_used _ _ E1'). lia. }
        assert (CA3' : code_at prog (ip st3) [ICopy reg lx]).
        { apply (cares_one _ brk); [reflexivity|]. unfold st3. cbn [ip set_ip]. rewrite IA, I1. norm_code CA3. exact CA3. }
        pose proof (istep_at pool _ _ _ rs2 CA3') as ST3. cbn [exec] in ST3.
        unfold with_reg in ST3. rewrite (get_set_same _ _ _ _ SET) in ST3.
        assert (RL2 : reg < N.of_nat (length rs2)).
        { rewrite (set_length _ _ _ _ SET), LN1. exact RL. }
        destruct (set_ok rs2 reg rv RL2) as (rs3 & SET3). unfold put in ST3. rewrite SET3 in ST3.
        exists rs3. splits.
        * eapply star_trans; [exact S2|]. rewrite I5. cbn [ip set_ip size]. apply star_one. exact ST3.
        * rewrite (set_length _ _ _ _ SET3), (set_length _ _ _ _ SET). exact LN1.
        * assert (IV6 : inv F (dirty F r D) (upd s1 x rv) rs2).
          { eapply inv_weaken; [exact IV2|]. intros. apply dirty_mono. assumption. }
          eapply (inv_setF st); eauto.
          destruct r.
          -- destruct SH as (-> & _). cbn in OR. discriminate.
          -- destruct SH as (-> & SH1 & SH2). cbn in OR. inversion OR; subst reg.
             left. lia.
          -- destruct SH as (-> & ->). cbn in OR. inversion OR; subst reg.
             destruct (DO _ eq_refl) as (_ & [Hd|[Hd _]] & _).
             ++ right. split; [assumption|]. intros y Sy. apply dirty_self. assumption.
             ++ left. assumption.
        * intros ro0 RO. assert (ro0 = reg) by congruence. subst. eapply get_set_same; eauto.
        * intros k K1 K2 K3. rewrite (get_set_other _ _ _ _ k SET3); [apply FR0; auto|].
          intros ->. destruct r.
          -- destruct SH as (-> & _). cbn in OR. discriminate.
          -- destruct SH as (-> & SH1 & SH2). cbn in OR. inversion OR; subst reg. lia.
          -- destruct SH as (-> & ->). cbn in OR. inversion OR; subst reg. apply K2. reflexivity.
        * exact SF0.
      + exists rs2. splits; auto.
        * rewrite I5. exact S2.
        * rewrite (set_length _ _ _ _ SET). exact LN1.
        * eapply inv_weaken; [exact IV2|]. intros. apply dirty_mono. assumption.
        * intros ro0 RO. congruence.
        * intros k K1 K2 K3. apply FR0; auto.
  Qed.
End Sim2.
