(* Simulation cases: comparisons and comparison chains. *)
From Coq Require Import ZArith NArith List Bool Lia.
From KV.comp Require Import Ast0 Sem0 Instr0 Comp0 VM0 Known0 InstrLemmas CompLemmas SimBase SimExpr.
Import ListNotations.
Open Scope N_scope.
Ltac Zify.zify_post_hook ::= Z.to_euclidean_division_equations.
Ltac norm_code H := repeat rewrite ?app_nil_l, ?app_nil_r in H; repeat rewrite <- app_assoc in H.

Definition is_cmp (e : expr) : bool := match e with ECmp _ _ _ => true | _ => false end.

Fixpoint dchain (d : bool) (o : cop) (rhs : expr) : bool :=
  match rhs with
  | ECmp o2 b c => dropped false b || dchain d o2 c
  | _ => (d && ordering o) || dropped false rhs
  end.

Lemma dropped_cmp : forall d o a b, dropped d (ECmp o a b) = dropped false a || dchain d o b.
Proof.
  intros d o a b. cbn [dropped]. f_equal. revert o.
  induction b; intros o0; try reflexivity.
  cbn [dchain]. rewrite <- IHb2. reflexivity.
Qed.

Lemma jump_over_inv : forall A (mk : N -> instr) (m : M A) st a st' c,
  jump_over mk m st = OK (a, st', c) ->
  exists c0, m (set_ip st (ip st + size (mk 0))) = OK (a, st', c0) /\
             c = mk (ip st' - (ip st + size (mk 0))) :: c0 /\
             ip st' - (ip st + size (mk 0)) <= 65535.
Proof.
  intros A mk m st a st' c H. unfold jump_over in H.
  apply bind_inv in H. destruct H as (u & st2a & cz & c7 & HV & H & ->).
  unfold advance in HV. inversion HV; subst u st2a cz; clear HV.
  apply bind_inv in H. destruct H as (ip1 & stx & cz & c8 & HV & H & ->).
  unfold get_ip in HV. inversion HV; subst ip1 stx cz; clear HV.
  apply bind_inv in H. destruct H as (pr & st3a & cz & c9 & HB & H & ->).
  destruct pr as (a' & cb). apply capture_inv in HB. destruct HB as (HB & ->).
  apply bind_inv in H. destruct H as (ip2 & stx & cz & c10 & HV & H & ->).
  unfold get_ip in HV. inversion HV; subst ip2 stx cz; clear HV.
  apply bind_inv in H. destruct H as (off & stx & cz & c11 & HV & H & ->).
  apply check_u16_inv in HV. destruct HV as (-> & -> & -> & OFF).
  apply bind_inv in H. destruct H as (u & stx & cz & c12 & HV & H & ->).
  unfold emit_raw in HV. inversion HV; subst u stx cz; clear HV.
  unfold ret in H. inversion H; subst a' st3a c12; clear H.
  exists cb. cbn [ip set_ip] in *. splits; auto. rewrite !app_nil_r. reflexivity.
Qed.

Lemma out_var_cases : forall e x, out_var e = Some x -> reads x e = true \/ assigns x e = true.
Proof.
  induction e using expr_ind2; intros y OV; cbn [out_var] in OV; try discriminate.
  - inversion OV; subst. left. cbn. apply N.eqb_refl.
  - cbn. auto.
  - inversion OV; subst. right. cbn. rewrite N.eqb_refl. reflexivity.
  - cbn [reads assigns]. induction es as [|e0 rest IHr]; [discriminate|].
    inversion H; subst. destruct rest as [|e1 rest].
    + cbn [any_list]. rewrite !orb_false_r. auto.
    + cbn [any_list] in *. destruct (IHr H3 OV) as [R|R]; [left|right]; rewrite R; apply orb_true_r.
Qed.

Section SimC.
  Variable pool : list pentry.

  Definition ChainP (rhs : expr) : Prop :=
    forall o lreg cmpreg resreg st u st' c,
      comp_chain pool rhs (comp pool rhs RAny) o lreg cmpreg resreg st = OK (u, st', c) -> wfst st ->
      dchain (match resreg with None => true | Some _ => false end) o rhs = false ->
      (ip st' = ip st + code_size c /\ ext st st' /\ wfst st' /\ tcount st <= tcount st') /\
      forall n s rs D prog brk F lv,
        ext st' F -> wfst F ->
        known_expr rhs = false ->
        inv F D s rs -> (forall x, D x = true -> reads x rhs = false) ->
        get rs lreg = Some lv -> lreg < tbase st + tcount st ->
        (forall st2 x, ext st st2 -> wfst st2 -> assigns x (next_operand rhs) = true ->
                       slot_of st2 x <> Some lreg) ->
        cmpreg < N.of_nat (length rs) -> (cmpreg < nlocals st \/ tbase st <= cmpreg) ->
        cmpreg < tbase st + tcount st ->
        (resreg = None \/ resreg = Some cmpreg) ->
        (is_cmp rhs = true -> forall x, slot_of st x = Some cmpreg -> D x = true /\ assigns x rhs = false) ->
        tbase st + tused st' <= N.of_nat (length rs) -> cares prog brk (ip st) c ->
        match eval_chain (eval n) s lv o rhs with
        | ONorm v s' =>
          exists rs', star pool prog (ip st) rs (ip st') rs' /\ length rs' = length rs /\
            inv F (dirty F (RFixed cmpreg) D) s' rs' /\
            (forall reg, resreg = Some reg -> get rs' reg = Some v) /\
            (forall k, k < tbase st + tcount st -> k <> cmpreg ->
               (forall x, assigns x rhs = true -> slot_of st' x <> Some k) -> get rs' k = get rs k) /\
            (forall x, assigns x rhs = false -> s' x = s x)
        | OErr ce => stops pool prog (ip st) rs (VFail ce)
        | OFuel => True
        | _ => False
        end.

  (* an operand's register (mode Any) is not the slot of a variable a later expression assigns *)
  Lemma held_ok : forall st1 st2 lo a nxt lreg,
    shape st1 RAny lo st2 a -> o_reg lo = Some lreg -> ext st1 st2 -> wfst st2 ->
    aliased a nxt = false ->
    lreg < tbase st2 + tcount st2 /\
    forall st3 x, ext st2 st3 -> wfst st3 -> assigns x nxt = true -> slot_of st3 x <> Some lreg.
  Proof.
    intros st1 st2 lo a nxt lreg SH OR E12 W2 AL. pose proof (ext_tbase _ _ E12).
    destruct SH as [(-> & C)|(x & l & -> & C & OV & SL)]; cbn in OR; inversion OR; subst.
    - split; [lia|]. intros st3 y E W3 AY SY.
      destruct (slot_of_id _ _ _ SY) as (LL & _). pose proof (ext_tbase _ _ E). pose proof (wf_len _ W3). lia.
    - split; [destruct (slot_of_id _ _ _ SL) as (LL & _); pose proof (wf_len _ W2); lia|].
      intros st3 y E W3 AY SY. pose proof (ext_slot _ _ E _ _ SL) as SL3.
      assert (y = x) by (eapply slot_of_inj; eauto). subst.
      unfold aliased in AL. rewrite OV in AL. congruence.
  Qed.

  Lemma chain_leaf : forall rhs, is_cmp rhs = false -> P pool rhs -> ChainP rhs.
  Proof.
    intros rhs NC IH o lreg cmpreg resreg st u st' c H W DC.
    assert (HC : comp_chain pool rhs (comp pool rhs RAny) o lreg cmpreg resreg =
                 (do ro <- comp pool rhs RAny; do rreg <- unwrap ro;
                  emit_opt resreg (fun reg => ICmp o reg lreg rreg))).
    { destruct rhs; try reflexivity. discriminate. }
    assert (DCE : dchain (match resreg with None => true | Some _ => false end) o rhs =
                  ((match resreg with None => true | Some _ => false end) && ordering o) || dropped false rhs).
    { destruct rhs; try reflexivity. discriminate. }
    assert (EVC : forall n s lv, eval_chain (eval n) s lv o rhs =
                  match eval n s rhs with
                  | ONorm rv s1 => match compare o lv rv with inr c => OErr c | inl r => ONorm r s1 end
                  | o => o end).
    { intros. destruct rhs; try reflexivity. discriminate. }
    assert (NX : next_operand rhs = rhs) by (destruct rhs; try reflexivity; discriminate).
    rewrite DCE in DC. apply orb_false_elim in DC as [DO1 DR].
    rewrite HC in H.
    apply bind_inv in H. destruct H as (ro & st2 & ca & c3 & HA & H & ->).
    apply bind_inv in H. destruct H as (rreg & st2' & cx & c4 & HU & H & ->).
    apply unwrap_inv in HU. destruct HU as (ORR & -> & ->).
    destruct (IH RAny _ _ _ _ HA W DR) as ((IA & EA & WA & SA) & DA).
    assert (EM : (exists reg, resreg = Some reg /\ c4 = [ICmp o reg lreg rreg] /\
                              st' = set_ip st2 (ip st2 + 4)) \/
                 (resreg = None /\ c4 = [] /\ st' = st2)).
    { destruct resreg as [reg|]; cbn [emit_opt] in H.
      - left. exists reg. unfold emit in H. inversion H. auto.
      - right. unfold ret in H. inversion H. auto. }
    assert (TC2 : tcount st <= tcount st2).
    { destruct SA as [(_ & C)|(x & l & _ & C & _)]; lia. }
    split.
    - destruct EM as [(reg & -> & -> & ->)|(-> & -> & ->)]; splits; auto.
      + rewrite !code_size_app. cbn [code_size size ip set_ip]. lia.
      + eapply ext_trans; [exact EA|apply ext_set_ip].
      + apply wfst_set_ip. assumption.
      + rewrite !code_size_app. cbn [code_size]. lia.
    - intros n s rs D prog brk F lv EF WF K IV RD GL LB LK CL CP CB RC OWN B CA. rewrite EVC. rewrite NX in LK.
      assert (EF2 : ext st2 F).
      { destruct EM as [(reg & _ & _ & ->)|(_ & _ & ->)]; [eapply ext_trans; [apply ext_set_ip|exact EF]|exact EF]. }
      assert (EF0 : ext st F) by (eapply ext_trans; eauto).
      norm_code CA. apply cares_app in CA as [CA1 CA2].
      assert (B1 : tbase st + tused st2 <= N.of_nat (length rs)).
      { destruct EM as [(reg & _ & _ & ->)|(_ & _ & ->)]; cbn [tused set_ip] in B; lia. }
      specialize (DA n s rs D prog brk F EF2 WF K IV RD (dest_ok_any _ _ _ _) B1 CA1).
      destruct (eval n s rhs) as [rv s1| | | |]; try contradiction; [|exact DA|exact Logic.I].
      destruct DA as (rs1 & S1 & LN1 & IVa & RA & FRa & SFa).
      apply dirty_any in IVa. specialize (RA _ ORR).
      assert (GL1 : get rs1 lreg = Some lv).
      { rewrite <- GL. apply FRa; auto. cbn. discriminate. }
      destruct EM as [(reg & -> & -> & ->)|(-> & -> & ->)].
      + destruct RC as [RC|RC]; [discriminate|]. inversion RC; subst reg.
        assert (CA2' : code_at prog (ip st2) [ICmp o cmpreg lreg rreg]).
        { apply (cares_one _ brk); [reflexivity|]. rewrite IA. norm_code CA2. exact CA2. }
        pose proof (istep_at pool _ _ _ rs1 CA2') as ST. cbn [exec] in ST.
        unfold with_reg in ST. rewrite GL1, RA in ST.
        destruct (compare o lv rv) as [v|ce] eqn:CV; cbn [put_res] in ST;
          [|exists (ip st2), rs1; split; [exact S1|exact ST]].
        assert (CL1 : cmpreg < N.of_nat (length rs1)) by (rewrite LN1; exact CL).
        destruct (set_ok rs1 cmpreg v CL1) as (rs2 & SET). unfold put in ST. rewrite SET in ST.
        exists rs2. splits.
        * eapply star_trans; [exact S1|]. cbn [ip set_ip size]. apply star_one. exact ST.
        * rewrite (set_length _ _ _ _ SET). exact LN1.
        * assert (IV6 : inv F (dirty F (RFixed cmpreg) D) s1 rs1).
          { eapply inv_weaken; [exact IVa|]. intros. apply dirty_mono. assumption. }
          eapply (inv_setF st); eauto.
          destruct CP as [Hd|Hd].
          -- right. split; [assumption|]. intros x Sx. apply dirty_self. assumption.
          -- left. assumption.
        * intros reg RG. inversion RG; subst. eapply get_set_same; eauto.
        * intros k K1 K2 K3. rewrite (get_set_other _ _ _ _ k SET); [|assumption].
          apply FRa; auto. cbn. discriminate.
        * exact SFa.
      + destruct (ordering o) eqn:OO; [cbn in DO1; discriminate|].
        assert (exists v, compare o lv rv = inl v) as (v & CV).
        { destruct o; cbn in OO; try discriminate; cbn; eauto. }
        rewrite CV. exists rs1. splits; auto.
        * eapply inv_weaken; [exact IVa|]. intros. apply dirty_mono. assumption.
        * intros reg RG. discriminate.
        * intros k K1 K2 K3. apply FRa; auto. cbn. discriminate.
  Qed.

  Lemma chain_node : forall o2 b c, P pool b -> ChainP c -> ChainP (ECmp o2 b c).
  Proof.
    intros o2 b c IHb IHc o lreg cmpreg resreg st u st' cd H W DC.
    cbn [dchain] in DC. apply orb_false_elim in DC as [Db Dc].
    cbn [comp_chain] in H.
    apply bind_inv in H. destruct H as (bo & st2 & cb & c3 & HB & H & ->).
    apply bind_inv in H. destruct H as (breg & st2' & cx & c4 & HU & H & ->).
    apply unwrap_inv in HU. destruct HU as (OB & -> & ->).
    apply bind_inv in H. destruct H as (u1 & st3 & ci & c5 & HE & H & ->).
    unfold emit in HE. inversion HE; subst u1 st3 ci; clear HE.
    apply jump_over_inv in H. destruct H as (cc & HC & -> & OFF).
    cbn [size] in HC.
    set (st3 := set_ip st2 (ip st2 + 4)) in *.
    set (st3a := set_ip st3 (ip st3 + 4)) in *.
    destruct (IHb RAny _ _ _ _ HB W Db) as ((IB & EB & WB & SB) & DB).
    assert (W3a : wfst st3a) by (apply wfst_set_ip; apply wfst_set_ip; assumption).
    destruct (IHc _ _ _ _ _ _ _ _ HC W3a Dc) as ((IC & EC & WC & TCc) & DCc).
    assert (E23a : ext st2 st3a) by (eapply ext_trans; apply ext_set_ip).
    assert (E2' : ext st2 st') by (eapply ext_trans; eauto).
    assert (E0' : ext st st') by (eapply ext_trans; eauto).
    assert (IP3 : ip st3 = ip st2 + 4) by reflexivity.
    assert (IP3a : ip st3a = ip st2 + 8) by (unfold st3a, st3; cbn [ip set_ip size]; lia).
    assert (TC2 : tcount st <= tcount st2).
    { destruct SB as [(_ & C)|(x & l & _ & C & _)]; lia. }
    split.
    - splits; auto.
      + rewrite !code_size_app. cbn [code_size size]. lia.
      + assert (tcount st3a = tcount st2) by reflexivity. lia.
    - intros n s rs D prog brk F lv EF WF K IV RD GL LB LK CL CP CB RC OWN B CA.
      assert (EF3a : ext st3a F) by (eapply ext_trans; eauto).
      assert (EF2 : ext st2 F) by (eapply ext_trans; eauto).
      assert (EF0 : ext st F) by (eapply ext_trans; eauto).
      cbn [eval_chain]. cbn [known_expr] in K. apply orb_false_elim in K as [K Kc].
      apply orb_false_elim in K as [AL Kb]. cbn [next_operand] in LK.
      specialize (OWN eq_refl).
      norm_code CA. apply cares_app in CA as [CA1 CA]. apply cares_cons in CA as [CA2 CA]; [|try reflexivity].
      apply cares_cons in CA as [CA3 CA4]; [|try reflexivity].
      assert (RDb : forall x, D x = true -> reads x b = false).
      { intros x Dx. apply RD in Dx. cbn in Dx. apply orb_false_elim in Dx. tauto. }
      assert (RDc : forall x, D x = true -> reads x c = false).
      { intros x Dx. apply RD in Dx. cbn in Dx. apply orb_false_elim in Dx. tauto. }
      assert (B1 : tbase st + tused st2 <= N.of_nat (length rs)).
      { pose proof (ext_used _ _ E2'). lia. }
      specialize (DB n s rs D prog brk F EF2 WF Kb IV RDb (dest_ok_any _ _ _ _) B1 CA1).
      destruct (eval n s b) as [bv s1| | | |]; try contradiction; [|exact DB|exact Logic.I].
      destruct DB as (rs1 & S1 & LN1 & IVb & RB & FRb & SFb).
      apply dirty_any in IVb. specialize (RB _ OB).
      assert (GL1 : get rs1 lreg = Some lv).
      { rewrite <- GL. apply FRb; auto. cbn. discriminate. }
      assert (CA2' : code_at prog (ip st2) [ICmp o cmpreg lreg breg]) by (rewrite IB; exact CA2).
      pose proof (istep_at pool _ _ _ rs1 CA2') as ST. cbn [exec] in ST.
      unfold with_reg in ST. rewrite GL1, RB in ST.
      destruct (compare o lv bv) as [r|ce] eqn:CV; cbn [put_res] in ST;
        [|exists (ip st2), rs1; split; [exact S1|exact ST]].
      assert (CL1 : cmpreg < N.of_nat (length rs1)) by (rewrite LN1; exact CL).
      destruct (set_ok rs1 cmpreg r CL1) as (rs2 & SET). unfold put in ST. rewrite SET in ST.
      (* owners of cmpreg are dirty, also in later states *)
      assert (OWN2 : forall st2' x, ext st st2' -> wfst st2' -> slot_of st2' x = Some cmpreg ->
                       D x = true /\ assigns x (ECmp o2 b c) = false).
      { intros st2' x E2 W2' Sx. destruct CP as [Hd|Hd].
        - apply OWN. eapply slot_of_old; eauto.
        - exfalso. destruct (slot_of_id _ _ _ Sx) as (L & _).
          pose proof (wf_len _ W2'). pose proof (ext_tbase _ _ E2). lia. }
      assert (IV2 : inv F D s1 rs2).
      { eapply (inv_setF st); eauto. destruct CP as [Hd|Hd].
        - right. split; [assumption|]. intros x Sx.
          apply (OWN2 F x EF0 WF Sx).
        - left. assumption. }
      destruct (held_ok _ _ _ _ (next_operand c) _ SB OB EB WB AL) as (BB & BK).
      assert (BNE : breg <> cmpreg).
      { intros ->. destruct SB as [(-> & C)|(y & l & -> & C & OV & SL)]; cbn in OB; inversion OB; subst.
        - lia.
        - destruct (OWN2 st2 y EB WB SL) as (Dy & Ay).
          destruct (out_var_cases _ _ OV) as [R|R].
          + apply RD in Dy. cbn in Dy. rewrite R in Dy. discriminate.
          + cbn in Ay. rewrite R in Ay. discriminate. }
      assert (GB2 : get rs2 breg = Some bv).
      { rewrite (get_set_other _ _ _ _ breg SET); assumption. }
      assert (S2 : star pool prog (ip st) rs (ip st3) rs2).
      { eapply star_trans; [exact S1|]. apply star_one. exact ST. }
      assert (CA3' : code_at prog (ip st3) [IJumpIfFalse cmpreg (ip st' - (ip st3 + 4))]).
      { assert (EQ3 : ip st + code_size cb + size (ICmp o cmpreg lreg breg) = ip st3)
          by (rewrite IP3, IB; reflexivity).
        rewrite EQ3 in CA3. exact CA3. }
      pose proof (istep_at pool _ _ _ rs2 CA3') as STJ. cbn [exec] in STJ.
      unfold with_reg in STJ. rewrite (get_set_same _ _ _ _ SET) in STJ.
      assert (FR2 : forall k, k < tbase st + tcount st -> k <> cmpreg ->
                 (forall x, assigns x (ECmp o2 b c) = true -> slot_of st' x <> Some k) ->
                 get rs2 k = get rs k).
      { intros k K1 K2 K3. rewrite (get_set_other _ _ _ _ k SET); [|assumption].
        apply FRb; auto.
        - cbn. discriminate.
        - intros x AX. eapply slot_ext_neq; [exact E2'|]. apply K3. cbn. rewrite AX. reflexivity. }
      destruct (truthy r) eqn:TR.
      + (* next link *)
        assert (S3 : star pool prog (ip st) rs (ip st3a) rs2).
        { eapply star_trans; [exact S2|]. apply star_one. rewrite STJ. f_equal. }
        assert (LN2 : length rs2 = length rs) by (rewrite (set_length _ _ _ _ SET); exact LN1).
        assert (B3 : tbase st3a + tused st' <= N.of_nat (length rs2)).
        { rewrite LN2. change (tbase st3a) with (tbase st2). rewrite (ext_tbase _ _ EB). exact B. }
        assert (CA4' : cares prog brk (ip st3a) cc).
        { match type of CA4 with cares _ _ ?pc _ => assert (EQ4 : pc = ip st3a) by (rewrite IP3a, IB; cbn [size]; lia) end.
          rewrite EQ4 in CA4. exact CA4. }
        assert (E3a0 : ext st st3a) by (eapply ext_trans; [exact EB|exact E23a]).
        specialize (DCc n s1 rs2 D prog brk F bv EF WF Kc IV2 RDc GB2).
        assert (H1 : breg < tbase st3a + tcount st3a) by exact BB.
        assert (H2 : forall st2' x, ext st3a st2' -> wfst st2' -> assigns x (next_operand c) = true ->
                                    slot_of st2' x <> Some breg).
        { intros st2' x E W2' AX. apply BK; auto. eapply ext_trans; [exact E23a|exact E]. }
        assert (H3 : cmpreg < N.of_nat (length rs2)) by (rewrite LN2; exact CL).
        assert (H4 : cmpreg < nlocals st3a \/ tbase st3a <= cmpreg).
        { destruct CP as [Hd|Hd]; [left; pose proof (ext_len _ _ E3a0); lia
                                  |right; rewrite (ext_tbase _ _ E3a0); assumption]. }
        assert (H5 : cmpreg < tbase st3a + tcount st3a).
        { rewrite (ext_tbase _ _ E3a0). change (tcount st3a) with (tcount st2). lia. }
        assert (H6 : is_cmp c = true -> forall x, slot_of st3a x = Some cmpreg ->
                       D x = true /\ assigns x c = false).
        { intros _ x Sx. destruct (OWN2 st3a x E3a0 W3a Sx) as (Dx & Ax). split; [assumption|].
          cbn in Ax. apply orb_false_elim in Ax. tauto. }
        specialize (DCc H1 H2 H3 H4 H5 RC H6 B3 CA4').
        destruct (eval_chain (eval n) s1 bv o2 c) as [v s2| | | |]; try contradiction;
          [|eapply star_stops; [exact S3|exact DCc]|exact Logic.I].
        destruct DCc as (rs3 & S4 & LN3 & IVc & RCv & FRc & SFc).
        exists rs3. splits; auto.
        * eapply star_trans; eauto.
        * lia.
        * intros k K1 K2 K3. rewrite FRc; auto.
          -- rewrite (ext_tbase _ _ E3a0). change (tcount st3a) with (tcount st2). lia.
          -- intros x AX. apply K3. cbn. rewrite AX. apply orb_true_r.
        * intros x AX. cbn in AX. apply orb_false_elim in AX as [AXb AXc]. rewrite (SFc _ AXc). auto.
      + (* the link is false: jump to the end with false in the comparison register *)
        exists rs2. splits; auto.
        * eapply star_trans; [exact S2|]. apply star_one. rewrite STJ. f_equal.
          cbn [size]. lia.
        * rewrite (set_length _ _ _ _ SET). exact LN1.
        * eapply inv_weaken; [exact IV2|].
          intros. apply dirty_mono. assumption.
        * intros reg RG. destruct RC as [RC|RC]; [congruence|]. rewrite RC in RG. inversion RG; subst.
          eapply get_set_same; eauto.
        * intros x AX. cbn in AX. apply orb_false_elim in AX as [AXb AXc]. auto.
  Qed.

  Lemma cmp_case : forall o a b, P pool a -> ChainP b -> P pool (ECmp o a b).
  Proof.
    intros o a b IHa IHb r st out st' c H W Dr.
    rewrite dropped_cmp in Dr. apply orb_false_elim in Dr as [Da Dc].
    cbn [comp] in H.
    apply bind_inv in H. destruct H as (res & st1 & c1 & c2 & HR & H & ->).
    pose proof (fun rs D e => shape_reg_bound _ _ _ _ _ rs D e HR W) as RB.
    apply assign_result_inv in HR; [|assumption]. destruct HR as (-> & I1 & E1 & W1 & L1 & T1 & SH).
    apply bind_inv in H. destruct H as (sc & stx & cz & c3 & HS & H & ->).
    unfold stack_count in HS. inversion HS; subst sc stx cz; clear HS.
    apply bind_inv in H. destruct H as (cmpreg & st1' & c1' & c4 & HG & H & ->).
    assert (REG : c1' = [] /\ ip st1' = ip st /\ ext st st1' /\ wfst st1' /\ tbase st1' = tbase st /\
                  ((r = RFixed cmpreg /\ st1' = st /\ st1 = st) \/
                   (r = RAny /\ cmpreg = tbase st + tcount st /\ st1' = st1 /\ tcount st1 = tcount st + 1) \/
                   (r = RNone /\ cmpreg = tbase st + tcount st /\ tcount st1' = tcount st + 1 /\ st1 = st))).
    { destruct r; cbn in HG.
      - destruct SH as (-> & ->). cbn in HG. apply push_inv in HG; [|assumption].
        destruct HG as (-> & -> & L & T & Lo & I & C & U & E & W'). splits; auto. right. right. auto.
      - destruct SH as (-> & C & U). cbn in HG. unfold ret in HG. inversion HG; subst.
        splits; auto. right. left. auto.
      - destruct SH as (-> & ->). cbn in HG. unfold ret in HG. inversion HG; subst.
        splits; auto using ext_refl. }
    destruct REG as (-> & I1' & E1' & W1' & T1' & RC).
    apply bind_inv in H. destruct H as (lo & st2 & ca & c5 & HA & H & ->).
    apply bind_inv in H. destruct H as (lreg & st2' & cx & c6 & HU & H & ->).
    apply unwrap_inv in HU. destruct HU as (OL & -> & ->).
    apply bind_inv in H. destruct H as (u & st3 & cch & c7 & HC & H & ->).
    apply bind_inv in H. destruct H as (u2 & st4 & ct & c8 & HT & H & ->).
    unfold truncate_register_stack in HT. inversion HT; subst u2 st4 ct; clear HT.
    unfold ret in H. inversion H; subst out st' c8; clear H.
    destruct (IHa RAny _ _ _ _ HA W1' Da) as ((IA & EA & WA & SA) & DA).
    assert (DCH : dchain (match o_reg res with None => true | Some _ => false end) o b = false).
    { destruct r; [destruct SH as (-> & _)|destruct SH as (-> & _)|destruct SH as (-> & _)]; exact Dc. }
    destruct (IHb _ _ _ _ _ _ _ _ HC WA DCH) as ((IC & EC & WC & TCc) & DC).
    set (st4 := set_temps st3 (N.min (tcount st3) (tcount st1)) (tused st3)) in *.
    assert (TC2 : tcount st1' <= tcount st2).
    { destruct SA as [(_ & C)|(x & l & _ & C & _)]; lia. }
    assert (TC1 : tcount st1 <= tcount st1').
    { destruct RC as [(-> & -> & ->)|[(-> & -> & -> & C1)|(-> & -> & C1 & ->)]]; lia. }
    assert (W4 : wfst st4).
    { pose proof (wf_cnt _ WC). apply (wfst_same_locals st3); cbn; auto. lia. }
    assert (E34 : ext st3 st4) by (apply ext_same_locals; cbn; auto; lia).
    assert (E2' : ext st2 st4) by (eapply ext_trans; eauto).
    assert (E1s : ext st1' st4) by (eapply ext_trans; eauto).
    assert (E0' : ext st st4) by (eapply ext_trans; eauto).
    assert (E02 : ext st st2) by (eapply ext_trans; [exact E1'|exact EA]).
    assert (TC4 : tcount st4 = tcount st1) by (unfold st4; cbn [tcount set_temps]; lia).
    split.
    - unfold facts. splits; auto.
      + rewrite !code_size_app. cbn [code_size]. change (ip st4) with (ip st3). lia.
      + destruct RC as [(-> & -> & ->)|[(-> & -> & -> & C1)|(-> & -> & C1 & ->)]]; cbn [shape].
        * destruct SH as (-> & _). split; [reflexivity|lia].
        * destruct SH as (-> & _). left. split; [reflexivity|lia].
        * destruct SH as (-> & _). split; [reflexivity|lia].
    - intros n s rs D prog brk F EF WF K IV RD DO B CA. destruct n; [exact Logic.I|]. cbn [eval].
      assert (EF3 : ext st3 F) by (eapply ext_trans; eauto).
      assert (EF2 : ext st2 F) by (eapply ext_trans; eauto).
      assert (EF0 : ext st F) by (eapply ext_trans; eauto).
      cbn [known_expr] in K. apply orb_false_elim in K as [K Kb]. apply orb_false_elim in K as [AL Ka].
      norm_code CA. apply cares_app in CA as [CA1 CA2].
      assert (RDa : forall x, D x = true -> reads x a = false).
      { intros x Dx. apply RD in Dx. cbn in Dx. apply orb_false_elim in Dx. tauto. }
      assert (RDb : forall x, D x = true -> reads x b = false).
      { intros x Dx. apply RD in Dx. cbn in Dx. apply orb_false_elim in Dx. tauto. }
      assert (RL : cmpreg < N.of_nat (length rs)).
      { destruct RC as [(-> & -> & ->)|[(-> & -> & -> & C1)|(-> & -> & C1 & ->)]].
        - destruct (DO _ eq_refl) as (X & _). exact X.
        - pose proof (wf_cnt _ W1'). pose proof (ext_used _ _ E1s). lia.
        - pose proof (wf_cnt _ W1'). pose proof (ext_used _ _ E1s). lia. }
      assert (RK : r = RFixed cmpreg \/ (dest r = None /\ tbase st <= cmpreg)).
      { destruct RC as [(-> & -> & ->)|[(-> & -> & -> & C1)|(-> & -> & C1 & ->)]]; [left; reflexivity| |];
          right; split; try reflexivity; lia. }
      assert (RPOS : cmpreg < nlocals st \/ tbase st <= cmpreg).
      { destruct RK as [->|[_ HT]]; [|right; assumption]. destruct (DO _ eq_refl) as (_ & [X|[X _]] & _); auto. }
      assert (RES : o_reg res = None \/ o_reg res = Some cmpreg).
      { destruct RC as [(-> & -> & ->)|[(-> & -> & -> & C1)|(-> & -> & C1 & ->)]];
          destruct SH as (-> & _); cbn; auto. }
      (* the owner of the comparison register, if any, is neither read nor assigned by a chain *)
      assert (FO : is_cmp b = true -> forall x, slot_of st x = Some cmpreg ->
                     reads x b = false /\ assigns x b = false).
      { intros IC0 x Sx. destruct RK as [->|[_ HT]].
        - destruct (DO _ eq_refl) as (_ & _ & FX). specialize (FX _ Sx).
          destruct b; try discriminate. cbn in FX.
          apply andb_prop in FX as [FX F4]. apply andb_prop in FX as [FX F3]. apply andb_prop in FX as [F1 F2].
          apply negb_true_iff in F1, F2, F3, F4. cbn. rewrite F1, F2, F3, F4. auto.
        - destruct (slot_of_id _ _ _ Sx) as (L & _). pose proof (wf_len _ W). lia. }
      assert (B1 : tbase st1' + tused st2 <= N.of_nat (length rs)).
      { pose proof (ext_used _ _ E2'). lia. }
      rewrite <- I1' in CA1.
      specialize (DA n s rs D prog brk F EF2 WF Ka IV RDa (dest_ok_any _ _ _ _) B1 CA1).
      destruct (eval n s a) as [va s1| | | |]; try contradiction; [|rewrite <- I1'; exact DA|exact Logic.I].
      destruct DA as (rs1 & S1 & LN1 & IVa & RA & FRa & SFa).
      apply dirty_any in IVa. specialize (RA _ OL).
      destruct (held_ok _ _ _ _ (next_operand b) _ SA OL EA WA AL) as (LB & LK).
      set (DD := if is_cmp b then dirty F (RFixed cmpreg) D else D).
      assert (DDD : forall x, D x = true -> DD x = true).
      { intros x Dx. unfold DD. destruct (is_cmp b); [apply dirty_mono|]; assumption. }
      assert (IVc : inv F DD s1 rs1) by (eapply inv_weaken; eauto).
      assert (OWNst : forall stx x, ext st stx -> wfst stx -> slot_of stx x = Some cmpreg -> slot_of st x = Some cmpreg).
      { intros stx x Ex Wx Sx. destruct RPOS as [RP|RP].
        - eapply slot_of_old; eauto.
        - exfalso. destruct (slot_of_id _ _ _ Sx) as (L & _). pose proof (wf_len _ Wx).
          pose proof (ext_tbase _ _ Ex). lia. }
      assert (RDD : forall x, DD x = true -> reads x b = false).
      { intros x Hx. unfold DD in Hx. destruct (is_cmp b) eqn:IC0; [|auto].
        unfold dirty in Hx. apply orb_true_iff in Hx as [Hx|Hx]; [auto|].
        destruct (slot_of F x) as [l|] eqn:S; [|discriminate]. apply N.eqb_eq in Hx. subst l.
        apply (FO eq_refl). apply (OWNst F); assumption. }
      assert (OWN : is_cmp b = true -> forall x, slot_of st2 x = Some cmpreg ->
                      DD x = true /\ assigns x b = false).
      { intros IC0 x Sx. split.
        - unfold DD. rewrite IC0. apply dirty_self. eapply ext_slot; eauto.
        - apply (FO IC0). apply (OWNst st2); assumption. }
      assert (H3 : cmpreg < N.of_nat (length rs1)) by (rewrite LN1; exact RL).
      assert (H4 : cmpreg < nlocals st2 \/ tbase st2 <= cmpreg).
      { destruct RPOS as [Hd|Hd]; [left; pose proof (ext_len _ _ E02); lia
                                  |right; rewrite (ext_tbase _ _ E02); assumption]. }
      assert (H5 : cmpreg < tbase st2 + tcount st2).
      { rewrite (ext_tbase _ _ E02).
        destruct RC as [(-> & -> & ->)|[(-> & -> & -> & C1)|(-> & -> & C1 & ->)]].
        - destruct (DO _ eq_refl) as (_ & [X|[X1 X2]] & _); [pose proof (wf_len _ W); lia|lia].
        - lia.
        - lia. }
      assert (B2 : tbase st2 + tused st3 <= N.of_nat (length rs1)).
      { rewrite LN1, (ext_tbase _ _ E02). exact B. }
      assert (CA2' : cares prog brk (ip st2) cch) by (rewrite IA, I1'; exact CA2).
      specialize (DC n s1 rs1 DD prog brk F va EF3 WF Kb IVc RDD RA LB LK H3 H4 H5 RES OWN B2 CA2').
      destruct (eval_chain (eval n) s1 va o b) as [v s2| | | |]; try contradiction;
        [|eapply star_stops; [rewrite <- I1'; exact S1|exact DC]|exact Logic.I].
      destruct DC as (rs2 & S2 & LN2 & IV3 & RV & FRc & SFc).
      assert (KNE : forall k, k < tbase st + tcount st -> Some k <> dest r -> k <> cmpreg).
      { intros k K1 K2. destruct RC as [(-> & -> & ->)|[(-> & -> & -> & C1)|(-> & -> & C1 & ->)]].
        - intros ->. apply K2. reflexivity.
        - lia.
        - lia. }
      assert (TC0 : tcount st <= tcount st1').
      { destruct RC as [(_ & -> & _)|[(_ & _ & -> & C1)|(_ & _ & C1 & _)]]; lia. }
      exists rs2. splits.
      + change (ip st4) with (ip st3). eapply star_trans; [rewrite <- I1'; exact S1|exact S2].
      + lia.
      + eapply inv_weaken; [exact IV3|].
        intros x Hx. unfold dirty in Hx. apply orb_true_iff in Hx as [Hx|Hx].
        * unfold DD in Hx. destruct (is_cmp b).
          -- eapply (dirty_absorbF st); eauto.
          -- apply dirty_mono. assumption.
        * eapply (dirty_absorbF st); eauto. unfold dirty. rewrite Hx. apply orb_true_r.
      + intros ro RO. apply RV. destruct RES as [RE|RE]; congruence.
      + intros k K1 K2 K3. rewrite FRc.
        * apply FRa.
          -- rewrite T1'. lia.
          -- cbn. discriminate.
          -- intros x AX. eapply slot_ext_neq; [exact E2'|]. apply K3. cbn. rewrite AX. reflexivity.
        * rewrite (ext_tbase _ _ E02). lia.
        * apply KNE; assumption.
        * intros x AX. eapply slot_ext_neq; [exact E34|]. apply K3. cbn. rewrite AX. apply orb_true_r.
      + intros x AX. cbn in AX. apply orb_false_elim in AX as [AXa AXb]. rewrite (SFc _ AXb). auto.
  Qed.
End SimC.
